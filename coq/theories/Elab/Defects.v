(* Elab/Defects.v — decision model of "structurally illegal design" (C09).  Definitions only; proofs in DefectsProofs.v.

   A design is described by flat fact lists, so that "statement order" is literally list order:
     d_par   parent of every component (component 0 is the top)
     d_sigs  table of the signal objects that occur (node id = index): port kind, host component, address
     d_wr    one fact per (update block, written object): block id, block host, block kind, object, assignment operator
     d_rd    one fact per (update block, read object)
     d_conn  one fact per connect statement: the two objects and the component in whose construct() it was written
   The decision is parameterised by `opts`:
     bitlevel : objects are related iff they share a bit (ivl_rel); this is the property's notion of "two drivers of a bit"
     faithful : the structural walk pymtl3 performs (walk_rel) plus its two known deviations (flags), used to validate
                the model against the implementation.
   No axioms. *)
From Coq Require Import ZArith List Bool Arith.
Import ListNotations.
From PV Require Import Sched.Accept Elab.Nets Elab.Address.

Inductive pkind := PIn | POut | PWire | PConst.
Inductive aop := OpAt | OpShl | OpEq | OpAug.        (* @=   <<=   =   any other augmented assignment *)
Inductive defect :=
| MultiWriter      (* MultiWriterError *)
| NoWriter         (* NoWriterError *)
| InvalidConn      (* InvalidConnectionError: connection loop, in->out loopback not made at the parent *)
| PortRule         (* SignalTypeError: port-direction table, Types 1-9 *)
| BlkWrite         (* UpdateBlockWriteError *)
| FFBlkWrite       (* UpdateFFBlockWriteError *)
| FFNonTop.        (* UpdateFFNonTopLevelSignalError *)

Record sinfo := mkSig { s_kind : pkind; s_host : nat; s_addr : addr }.
Record wfact := mkW { w_blk : nat; w_host : nat; w_ff : bool; w_node : node; w_op : aop }.
Record rfact := mkR { r_blk : nat; r_host : nat; r_node : node }.
Record cfact := mkC { c_a : node; c_b : node; c_host : nat }.
Record design := mkD { d_par : list (option nat); d_sigs : list sinfo; d_wr : list wfact; d_rd : list rfact; d_conn : list cfact }.

Record opts := mkO { o_rel : addr -> addr -> bool; o_sameblk_slices : bool; o_samenet_overlap : bool }.
Definition bitlevel : opts := mkO ivl_rel false true.
Definition faithful : opts := mkO walk_rel true false.

Definition dflt_sig : sinfo := mkSig PWire 0 (mkAddr 0 1 []).
Definition sig (D : design) (n : node) : sinfo := nth n (d_sigs D) dflt_sig.
Definition kind (D : design) (n : node) : pkind := s_kind (sig D n).
Definition host (D : design) (n : node) : nat := s_host (sig D n).
Definition adr (D : design) (n : node) : addr := s_addr (sig D n).
Definition parent (D : design) (c : nat) : option nat := nth c (d_par D) None.
Definition all_nodes (D : design) : list node := seq 0 (length (d_sigs D)).

Definition is_in (k : pkind) := match k with PIn => true | _ => false end.
Definition is_out (k : pkind) := match k with POut => true | _ => false end.
Definition is_wire (k : pkind) := match k with PWire => true | _ => false end.
Definition is_const (k : pkind) := match k with PConst => true | _ => false end.
Definition is_at (o : aop) := match o with OpAt => true | _ => false end.
Definition is_shl (o : aop) := match o with OpShl => true | _ => false end.
Definition opt_eqb (x y : option nat) : bool :=
  match x, y with Some a, Some b => Nat.eqb a b | None, None => true | _, _ => false end.

(* ---- 1. assignment operators (checked first, while update blocks are analysed) ---- *)
Definition op_defect (D : design) : option defect :=
  if existsb (fun w => w_ff w && negb (is_shl (w_op w))) (d_wr D) then Some FFBlkWrite
  else if existsb (fun w => w_ff w && negb (is_top_level (adr D (w_node w)))) (d_wr D) then Some FFNonTop
  else if existsb (fun w => negb (w_ff w) && negb (is_at (w_op w))) (d_wr D) then Some BlkWrite
  else None.

(* ---- 2. the connection graph ---- *)
Definition edges (D : design) : list edge := map (fun c => (c_a c, c_b c)) (d_conn D).
(* a graph is a forest iff every edge is a bridge: the edge {a,b} closes a loop iff a and b stay connected without it *)
Definition conn_loop (E : list edge) : bool :=
  existsb (fun e => negb (Nat.eqb (fst e) (snd e)) &&
                    same_b (components (remove_und (fst e) (snd e) E)) (fst e) (snd e)) E.

(* ---- 3. who drives a net ---- *)
(* objects driven from outside every net: everything an update block writes, and every object of a top-level input port *)
Definition base (D : design) : list node :=
  map w_node (d_wr D) ++ filter (fun n => is_in (kind D n) && Nat.eqb (host D n) 0) (all_nodes D).

(* member m of the net `net` is a driver candidate, given the objects R that resolved nets drive:
   it is a constant, or related to a base-driven object, or related to an object that ANOTHER net drives
   (bit-level reading: any other driven object, also of the same net) *)
Definition cand (O : opts) (D : design) (R : list node) (net : list node) (m : node) : bool :=
  is_const (kind D m)
  || existsb (fun d => o_rel O (adr D m) (adr D d)) (base D)
  || existsb (fun r => o_rel O (adr D m) (adr D r) &&
                       (if o_samenet_overlap O then negb (Nat.eqb r m) else negb (memn r net))) R.

(* one round: every net that has a candidate turns its non-candidates into driven objects (N = the nets) *)
Definition fresh (O : opts) (D : design) (N : list (list node)) (R : list node) : list node :=
  flat_map (fun net => if existsb (cand O D R net) net
                       then filter (fun m => negb (cand O D R net m) && negb (memn m R)) net else []) N.
Fixpoint iter (O : opts) (D : design) (N : list (list node)) (n : nat) (R : list node) : list node :=
  match n with
  | 0%nat => R
  | S k => match fresh O D N R with [] => R | F => iter O D N k (R ++ F) end
  end.
Definition driven_final (O : opts) (D : design) (N : list (list node)) : list node := iter O D N (length (d_sigs D)) [].

Definition two_cands (O : opts) (D : design) (R : list node) (net : list node) : bool :=
  existsb (fun m1 => cand O D R net m1 &&
                     existsb (fun m2 => negb (Nat.eqb m1 m2) && cand O D R net m2) net) net.
Definition net_multi (O : opts) (D : design) (N : list (list node)) (R : list node) : bool := existsb (two_cands O D R) N.
Definition net_none (O : opts) (D : design) (N : list (list node)) (R : list node) : bool :=
  existsb (fun net => negb (existsb (cand O D R net) net)) N.

(* ---- 4. update blocks against each other (_check_upblk_writes) ---- *)
Definition blk_multi (O : opts) (D : design) : bool :=
  existsb (fun w1 => existsb (fun w2 =>
    (negb (Nat.eqb (w_blk w1) (w_blk w2)) && o_rel O (adr D (w_node w1)) (adr D (w_node w2)))
    || (o_sameblk_slices O && Nat.eqb (w_blk w1) (w_blk w2) && sib_slices_rel (adr D (w_node w1)) (adr D (w_node w2))))
    (d_wr D)) (d_wr D).

(* ---- 5. port rules for update blocks (_check_port_in_upblk, Types 1-4) ---- *)
Definition port_upblk (D : design) : bool :=
  existsb (fun r => is_wire (kind D (r_node r)) && negb (Nat.eqb (host D (r_node r)) (r_host r))) (d_rd D)
  || existsb (fun w => match kind D (w_node w) with
                       | PIn => negb (opt_eqb (parent D (host D (w_node w))) (Some (w_host w)))
                       | POut | PWire => negb (Nat.eqb (host D (w_node w)) (w_host w))
                       | PConst => false
                       end) (d_wr D).

(* ---- 6. port rules along the nets (_check_port_in_nets, Types 5-9 and the loopback rule) ---- *)
(* u drives v through a connection written in component h *)
Definition edge_defect (D : design) (u v : node) (h : nat) : option defect :=
  let ku := kind D u in let kv := kind D v in let hu := host D u in let hv := host D v in
  if Nat.eqb hu hv then
    if is_out kv || is_wire kv then None
    else if is_out ku && is_in kv then (if opt_eqb (parent D hu) (Some h) then None else Some InvalidConn)
    else Some PortRule
  else if opt_eqb (parent D hu) (Some hv) then (if is_out ku && (is_out kv || is_wire kv) then None else Some PortRule)
  else if opt_eqb (parent D hv) (Some hu) then (if is_in kv then None else Some PortRule)
  else if opt_eqb (parent D hu) (parent D hv) then (if is_out ku && is_in kv then None else Some PortRule)
  else Some PortRule.

(* all members of the classes that contain a *)
Definition class_of (N : list (list node)) (a : node) : list node := concat (filter (memn a) N).
(* x is on the driver's side of the connection {a,b}: some driver of a's net is x or stays connected to x without {a,b} *)
Definition on_side (O : opts) (D : design) (N : list (list node)) (R : list node) (C' : list (list node)) (a x : node) : bool :=
  let cls := class_of N a in
  existsb (fun w => cand O D R cls w && (Nat.eqb w x || same_b C' w x)) cls.
Definition conn_viol (O : opts) (D : design) (N : list (list node)) (R : list node) (k : defect -> bool) (c : cfact) : bool :=
  let C' := components (remove_und (c_a c) (c_b c) (edges D)) in
  (on_side O D N R C' (c_a c) (c_a c) &&
     match edge_defect D (c_a c) (c_b c) (c_host c) with Some d => k d | None => false end)
  || (on_side O D N R C' (c_a c) (c_b c) &&
     match edge_defect D (c_b c) (c_a c) (c_host c) with Some d => k d | None => false end).
Definition is_portrule (d : defect) := match d with PortRule => true | _ => false end.
Definition is_invalidconn (d : defect) := match d with InvalidConn => true | _ => false end.

(* ---- the decision, in the order in which elaboration performs the checks ---- *)
Definition defect_with (O : opts) (D : design) : option defect :=
  match op_defect D with
  | Some d => Some d
  | None =>
    if conn_loop (edges D) then Some InvalidConn
    else
      let N := components (edges D) in
      let R := driven_final O D N in
      if net_multi O D N R || blk_multi O D then Some MultiWriter
      else if port_upblk D then Some PortRule
      else if net_none O D N R then Some NoWriter
      else if existsb (conn_viol O D N R is_portrule) (d_conn D) then Some PortRule
      else if existsb (conn_viol O D N R is_invalidconn) (d_conn D) then Some InvalidConn
      else None
  end.

(* every family that may be reported: elaboration stops at the first failing check stage, but inside one stage (operator
   checks over several blocks; port rules along several connections) which offending statement is met first depends on
   iteration order, so all alternatives of that stage are admissible *)
Definition flag (b : bool) (d : defect) : list defect := if b then [d] else [].
Definition op_alts (D : design) : list defect :=
  flag (existsb (fun w => w_ff w && negb (is_shl (w_op w))) (d_wr D)) FFBlkWrite
  ++ flag (existsb (fun w => w_ff w && negb (is_top_level (adr D (w_node w)))) (d_wr D)) FFNonTop
  ++ flag (existsb (fun w => negb (w_ff w) && negb (is_at (w_op w))) (d_wr D)) BlkWrite.
Definition defect_alts (O : opts) (D : design) : list defect :=
  match op_alts D with
  | (_ :: _) as l => l
  | [] =>
    if conn_loop (edges D) then [InvalidConn]
    else
      let N := components (edges D) in
      let R := driven_final O D N in
      if net_multi O D N R || blk_multi O D then [MultiWriter]
      else if port_upblk D then [PortRule]
      else if net_none O D N R then [NoWriter]
      else flag (existsb (conn_viol O D N R is_portrule) (d_conn D)) PortRule
           ++ flag (existsb (conn_viol O D N R is_invalidconn) (d_conn D)) InvalidConn
  end.

Definition bit_level_defect (D : design) : option defect := defect_with bitlevel D.
Definition elab_model (D : design) : option defect := defect_with faithful D.

(* ---- statement order: two descriptions of the same design ---- *)
Definition conn_equiv (C C' : list cfact) : Prop :=
  forall a b h, (In (mkC a b h) C \/ In (mkC b a h) C) <-> (In (mkC a b h) C' \/ In (mkC b a h) C').
Definition design_equiv (D D' : design) : Prop :=
  d_par D = d_par D' /\ d_sigs D = d_sigs D' /\
  (forall w, In w (d_wr D) <-> In w (d_wr D')) /\
  (forall r, In r (d_rd D) <-> In r (d_rd D')) /\
  conn_equiv (d_conn D) (d_conn D').

Definition cswap (c : cfact) : cfact := mkC (c_b c) (c_a c) (c_host c).
Fixpoint cflip_some (bs : list bool) (C : list cfact) : list cfact :=
  match C with
  | [] => []
  | c :: r => (match bs with true :: _ => cswap c | _ => c end) :: cflip_some (tl bs) r
  end.

(* well-formedness of the address universe of a design (evaluated on every concrete design) *)
Definition wf_design_addrs (D : design) : bool := wf_universe (s_addr dflt_sig :: map s_addr (d_sigs D)).

(* the two situations in which the faithful model deviates from the bit-level decision *)
Definition no_sameblk_sib_overlap (D : design) : bool :=
  forallb (fun w1 => forallb (fun w2 =>
    negb (Nat.eqb (w_blk w1) (w_blk w2) && sib_slices_rel (adr D (w_node w1)) (adr D (w_node w2)))) (d_wr D)) (d_wr D).
Definition no_samenet_overlap (D : design) : bool :=
  forallb (fun net => forallb (fun m => forallb (fun r =>
    Nat.eqb r m || negb (ivl_rel (adr D m) (adr D r))) net) net) (components (edges D)).

Definition defect_eqb (x y : option defect) : bool :=
  match x, y with
  | None, None => true
  | Some a, Some b =>
      match a, b with
      | MultiWriter, MultiWriter | NoWriter, NoWriter | InvalidConn, InvalidConn | PortRule, PortRule
      | BlkWrite, BlkWrite | FFBlkWrite, FFBlkWrite | FFNonTop, FFNonTop => true
      | _, _ => false
      end
  | _, _ => false
  end.
