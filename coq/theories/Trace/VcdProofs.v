(* Trace/VcdProofs.v — proofs about the model in Trace/Vcd.v (property C16).  No axioms. *)
From PV Require Import Base.Prelude Trace.Vcd.
(* stdlib strings *)
From Coq Require Import Strings.Ascii Strings.String.
Open Scope Z_scope.

(* ================================================================== 1. to_vcd_str / parse_change *)

Lemma is_bit_bitc b : is_bit (bitc b) = Some (if b then 1 else 0).
Proof. destruct b; reflexivity. Qed.

Lemma append_assoc_sp (a : string) c rest :
  ((a ++ String c EmptyString) ++ rest)%string = (a ++ String c rest)%string.
Proof. induction a as [|x a IH]; cbn; [reflexivity|]. now rewrite IH. Qed.

Lemma mod_pow2_succ u k : 0 <= k ->
  u mod 2 ^ (k + 1) = (if Z.testbit u k then 1 else 0) * 2 ^ k + u mod 2 ^ k.
Proof.
  intros Hk. rewrite Z.pow_add_r by lia. change (2 ^ 1) with 2.
  rewrite Z.rem_mul_r by (try apply Z.pow_nonzero; lia).
  pose proof (Z.testbit_spec' u k Hk) as H. destruct (Z.testbit u k); cbn [Z.b2z] in H; rewrite <- H; ring.
Qed.

Lemma parse_bin_bits k u acc cnt rest :
  parse_bin (bits_msb k u ++ String " "%char rest)%string acc cnt
  = Some (cnt + Z.of_nat k, acc * 2 ^ Z.of_nat k + u mod 2 ^ Z.of_nat k, rest).
Proof.
  revert acc cnt; induction k as [|k IH]; intros acc cnt.
  - cbn [bits_msb append parse_bin]. change (is_bit " "%char) with (@None Z). cbn.
    rewrite Z.mod_1_r. do 2 f_equal. f_equal; lia.
  - cbn [bits_msb append parse_bin]. rewrite is_bit_bitc, IH.
    rewrite Nat2Z.inj_succ, <- Z.add_1_r, (mod_pow2_succ u (Z.of_nat k)) by lia.
    rewrite (Z.pow_add_r 2 (Z.of_nat k) 1) by lia. change (2 ^ 1) with 2.
    do 2 f_equal. f_equal; [lia|]. destruct (Z.testbit u (Z.of_nat k)); ring.
Qed.

(* parse (to_vcd_str n u) = (n, u): whatever identifier code follows *)
Theorem vcd_str_roundtrip n u sym :
  0 < n -> 0 <= u < 2 ^ n -> nonempty sym = true ->
  parse_change (to_vcd_str n u ++ sym)%string = Some (n, u, sym).
Proof.
  intros Hn Hu Hs. unfold to_vcd_str. destruct (n =? 1) eqn:E.
  - assert (n = 1) by lia. subst n. change (2 ^ 1) with 2 in Hu.
    cbn [bits_msb append parse_change]. rewrite is_bit_bitc, Hs.
    assert (u = 0 \/ u = 1) as [-> | ->] by lia; reflexivity.
  - cbn [append parse_change]. change (is_bit "b"%char) with (@None Z). cbn [Ascii.eqb Bool.eqb].
    rewrite append_assoc_sp, parse_bin_bits, Z2Nat.id by lia.
    rewrite Z.mod_small by lia. cbn [Z.add Z.mul].
    replace (0 <? n) with true by lia. rewrite Hs. reflexivity.
Qed.

Lemma to_vcd_str_inj n u m v :
  0 < n -> 0 <= u < 2 ^ n -> 0 < m -> 0 <= v < 2 ^ m ->
  to_vcd_str n u = to_vcd_str m v -> n = m /\ u = v.
Proof.
  intros Hn Hu Hm Hv E.
  pose proof (vcd_str_roundtrip n u "!"%string Hn Hu eq_refl) as A.
  pose proof (vcd_str_roundtrip m v "!"%string Hm Hv eq_refl) as B.
  rewrite E in A. rewrite A in B. now inversion B.
Qed.

(* ================================================================== 2. the symbol generator *)

Lemma codechar_val r : 0 <= r < 94 -> Z.of_nat (nat_of_ascii (codechar r)) - 33 = r.
Proof.
  intros H. unfold codechar. rewrite nat_ascii_embedding by lia. lia.
Qed.

Lemma sym_loop_val fuel q code :
  0 <= q <= Z.of_nat fuel -> sym_val (sym_loop fuel q code) 0 = sym_val code q.
Proof.
  revert q code; induction fuel as [|f IH]; intros q code H; cbn [sym_loop].
  - now replace q with 0 by lia.
  - destruct (0 <? q) eqn:E; [|now replace q with 0 by lia].
    rewrite IH by lia. cbn [sym_val]. rewrite codechar_val by lia. f_equal. lia.
Qed.

Theorem symbol_val n : 0 <= n -> sym_val (symbol_of n) 0 = n.
Proof.
  intros H. unfold symbol_of. rewrite sym_loop_val by lia.
  cbn [sym_val]. rewrite codechar_val by lia. lia.
Qed.

Theorem symbol_inj n m : 0 <= n -> 0 <= m -> symbol_of n = symbol_of m -> n = m.
Proof.
  intros Hn Hm E. rewrite <- (symbol_val n Hn), <- (symbol_val m Hm). now rewrite E.
Qed.

Lemma sym_loop_nonempty fuel q code : nonempty code = true -> nonempty (sym_loop fuel q code) = true.
Proof.
  revert q code; induction fuel as [|f IH]; intros q code H; cbn [sym_loop]; [assumption|].
  destruct (0 <? q); [apply IH; reflexivity|assumption].
Qed.

Lemma symbol_nonempty n : nonempty (symbol_of n) = true.
Proof. apply sym_loop_nonempty. reflexivity. Qed.

Lemma NoDup_map_inj {A B} (f : A -> B) l :
  (forall x y, In x l -> In y l -> f x = f y -> x = y) -> NoDup l -> NoDup (map f l).
Proof.
  induction l as [|a l IH]; intros Hinj Hnd; cbn; [constructor|].
  inversion Hnd as [|? ? Hna Hnd']; subst. constructor.
  - intros Hin. apply in_map_iff in Hin as (x & Hx & Hin).
    assert (x = a) by (apply Hinj; cbn; auto). subst. contradiction.
  - apply IH; [|assumption]. intros x y Hx Hy. apply Hinj; cbn; auto.
Qed.

Lemma all_syms_NoDup n : NoDup (all_syms n).
Proof.
  unfold all_syms. apply NoDup_map_inj; [|apply seq_NoDup].
  intros x y _ _ E. apply symbol_inj in E; lia.
Qed.

Lemma all_syms_length n : List.length (all_syms n) = n.
Proof. unfold all_syms. now rewrite map_length, seq_length. Qed.

Lemma all_syms_nonempty n s : In s (all_syms n) -> nonempty s = true.
Proof.
  unfold all_syms. intros H. apply in_map_iff in H as (i & <- & _). apply symbol_nonempty.
Qed.

(* ================================================================== 3. the reader's state *)

Lemma lookup_upd_same s v st : lookup s (upd s v st) = Some v.
Proof.
  induction st as [|[k x] r IH]; cbn.
  - now rewrite String.eqb_refl.
  - destruct (String.eqb s k) eqn:E; cbn; rewrite E; auto.
Qed.

Lemma lookup_upd_other s s' v st : s' <> s -> lookup s' (upd s v st) = lookup s' st.
Proof.
  intros N. induction st as [|[k x] r IH]; cbn.
  - destruct (String.eqb s' s) eqn:E; [apply String.eqb_eq in E; contradiction|reflexivity].
  - destruct (String.eqb s k) eqn:E; cbn.
    + apply String.eqb_eq in E; subst k.
      destruct (String.eqb s' s) eqn:E2; [apply String.eqb_eq in E2; contradiction|reflexivity].
    + destruct (String.eqb s' k); auto.
Qed.

Definition vstep (st : vstate) (t : tok) : vstate :=
  match t with TVal n u s => upd s (n, u) st | TTime _ => st end.
Definition is_val (t : tok) : bool := match t with TVal _ _ _ => true | TTime _ => false end.

Lemma dstep_vals toks : forall d, forallb is_val toks = true ->
  fold_left dstep toks d = mkD (d_now d) (fold_left vstep toks (d_cur d)) (d_out d).
Proof.
  induction toks as [|a toks IH]; intros d H; cbn.
  - now destruct d.
  - destruct a; cbn in H; [discriminate|]. rewrite IH by assumption. reflexivity.
Qed.

Lemma row_frame syms st st' :
  (forall s, In s syms -> lookup s st' = lookup s st) -> row syms st' = row syms st.
Proof. intros H. unfold row. apply map_ext_in. exact H. Qed.

(* ================================================================== 4. one dump pass *)

(* what links the writer's `last_values` to the reader's state: the reader holds (w, x) for the net,
   and the remembered string can only be equal to the string of x *)
Fixpoint inv (st : vstate) (nets : list net) (xs : list Z) (lasts : list string) : Prop :=
  match nets, xs, lasts with
  | (s, w) :: ns, x :: xs', l :: ls =>
      lookup s st = Some (w, x)
      /\ (forall v, 0 <= v < 2 ^ w -> l = to_vcd_str w v -> v = x)
      /\ inv st ns xs' ls
  | [], [], _ => True
  | _, _, _ => False
  end.

Lemma inv_frame st st' nets : forall xs lasts,
  (forall s, In s (map fst nets) -> lookup s st' = lookup s st) ->
  inv st nets xs lasts -> inv st' nets xs lasts.
Proof.
  induction nets as [|[s w] ns IH]; intros xs lasts F H; destruct xs as [|x xs]; destruct lasts as [|l ls];
    cbn in *; try tauto.
  destruct H as (A & B & C). split; [|split]; auto.
  rewrite F; auto.
Qed.

Lemma inv_row st nets : forall xs lasts,
  inv st nets xs lasts -> row (map fst nets) st = map Some (combine (map snd nets) xs).
Proof.
  induction nets as [|[s w] ns IH]; intros xs lasts H; destruct xs as [|x xs]; destruct lasts as [|l ls];
    cbn in *; try tauto.
  destruct H as (A & _ & C). rewrite A. f_equal. eapply IH; eauto.
Qed.

Definition in_range (n : net) (v : Z) : Prop := 0 <= v < 2 ^ snd n.
Definition pos_width (n : net) : Prop := 0 < snd n.

Lemma emit_spec nets : forall vals lasts xs st,
  NoDup (map fst nets) -> Forall pos_width nets -> Forall2 in_range nets vals ->
  inv st nets xs lasts ->
  inv (fold_left vstep (fst (emit nets vals lasts)) st) nets vals (snd (emit nets vals lasts))
  /\ (forall s, ~ In s (map fst nets) ->
        lookup s (fold_left vstep (fst (emit nets vals lasts)) st) = lookup s st)
  /\ forallb is_val (fst (emit nets vals lasts)) = true.
Proof.
  induction nets as [|[s w] ns IH]; intros vals lasts xs st Hnd Hw Hr Hinv.
  - inversion Hr; subst. destruct xs; cbn in *; tauto.
  - inversion Hr as [|? v ? vs Hv Hr']; subst.
    destruct xs as [|x xs]; [cbn in Hinv; tauto|].
    destruct lasts as [|l ls]; [cbn in Hinv; tauto|].
    cbn [inv] in Hinv. destruct Hinv as (Hl & Himp & Hinv').
    cbn [map fst] in Hnd. inversion Hnd as [|? ? Hnin Hnd']; subst.
    inversion Hw as [|? ? Hw1 Hw']; subst. unfold pos_width, in_range in Hw1, Hv. cbn [snd] in Hw1, Hv.
    cbn [emit]. destruct (String.eqb l (to_vcd_str w v)) eqn:E.
    + apply String.eqb_eq in E. assert (v = x) by (apply Himp; auto). subst x.
      cbn [fst snd]. destruct (IH vs ls xs st Hnd' Hw' Hr' Hinv') as (I1 & I2 & I3).
      split; [|split]; [| |exact I3].
      * cbn [inv]. split; [rewrite I2; auto|]. split; [|exact I1].
        intros v' Hv' E'. rewrite E in E'. apply to_vcd_str_inj in E'; auto. symmetry; tauto.
      * intros s' Hn. apply I2. intro. apply Hn. cbn. auto.
    + cbn [fst snd fold_left vstep].
      assert (Hinv1 : inv (upd s (w, v) st) ns xs ls).
      { eapply inv_frame; [|exact Hinv']. intros s' Hs'. apply lookup_upd_other. intro; subst; contradiction. }
      destruct (IH vs ls xs (upd s (w, v) st) Hnd' Hw' Hr' Hinv1) as (I1 & I2 & I3).
      split; [|split]; [| |exact I3].
      * cbn [inv]. split; [rewrite I2 by assumption; apply lookup_upd_same|]. split; [|exact I1].
        intros v' Hv' E'. apply to_vcd_str_inj in E'; auto. symmetry; tauto.
      * intros s' Hn. cbn [map fst] in Hn. rewrite I2 by (intro; apply Hn; cbn; auto).
        apply lookup_upd_other. intro; subst. apply Hn. cbn. auto.
Qed.

Lemma emit_lasts_length nets : forall vals lasts,
  List.length (snd (emit nets vals lasts)) = List.length lasts.
Proof.
  induction nets as [|[s w] ns IH]; intros vals lasts; [reflexivity|].
  destruct vals as [|v vs]; [reflexivity|]. destruct lasts as [|l ls]; [reflexivity|].
  cbn [emit]. destruct (String.eqb l (to_vcd_str w v)); cbn [snd List.length]; now rewrite IH.
Qed.

(* the initial dump: every net at its default 0 *)
Lemma init_spec (nets : list net) : forall st, NoDup (map fst nets) ->
  (forall n, In n nets ->
     lookup (fst n) (fold_left vstep (map (fun n : net => TVal (snd n) 0 (fst n)) nets) st) = Some (snd n, 0))
  /\ (forall s, ~ In s (map fst nets) ->
     lookup s (fold_left vstep (map (fun n : net => TVal (snd n) 0 (fst n)) nets) st) = lookup s st).
Proof.
  induction nets as [|[s w] ns IH]; intros st Hnd; cbn [map fold_left vstep fst snd].
  - split; [intros n []|reflexivity].
  - cbn [map fst] in Hnd. inversion Hnd as [|? ? Hnin Hnd']; subst.
    destruct (IH (upd s (w, 0) st) Hnd') as (I1 & I2). split.
    + intros n [<- | Hin]; [|auto]. cbn [fst snd]. rewrite I2 by assumption. apply lookup_upd_same.
    + intros s' Hn. rewrite I2 by (intro; apply Hn; cbn; auto).
      apply lookup_upd_other. intro; subst. apply Hn. cbn. auto.
Qed.

Lemma init_is_val (nets : list net) :
  forallb is_val (map (fun n : net => TVal (snd n) 0 (fst n)) nets) = true.
Proof. induction nets; cbn; auto. Qed.

(* `last_values` may be ANY list of strings of zeros (this is what makes the index shift of the
   code harmless): an all-zero string of another width can never be mistaken for the net's value *)
Lemma inv_init st (nets : list net) : forall lasts,
  Forall (fun n : net => lookup (fst n) st = Some (snd n, 0) /\ 0 < snd n) nets ->
  Forall (fun l => exists w, 0 < w /\ l = to_vcd_str w 0) lasts ->
  (List.length nets <= List.length lasts)%nat ->
  inv st nets (map (fun _ => 0) nets) lasts.
Proof.
  induction nets as [|[s w] ns IH]; intros lasts Hn Hl Hlen; [exact I|].
  destruct lasts as [|l ls]; [cbn in Hlen; lia|].
  inversion Hn as [|? ? [A B] Hn']; subst. inversion Hl as [|? ? (w' & Hw' & ->) Hl']; subst.
  cbn [fst snd] in A, B. cbn [map inv]. split; [exact A|]. split.
  - intros v Hv E.
    assert (0 <= 0 < 2 ^ w') as Hz by (split; [lia|apply Z.pow_pos_nonneg; lia]).
    destruct (to_vcd_str_inj w' 0 w v Hw' Hz B Hv E) as [_ H0]. now symmetry.
  - apply IH; auto. cbn in Hlen. lia.
Qed.

(* ================================================================== 5. all cycles *)

Definition vw := ((Z * option (Z * Z)) * list (option (Z * Z)))%type.

(* what the reader sees of cycle t, t+1, ...: clock high at 100t, low at 100t+50, same row in both *)
Fixpoint cycle_views (ws : list Z) (t : Z) (tr : list (list Z)) : list vw :=
  match tr with
  | [] => []
  | vals :: tr' =>
      let r := map Some (combine ws vals) in
      ((100 * t, Some (1, 1)), r) :: ((100 * t + 50, Some (1, 0)), r) :: cycle_views ws (t + 1) tr'
  end.

Lemma cycles_spec clk nets : forall tr t lasts xs d,
  NoDup (map fst nets) -> ~ In clk (map fst nets) -> Forall pos_width nets ->
  Forall (fun vals => Forall2 in_range nets vals) tr ->
  d_now d = 100 * t -> lookup clk (d_cur d) = Some (1, 1) -> inv (d_cur d) nets xs lasts ->
  map (view clk (map fst nets)) (d_out (fold_left dstep (cycles clk nets t tr lasts) d))
    = rev (cycle_views (map snd nets) t tr) ++ map (view clk (map fst nets)) (d_out d)
  /\ d_now (fold_left dstep (cycles clk nets t tr lasts) d) = 100 * (t + Z.of_nat (List.length tr))
  /\ lookup clk (d_cur (fold_left dstep (cycles clk nets t tr lasts) d)) = Some (1, 1).
Proof.
  induction tr as [|vals tr IH]; intros t lasts xs d Hnd Hclk Hw Hr Hnow Hc Hinv.
  - cbn [cycles fold_left cycle_views rev app List.length]. split; [reflexivity|]. split; [lia|assumption].
  - inversion Hr as [|? ? Hr1 Hr']; subst.
    destruct (emit_spec nets vals lasts xs (d_cur d) Hnd Hw Hr1 Hinv) as (I1 & I2 & I3).
    cbn [cycles]. rewrite !fold_left_app, (dstep_vals _ d I3).
    set (st1 := fold_left vstep (fst (emit nets vals lasts)) (d_cur d)) in *.
    cbn [cycle_tail fold_left dstep d_now d_cur d_out].
    set (st2 := upd clk (1, 0) st1). set (st3 := upd clk (1, 1) st2).
    assert (F2 : forall s, In s (map fst nets) -> lookup s st2 = lookup s st1).
    { intros s Hs. apply lookup_upd_other. intro; subst; contradiction. }
    assert (F3 : forall s, In s (map fst nets) -> lookup s st3 = lookup s st1).
    { intros s Hs. unfold st3. rewrite lookup_upd_other by (intro; subst; contradiction). auto. }
    match goal with |- context [fold_left dstep _ ?D] => set (d4 := D) end.
    assert (Hnow4 : d_now d4 = 100 * (t + 1)) by (unfold d4; cbn [d_now]; lia).
    assert (Hc4 : lookup clk (d_cur d4) = Some (1, 1)) by apply lookup_upd_same.
    assert (Hinv4 : inv (d_cur d4) nets vals (snd (emit nets vals lasts))).
    { eapply inv_frame; [|exact I1]. exact F3. }
    destruct (IH (t + 1) _ vals d4 Hnd Hclk Hw Hr' Hnow4 Hc4 Hinv4) as (J1 & J2 & J3).
    split; [|split]; [| |exact J3].
    + rewrite J1. cbn [d4 d_out map cycle_views rev]. rewrite <- !app_assoc. cbn [app]. f_equal.
      unfold view. cbn [fst snd]. rewrite (row_frame _ st1 st2 F2).
      rewrite (inv_row _ _ _ _ I1). unfold st2. rewrite lookup_upd_same.
      rewrite (I2 clk Hclk), Hc, Hnow. reflexivity.
    + rewrite J2. cbn [List.length]. lia.
Qed.

Lemma filter_cycle_views ws tr : forall t, 0 <= t ->
  map snd (filter at_posedge (cycle_views ws t tr)) = expected_rows ws tr.
Proof.
  induction tr as [|vals tr IH]; intros t Ht; [reflexivity|].
  cbn [cycle_views filter]. unfold at_posedge at 1 2. cbn [fst snd is_one].
  replace (0 <=? 100 * t) with true by lia. replace (1 =? 1) with true by reflexivity.
  replace (0 =? 1) with false by reflexivity. rewrite andb_false_r. cbn [andb map snd].
  unfold expected_rows in *. cbn [map]. f_equal. apply IH. lia.
Qed.

Lemma clock_cycle_views ws tr : forall t,
  map fst (cycle_views ws t tr) ++ [(100 * (t + Z.of_nat (List.length tr)), Some (1, 1))]
  = clock_cycles t (List.length tr).
Proof.
  induction tr as [|vals tr IH]; intros t.
  - cbn [cycle_views map fst app List.length clock_cycles]. do 2 f_equal. lia.
  - cbn [cycle_views map fst app List.length clock_cycles]. do 2 f_equal.
    rewrite <- IH. do 3 f_equal. lia.
Qed.

(* ================================================================== 6. list plumbing *)

Lemma remove_nth_map {A B} (f : A -> B) l : forall k, map f (remove_nth k l) = remove_nth k (map f l).
Proof. induction l as [|x l IH]; intros [|k]; cbn; auto. now rewrite IH. Qed.

Lemma remove_nth_In {A} (l : list A) : forall k x, In x (remove_nth k l) -> In x l.
Proof. induction l as [|y l IH]; intros [|k] x; cbn; auto. intros [H|H]; eauto. Qed.

Lemma remove_nth_NoDup {A} (l : list A) : forall k, NoDup l -> NoDup (remove_nth k l).
Proof.
  induction l as [|y l IH]; intros [|k] H; cbn; auto; inversion H; subst; auto.
  constructor; auto. intro Hin. apply remove_nth_In in Hin. contradiction.
Qed.

Lemma remove_nth_not_In {A} (l : list A) d : forall k, NoDup l -> (k < List.length l)%nat ->
  ~ In (nth k l d) (remove_nth k l).
Proof.
  induction l as [|y l IH]; intros [|k] H Hk; cbn in *; try lia; inversion H; subst; auto.
  intros [E|Hin].
  - apply H2. rewrite E. apply nth_In. lia.
  - revert Hin. apply IH; auto. lia.
Qed.

Lemma remove_nth_length {A} (l : list A) : forall k, (k < List.length l)%nat ->
  S (List.length (remove_nth k l)) = List.length l.
Proof. induction l as [|y l IH]; intros [|k] Hk; cbn in *; try lia. rewrite IH; lia. Qed.

Lemma map_fst_combine {A B} (a : list A) : forall (b : list B),
  List.length a = List.length b -> map fst (combine a b) = a.
Proof. induction a; intros [|y b] H; cbn in *; try lia; auto. f_equal; auto. Qed.

Lemma map_snd_combine {A B} (a : list A) : forall (b : list B),
  List.length a = List.length b -> map snd (combine a b) = b.
Proof. induction a; intros [|y b] H; cbn in *; try lia; auto. f_equal; auto. Qed.

Lemma Forall2_map_snd (nets : list net) (P : Z -> Z -> Prop) : forall vals,
  Forall2 P (map snd nets) vals -> Forall2 (fun (n : net) v => P (snd n) v) nets vals.
Proof.
  induction nets as [|n ns IH]; intros vals H; inversion H; subst; constructor; auto.
Qed.

Lemma nth_combine_syms (syms : list string) : forall (ws : list Z) k,
  List.length syms = List.length ws -> (k < List.length ws)%nat ->
  In (nth k syms EmptyString, nth k ws 0) (combine syms ws).
Proof.
  induction syms as [|s syms IH]; intros [|w ws] [|k] H Hk; cbn in *; try lia; auto.
  right. apply IH; lia.
Qed.

(* ================================================================== 7. the dump of VcdGenerationPass *)

Definition wf_widths (ws : list Z) (k : nat) : Prop :=
  (k < List.length ws)%nat /\ nth k ws 0 = 1 /\ Forall (fun w => 0 < w) ws.
Definition wf_trace (ws : list Z) (k : nat) (tr : list (list Z)) : Prop :=
  Forall (fun vals => Forall2 (fun w v => 0 <= v < 2 ^ w) (remove_nth k ws) vals) tr.

(* the complete picture of what the reader sees *)
Lemma vcd_body_run ws k tr : wf_widths ws k -> wf_trace ws k tr ->
  let clk := vcd_clk ws k in
  let syms := remove_nth k (all_syms (List.length ws)) in
  let d := drun (vcd_body ws k tr) in
  exists r0,
    map (view clk syms) (rev (d_out d)) = ((-1, Some (1, 0)), r0) :: cycle_views (remove_nth k ws) 0 tr
    /\ d_now d = 100 * Z.of_nat (List.length tr) /\ lookup clk (d_cur d) = Some (1, 1).
Proof.
  intros (Hk & Hk1 & Hpos) Htr clk syms d.
  pose proof (all_syms_length (List.length ws)) as Hlen.
  pose proof (all_syms_NoDup (List.length ws)) as Hnd.
  set (allsyms := all_syms (List.length ws)) in *.
  assert (Hfst : map fst (vcd_nets ws) = allsyms) by (apply map_fst_combine; assumption).
  assert (Hsnd : map snd (vcd_nets ws) = ws) by (apply map_snd_combine; assumption).
  set (nets := remove_nth k (vcd_nets ws)).
  assert (Hnf : map fst nets = syms) by (unfold nets; now rewrite remove_nth_map, Hfst).
  assert (Hns : map snd nets = remove_nth k ws) by (unfold nets; now rewrite remove_nth_map, Hsnd).
  assert (HndN : NoDup (map fst nets)) by (rewrite Hnf; apply remove_nth_NoDup; assumption).
  assert (Hclk : ~ In clk (map fst nets)).
  { rewrite Hnf. apply remove_nth_not_In; [assumption|lia]. }
  assert (HposA : Forall pos_width (vcd_nets ws)).
  { apply Forall_forall. intros n Hin. unfold pos_width. rewrite Forall_forall in Hpos. apply Hpos.
    rewrite <- Hsnd. now apply in_map. }
  assert (HposN : Forall pos_width nets).
  { apply Forall_forall. intros n Hin. rewrite Forall_forall in HposA. apply HposA.
    eapply remove_nth_In; exact Hin. }
  assert (HrN : Forall (fun vals => Forall2 in_range nets vals) tr).
  { eapply Forall_impl; [|exact Htr]. intros vals H.
    apply (Forall2_map_snd nets (fun w v => 0 <= v < 2 ^ w)). now rewrite Hns. }
  (* initial dump *)
  unfold d, drun, vcd_body. fold clk. fold nets. rewrite !fold_left_app.
  rewrite (dstep_vals _ d0 (init_is_val _)). cbn [d0 d_now d_cur d_out].
  assert (HndA : NoDup (map fst (vcd_nets ws))) by now rewrite Hfst.
  destruct (init_spec (vcd_nets ws) [] HndA) as (S1 & _).
  set (st0 := fold_left vstep (map (fun n : net => TVal (snd n) 0 (fst n)) (vcd_nets ws)) []) in *.
  cbn [fold_left dstep d_now d_cur d_out].
  match goal with |- context [fold_left dstep _ ?D] => set (d1 := D) end.
  assert (Hc0 : lookup clk st0 = Some (1, 0)).
  { specialize (S1 (clk, 1)). cbn [fst snd] in S1. apply S1. unfold clk, vcd_clk. rewrite <- Hk1.
    apply nth_combine_syms; [assumption|lia]. }
  assert (Hinv : inv (d_cur d1) nets (map (fun _ => 0) nets) (map (fun w => to_vcd_str w 0) ws)).
  { apply inv_init.
    - apply Forall_forall. intros n Hin. split.
      + cbn [d1 d_cur]. rewrite lookup_upd_other.
        * apply S1. eapply remove_nth_In; exact Hin.
        * intro E. apply Hclk. rewrite <- E. now apply in_map.
      + rewrite Forall_forall in HposN. now apply HposN.
    - apply Forall_forall. intros l Hin. apply in_map_iff in Hin as (w & <- & Hin).
      exists w. split; [|reflexivity]. rewrite Forall_forall in Hpos. now apply Hpos.
    - rewrite map_length. pose proof (remove_nth_length (vcd_nets ws) k) as L.
      assert (LN : List.length (vcd_nets ws) = List.length ws) by (rewrite <- Hsnd at 2; now rewrite map_length).
      assert (Hk' : (k < List.length (vcd_nets ws))%nat) by lia.
      specialize (L Hk'). fold nets in L. lia. }
  destruct (cycles_spec clk nets tr 0 _ _ d1 HndN Hclk HposN HrN eq_refl (lookup_upd_same _ _ _) Hinv)
    as (J1 & J2 & J3).
  exists (row syms st0). split; [|split]; [| |exact J3].
  - rewrite map_rev, <- Hnf, J1, rev_app_distr, rev_involutive, Hns. cbn [d1 d_out map rev app].
    unfold view at 1. cbn [fst snd]. now rewrite Hc0.
  - rewrite J2. lia.
Qed.

(* decode (encode tr) = tr, for every list of nets, every width, every number of cycles and every
   value sequence (revisited values, nets that never change and all-zero first rows included) *)
Theorem encode_decode ws k tr : wf_widths ws k -> wf_trace ws k tr ->
  decode (vcd_clk ws k) (remove_nth k (all_syms (List.length ws))) (vcd_body ws k tr)
  = expected_rows (remove_nth k ws) tr.
Proof.
  intros Hw Ht. destruct (vcd_body_run ws k tr Hw Ht) as (r0 & E & _).
  unfold decode, closed_snapshots. fold (drun (vcd_body ws k tr)). rewrite E.
  cbn [filter]. unfold at_posedge at 1. cbn [fst snd andb Z.leb Z.compare].
  apply filter_cycle_views. lia.
Qed.

(* the clock as read back: low before #0, then high at 100t / low at 100t+50 for each of the N
   cycles, and high at the final (open) timestamp 100N: exactly one rise and one fall per cycle *)
Theorem clock_toggles ws k tr : wf_widths ws k -> wf_trace ws k tr ->
  clock_wave (vcd_clk ws k) (vcd_body ws k tr) = expected_clock (List.length tr).
Proof.
  intros Hw Ht. destruct (vcd_body_run ws k tr Hw Ht) as (r0 & E & Hnow & Hc).
  unfold clock_wave, snapshots. cbn [rev]. rewrite map_app. cbn [map fst snd]. rewrite Hnow, Hc.
  set (d := drun (vcd_body ws k tr)) in *.
  assert (M : map (fun p : Z * vstate => (fst p, lookup (vcd_clk ws k) (snd p))) (rev (d_out d))
              = map fst (map (view (vcd_clk ws k) (remove_nth k (all_syms (List.length ws)))) (rev (d_out d)))).
  { rewrite map_map. reflexivity. }
  rewrite M, E. cbn [map fst app]. unfold expected_clock. f_equal.
  rewrite <- (clock_cycle_views (remove_nth k ws) tr 0). reflexivity.
Qed.

(* ================================================================== 8. values only *)

Lemma strip_row_expected ws : forall vals, List.length ws = List.length vals ->
  strip_row (map Some (combine ws vals)) = Some vals.
Proof.
  induction ws as [|w ws IH]; intros [|v vals] H; cbn in *; try lia; auto.
  rewrite IH by lia. reflexivity.
Qed.

Lemma strip_rows_expected ws tr : Forall (fun vals => List.length ws = List.length vals) tr ->
  strip_rows (expected_rows ws tr) = Some tr.
Proof.
  induction tr as [|vals tr IH]; intros H; [reflexivity|]. inversion H; subst.
  unfold expected_rows in *. cbn [map strip_rows]. rewrite strip_row_expected by assumption.
  now rewrite IH.
Qed.

Lemma Forall2_len {A B} (P : A -> B -> Prop) l l' : Forall2 P l l' -> List.length l = List.length l'.
Proof. induction 1; cbn; auto. Qed.

Theorem encode_decode_values ws k tr : wf_widths ws k -> wf_trace ws k tr ->
  decode_values (vcd_clk ws k) (remove_nth k (all_syms (List.length ws))) (vcd_body ws k tr) = Some tr.
Proof.
  intros Hw Ht. unfold decode_values. rewrite encode_decode by assumption.
  apply strip_rows_expected. eapply Forall_impl; [|exact Ht].
  intros vals H. eapply Forall2_len; exact H.
Qed.

(* ================================================================== 9. characters: print then parse *)

Definition wf_tok (t : tok) : Prop :=
  match t with
  | TTime _ => True
  | TVal n u s => 0 < n /\ 0 <= u < 2 ^ n /\ nonempty s = true
  end.

Lemma parse_print toks : Forall wf_tok toks -> parse_lines (map print_tok toks) = Some toks.
Proof.
  induction toks as [|t toks IH]; intros H; [reflexivity|]. inversion H as [|? ? Ht H']; subst.
  cbn [map parse_lines]. rewrite (IH H'). destruct t as [t|n u s]; [reflexivity|].
  destruct Ht as (A & B & C). cbn [print_tok parse_line]. now rewrite vcd_str_roundtrip.
Qed.

Definition good_net (n : net) : Prop := 0 < snd n /\ nonempty (fst n) = true.

Lemma emit_wf nets : forall vals lasts, Forall good_net nets -> Forall2 in_range nets vals ->
  Forall wf_tok (fst (emit nets vals lasts)).
Proof.
  induction nets as [|[s w] ns IH]; intros vals lasts Hg Hr; [constructor|].
  inversion Hr as [|? v ? vs Hv Hr']; subst. inversion Hg as [|? ? [G1 G2] Hg']; subst.
  destruct lasts as [|l ls]; [constructor|]. cbn [emit].
  destruct (String.eqb l (to_vcd_str w v)); cbn [fst]; [now apply IH|].
  constructor; [|now apply IH]. exact (conj G1 (conj Hv G2)).
Qed.

Lemma cycles_wf clk nets : forall tr t lasts, nonempty clk = true -> Forall good_net nets ->
  Forall (fun vals => Forall2 in_range nets vals) tr -> Forall wf_tok (cycles clk nets t tr lasts).
Proof.
  assert (R1 : 0 <= 1 < 2 ^ 1) by (cbn; lia). assert (R0 : 0 <= 0 < 2 ^ 1) by (cbn; lia).
  induction tr as [|vals tr IH]; intros t lasts Hc Hg Hr; [constructor|].
  inversion Hr; subst. cbn [cycles]. apply Forall_app. split; [now apply emit_wf|].
  apply Forall_app. split; [|now apply IH].
  unfold cycle_tail. repeat constructor; auto; lia.
Qed.

Lemma vcd_body_wf ws k tr : wf_widths ws k -> wf_trace ws k tr -> Forall wf_tok (vcd_body ws k tr).
Proof.
  intros (Hk & Hk1 & Hpos) Htr.
  pose proof (all_syms_length (List.length ws)) as Hlen.
  assert (Hg : Forall good_net (vcd_nets ws)).
  { apply Forall_forall. intros [s w] Hin. split; cbn [fst snd].
    - rewrite Forall_forall in Hpos. apply Hpos. eapply in_combine_r; exact Hin.
    - eapply all_syms_nonempty. eapply in_combine_l; exact Hin. }
  assert (Hc : nonempty (vcd_clk ws k) = true).
  { eapply all_syms_nonempty. unfold vcd_clk. apply nth_In. lia. }
  assert (R1 : 0 <= 1 < 2 ^ 1) by (cbn; lia).
  unfold vcd_body. apply Forall_app. split; [|apply Forall_app; split].
  - apply Forall_forall. intros t Hin. apply in_map_iff in Hin as (n & <- & Hin).
    rewrite Forall_forall in Hg. destruct (Hg n Hin) as [A B]. cbn [wf_tok]. split; [assumption|]. split; [|assumption].
    split; [lia|]. apply Z.pow_pos_nonneg; lia.
  - repeat constructor; auto; lia.
  - apply cycles_wf; [assumption| |].
    + apply Forall_forall. intros n Hin. rewrite Forall_forall in Hg. apply Hg. eapply remove_nth_In; exact Hin.
    + eapply Forall_impl; [|exact Htr]. intros vals H.
      apply (Forall2_map_snd _ (fun w v => 0 <= v < 2 ^ w)).
      rewrite remove_nth_map. unfold vcd_nets. now rewrite map_snd_combine.
Qed.

(* the same statement on the characters of the value-change lines *)
Theorem encode_decode_lines ws k tr : wf_widths ws k -> wf_trace ws k tr ->
  decode_lines (vcd_clk ws k) (remove_nth k (all_syms (List.length ws))) (vcd_lines ws k tr)
  = Some (expected_rows (remove_nth k ws) tr).
Proof.
  intros Hw Ht. unfold decode_lines, vcd_lines. rewrite parse_print by (now apply vcd_body_wf).
  now rewrite encode_decode.
Qed.

(* ================================================================== 10. signals that share a net *)

(* the reader reports signals through their identifier code: two signals declared with the same code
   (= connected into one net by the writer) read back equal in every cycle, whatever the dump is *)
Theorem net_share clk syms toks r i j :
  In r (decode clk syms toks) -> nth i syms EmptyString = nth j syms EmptyString ->
  (i < List.length syms)%nat -> (j < List.length syms)%nat ->
  nth i r None = nth j r None.
Proof.
  intros Hin E Hi Hj. unfold decode in Hin. apply in_map_iff in Hin as (v & <- & Hv).
  apply filter_In in Hv as [Hv _]. apply in_map_iff in Hv as (p & <- & _).
  unfold view, row. cbn [snd].
  rewrite (nth_indep _ None (lookup EmptyString (snd p))) by (rewrite map_length; lia).
  rewrite (nth_indep _ None (lookup EmptyString (snd p)) (n := j)) by (rewrite map_length; lia).
  rewrite !(map_nth (fun s => lookup s (snd p))). now rewrite E.
Qed.

(* comparison functions used by the correspondence are sound *)
Lemma val_matches_expected w v : 0 < w -> val_matches w v (Some (w, v)) = true.
Proof. intros. unfold val_matches. lia. Qed.

Lemma rows_match_expected ws tr :
  Forall (fun w => 0 < w) ws -> Forall (fun vals => List.length ws = List.length vals) tr ->
  rows_match ws tr (expected_rows ws tr) = true.
Proof.
  intros Hw Ht. induction tr as [|vals tr IH]; [reflexivity|]. inversion Ht as [|? ? L Ht']; subst.
  unfold expected_rows in *. cbn [map rows_match]. rewrite IH by assumption. rewrite andb_true_r.
  clear IH Ht Ht'. revert vals L. induction Hw as [|w ws Hw1 Hw IH]; intros [|v vals] L;
    cbn [combine map row_matches List.length] in *; try lia; auto.
  rewrite IH by lia. rewrite val_matches_expected by assumption. reflexivity.
Qed.

(* the acceptor used on the real file: if it says true, the reader gave exactly the sampled values *)
Definition shows (v : Z) (g : option (Z * Z)) : Prop := exists n, g = Some (n, v).

Lemma row_matches_sound ws : forall vs got, row_matches ws vs got = true -> Forall2 shows vs got.
Proof.
  induction ws as [|w ws IH]; intros [|v vs] [|g got] H; cbn [row_matches] in H; try discriminate; [constructor|].
  apply andb_true_iff in H as [A B]. constructor; [|now apply IH].
  unfold val_matches in A. destruct g as [[n u]|]; [|discriminate]. exists n. f_equal. f_equal. lia.
Qed.

Theorem rows_match_sound ws : forall tr got, rows_match ws tr got = true -> Forall2 (Forall2 shows) tr got.
Proof.
  induction tr as [|vs tr IH]; intros [|g got] H; cbn [rows_match] in H; try discriminate; [constructor|].
  apply andb_true_iff in H as [A B]. constructor; [now apply (row_matches_sound ws)|now apply IH].
Qed.

Lemma to_vcd_str_one_bit u : 0 <= u < 2 ->
  to_vcd_str 1 u = String (if u =? 1 then "1"%char else "0"%char) EmptyString.
Proof. intros H. assert (u = 0 \/ u = 1) as [-> | ->] by lia; reflexivity. Qed.

Lemma to_vcd_str_multi_bit n u : n <> 1 ->
  to_vcd_str n u = String "b"%char (bits_msb (Z.to_nat n) u ++ String " "%char EmptyString)%string.
Proof. intros H. unfold to_vcd_str. now replace (n =? 1) with false by lia. Qed.

Lemma bits_msb_length k u : String.length (bits_msb k u) = k.
Proof. induction k; cbn; auto. Qed.

Lemma to_vcd_str_multi_bit_form n u : n <> 1 ->
  to_vcd_str n u = String "b"%char (bits_msb (Z.to_nat n) u ++ String " "%char EmptyString)%string
  /\ String.length (bits_msb (Z.to_nat n) u) = Z.to_nat n.
Proof. intros H. split; [exact (to_vcd_str_multi_bit n u H)|exact (bits_msb_length _ u)]. Qed.
