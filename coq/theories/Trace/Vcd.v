(* Trace/Vcd.v — model M7: the value-change dump that pymtl3's VcdGenerationPass writes, and an
   independent reader for it.  Definitions only (no proofs) so that the model keeps building and
   running when a proof breaks.  Proofs: Trace/VcdProofs.v.  Statements: Props/C16.v.

   Layers
     1. characters : to_vcd_str (Bits.to_vcd_str), parse_change (reader of one value-change line),
                     symbol_of (the _gen_vcd_symbol generator)
     2. tokens     : tok = #time | value-change(width, value, symbol); print_tok / parse_line
     3. reader     : decode / clock_wave — plain VCD semantics (a symbol keeps its last value; the
                     values of a timestep are final when the next #time arrives); knows nothing about
                     how the writer compresses
     4. writer     : vcd_body — the body that VcdGenerationPass.make_vcd_func + dump_vcd_inner produce
                     for a list of nets (widths), the index of the clock net, and the per-cycle values
                     of the non-clock nets.  The `last_values` array is modelled as in the code,
                     including the fact that it is indexed by position in `net_details` (the net list
                     WITHOUT the clock net) although it was initialised by position in the full list.

   Timestamps (`#123`) are tokenised outside Coq (LTime t); value-change lines are parsed here from
   their characters. *)
From PV Require Import Base.Prelude.
(* stdlib strings *)
From Coq Require Import Strings.Ascii Strings.String.
Open Scope Z_scope.

(* ------------------------------------------------------------------ 1. characters *)

Definition bitc (b : bool) : ascii := if b then "1"%char else "0"%char.

(* k binary digits of u, most significant first: Python f"{u:0{k}b}" for 0 <= u < 2^k *)
Fixpoint bits_msb (k : nat) (u : Z) : string :=
  match k with
  | O => EmptyString
  | S k' => String (bitc (Z.testbit u (Z.of_nat k'))) (bits_msb k' u)
  end.

(* Bits.to_vcd_str: 1-bit -> "0"/"1" (no `b`, no space); otherwise "b" + zero-padded binary + " " *)
Definition to_vcd_str (n u : Z) : string :=
  if n =? 1 then bits_msb 1 u
  else String "b"%char (bits_msb (Z.to_nat n) u ++ String " "%char EmptyString)%string.

Definition is_bit (c : ascii) : option Z :=
  if Ascii.eqb c "0"%char then Some 0 else if Ascii.eqb c "1"%char then Some 1 else None.

(* binary digits up to the first space; returns (number of digits, value, rest after the space) *)
Fixpoint parse_bin (s : string) (acc cnt : Z) : option (Z * Z * string) :=
  match s with
  | EmptyString => None
  | String c r =>
      match is_bit c with
      | Some d => parse_bin r (2 * acc + d) (cnt + 1)
      | None => if Ascii.eqb c " "%char then Some (cnt, acc, r) else None
      end
  end.

Definition nonempty (s : string) : bool := match s with EmptyString => false | _ => true end.

(* one value-change line -> (number of digits, value, identifier code).  Only two-state values
   (pymtl3 never writes x/z); anything else is refused. *)
Definition parse_change (s : string) : option (Z * Z * string) :=
  match s with
  | EmptyString => None
  | String c r =>
      match is_bit c with
      | Some d => if nonempty r then Some (1, d, r) else None
      | None =>
          if Ascii.eqb c "b"%char then
            match parse_bin r 0 0 with
            | Some (cnt, v, sym) => if (0 <? cnt) && nonempty sym then Some (cnt, v, sym) else None
            | None => None
            end
          else None
      end
  end.

(* _gen_vcd_symbol: n -> digits of n in base 94 over chr(33)..chr(126), most significant first *)
Definition codechar (r : Z) : ascii := ascii_of_nat (Z.to_nat (33 + r)).

Fixpoint sym_loop (fuel : nat) (q : Z) (code : string) : string :=
  match fuel with
  | O => code
  | S f => if 0 <? q then sym_loop f (q / 94) (String (codechar (q mod 94)) code) else code
  end.

Definition symbol_of (n : Z) : string :=
  sym_loop (Z.to_nat n) (n / 94) (String (codechar (n mod 94)) EmptyString).

(* value of a symbol read back as a base-94 numeral (used to state injectivity) *)
Fixpoint sym_val (s : string) (acc : Z) : Z :=
  match s with
  | EmptyString => acc
  | String c r => sym_val r (acc * 94 + (Z.of_nat (nat_of_ascii c) - 33))
  end.

(* ------------------------------------------------------------------ 2. tokens and lines *)

Inductive tok : Type :=
| TTime (t : Z)
| TVal (n u : Z) (sym : string).

Inductive line : Type :=
| LTime (t : Z)          (* "#t" — the decimal number is tokenised outside *)
| LVal (s : string).     (* the characters of one value-change line *)

Definition print_tok (t : tok) : line :=
  match t with
  | TTime t => LTime t
  | TVal n u s => LVal (to_vcd_str n u ++ s)%string
  end.

Definition parse_line (l : line) : option tok :=
  match l with
  | LTime t => Some (TTime t)
  | LVal s => match parse_change s with Some (n, u, sym) => Some (TVal n u sym) | None => None end
  end.

Fixpoint parse_lines (ls : list line) : option (list tok) :=
  match ls with
  | [] => Some []
  | l :: r =>
      match parse_line l, parse_lines r with
      | Some t, Some ts => Some (t :: ts)
      | _, _ => None
      end
  end.

Definition line_eqb (a b : line) : bool :=
  match a, b with
  | LTime x, LTime y => x =? y
  | LVal x, LVal y => String.eqb x y
  | _, _ => false
  end.

Fixpoint lines_eqb (a b : list line) : bool :=
  match a, b with
  | [], [] => true
  | x :: a', y :: b' => line_eqb x y && lines_eqb a' b'
  | _, _ => false
  end.

(* ------------------------------------------------------------------ 3. the independent reader *)

Definition vstate := list (string * (Z * Z)).   (* identifier code -> (digits, value) *)

Fixpoint lookup (s : string) (st : vstate) : option (Z * Z) :=
  match st with
  | [] => None
  | (k, v) :: r => if String.eqb s k then Some v else lookup s r
  end.

Fixpoint upd (s : string) (v : Z * Z) (st : vstate) : vstate :=
  match st with
  | [] => [(s, v)]
  | (k, x) :: r => if String.eqb s k then (k, v) :: r else (k, x) :: upd s v r
  end.

Record dstate : Type := mkD { d_now : Z; d_cur : vstate; d_out : list (Z * vstate) }.

(* a value change updates the current timestep; a timestamp closes it *)
Definition dstep (d : dstate) (t : tok) : dstate :=
  match t with
  | TTime t' => mkD t' (d_cur d) ((d_now d, d_cur d) :: d_out d)
  | TVal n u s => mkD (d_now d) (upd s (n, u) (d_cur d)) (d_out d)
  end.

Definition d0 : dstate := mkD (-1) [] [].     (* "before the first timestamp" is time -1 *)
Definition drun (toks : list tok) : dstate := fold_left dstep toks d0.

(* timesteps closed by a later timestamp, oldest first; and all timesteps including the open last one *)
Definition closed_snapshots (toks : list tok) : list (Z * vstate) := rev (d_out (drun toks)).
Definition snapshots (toks : list tok) : list (Z * vstate) :=
  let d := drun toks in rev ((d_now d, d_cur d) :: d_out d).

Definition row (syms : list string) (st : vstate) : list (option (Z * Z)) :=
  map (fun s => lookup s st) syms.

Definition view (clk : string) (syms : list string) (p : Z * vstate) : (Z * option (Z * Z)) * list (option (Z * Z)) :=
  ((fst p, lookup clk (snd p)), row syms (snd p)).

Definition is_one (o : option (Z * Z)) : bool :=
  match o with Some (_, u) => u =? 1 | None => false end.

Definition at_posedge (v : (Z * option (Z * Z)) * list (option (Z * Z))) : bool :=
  (0 <=? fst (fst v)) && is_one (snd (fst v)).

(* decode: for every closed timestep (time >= 0) at which the clock is high, the value of every
   requested identifier code.  One row per simulated cycle. *)
Definition decode (clk : string) (syms : list string) (toks : list tok) : list (list (option (Z * Z))) :=
  map snd (filter at_posedge (map (view clk syms) (closed_snapshots toks))).

(* the clock as read back: (time, value) for every timestep *)
Definition clock_wave (clk : string) (toks : list tok) : list (Z * option (Z * Z)) :=
  map (fun p => (fst p, lookup clk (snd p))) (snapshots toks).

(* values only (drops the digit counts); None if some identifier never got a value *)
Fixpoint strip_row (r : list (option (Z * Z))) : option (list Z) :=
  match r with
  | [] => Some []
  | Some (_, u) :: r' => match strip_row r' with Some l => Some (u :: l) | None => None end
  | None :: _ => None
  end.
Fixpoint strip_rows (rs : list (list (option (Z * Z)))) : option (list (list Z)) :=
  match rs with
  | [] => Some []
  | r :: rs' => match strip_row r, strip_rows rs' with Some a, Some b => Some (a :: b) | _, _ => None end
  end.
Definition decode_values clk syms toks : option (list (list Z)) := strip_rows (decode clk syms toks).

Definition decode_lines clk syms (ls : list line) : option (list (list (option (Z * Z)))) :=
  match parse_lines ls with Some toks => Some (decode clk syms toks) | None => None end.

(* comparison used by the correspondence: a `$var` of declared width w shows value v when the dumped
   vector has at most w digits (VCD left-extends) and the same value *)
Definition val_matches (w v : Z) (got : option (Z * Z)) : bool :=
  match got with Some (n, u) => (0 <? n) && (n <=? w) && (u =? v) | None => false end.

Fixpoint row_matches (ws vs : list Z) (got : list (option (Z * Z))) : bool :=
  match ws, vs, got with
  | [], [], [] => true
  | w :: ws', v :: vs', g :: got' => val_matches w v g && row_matches ws' vs' got'
  | _, _, _ => false
  end.

Fixpoint rows_match (ws : list Z) (tr : list (list Z)) (got : list (list (option (Z * Z)))) : bool :=
  match tr, got with
  | [], [] => true
  | vs :: tr', g :: got' => row_matches ws vs g && rows_match ws tr' got'
  | _, _ => false
  end.

(* the clock of an N-cycle dump: low before #0; high at 100t, low at 100t+50; high at the open 100N *)
Fixpoint clock_cycles (t : Z) (n : nat) : list (Z * option (Z * Z)) :=
  match n with
  | O => [(100 * t, Some (1, 1))]
  | S n' => (100 * t, Some (1, 1)) :: (100 * t + 50, Some (1, 0)) :: clock_cycles (t + 1) n'
  end.
Definition expected_clock (n : nat) : list (Z * option (Z * Z)) := (-1, Some (1, 0)) :: clock_cycles 0 n.

Definition ov_eqb (a b : option (Z * Z)) : bool :=
  match a, b with
  | Some x, Some y => pair_eqb x y
  | None, None => true
  | _, _ => false
  end.
Fixpoint wave_eqb (a b : list (Z * option (Z * Z))) : bool :=
  match a, b with
  | [], [] => true
  | (t, x) :: a', (u, y) :: b' => (t =? u) && ov_eqb x y && wave_eqb a' b'
  | _, _ => false
  end.

(* ------------------------------------------------------------------ 4. the writer (VcdGenerationPass) *)

Definition net := (string * Z)%type.      (* identifier code, width *)

(* one pass of dump_vcd_inner over net_details: print the nets whose string differs from last_values[i] *)
Fixpoint emit (nets : list net) (vals : list Z) (lasts : list string) : list tok * list string :=
  match nets, vals, lasts with
  | (s, w) :: ns, v :: vs, l :: ls =>
      let str := to_vcd_str w v in
      let r := emit ns vs ls in
      if String.eqb l str then (fst r, l :: snd r) else (TVal w v s :: fst r, str :: snd r)
  | _, _, _ => ([], lasts)
  end.

(* "#100t+50 / 0clk / #100t+100 / 1clk" *)
Definition cycle_tail (clk : string) (t : Z) : list tok :=
  [TTime (100 * t + 50); TVal 1 0 clk; TTime (100 * t + 100); TVal 1 1 clk].

Fixpoint cycles (clk : string) (nets : list net) (t : Z) (tr : list (list Z)) (lasts : list string) : list tok :=
  match tr with
  | [] => []
  | vals :: tr' =>
      let r := emit nets vals lasts in
      fst r ++ cycle_tail clk t ++ cycles clk nets (t + 1) tr' (snd r)
  end.

Fixpoint remove_nth {A} (k : nat) (l : list A) : list A :=
  match l with
  | [] => []
  | x :: r => match k with O => r | S k' => x :: remove_nth k' r end
  end.

Definition all_syms (n : nat) : list string := map (fun i => symbol_of (Z.of_nat i)) (seq 0 n).

(* ws : widths of trimmed_value_nets in order (the clock net, width 1, at index k);
   tr : per dump call, the values of net_details = nets without the clock net.
   Default values are Type() = 0 for every net (bitstruct fields cannot carry defaults). *)
Definition vcd_nets (ws : list Z) : list net := combine (all_syms (List.length ws)) ws.
Definition vcd_clk (ws : list Z) (k : nat) : string := nth k (all_syms (List.length ws)) EmptyString.

Definition vcd_body (ws : list Z) (k : nat) (tr : list (list Z)) : list tok :=
  let allnets := vcd_nets ws in
  let clk := vcd_clk ws k in
  map (fun n : net => TVal (snd n) 0 (fst n)) allnets
  ++ [TTime 0; TVal 1 1 clk]
  ++ cycles clk (remove_nth k allnets) 0 tr (map (fun w => to_vcd_str w 0) ws).

Definition vcd_lines (ws : list Z) (k : nat) (tr : list (list Z)) : list line :=
  map print_tok (vcd_body ws k tr).

(* what the reader is expected to give back for a trace *)
Definition expected_rows (ws : list Z) (tr : list (list Z)) : list (list (option (Z * Z))) :=
  map (fun vals => map Some (combine ws vals)) tr.
