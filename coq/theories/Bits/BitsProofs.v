(* Bits/BitsProofs.v — the generated model of PythonBits.py equals the specification,
   for every width 0<n<1024 and every operand (unbounded Z).  No axioms. *)
From PV Require Import Base.Prelude Bits.BitsSpec Bits.BitsLemmas Gen.BitsGen.
Open Scope Z_scope.

(* ---- the two range tables ---- *)
Lemma upper_tbl_eq i : upper_tbl i = 2 ^ Z.of_nat i - 1.
Proof.
  induction i as [|j IH]; [reflexivity|].
  destruct j as [|k]; [reflexivity|].
  change (upper_tbl (S (S k))) with (Z.add (Z.shiftl (upper_tbl (S k)) 1) 1).
  rewrite IH. rewrite shiftl_mul by lia.
  replace (Z.of_nat (S (S k))) with (Z.of_nat (S k) + 1) by lia.
  rewrite Z.pow_add_r by lia. lia.
Qed.

Lemma upper_eq n : 0 <= n -> upper n = 2 ^ n - 1.
Proof. intros; unfold upper. rewrite upper_tbl_eq. rewrite Z2Nat.id by lia. reflexivity. Qed.

Lemma lower_tbl_eq i : (0 < i)%nat -> lower_tbl i = - 2 ^ (Z.of_nat i - 1).
Proof.
  induction i as [|j IH]; [lia|]. intros _.
  destruct j as [|k]; [reflexivity|].
  change (lower_tbl (S (S k))) with (Z.shiftl (lower_tbl (S k)) 1).
  rewrite IH by lia. rewrite shiftl_mul by lia.
  replace (Z.of_nat (S (S k)) - 1) with ((Z.of_nat (S k) - 1) + 1) by lia.
  rewrite Z.pow_add_r by lia. lia.
Qed.

Lemma lower_eq n : 0 < n -> lower n = - 2 ^ (n - 1).
Proof. intros; unfold lower. rewrite lower_tbl_eq by lia. rewrite Z2Nat.id by lia. reflexivity. Qed.

(* ---- normalisation tactics (written to survive re-generation: they never name generated binders) ---- *)
Ltac tables :=
  repeat match goal with
  | |- context [upper ?n] => rewrite (upper_eq n) by lia
  | |- context [lower ?n] => rewrite (lower_eq n) by lia
  end.

Ltac break_if :=
  match goal with
  | |- context [if ?c then _ else _] =>
      lazymatch c with
      | context [if _ then _ else _] => fail
      | _ => destruct c eqn:?
      end
  end.

Ltac norm :=
  unfold int_operand_ok, fits, valid_range in *; unfold vhi, vlo in *;
  rewrite ?land_mask, ?shiftl_mul, ?shiftr_div by lia.

Ltac fin := first [ reflexivity | lia | (repeat f_equal; lia) ].

Ltac crush := cbv zeta; tables; cbn [bind negb]; repeat (break_if; cbn [bind negb] in *); norm; try fin.

Section WithWidth.
Variables (n a nx : Z).
Hypothesis Hn : wfn n.
Hypothesis Ha : inrange n a.

Local Ltac start o := intros; destruct o as [m b|k|]; unfold owf in *; unfold wfn, inrange in *; cbn [spec_binop spec_rbinop spec_cmp arith cmp bind].

Lemma add_ok o : owf o -> bits_add n a nx o = spec_binop Add n a o.
Proof. start o; unfold bits_add; crush. Qed.
Lemma radd_ok o : owf o -> bits_radd n a nx o = spec_binop Add n a o.
Proof. intros; unfold bits_radd; apply add_ok; assumption. Qed.
Lemma sub_ok o : owf o -> bits_sub n a nx o = spec_binop Sub n a o.
Proof. start o; unfold bits_sub; crush. Qed.
Lemma rsub_ok o : owf o -> bits_rsub n a nx o = spec_rbinop Sub n a o.
Proof. start o; unfold bits_rsub; crush. Qed.
Lemma mul_ok o : owf o -> bits_mul n a nx o = spec_binop Mul n a o.
Proof. start o; unfold bits_mul; crush. Qed.
Lemma rmul_ok o : owf o -> bits_rmul n a nx o = spec_binop Mul n a o.
Proof. intros; unfold bits_rmul; apply mul_ok; assumption. Qed.
Lemma and_ok o : owf o -> bits_and n a nx o = spec_binop And n a o.
Proof. start o; unfold bits_and; crush. Qed.
Lemma rand_ok o : owf o -> bits_rand n a nx o = spec_binop And n a o.
Proof. intros; unfold bits_rand; apply and_ok; assumption. Qed.
Lemma or_ok o : owf o -> bits_or n a nx o = spec_binop Or n a o.
Proof. start o; unfold bits_or; crush. Qed.
Lemma ror_ok o : owf o -> bits_ror n a nx o = spec_binop Or n a o.
Proof. intros; unfold bits_ror; apply or_ok; assumption. Qed.
Lemma xor_ok o : owf o -> bits_xor n a nx o = spec_binop Xor n a o.
Proof. start o; unfold bits_xor; crush. Qed.
Lemma rxor_ok o : owf o -> bits_rxor n a nx o = spec_binop Xor n a o.
Proof. intros; unfold bits_rxor; apply xor_ok; assumption. Qed.

Lemma floordiv_ok o : owf o -> bits_floordiv n a nx o = spec_binop FloorDiv n a o.
Proof.
  start o; unfold bits_floordiv; crush.
  do 2 f_equal. apply Z.mod_small. apply div_range; lia.
Qed.
Lemma rfloordiv_ok o : owf o -> bits_rfloordiv n a nx o = spec_rbinop FloorDiv n a o.
Proof. start o; unfold bits_rfloordiv; crush. Qed.
Lemma mod_ok o : owf o -> bits_mod n a nx o = spec_binop Mod n a o.
Proof.
  start o; unfold bits_mod; crush.
  do 2 f_equal. apply Z.mod_small. apply mod_range; lia.
Qed.
Lemma rmod_ok o : owf o -> bits_rmod n a nx o = spec_rbinop Mod n a o.
Proof. start o; unfold bits_rmod; crush. Qed.

Lemma lshift_ok o : owf o -> bits_lshift n a nx o = spec_binop LShift n a o.
Proof.
  start o; unfold bits_lshift; crush.
Qed.
Lemma rshift_ok o : owf o -> bits_rshift n a nx o = spec_binop RShift n a o.
Proof. start o; unfold bits_rshift; crush; do 2 f_equal; apply shr_overflow with n; lia. Qed.

Lemma invert_ok : bits_invert n a nx = spec_invert n a.
Proof.
  unfold wfn, inrange in *. unfold bits_invert, spec_invert. cbv zeta. tables.
  rewrite lnot_mask by lia. reflexivity.
Qed.

Lemma eq_ok o : owf o -> bits_eq n a nx o = spec_cmp CEq n a o.
Proof. start o; unfold bits_eq; crush. Qed.
Lemma ne_ok o : owf o -> bits_ne n a nx o = spec_cmp CNe n a o.
Proof. start o; unfold bits_ne; crush. Qed.
Lemma lt_ok o : owf o -> bits_lt n a nx o = spec_cmp CLt n a o.
Proof. start o; unfold bits_lt; crush. Qed.
Lemma le_ok o : owf o -> bits_le n a nx o = spec_cmp CLe n a o.
Proof. start o; unfold bits_le; crush. Qed.
Lemma gt_ok o : owf o -> bits_gt n a nx o = spec_cmp CGt n a o.
Proof. start o; unfold bits_gt; crush; f_equal; f_equal; rewrite Z.gtb_ltb; reflexivity. Qed.
Lemma ge_ok o : owf o -> bits_ge n a nx o = spec_cmp CGe n a o.
Proof. start o; unfold bits_ge; crush; f_equal; f_equal; rewrite Z.geb_leb; reflexivity. Qed.

End WithWidth.

(* ---- construction, assignment ---- *)
Lemma mod_pow_nonneg_eq k n : 0 <= n -> Z.land k (2 ^ n - 1) = k mod 2 ^ n.
Proof. intros; apply land_mask; lia. Qed.

Lemma init_ok n v t : owf v -> bits_init n v t = spec_init n v t.
Proof.
  intros Hv. unfold bits_init, spec_init. cbv zeta.
  destruct ((n <? 1) || (n >=? 1024)) eqn:E1; destruct ((n <? 1) || (1024 <=? n)) eqn:E2; try lia; [reflexivity|].
  destruct v as [m b|k|]; unfold owf, wfn, inrange, spec_store in *; cbn [bind]; [| |reflexivity].
  - crush.
  - destruct t; crush.
Qed.

Section Assign.
Variables (n u nx : Z).
Hypothesis Hn : wfn n.

Lemma imatmul_ok v : owf v -> bits_imatmul n u nx v = spec_imatmul n u nx v.
Proof.
  intros Hv. unfold bits_imatmul, spec_imatmul, spec_store.
  destruct v as [m b|k|]; unfold owf, wfn, inrange in *; crush.
Qed.

Lemma ilshift_ok v : owf v -> bits_ilshift n u nx v = spec_ilshift n u nx v.
Proof.
  intros Hv. unfold bits_ilshift, spec_ilshift, spec_store.
  destruct v as [m b|k|]; unfold owf, wfn, inrange in *; crush.
Qed.

Lemma flip_ok : bits_flip n u nx = spec_flip n u nx.
Proof. reflexivity. Qed.

Lemma clone_ok : bits_clone n u nx = Ok (n, u).
Proof. reflexivity. Qed.
Lemma deepcopy_ok : bits_deepcopy n u nx = Ok (n, u).
Proof. reflexivity. Qed.
Lemma uint_ok : bits_uint n u nx = Ok u /\ bits_int_ n u nx = Ok u /\ bits_index n u nx = Ok u.
Proof. repeat split. Qed.
Lemma hash_ok : bits_hash n u nx = Ok (n, u).
Proof. reflexivity. Qed.
Lemma bool_ok : bits_bool n u nx = Ok (negb (u =? 0)).
Proof. reflexivity. Qed.

Hypothesis Hu : inrange n u.

Lemma sint_ok : bits_sint n u nx = Ok (spec_sint n u).
Proof.
  unfold wfn, inrange in *. unfold bits_sint, spec_sint.
  destruct (n - 1 <? 0) eqn:E; [lia|].
  rewrite shiftr_div by lia.
  assert (Hp : 2 ^ n = 2 * 2 ^ (n - 1)).
  { replace n with ((n - 1) + 1) at 1 by lia. rewrite Z.pow_add_r by lia. lia. }
  assert (Hq : 0 < 2 ^ (n - 1)) by (apply pow2_gt0; lia).
  destruct (2 ^ (n - 1) <=? u) eqn:E2.
  - assert (u / 2 ^ (n - 1) = 1) as ->.
    { symmetry. apply (Z.div_unique u (2 ^ (n - 1)) 1 (u - 2 ^ (n - 1))); lia. }
    cbn [Z.eqb negb].
    rewrite invert_ok by (unfold wfn, inrange; lia). unfold spec_invert. cbn [bind fst snd].
    assert (W : wfn n) by (unfold wfn; lia).
    assert (R : inrange n (2 ^ n - 1 - u)) by (unfold inrange; lia).
    rewrite add_ok; try assumption; try exact I.
    cbn [spec_binop]. unfold int_operand_ok, vhi.
    destruct ((0 <=? 1) && (1 <=? 2 ^ n - 1)) eqn:E3; [|lia].
    cbn [arith bind snd]. f_equal.
    replace (2 ^ n - 1 - u + 1) with (2 ^ n - u) by lia.
    rewrite Z.mod_small by lia. lia.
  - rewrite Z.div_small by lia. reflexivity.
Qed.

End Assign.

(* ---- indexing (C05) ---- *)
Lemma py_or_opt_0 s : py_or_opt s 0 = bound s 0.
Proof. destruct s as [k|]; cbn; [destruct (k =? 0) eqn:E; lia|reflexivity]. Qed.
Lemma py_ifnone_bound s d : py_ifnone_opt s d = bound s d.
Proof. destruct s; reflexivity. Qed.
Lemma truthy_step st : py_truthy_opt st = negb (step_trivial st).
Proof. destruct st; reflexivity. Qed.

Ltac to_bound :=
  rewrite ?py_or_opt_0;
  repeat match goal with |- context [py_ifnone_opt ?x ?d] => change (py_ifnone_opt x d) with (bound x d) end.

Section Index.
Variables (n u nx : Z).
Hypothesis Hn : wfn n.
Hypothesis Hu : inrange n u.

Lemma getitem_ok i : bits_getitem n u nx i = spec_getitem n u i.
Proof.
  unfold wfn, inrange in *. unfold bits_getitem, spec_getitem.
  destruct i as [s e st|k]; cbv zeta.
  - to_bound; rewrite truthy_step.
    destruct (negb (step_trivial st)); [reflexivity|].
    generalize (bound s 0) (bound e n); intros lo hi.
    unfold valid_range.
    repeat break_if; try lia; try reflexivity.
    tables. norm. reflexivity.
  - repeat break_if; try lia; try reflexivity.
    norm. f_equal. f_equal. change 1 with (2 ^ 1 - 1). rewrite land_mask by lia. reflexivity.
Qed.

Lemma setitem_ok i v : owf v -> bits_setitem n u nx i v = spec_setitem n u nx i v.
Proof.
  intros Hv. unfold wfn, inrange in *. unfold bits_setitem, spec_setitem.
  destruct i as [s e st|k]; cbv zeta.
  - to_bound; rewrite truthy_step.
    destruct (negb (step_trivial st)); [reflexivity|].
    generalize (bound s 0) (bound e n); intros lo hi.
    unfold valid_range, spec_store.
    destruct ((0 <=? lo) && (lo <? hi) && (hi <=? n)) eqn:Ev;
      destruct ((0 <=? lo) && (lo <? hi) && (hi <=? n))%bool eqn:Ev2; try lia; try reflexivity.
    destruct v as [m b|j|]; unfold owf, wfn, inrange in *; cbn [bind]; [| |reflexivity].
    + repeat (break_if; cbn [bind negb] in * ); try lia; try reflexivity.
      tables. unfold splice. rewrite mask_shift by lia. rewrite land_mask by lia.
      assert (m = hi - lo) as -> by lia. rewrite (Z.mod_small b) by lia. reflexivity.
    + tables. unfold fits, vlo, vhi.
      repeat (break_if; cbn [bind negb] in * ); try lia; try reflexivity.
      unfold splice. rewrite mask_shift by lia. rewrite land_mask by lia. reflexivity.
  - destruct ((k >=? n) || (k <? 0)) eqn:E1; destruct ((0 <=? k) && (k <? n)) eqn:E2; try lia; try reflexivity.
    destruct v as [m b|j|]; unfold owf, wfn, inrange in *; [| |reflexivity].
    + repeat (break_if; cbn [bind negb] in * ); try lia; try reflexivity.
      unfold splice. replace (k + 1 - k) with 1 by lia. change (Z.ones 1) with 1.
      change 1 with (2 ^ 1 - 1) at 2. rewrite land_mask by lia. reflexivity.
    + repeat (break_if; cbn [bind negb] in * ); try lia; try reflexivity.
      unfold splice. replace (k + 1 - k) with 1 by lia. change (Z.ones 1) with 1.
      change 1 with (2 ^ 1 - 1) at 2. rewrite land_mask by lia. reflexivity.
Qed.

End Index.
