(* Bits/BitsSpec.v — the mathematical specification of fixed-width values (properties C04, C05).
   Hand-written from docs/ref/datatypes.rst and the property text, NOT from the code:
   the generated model Gen/BitsGen.v is proved equal to this in BitsProofs.v, and the
   implementation is run against it by harness/c04.py, c05.py. *)
From PV Require Import Base.Prelude.
Open Scope Z_scope.

Definition wfn (n : Z) : Prop := 0 < n < 1024.
Definition inrange (n u : Z) : Prop := 0 <= u < 2 ^ n.
Definition vlo (n : Z) : Z := - 2 ^ (n - 1).     (* least accepted integer  *)
Definition vhi (n : Z) : Z := 2 ^ n - 1.         (* greatest accepted integer *)

Definition owf (o : operand) : Prop :=
  match o with OBits m b => wfn m /\ inrange m b | _ => True end.

Inductive binop : Set := Add | Sub | Mul | And | Or | Xor | FloorDiv | Mod | LShift | RShift.
Inductive cmpop : Set := CEq | CNe | CLt | CLe | CGt | CGe.

(* the mathematically defined unsigned result reduced modulo 2^n, on two in-range values *)
Definition arith (op : binop) (n a b : Z) : res Z :=
  match op with
  | Add => Ok ((a + b) mod 2 ^ n)
  | Sub => Ok ((a - b) mod 2 ^ n)
  | Mul => Ok ((a * b) mod 2 ^ n)
  | And => Ok (Z.land a b)
  | Or  => Ok (Z.lor a b)
  | Xor => Ok (Z.lxor a b)
  | FloorDiv => if b =? 0 then Err EZeroDiv else Ok (a / b)
  | Mod      => if b =? 0 then Err EZeroDiv else Ok (a mod b)
  (* guarded so that the definition is computable for huge shift amounts;
     SpecFacts.arith_lshift_math / arith_rshift_math show the guards do not change the value *)
  | LShift => Ok (if n <=? b then 0 else (a * 2 ^ b) mod 2 ^ n)
  | RShift => Ok (if n <=? b then 0 else a / 2 ^ b)
  end.

Definition int_operand_ok (n k : Z) : bool := (0 <=? k) && (k <=? vhi n).

(* x op other *)
Definition spec_binop (op : binop) (n a : Z) (o : operand) : res (Z * Z) :=
  match o with
  | OBits m b => if m =? n then bind (arith op n a b) (fun r => Ok (n, r)) else Err EValue
  | OInt k    => if int_operand_ok n k then bind (arith op n a k) (fun r => Ok (n, r)) else Err EValue
  | OOther    => Err EType
  end.

(* other op x  (reflected form: Python only calls it with a non-Bits left operand; if called
   directly with a Bits the code converts it with int(), which the spec mirrors) *)
Definition spec_rbinop (op : binop) (n a : Z) (o : operand) : res (Z * Z) :=
  match o with
  | OBits _ k | OInt k => if int_operand_ok n k then bind (arith op n k a) (fun r => Ok (n, r)) else Err EValue
  | OOther    => Err EType
  end.

Definition cmp (op : cmpop) (a b : Z) : bool :=
  match op with
  | CEq => a =? b | CNe => negb (a =? b) | CLt => a <? b | CLe => a <=? b | CGt => b <? a | CGe => b <=? a
  end.

Definition spec_cmp (op : cmpop) (n a : Z) (o : operand) : res (Z * Z) :=
  match o with
  | OBits m b => if m =? n then Ok (1, b2z (cmp op a b)) else Err EValue
  | OInt k    => if int_operand_ok n k then Ok (1, b2z (cmp op a k)) else Err EValue
  | OOther    => match op with CEq => Ok (1, 0) | CNe => Ok (1, 1) | _ => Err EType end
  end.

Definition spec_invert (n a : Z) : res (Z * Z) := Ok (n, (2 ^ n - 1 - a)).

(* construction / assignment: accept exactly vlo n .. vhi n, store v mod 2^n *)
Definition fits (n k : Z) : bool := (vlo n <=? k) && (k <=? vhi n).

Definition spec_store (n : Z) (v : operand) : res Z :=
  match v with
  | OBits m b => if m =? n then Ok b else Err EValue
  | OInt k    => if fits n k then Ok (k mod 2 ^ n) else Err EValue
  | OOther    => Err EType
  end.

Definition spec_init (n : Z) (v : operand) (trunc_int : bool) : res (Z * Z) :=
  if (n <? 1) || (1024 <=? n) then Err EValue else
  match v with
  | OInt k => if trunc_int then Ok (n, k mod 2 ^ n) else bind (spec_store n v) (fun u => Ok (n, u))
  | _ => bind (spec_store n v) (fun u => Ok (n, u))
  end.

(* state = (nbits, uint, next) *)
Definition spec_imatmul (n u nx : Z) (v : operand) : res (Z * Z * Z) :=
  bind (spec_store n v) (fun u' => Ok (n, u', nx)).
Definition spec_ilshift (n u nx : Z) (v : operand) : res (Z * Z * Z) :=
  bind (spec_store n v) (fun nx' => Ok (n, u, nx')).
Definition spec_flip (n u nx : Z) : res (Z * Z * Z) := Ok (n, nx, nx).

Definition spec_sint (n u : Z) : Z := if 2 ^ (n - 1) <=? u then u - 2 ^ n else u.

(* ---- C05: indexing ---- *)
Definition step_trivial (st : option Z) : bool :=
  match st with None => true | Some k => k =? 0 end.

(* bounds: None means "from 0" / "to n"; any integer is taken literally *)
Definition bound (x : option Z) (d : Z) : Z := match x with None => d | Some k => k end.
Definition valid_range (n lo hi : Z) : bool := (0 <=? lo) && (lo <? hi) && (hi <=? n).

Definition spec_getitem (n u : Z) (i : pyidx) : res (Z * Z) :=
  match i with
  | ISlice s e st =>
      if negb (step_trivial st) then Err EIndex else
      let lo := bound s 0 in let hi := bound e n in
      if valid_range n lo hi then Ok (hi - lo, (u / 2 ^ lo) mod 2 ^ (hi - lo)) else Err EIndex
  | IInt k => if (0 <=? k) && (k <? n) then Ok (1, (u / 2 ^ k) mod 2) else Err EIndex
  end.

(* replace bits [lo,hi) of u by the (hi-lo)-bit value w *)
Definition splice (u lo hi w : Z) : Z :=
  Z.lor (Z.land u (Z.lnot (Z.shiftl (Z.ones (hi - lo)) lo))) (Z.shiftl w lo).
(* its meaning is the theorem BitsProofs.splice_testbit: bit i of the result is bit (i-lo) of w
   inside [lo,hi) and bit i of u everywhere else *)

Definition spec_setitem (n u nx : Z) (i : pyidx) (v : operand) : res (Z * Z * Z) :=
  match i with
  | ISlice s e st =>
      if negb (step_trivial st) then Err EIndex else
      let lo := bound s 0 in let hi := bound e n in
      if valid_range n lo hi then
        bind (spec_store (hi - lo) v) (fun w => Ok (n, splice u lo hi w, nx))
      else Err EIndex
  | IInt k =>
      if (0 <=? k) && (k <? n) then
        match v with
        | OBits m b => if 1 <? m then Err EValue else Ok (n, splice u k (k + 1) (b mod 2), nx)
        | OInt j => if 1 <? Z.abs j then Err EValue else Ok (n, splice u k (k + 1) (j mod 2), nx)
        | OOther => Err EType
        end
      else Err EIndex
  end.
