(* Bits/Helpers.v — executable model of pymtl3/datatypes/helpers.py (concat, trunc, zext, sext,
   reduce_and/or/xor, clog2), written statement by statement after the code, on top of the Bits
   specification (spec_init is proved equal to the generated Bits.__init__).  Tied to the code by
   the T-diff correspondence in harness/c05.py.  Proofs in HelpersProofs.v. *)
From PV Require Import Base.Prelude Bits.BitsSpec.
Open Scope Z_scope.

(* concat( *args ): value = nbits = 0; for x in args: nbits += x.nbits; value = (value << x.nbits) | x.uint() ; Bits(nbits, value) *)
Definition concat_step (acc : Z * Z) (x : Z * Z) : Z * Z :=
  (fst acc + fst x, Z.lor (Z.shiftl (snd acc) (fst x)) (snd x)).
Definition concat_fold (xs : list (Z * Z)) : Z * Z := fold_left concat_step xs (0, 0).
Definition h_concat (xs : list (Z * Z)) : res (Z * Z) :=
  let '(nb, v) := concat_fold xs in spec_init nb (OInt v) false.

(* new_width is an int (Some/None distinguishes int from a BitsN type: the type form has no assert) *)
Definition h_trunc (n u : Z) (w : Z) (is_type : bool) : res (Z * Z) :=
  if negb is_type && negb (w <=? n) then Err EAssert else spec_init w (OInt u) true.
Definition h_zext (n u : Z) (w : Z) (is_type : bool) : res (Z * Z) :=
  if negb is_type && negb (n <=? w) then Err EAssert else spec_init w (OInt u) false.
Definition h_sext (n u : Z) (w : Z) (is_type : bool) : res (Z * Z) :=
  if negb is_type && negb (n <=? w) then Err EAssert else spec_init w (OInt (spec_sint n u)) false.

Definition h_reduce_and (n u : Z) : Z * Z := (1, b2z (u =? Z.shiftl 1 n - 1)).
Definition h_reduce_or  (n u : Z) : Z * Z := (1, b2z (negb (u =? 0))).

(* while value != 0: pop_count += value & 1; value >>= 1      (fuel = number of bits) *)
Fixpoint popcount_loop (fuel : nat) (v pc : Z) : Z :=
  match fuel with
  | O => pc
  | S f => if v =? 0 then pc else popcount_loop f (Z.shiftr v 1) (pc + Z.land v 1)
  end.
Definition h_reduce_xor (n u : Z) : Z * Z := (1, Z.land (popcount_loop (Z.to_nat n) u 0) 1).

(* int.bit_length *)
Definition bit_length (k : Z) : Z := if k =? 0 then 0 else Z.log2 (Z.abs k) + 1.
(* clog2(N): assert N > 0; (N-1).bit_length() *)
Definition h_clog2 (N : Z) : res Z := if 0 <? N then Ok (bit_length (N - 1)) else Err EAssert.

(* ---- bit-level specifications ---- *)
Fixpoint concat_spec (xs : list (Z * Z)) : Z * Z :=      (* first argument most significant *)
  match xs with
  | [] => (0, 0)
  | (n, u) :: rest => let '(n', v') := concat_spec rest in (n + n', u * 2 ^ n' + v')
  end.

Fixpoint xor_bits (k : nat) (u : Z) : bool :=            (* parity of bits 0..k-1 *)
  match k with O => false | S j => xorb (Z.testbit u (Z.of_nat j)) (xor_bits j u) end.
