(* Bits/HelpersProofs.v — helpers.py model = bit-level definitions, for every width and value. No axioms. *)
From PV Require Import Base.Prelude Bits.BitsSpec Bits.BitsLemmas Bits.SpecFacts Bits.Helpers.
Open Scope Z_scope.

Lemma lor_shiftl_add v xn xu : 0 <= xn -> 0 <= xu < 2 ^ xn -> Z.lor (Z.shiftl v xn) xu = v * 2 ^ xn + xu.
Proof.
  intros Hn Hu. rewrite <- shiftl_mul by lia.
  assert (L : Z.land (Z.shiftl v xn) xu = 0).
  { apply Z.bits_inj'. intros i Hi. rewrite Z.land_spec, Z.bits_0, Z.shiftl_spec by lia.
    destruct (Z.ltb_spec i xn).
    - rewrite Z.testbit_neg_r by lia. reflexivity.
    - rewrite (testbit_high xu xn i) by lia. apply Bool.andb_false_r. }
  rewrite <- Z.lxor_lor by exact L. symmetry. apply Z.add_nocarry_lxor. exact L.
Qed.

Lemma ones_eq n : 2 ^ n - 1 = Z.ones n.
Proof. rewrite Z.ones_equiv. lia. Qed.

Definition wfpair (x : Z * Z) : Prop := 0 < fst x /\ 0 <= snd x < 2 ^ fst x.

Lemma concat_spec_range xs : Forall wfpair xs ->
  0 <= fst (concat_spec xs) /\ 0 <= snd (concat_spec xs) < 2 ^ fst (concat_spec xs).
Proof.
  induction 1 as [|[n u] rest [Hn Hu] _ IH]; cbn [concat_spec]; [cbn; lia|].
  destruct (concat_spec rest) as [n' v']. cbn [fst snd] in *.
  destruct IH as [Hn' Hv']. split; [lia|].
  rewrite Z.pow_add_r by lia. assert (0 < 2 ^ n') by (apply pow2_gt0; lia). nia.
Qed.

Lemma concat_fold_acc xs : Forall wfpair xs -> forall nb v,
  fold_left concat_step xs (nb, v) =
    (nb + fst (concat_spec xs), v * 2 ^ fst (concat_spec xs) + snd (concat_spec xs)).
Proof.
  induction 1 as [|[n u] rest [Hn Hu] Hrest IH]; intros nb v; cbn [fold_left concat_spec].
  - cbn. f_equal; lia.
  - unfold concat_step at 2. cbn [fst snd] in *. rewrite IH.
    pose proof (concat_spec_range rest Hrest) as [Hn' Hv'].
    destruct (concat_spec rest) as [n' v']. cbn [fst snd] in *.
    rewrite lor_shiftl_add by lia. f_equal; [lia|].
    rewrite Z.pow_add_r by lia. lia.
Qed.

Theorem concat_ok xs : Forall wfpair xs -> 0 < fst (concat_spec xs) < 1024 ->
  h_concat xs = Ok (concat_spec xs).
Proof.
  intros Hxs Hw. unfold h_concat, concat_fold. rewrite concat_fold_acc by exact Hxs.
  pose proof (concat_spec_range xs Hxs) as [Hn Hv].
  destruct (concat_spec xs) as [n v]. cbn [fst snd] in *.
  replace (0 + n) with n by lia. replace (0 * 2 ^ n + v) with v by lia.
  unfold spec_init. destruct ((n <? 1) || (1024 <=? n)) eqn:E; [lia|].
  cbn [spec_store bind]. unfold fits, vlo, vhi.
  assert (0 <= 2 ^ (n - 1)) by (apply Z.pow_nonneg; lia).
  destruct ((- 2 ^ (n - 1) <=? v) && (v <=? 2 ^ n - 1)) eqn:E2; [|lia].
  cbn [bind]. rewrite Z.mod_small by lia. reflexivity.
Qed.

Theorem concat_width_sum xs : fst (concat_spec xs) = fold_right Z.add 0 (map fst xs).
Proof. induction xs as [|[n u] rest IH]; cbn; [reflexivity|]. destruct (concat_spec rest); cbn in *; lia. Qed.

Theorem concat_too_wide xs : Forall wfpair xs -> 1024 <= fst (concat_spec xs) -> h_concat xs = Err EValue.
Proof.
  intros Hxs Hw. unfold h_concat, concat_fold. rewrite concat_fold_acc by exact Hxs.
  destruct (concat_spec xs) as [n v]. cbn [fst snd] in *. unfold spec_init.
  destruct ((0 + n <? 1) || (1024 <=? 0 + n)) eqn:E; [reflexivity|lia].
Qed.

Theorem trunc_ok n u w : 0 < w <= n -> n < 1024 -> h_trunc n u w false = Ok (w, u mod 2 ^ w).
Proof.
  intros Hw Hn. unfold h_trunc. cbn [negb andb]. destruct (w <=? n) eqn:E; [|lia]. cbn [negb].
  unfold spec_init. destruct ((w <? 1) || (1024 <=? w)) eqn:E2; [lia|reflexivity].
Qed.
Theorem trunc_guard n u w : n < w -> h_trunc n u w false = Err EAssert.
Proof. intros; unfold h_trunc. cbn [negb andb]. destruct (w <=? n) eqn:E; [lia|reflexivity]. Qed.

Theorem zext_ok n u w : wfn n -> inrange n u -> n <= w < 1024 -> h_zext n u w false = Ok (w, u).
Proof.
  unfold wfn, inrange. intros Hn Hu Hw. unfold h_zext. cbn [negb andb]. destruct (n <=? w) eqn:E; [|lia]. cbn [negb].
  unfold spec_init. destruct ((w <? 1) || (1024 <=? w)) eqn:E2; [lia|]. cbn [spec_store bind].
  unfold fits, vlo, vhi. assert (2 ^ n <= 2 ^ w) by (apply Z.pow_le_mono_r; lia).
  assert (0 <= 2 ^ (w - 1)) by (apply Z.pow_nonneg; lia).
  destruct ((- 2 ^ (w - 1) <=? u) && (u <=? 2 ^ w - 1)) eqn:E3; [|lia]. cbn [bind].
  rewrite Z.mod_small by lia. reflexivity.
Qed.
Theorem zext_guard n u w : w < n -> h_zext n u w false = Err EAssert.
Proof. intros; unfold h_zext. cbn [negb andb]. destruct (n <=? w) eqn:E; [lia|reflexivity]. Qed.

Lemma testbit_neg_high x k i : 0 <= k -> - 2 ^ k <= x < 0 -> k <= i -> Z.testbit x i = true.
Proof.
  intros Hk Hx Hi. replace x with (Z.lnot (- x - 1)) by (unfold Z.lnot; lia).
  rewrite Z.lnot_spec by lia. rewrite (testbit_high (- x - 1) k i) by lia. reflexivity.
Qed.

Theorem sext_ok n u w : wfn n -> inrange n u -> n <= w < 1024 ->
  h_sext n u w false = Ok (w, (spec_sint n u) mod 2 ^ w) /\
  forall i, 0 <= i < w -> Z.testbit ((spec_sint n u) mod 2 ^ w) i = Z.testbit u (Z.min i (n - 1)).
Proof.
  intros Hn Hu Hw. pose proof (spec_sint_range n u Hn Hu) as [Hs Hm].
  unfold wfn, inrange in *. split.
  - unfold h_sext. cbn [negb andb]. destruct (n <=? w) eqn:E; [|lia]. cbn [negb].
    unfold spec_init. destruct ((w <? 1) || (1024 <=? w)) eqn:E2; [lia|]. cbn [spec_store bind].
    unfold fits, vlo, vhi.
    assert (2 ^ (n - 1) <= 2 ^ (w - 1)) by (apply Z.pow_le_mono_r; lia).
    assert (2 ^ (w - 1) <= 2 ^ w) by (apply Z.pow_le_mono_r; lia).
    destruct ((- 2 ^ (w - 1) <=? spec_sint n u) && (spec_sint n u <=? 2 ^ w - 1)) eqn:E3; [|lia].
    reflexivity.
  - intros i Hi. rewrite Z.mod_pow2_bits_low by lia.
    destruct (Z.ltb_spec i n).
    + rewrite Z.min_l by lia. rewrite <- Hm at 2. rewrite Z.mod_pow2_bits_low by lia. reflexivity.
    + rewrite Z.min_r by lia. unfold spec_sint in *.
      assert (Hp : 2 ^ n = 2 * 2 ^ (n - 1)).
      { replace n with ((n - 1) + 1) at 1 by lia. rewrite Z.pow_add_r by lia. lia. }
      destruct (2 ^ (n - 1) <=? u) eqn:E.
      * rewrite (testbit_neg_high (u - 2 ^ n) (n - 1) i) by lia.
        symmetry. apply Z.testbit_true; [lia|].
        assert (u / 2 ^ (n - 1) = 1) as ->; [|reflexivity].
        symmetry. apply (Z.div_unique u (2 ^ (n - 1)) 1 (u - 2 ^ (n - 1))); lia.
      * rewrite (testbit_high u (n - 1) i) by lia. rewrite (testbit_high u (n - 1) (n - 1)) by lia. reflexivity.
Qed.
Theorem sext_guard n u w : w < n -> h_sext n u w false = Err EAssert.
Proof. intros; unfold h_sext. cbn [negb andb]. destruct (n <=? w) eqn:E; [lia|reflexivity]. Qed.

Theorem reduce_and_ok n u : wfn n -> inrange n u ->
  (snd (h_reduce_and n u) = 1 <-> forall i, 0 <= i < n -> Z.testbit u i = true) /\
  (snd (h_reduce_and n u) = 0 \/ snd (h_reduce_and n u) = 1) /\ fst (h_reduce_and n u) = 1.
Proof.
  unfold wfn, inrange. intros Hn Hu. unfold h_reduce_and. cbn [fst snd]. rewrite shiftl_mul by lia. rewrite Z.mul_1_l.
  split; [|split; [destruct (u =? 2 ^ n - 1); cbn; lia|reflexivity]].
  destruct (Z.eqb_spec u (2 ^ n - 1)) as [->|Hne]; cbn [b2z]; split.
  - intros _ i Hi. rewrite ones_eq. apply Z.ones_spec_low; lia.
  - reflexivity.
  - discriminate.
  - intros Hall. exfalso. apply Hne. rewrite ones_eq. apply Z.bits_inj'. intros i Hi.
    destruct (Z.ltb_spec i n).
    + rewrite Z.ones_spec_low by lia. apply Hall; lia.
    + rewrite Z.ones_spec_high by lia. apply (testbit_high u n i); lia.
Qed.

Theorem reduce_or_ok n u : inrange n u ->
  (snd (h_reduce_or n u) = 1 <-> exists i, 0 <= i /\ Z.testbit u i = true) /\ fst (h_reduce_or n u) = 1.
Proof.
  intros Hu. unfold h_reduce_or. cbn [fst snd]. split; [|reflexivity].
  destruct (Z.eqb_spec u 0) as [->|Hne]; cbn [negb b2z]; split.
  - discriminate.
  - intros [i [Hi Hb]]. rewrite Z.bits_0 in Hb. discriminate.
  - intros _. exists (Z.log2 u). unfold inrange in Hu. split; [apply Z.log2_nonneg|]. apply Z.bit_log2. lia.
  - reflexivity.
Qed.

Lemma xor_bits_shift k u : 0 <= u -> xor_bits (S k) u = xorb (Z.odd u) (xor_bits k (Z.shiftr u 1)).
Proof.
  intros Hu. induction k as [|j IH].
  - cbn [xor_bits]. change (Z.of_nat 0) with 0. rewrite Z.bit0_odd. reflexivity.
  - change (xor_bits (S (S j)) u) with (xorb (Z.testbit u (Z.of_nat (S j))) (xor_bits (S j) u)).
    rewrite IH. change (xor_bits (S j) (Z.shiftr u 1)) with
      (xorb (Z.testbit (Z.shiftr u 1) (Z.of_nat j)) (xor_bits j (Z.shiftr u 1))).
    rewrite Z.shiftr_spec by lia. replace (Z.of_nat j + 1) with (Z.of_nat (S j)) by lia.
    destruct (Z.testbit u (Z.of_nat (S j))), (Z.odd u), (xor_bits j (Z.shiftr u 1)); reflexivity.
Qed.

Lemma xor_bits_0 k : xor_bits k 0 = false.
Proof. induction k; cbn; [reflexivity|]. rewrite Z.bits_0, IHk. reflexivity. Qed.

Lemma popcount_parity k : forall u pc, 0 <= u < 2 ^ Z.of_nat k ->
  Z.odd (popcount_loop k u pc) = xorb (Z.odd pc) (xor_bits k u).
Proof.
  induction k as [|j IH]; intros u pc Hu.
  - cbn. destruct (Z.odd pc); reflexivity.
  - cbn [popcount_loop]. destruct (Z.eqb_spec u 0) as [->|Hne].
    + rewrite xor_bits_0. destruct (Z.odd pc); reflexivity.
    + rewrite IH.
      * rewrite xor_bits_shift by lia. rewrite Z.odd_add.
        replace (Z.land u 1) with (u mod 2) by (change 1 with (2 ^ 1 - 1) at 1; rewrite land_mask by lia; reflexivity).
        rewrite Zmod_odd. destruct (Z.odd u), (Z.odd pc), (xor_bits j (Z.shiftr u 1)); reflexivity.
      * rewrite shiftr_div by lia. replace (Z.of_nat (S j)) with (Z.of_nat j + 1) in Hu by lia.
        rewrite Z.pow_add_r in Hu by lia. change (2 ^ 1) with 2 in *.
        split; [apply Z.div_pos; lia|]. apply Z.div_lt_upper_bound; lia.
Qed.

Theorem reduce_xor_ok n u : wfn n -> inrange n u -> h_reduce_xor n u = (1, b2z (xor_bits (Z.to_nat n) u)).
Proof.
  unfold wfn, inrange. intros Hn Hu. unfold h_reduce_xor. f_equal.
  change 1 with (2 ^ 1 - 1). rewrite land_mask by lia. change (2 ^ 1) with 2.
  rewrite Zmod_odd. rewrite popcount_parity by (rewrite Z2Nat.id by lia; lia).
  cbn [Z.odd xorb]. destruct (xor_bits (Z.to_nat n) u); reflexivity.
Qed.

Theorem clog2_ok N : 1 <= N -> h_clog2 N = Ok (Z.log2_up N).
Proof.
  intros HN. unfold h_clog2. destruct (0 <? N) eqn:E; [|lia]. f_equal.
  unfold bit_length, Z.log2_up. destruct (Z.eqb_spec (N - 1) 0) as [H0|H0]; destruct (Z.compare_spec 1 N) as [C|C|C]; try lia.
  rewrite Z.abs_eq by lia. unfold Z.succ, Z.pred. reflexivity.
Qed.

(* clog2(N) is the least k with 2^k >= N *)
Theorem clog2_least N c : 1 <= N -> h_clog2 N = Ok c ->
  0 <= c /\ N <= 2 ^ c /\ forall k, 0 <= k < c -> 2 ^ k < N.
Proof.
  intros HN. rewrite clog2_ok by lia. intros [= <-].
  split; [apply Z.log2_up_nonneg|].
  destruct (Z.eq_dec N 1) as [->|Hne]; [cbn; split; [lia|intros; lia]|].
  pose proof (Z.log2_up_spec N ltac:(lia)) as [Hlo Hhi].
  split; [lia|]. intros k Hk.
  apply Z.le_lt_trans with (2 ^ Z.pred (Z.log2_up N)); [|lia].
  apply Z.pow_le_mono_r; lia.
Qed.

Theorem clog2_guard N : N <= 0 -> h_clog2 N = Err EAssert.
Proof. intros; unfold h_clog2. destruct (0 <? N) eqn:E; [lia|reflexivity]. Qed.

(* the functions generated from helpers.py on this run = the model the theorems above are about *)
From PV Require Import Gen.BitsGen Gen.HelpersGen Bits.BitsProofs.
Theorem gen_clog2_ok N : gen_clog2 N = h_clog2 N.
Proof. unfold gen_clog2, h_clog2. rewrite Z.gtb_ltb. reflexivity. Qed.

Definition wspec_w (s : wspec) : Z := match s with WInt w | WType w => w end.
Definition wspec_ty (s : wspec) : bool := match s with WInt _ => false | WType _ => true end.

Theorem gen_trunc_ok n u s : gen_trunc n u s = h_trunc n u (wspec_w s) (wspec_ty s).
Proof.
  destruct s as [w|w]; unfold gen_trunc, h_trunc; cbn [wspec_w wspec_ty negb andb]; rewrite ?init_ok by exact I; [|reflexivity].
  destruct (w <=? n); reflexivity.
Qed.
Theorem gen_zext_ok n u s : gen_zext n u s = h_zext n u (wspec_w s) (wspec_ty s).
Proof.
  destruct s as [w|w]; unfold gen_zext, h_zext; cbn [wspec_w wspec_ty negb andb]; rewrite ?init_ok by exact I; [|reflexivity].
  rewrite Z.geb_leb. destruct (n <=? w); reflexivity.
Qed.
Theorem gen_sext_ok n u s : wfn n -> inrange n u -> gen_sext n u s = h_sext n u (wspec_w s) (wspec_ty s).
Proof.
  intros Hn Hu. destruct s as [w|w]; unfold gen_sext, h_sext; cbn [wspec_w wspec_ty negb andb];
    rewrite (sint_ok n u 0 Hn Hu); cbn [bind snd]; rewrite ?init_ok by exact I; [|reflexivity].
  rewrite Z.geb_leb. destruct (n <=? w); reflexivity.
Qed.
Theorem gen_reduce_and_ok n u : 0 <= n -> gen_reduce_and n u = Ok (h_reduce_and n u).
Proof.
  intros Hn. unfold gen_reduce_and, h_reduce_and. destruct (n <? 0) eqn:E; [lia|].
  rewrite init_ok by exact I. destruct (u =? Z.shiftl 1 n - 1); reflexivity.
Qed.
Theorem gen_reduce_or_ok n u : gen_reduce_or n u = Ok (h_reduce_or n u).
Proof.
  unfold gen_reduce_or, h_reduce_or. rewrite init_ok by exact I. destruct (u =? 0); reflexivity.
Qed.
