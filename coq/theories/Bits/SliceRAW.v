(* Bits/SliceRAW.v — read after write for Bits slices, over the specification functions of Bits/BitsSpec.v
   (spec_setitem / spec_getitem, which Gen/BitsGen.v's generated __setitem__/__getitem__ are proved equal to).
   Used by Props/C05.v only. *)
From PV Require Import Base.Prelude Bits.BitsSpec Bits.BitsLemmas Bits.SpecFacts.
Open Scope Z_scope.

(* two in-range values of the same width with the same bits are equal *)
Lemma inrange_bits_eq m a b : 0 <= m -> inrange m a -> inrange m b ->
  (forall i, 0 <= i < m -> Z.testbit a i = Z.testbit b i) -> a = b.
Proof.
  intros Hm Ha Hb H. unfold inrange in *. apply Z.bits_inj'. intros i Hi.
  destruct (Z_lt_dec i m) as [L|G]; [apply H; lia|].
  rewrite <- (Z.mod_small a (2 ^ m)), <- (Z.mod_small b (2 ^ m)) by lia.
  rewrite !Z.mod_pow2_bits_high by lia. reflexivity.
Qed.

(* reading any valid slice [lo2,hi2) after a valid slice write [lo,hi) := b:
   exactly the written bits inside the window, the old bits outside it *)
Theorem slice_read_after_write n u nx lo hi b r lo2 hi2 :
  wfn n -> inrange n u -> inrange (hi - lo) b -> 0 <= lo < hi -> hi <= n ->
  spec_setitem n u nx (ISlice (Some lo) (Some hi) None) (OBits (hi - lo) b) = Ok r ->
  0 <= lo2 < hi2 -> hi2 <= n ->
  exists u', r = (n, u', nx) /\ inrange n u' /\
  exists v, spec_getitem n u' (ISlice (Some lo2) (Some hi2) None) = Ok (hi2 - lo2, v) /\
    inrange (hi2 - lo2) v /\
    (forall i, 0 <= i < hi2 - lo2 ->
       Z.testbit v i = if (lo <=? lo2 + i) && (lo2 + i <? hi) then Z.testbit b (lo2 + i - lo)
                       else Z.testbit u (lo2 + i)) /\
    (lo2 = lo -> hi2 = hi -> v = b) /\
    (hi2 <= lo \/ hi <= lo2 -> spec_getitem n u (ISlice (Some lo2) (Some hi2) None) = Ok (hi2 - lo2, v)).
Proof.
  intros Hn Hu Hb Hr Hh E Hr2 Hh2.
  assert (Hv : owf (OBits (hi - lo) b)).
  { cbn [owf]. split; [|exact Hb]. unfold wfn in *. lia. }
  destruct (setitem_slice_frame n u nx lo hi _ r Hn Hu Hv Hr Hh E) as [w [u' [-> [Hw [Hu' Hbits]]]]].
  cbn [spec_store] in Hw. rewrite Z.eqb_refl in Hw. injection Hw as <-.
  exists u'. split; [reflexivity|]. split; [exact Hu'|].
  destruct (getitem_slice_valid n u' lo2 hi2 Hn Hu' Hr2 Hh2) as [G [Gr Gb]].
  eexists. split; [exact G|]. split; [exact Gr|].
  assert (Hall : forall i, 0 <= i < hi2 - lo2 ->
     Z.testbit ((u' / 2 ^ lo2) mod 2 ^ (hi2 - lo2)) i =
     if (lo <=? lo2 + i) && (lo2 + i <? hi) then Z.testbit b (lo2 + i - lo) else Z.testbit u (lo2 + i)).
  { intros i Hi. rewrite Gb by exact Hi. apply Hbits. lia. }
  split; [exact Hall|]. split.
  - intros -> ->. apply (inrange_bits_eq (hi - lo)); [lia|exact Gr|exact Hb|].
    intros i Hi. rewrite Hall by exact Hi.
    destruct (Z.leb_spec lo (lo + i)); [|lia]. destruct (Z.ltb_spec (lo + i) hi); [|lia].
    cbn [andb]. f_equal. lia.
  - intros Hdis.
    destruct (getitem_slice_valid n u lo2 hi2 Hn Hu Hr2 Hh2) as [G0 [Gr0 Gb0]].
    rewrite G0. f_equal. f_equal.
    apply (inrange_bits_eq (hi2 - lo2)); [lia|exact Gr0|exact Gr|].
    intros i Hi. rewrite Hall, Gb0 by exact Hi.
    destruct (Z.leb_spec lo (lo2 + i)), (Z.ltb_spec (lo2 + i) hi); cbn [andb]; try reflexivity; lia.
Qed.
