(* Bits/BitsLemmas.v — arithmetic/bitwise facts used by the Bits proofs. No axioms. *)
From PV Require Import Base.Prelude Bits.BitsSpec.
Open Scope Z_scope.

Lemma pow2_pos n : 0 < 2 ^ n \/ (n < 0 /\ 2 ^ n = 0).
Proof. destruct (Z_lt_le_dec n 0); [right; split; [lia|apply Z.pow_neg_r; lia]|left; apply Z.pow_pos_nonneg; lia]. Qed.

Lemma pow2_gt0 n : 0 <= n -> 0 < 2 ^ n.
Proof. intros; apply Z.pow_pos_nonneg; lia. Qed.

Lemma land_mask x n : 0 <= n -> Z.land x (2 ^ n - 1) = x mod 2 ^ n.
Proof. intros. rewrite <- Z.land_ones by lia. f_equal. rewrite Z.ones_equiv. lia. Qed.

Lemma shiftl_mul x k : 0 <= k -> Z.shiftl x k = x * 2 ^ k.
Proof. intros; apply Z.shiftl_mul_pow2; lia. Qed.

Lemma shiftr_div x k : 0 <= k -> Z.shiftr x k = x / 2 ^ k.
Proof. intros; apply Z.shiftr_div_pow2; lia. Qed.

Lemma mod_small_iff_range x n : 0 <= n -> (x mod 2 ^ n = x <-> 0 <= x < 2 ^ n).
Proof.
  intros Hn. pose proof (pow2_gt0 n Hn). split.
  - intros E. rewrite <- E. apply Z.mod_pos_bound; lia.
  - intros; apply Z.mod_small; lia.
Qed.

Lemma land_range a b n : 0 <= n -> 0 <= a < 2 ^ n -> 0 <= b < 2 ^ n -> 0 <= Z.land a b < 2 ^ n.
Proof.
  intros Hn Ha Hb. apply mod_small_iff_range; [lia|].
  rewrite <- Z.land_ones by lia. rewrite <- Z.land_assoc.
  rewrite (Z.land_ones b) by lia. rewrite (Z.mod_small b) by lia. reflexivity.
Qed.

Lemma lor_range a b n : 0 <= n -> 0 <= a < 2 ^ n -> 0 <= b < 2 ^ n -> 0 <= Z.lor a b < 2 ^ n.
Proof.
  intros Hn Ha Hb. apply mod_small_iff_range; [lia|].
  rewrite <- Z.land_ones by lia. rewrite Z.land_lor_distr_l.
  rewrite !Z.land_ones by lia. rewrite !Z.mod_small by lia. reflexivity.
Qed.

Lemma testbit_high a n i : 0 <= n -> 0 <= a < 2 ^ n -> n <= i -> Z.testbit a i = false.
Proof.
  intros Hn Ha Hi. destruct (Z.eq_dec a 0) as [->|Hne]; [apply Z.bits_0|].
  apply Z.bits_above_log2; [lia|]. apply Z.log2_lt_pow2; [lia|].
  apply Z.lt_le_trans with (2 ^ n); [lia|]. apply Z.pow_le_mono_r; lia.
Qed.

Lemma lxor_range a b n : 0 <= n -> 0 <= a < 2 ^ n -> 0 <= b < 2 ^ n -> 0 <= Z.lxor a b < 2 ^ n.
Proof.
  intros Hn Ha Hb. apply mod_small_iff_range; [lia|].
  rewrite <- Z.land_ones by lia. apply Z.bits_inj'. intros i Hi.
  rewrite Z.land_spec, Z.lxor_spec.
  destruct (Z.ltb_spec i n).
  - rewrite Z.ones_spec_low by lia. apply Bool.andb_true_r.
  - rewrite Z.ones_spec_high by lia. rewrite (testbit_high a n i), (testbit_high b n i) by lia. reflexivity.
Qed.

Lemma lnot_mask a n : 0 <= n -> 0 <= a < 2 ^ n -> Z.land (Z.lnot a) (2 ^ n - 1) = 2 ^ n - 1 - a.
Proof.
  intros Hn Ha. rewrite land_mask by lia. unfold Z.lnot.
  replace (Z.pred (- a)) with ((2 ^ n - 1 - a) + (-1) * 2 ^ n) by lia.
  rewrite Z.mod_add by lia. apply Z.mod_small. lia.
Qed.

Lemma shl_overflow a b n : 0 <= n -> n <= b -> (a * 2 ^ b) mod 2 ^ n = 0.
Proof.
  intros Hn Hb. replace b with (n + (b - n)) by lia. rewrite Z.pow_add_r by lia.
  replace (a * (2 ^ n * 2 ^ (b - n))) with ((a * 2 ^ (b - n)) * 2 ^ n) by lia.
  apply Z.mod_mul. pose proof (pow2_gt0 n Hn). lia.
Qed.

Lemma shr_overflow a b n : 0 <= n -> 0 <= a < 2 ^ n -> n <= b -> a / 2 ^ b = 0.
Proof.
  intros Hn Ha Hb. apply Z.div_small. split; [lia|].
  apply Z.lt_le_trans with (2 ^ n); [lia|]. apply Z.pow_le_mono_r; lia.
Qed.

Lemma div_range a b n : 0 <= a < 2 ^ n -> 0 <= b -> 0 <= a / b < 2 ^ n.
Proof.
  intros Ha Hb. destruct (Z.eq_dec b 0) as [->|Hne]; [rewrite Zdiv_0_r; lia|].
  split; [apply Z.div_pos; lia|]. apply Z.le_lt_trans with a; [|lia].
  apply Z.div_le_upper_bound; [lia|]. nia.
Qed.

Lemma mod_range a b n : 0 <= a < 2 ^ n -> 0 < b -> 0 <= a mod b < 2 ^ n.
Proof.
  intros Ha Hb. pose proof (Z.mod_pos_bound a b Hb). split; [lia|].
  apply Z.le_lt_trans with a; [|lia]. apply Z.mod_le; lia.
Qed.

Lemma pow2_sub_split lo hi : 0 <= lo <= hi -> 2 ^ hi - 2 ^ lo = (2 ^ (hi - lo) - 1) * 2 ^ lo.
Proof.
  intros H. replace hi with ((hi - lo) + lo) at 1 by lia. rewrite Z.pow_add_r by lia. lia.
Qed.

Lemma mask_shift lo hi : 0 <= lo <= hi ->
  Z.shiftl 1 hi - Z.shiftl 1 lo = Z.shiftl (Z.ones (hi - lo)) lo.
Proof.
  intros H. rewrite !shiftl_mul by lia. rewrite Z.ones_equiv, !Z.mul_1_l.
  rewrite pow2_sub_split by lia. lia.
Qed.

Lemma testbit_mask_shift lo hi i : 0 <= lo <= hi -> 0 <= i ->
  Z.testbit (Z.shiftl (Z.ones (hi - lo)) lo) i = (lo <=? i) && (i <? hi).
Proof.
  intros H Hi. rewrite Z.shiftl_spec by lia.
  destruct (Z.leb_spec lo i); cbn.
  - destruct (Z.ltb_spec i hi).
    + apply Z.ones_spec_low; lia.
    + apply Z.ones_spec_high; lia.
  - apply Z.testbit_neg_r; lia.
Qed.

Lemma splice_testbit u lo hi w i : 0 <= lo <= hi -> 0 <= i -> 0 <= w < 2 ^ (hi - lo) ->
  Z.testbit (splice u lo hi w) i =
    if (lo <=? i) && (i <? hi) then Z.testbit w (i - lo) else Z.testbit u i.
Proof.
  intros H Hi Hw. unfold splice.
  rewrite Z.lor_spec, Z.land_spec, Z.lnot_spec, testbit_mask_shift, Z.shiftl_spec by lia.
  destruct (Z.leb_spec lo i); cbn.
  - destruct (Z.ltb_spec i hi); cbn.
    + rewrite Bool.andb_false_r. reflexivity.
    + rewrite Bool.andb_true_r.
      assert (Z.testbit w (i - lo) = false) as ->; [|apply Bool.orb_false_r].
      destruct (Z.eq_dec w 0) as [->|Hne]; [apply Z.bits_0|].
      apply Z.bits_above_log2; [lia|].
      apply Z.log2_lt_pow2; [lia|]. apply Z.lt_le_trans with (2 ^ (hi - lo)); [lia|].
      apply Z.pow_le_mono_r; lia.
  - rewrite Bool.andb_true_r. rewrite (Z.testbit_neg_r w) by lia. apply Bool.orb_false_r.
Qed.

Lemma slice_testbit u lo w i : 0 <= lo -> 0 <= w -> 0 <= i ->
  Z.testbit ((u / 2 ^ lo) mod 2 ^ w) i = if i <? w then Z.testbit u (lo + i) else false.
Proof.
  intros Hlo Hw Hi. rewrite <- shiftr_div by lia. rewrite <- Z.land_ones by lia.
  rewrite Z.land_spec, Z.shiftr_spec by lia.
  destruct (Z.ltb_spec i w).
  - rewrite Z.ones_spec_low by lia. rewrite Bool.andb_true_r. f_equal; lia.
  - rewrite Z.ones_spec_high by lia. apply Bool.andb_false_r.
Qed.

Lemma splice_range u lo hi w n : 0 <= lo -> lo < hi -> hi <= n -> 0 <= u < 2 ^ n -> 0 <= w < 2 ^ (hi - lo) ->
  0 <= splice u lo hi w < 2 ^ n.
Proof.
  intros Hlo Hlh Hhn Hu Hw. unfold splice. apply lor_range; [lia| |].
  - apply mod_small_iff_range; [lia|]. rewrite <- Z.land_ones by lia.
    rewrite <- Z.land_assoc, (Z.land_comm (Z.lnot _)), Z.land_assoc.
    rewrite (Z.land_ones u) by lia. rewrite (Z.mod_small u) by lia. reflexivity.
  - rewrite shiftl_mul by lia. split; [apply Z.mul_nonneg_nonneg; [lia|apply Z.pow_nonneg; lia]|].
    apply Z.lt_le_trans with (2 ^ (hi - lo) * 2 ^ lo).
    + apply Z.mul_lt_mono_pos_r; [apply pow2_gt0; lia|lia].
    + rewrite <- Z.pow_add_r by lia. apply Z.pow_le_mono_r; lia.
Qed.
