(* Bits/SpecFacts.v — what the specification itself guarantees: results stay in range, widths are the
   documented ones, nothing is silently truncated, slices address exactly the named bits. No axioms. *)
From PV Require Import Base.Prelude Bits.BitsSpec Bits.BitsLemmas.
Open Scope Z_scope.

Lemma arith_range op n a b r : wfn n -> inrange n a -> inrange n b -> arith op n a b = Ok r -> inrange n r.
Proof.
  unfold wfn, inrange. intros Hn Ha Hb.
  assert (Hp : 0 < 2 ^ n) by (apply pow2_gt0; lia).
  destruct op; cbn [arith]; try (intros [= <-]; apply Z.mod_pos_bound; lia).
  (* And Or Xor FloorDiv Mod LShift RShift *)
  - intros [= <-]. apply land_range; lia.
  - intros [= <-]. apply lor_range; lia.
  - intros [= <-]. apply lxor_range; lia.
  - destruct (b =? 0) eqn:E; [discriminate|]. intros [= <-]. apply div_range; lia.
  - destruct (b =? 0) eqn:E; [discriminate|]. intros [= <-]. apply mod_range; lia.
  - intros [= <-]. destruct (n <=? b); [lia|]. apply Z.mod_pos_bound; lia.
  - intros [= <-]. destruct (n <=? b); [lia|]. apply div_range; [lia|]. apply Z.pow_nonneg; lia.
Qed.

(* the guards in the shift definitions do not change the mathematical value *)
Theorem arith_lshift_math n a b : wfn n -> 0 <= b -> arith LShift n a b = Ok ((a * 2 ^ b) mod 2 ^ n).
Proof.
  unfold wfn. intros Hn Hb. cbn. f_equal. destruct (n <=? b) eqn:E; [|reflexivity].
  symmetry. apply shl_overflow; lia.
Qed.
Theorem arith_rshift_math n a b : wfn n -> inrange n a -> 0 <= b -> arith RShift n a b = Ok (a / 2 ^ b).
Proof.
  unfold wfn, inrange. intros Hn Ha Hb. cbn. f_equal. destruct (n <=? b) eqn:E; [|reflexivity].
  symmetry. apply shr_overflow with n; lia.
Qed.

Theorem spec_binop_range op n a o m r :
  wfn n -> inrange n a -> owf o -> spec_binop op n a o = Ok (m, r) -> m = n /\ inrange n r.
Proof.
  intros Hn Ha Ho. destruct o as [w b|k|]; cbn [spec_binop owf] in *; [| |discriminate].
  - destruct (w =? n) eqn:E; [|discriminate]. assert (w = n) as -> by lia.
    destruct (arith op n a b) as [x|] eqn:A; cbn [bind]; [|discriminate].
    intros [= <- <-]. split; [reflexivity|]. exact (arith_range op n a b x Hn Ha (proj2 Ho) A).
  - unfold int_operand_ok, vhi. destruct ((0 <=? k) && (k <=? 2 ^ n - 1)) eqn:E; [|discriminate].
    destruct (arith op n a k) as [x|] eqn:A; cbn [bind]; [|discriminate].
    intros [= <- <-]. split; [reflexivity|]. apply (arith_range op n a k x Hn Ha); [unfold inrange; lia|exact A].
Qed.

Theorem spec_rbinop_range op n a o m r :
  wfn n -> inrange n a -> spec_rbinop op n a o = Ok (m, r) -> m = n /\ inrange n r.
Proof.
  intros Hn Ha.
  assert (G : forall k, (if int_operand_ok n k then bind (arith op n k a) (fun r => Ok (n, r)) else Err EValue) = Ok (m, r) ->
              m = n /\ inrange n r).
  { intros k. unfold int_operand_ok, vhi. destruct ((0 <=? k) && (k <=? 2 ^ n - 1)) eqn:E; [|discriminate].
    destruct (arith op n k a) as [x|] eqn:A; cbn [bind]; [|discriminate].
    intros [= <- <-]. split; [reflexivity|].
    apply (arith_range op n k a x Hn); [unfold inrange; lia|exact Ha|exact A]. }
  destruct o as [w k|k|]; cbn [spec_rbinop]; [apply G|apply G|discriminate].
Qed.

(* operands of another width, or integers that do not fit, are errors — never truncated *)
Theorem spec_binop_width_mismatch op n a m b : m <> n -> spec_binop op n a (OBits m b) = Err EValue.
Proof. intros; cbn. destruct (m =? n) eqn:E; [lia|reflexivity]. Qed.
Theorem spec_binop_int_unfit op n a k : k < 0 \/ 2 ^ n - 1 < k -> spec_binop op n a (OInt k) = Err EValue.
Proof. intros; cbn. unfold int_operand_ok, vhi. destruct ((0 <=? k) && (k <=? 2 ^ n - 1)) eqn:E; [lia|reflexivity]. Qed.
Theorem spec_cmp_width_mismatch op n a m b : m <> n -> spec_cmp op n a (OBits m b) = Err EValue.
Proof. intros; cbn. destruct (m =? n) eqn:E; [lia|reflexivity]. Qed.
Theorem spec_cmp_int_unfit op n a k : k < 0 \/ 2 ^ n - 1 < k -> spec_cmp op n a (OInt k) = Err EValue.
Proof. intros; cbn. unfold int_operand_ok, vhi. destruct ((0 <=? k) && (k <=? 2 ^ n - 1)) eqn:E; [lia|reflexivity]. Qed.

Theorem spec_cmp_bool op n a o m r : spec_cmp op n a o = Ok (m, r) -> m = 1 /\ (r = 0 \/ r = 1).
Proof.
  destruct o as [w b|k|]; cbn [spec_cmp].
  - destruct (w =? n); [|discriminate]. intros [= <- <-]. destruct (cmp op a b); cbn; lia.
  - destruct (int_operand_ok n k); [|discriminate]. intros [= <- <-]. destruct (cmp op a k); cbn; lia.
  - destruct op; try discriminate; intros [= <- <-]; lia.
Qed.

Theorem spec_invert_range n a : wfn n -> inrange n a -> inrange n (2 ^ n - 1 - a).
Proof. unfold wfn, inrange; lia. Qed.

(* construction / @= / <<= accept exactly  -2^(n-1) .. 2^n-1  and store v mod 2^n *)
Theorem spec_store_int_iff n k : wfn n ->
  (exists u, spec_store n (OInt k) = Ok u) <-> - 2 ^ (n - 1) <= k <= 2 ^ n - 1.
Proof.
  intros Hn. cbn. unfold fits, vlo, vhi.
  destruct ((- 2 ^ (n - 1) <=? k) && (k <=? 2 ^ n - 1)) eqn:E; split.
  - lia. - eauto. - intros [u Hu]; discriminate. - lia.
Qed.

Theorem spec_store_range n v u : wfn n -> owf v -> spec_store n v = Ok u -> inrange n u.
Proof.
  unfold wfn. intros Hn Hv. destruct v as [m b|k|]; cbn [spec_store owf] in *; [| |discriminate].
  - destruct (m =? n) eqn:E; [|discriminate]. intros [= <-]. assert (m = n) as -> by lia. tauto.
  - destruct (fits n k); [|discriminate]. intros [= <-]. apply Z.mod_pos_bound. apply pow2_gt0; lia.
Qed.

Theorem spec_store_int_value n k u : spec_store n (OInt k) = Ok u -> u = k mod 2 ^ n.
Proof. cbn. destruct (fits n k); [|discriminate]. intros [= <-]; reflexivity. Qed.

Theorem spec_store_width_mismatch n m b : m <> n -> spec_store n (OBits m b) = Err EValue.
Proof. intros; cbn. destruct (m =? n) eqn:E; [lia|reflexivity]. Qed.

Theorem spec_init_range n v t m u : owf v -> spec_init n v t = Ok (m, u) -> m = n /\ wfn n /\ inrange n u.
Proof.
  intros Hv. unfold spec_init. destruct ((n <? 1) || (1024 <=? n)) eqn:E; [discriminate|].
  assert (Hn : wfn n) by (unfold wfn; lia).
  assert (G : forall w, bind (spec_store n v) (fun u => Ok (n, u)) = Ok (m, w) -> m = n /\ wfn n /\ inrange n w).
  { intros w. destruct (spec_store n v) as [x|] eqn:S; cbn [bind]; [|discriminate].
    intros [= <- <-]. split; [reflexivity|]. split; [exact Hn|]. eapply spec_store_range; eauto. }
  destruct v as [w b|k|]; try apply G.
  destruct t; [|apply G]. intros [= <- <-]. split; [reflexivity|]. split; [exact Hn|].
  apply Z.mod_pos_bound. apply pow2_gt0. unfold wfn in Hn; lia.
Qed.

Theorem spec_sint_range n u : wfn n -> inrange n u ->
  - 2 ^ (n - 1) <= spec_sint n u < 2 ^ (n - 1) /\ (spec_sint n u) mod 2 ^ n = u.
Proof.
  unfold wfn, inrange, spec_sint. intros Hn Hu.
  assert (Hp : 2 ^ n = 2 * 2 ^ (n - 1)).
  { replace n with ((n - 1) + 1) at 1 by lia. rewrite Z.pow_add_r by lia. lia. }
  destruct (2 ^ (n - 1) <=? u) eqn:E.
  - split; [lia|]. replace (u - 2 ^ n) with (u + (-1) * 2 ^ n) by lia.
    rewrite Z.mod_add by lia. apply Z.mod_small; lia.
  - split; [lia|]. apply Z.mod_small; lia.
Qed.

(* ---- indexing ---- *)
Theorem getitem_slice_valid n u lo hi :
  wfn n -> inrange n u -> 0 <= lo < hi -> hi <= n ->
  spec_getitem n u (ISlice (Some lo) (Some hi) None) = Ok (hi - lo, (u / 2 ^ lo) mod 2 ^ (hi - lo))
  /\ inrange (hi - lo) ((u / 2 ^ lo) mod 2 ^ (hi - lo))
  /\ forall i, 0 <= i < hi - lo ->
       Z.testbit ((u / 2 ^ lo) mod 2 ^ (hi - lo)) i = Z.testbit u (lo + i).
Proof.
  intros Hn Hu Hl Hh. split; [|split].
  - cbn. unfold valid_range. destruct ((0 <=? lo) && (lo <? hi) && (hi <=? n)) eqn:E; [reflexivity|lia].
  - apply Z.mod_pos_bound. apply pow2_gt0; lia.
  - intros i Hi. rewrite slice_testbit by lia. destruct (i <? hi - lo) eqn:E; [reflexivity|lia].
Qed.

(* every (start, stop) in Z^2 outside 0 <= lo < hi <= n, and every non-trivial step, is an IndexError *)
Theorem getitem_slice_invalid n u s e st :
  let lo := bound s 0 in let hi := bound e n in
  ~ (0 <= lo < hi /\ hi <= n) \/ step_trivial st = false ->
  spec_getitem n u (ISlice s e st) = Err EIndex.
Proof.
  cbn zeta. intros H. cbn [spec_getitem]. destruct (step_trivial st); cbn [negb]; [|reflexivity].
  unfold valid_range. destruct ((0 <=? bound s 0) && (bound s 0 <? bound e n) && (bound e n <=? n)) eqn:E; [|reflexivity].
  destruct H as [H|H]; [exfalso; apply H; lia|discriminate].
Qed.

Theorem getitem_bit n u k : wfn n -> inrange n u ->
  (0 <= k < n -> spec_getitem n u (IInt k) = Ok (1, b2z (Z.testbit u k))) /\
  (~ 0 <= k < n -> spec_getitem n u (IInt k) = Err EIndex).
Proof.
  intros Hn Hu. cbn [spec_getitem]. split; intros Hk.
  - destruct ((0 <=? k) && (k <? n)) eqn:E; [|lia]. f_equal. f_equal.
    rewrite Z.testbit_spec' by lia. destruct (Z.eqb_spec ((u / 2 ^ k) mod 2) 0) as [->|Hne]; [reflexivity|].
    pose proof (Z.mod_pos_bound (u / 2 ^ k) 2 ltac:(lia)).
    assert ((u / 2 ^ k) mod 2 = 1) as -> by lia. reflexivity.
  - destruct ((0 <=? k) && (k <? n)) eqn:E; [lia|reflexivity].
Qed.

(* writing a slice changes exactly the named bits (frame) and keeps the value in range *)
Theorem setitem_slice_frame n u nx lo hi v r :
  wfn n -> inrange n u -> owf v -> 0 <= lo < hi -> hi <= n ->
  spec_setitem n u nx (ISlice (Some lo) (Some hi) None) v = Ok r ->
  exists w u', r = (n, u', nx) /\ spec_store (hi - lo) v = Ok w /\ inrange n u' /\
    forall i, 0 <= i ->
      Z.testbit u' i = if (lo <=? i) && (i <? hi) then Z.testbit w (i - lo) else Z.testbit u i.
Proof.
  intros Hn Hu Hv Hl Hh. cbn. unfold valid_range.
  destruct ((0 <=? lo) && (lo <? hi) && (hi <=? n)) eqn:E; [|lia].
  destruct (spec_store (hi - lo) v) as [w|] eqn:S; cbn [bind]; [|discriminate].
  intros [= <-]. exists w, (splice u lo hi w).
  assert (Hw : inrange (hi - lo) w).
  { eapply spec_store_range; eauto. unfold wfn in *; lia. }
  unfold inrange in *. split; [reflexivity|]. split; [reflexivity|]. split.
  - apply splice_range; unfold wfn in *; lia.
  - intros i Hi. apply splice_testbit; lia.
Qed.

Theorem setitem_slice_invalid n u nx s e st v :
  let lo := bound s 0 in let hi := bound e n in
  ~ (0 <= lo < hi /\ hi <= n) \/ step_trivial st = false ->
  spec_setitem n u nx (ISlice s e st) v = Err EIndex.
Proof.
  cbn zeta. intros H. cbn [spec_setitem]. destruct (step_trivial st); cbn [negb]; [|reflexivity].
  unfold valid_range. destruct ((0 <=? bound s 0) && (bound s 0 <? bound e n) && (bound e n <=? n)) eqn:E; [|reflexivity].
  destruct H as [H|H]; [exfalso; apply H; lia|discriminate].
Qed.

(* a value wider than the target slice is an error *)
Theorem setitem_slice_too_wide n u nx lo hi m b :
  0 <= lo < hi -> hi <= n -> m <> hi - lo ->
  spec_setitem n u nx (ISlice (Some lo) (Some hi) None) (OBits m b) = Err EValue.
Proof.
  intros Hl Hh Hm. cbn. unfold valid_range.
  destruct ((0 <=? lo) && (lo <? hi) && (hi <=? n)) eqn:E; [|lia].
  destruct (m =? hi - lo) eqn:E2; [lia|reflexivity].
Qed.

Theorem setitem_bit_frame n u nx k v r :
  wfn n -> inrange n u -> 0 <= k < n ->
  spec_setitem n u nx (IInt k) v = Ok r ->
  exists w u', r = (n, u', nx) /\ (w = 0 \/ w = 1) /\ inrange n u' /\
    forall i, 0 <= i -> Z.testbit u' i = if i =? k then Z.odd w else Z.testbit u i.
Proof.
  intros Hn Hu Hk. cbn [spec_setitem]. destruct ((0 <=? k) && (k <? n)) eqn:E; [|lia].
  assert (G : forall w, 0 <= w < 2 -> exists w0 u', (n, splice u k (k + 1) w, nx) = (n, u', nx) /\ (w0 = 0 \/ w0 = 1) /\
             inrange n u' /\ forall i, 0 <= i -> Z.testbit u' i = if i =? k then Z.odd w0 else Z.testbit u i).
  { intros w Hw. exists w, (splice u k (k + 1) w). unfold inrange, wfn in *.
    split; [reflexivity|]. split; [lia|]. split.
    - apply splice_range; try lia. replace (k + 1 - k) with 1 by lia. lia.
    - intros i Hi. rewrite splice_testbit; try lia; [|replace (k + 1 - k) with 1 by lia; lia].
      destruct (Z.eqb_spec i k) as [->|Hne].
      + destruct ((k <=? k) && (k <? k + 1)) eqn:E3; [|lia]. rewrite Z.sub_diag. apply Z.bit0_odd.
      + destruct ((k <=? i) && (i <? k + 1)) eqn:E3; [lia|reflexivity]. }
  destruct v as [m b|j|]; [| |discriminate].
  - destruct (1 <? m); [discriminate|]. intros [= <-]. apply G. apply Z.mod_pos_bound; lia.
  - destruct (1 <? Z.abs j); [discriminate|]. intros [= <-]. apply G. apply Z.mod_pos_bound; lia.
Qed.
