(* RTL/TypingSound.v — proofs about the type-checker model (property C10). *)
From PV Require Import Base.Prelude Bits.BitsSpec Bits.BitsLemmas Bits.SpecFacts Bits.Helpers
                       RTL.Syntax RTL.Eval RTL.Typing.
Open Scope Z_scope.

(* ------------------------------------------------------------------------------------------ *)
(* 1. literal width: nbits_of z is the least k >= 1 with z < 2^k                               *)
Theorem lit_width z : 0 <= z ->
  1 <= nbits_of z /\ z < 2 ^ nbits_of z /\ (forall j, 1 <= j -> z < 2 ^ j -> nbits_of z <= j).
Proof.
  intros Hz. unfold nbits_of.
  destruct ((-1 <=? z) && (z <=? 1)) eqn:E1.
  - repeat split; intros; try lia. all: assert (z = 0 \/ z = 1) as [-> | ->] by lia; cbn; lia.
  - destruct (z <? 0) eqn:E2; [lia|].
    assert (H2 : 1 < z + 1) by lia.
    pose proof (Z.log2_up_spec (z + 1) H2) as [_ Hs].
    pose proof (Z.log2_up_pos (z + 1) H2).
    repeat split; try lia.
    intros j Hj Hlt. apply Z.log2_up_le_pow2; lia.
Qed.

Lemma nbits_of_pos z : 0 < nbits_of z.
Proof.
  unfold nbits_of. destruct ((-1 <=? z) && (z <=? 1)) eqn:E1; [lia|].
  destruct (z <? 0) eqn:E2.
  - apply Z.log2_up_pos. lia.
  - apply Z.log2_up_pos. lia.
Qed.

(* ------------------------------------------------------------------------------------------ *)
(* 2. facts about the helper functions (same statements as Bits/HelpersProofs.v, re-proved here so
      that this file does not depend on the generated Gen/*.v)                                  *)
Lemma lor_shiftl_add' v xn xu : 0 <= xn -> 0 <= xu < 2 ^ xn -> Z.lor (Z.shiftl v xn) xu = v * 2 ^ xn + xu.
Proof.
  intros Hn Hu. rewrite <- shiftl_mul by lia.
  assert (L : Z.land (Z.shiftl v xn) xu = 0).
  { apply Z.bits_inj'. intros i Hi. rewrite Z.land_spec, Z.bits_0, Z.shiftl_spec by lia.
    destruct (Z.ltb_spec i xn).
    - rewrite Z.testbit_neg_r by lia. reflexivity.
    - rewrite (testbit_high xu xn i) by lia. apply Bool.andb_false_r. }
  rewrite <- Z.lxor_lor by exact L. symmetry. apply Z.add_nocarry_lxor. exact L.
Qed.

Definition wfpair (x : Z * Z) : Prop := wfn (fst x) /\ inrange (fst x) (snd x).

Lemma concat_spec_range' xs : Forall wfpair xs ->
  0 <= fst (concat_spec xs) /\ 0 <= snd (concat_spec xs) < 2 ^ fst (concat_spec xs).
Proof.
  induction 1 as [|[n u] rest [Hn Hu] _ IH]; cbn [concat_spec]; [cbn; lia|].
  unfold wfn, inrange in *. destruct (concat_spec rest) as [n' v']. cbn [fst snd] in *.
  destruct IH as [Hn' Hv']. split; [lia|].
  rewrite Z.pow_add_r by lia. assert (0 < 2 ^ n') by (apply pow2_gt0; lia). nia.
Qed.

Lemma concat_fold_acc' xs : Forall wfpair xs -> forall nb v,
  fold_left concat_step xs (nb, v) =
    (nb + fst (concat_spec xs), v * 2 ^ fst (concat_spec xs) + snd (concat_spec xs)).
Proof.
  induction 1 as [|[n u] rest [Hn Hu] Hrest IH]; intros nb v; cbn [fold_left concat_spec].
  - cbn. f_equal; lia.
  - unfold concat_step at 2. unfold wfn, inrange in *. cbn [fst snd] in *. rewrite IH.
    pose proof (concat_spec_range' rest Hrest) as [Hn' Hv'].
    destruct (concat_spec rest) as [n' v']. cbn [fst snd] in *.
    rewrite lor_shiftl_add' by lia. f_equal; [lia|].
    rewrite Z.pow_add_r by lia. lia.
Qed.

Lemma concat_width_sum' xs : fst (concat_spec xs) = fold_right Z.add 0 (map fst xs).
Proof. induction xs as [|[n u] rest IH]; cbn; [reflexivity|]. destruct (concat_spec rest); cbn in *; lia. Qed.

Lemma concat_ok' xs : Forall wfpair xs -> 0 < fold_right Z.add 0 (map fst xs) < 1024 ->
  exists u, h_concat xs = Ok (fold_right Z.add 0 (map fst xs), u) /\ inrange (fold_right Z.add 0 (map fst xs)) u.
Proof.
  intros Hxs Hw. rewrite <- concat_width_sum' in *. unfold h_concat, concat_fold. rewrite concat_fold_acc' by exact Hxs.
  pose proof (concat_spec_range' xs Hxs) as [Hn Hv].
  destruct (concat_spec xs) as [n v]. cbn [fst snd] in *.
  replace (0 + n) with n by lia. replace (0 * 2 ^ n + v) with v by lia.
  exists v. split; [|exact Hv].
  unfold spec_init. destruct ((n <? 1) || (1024 <=? n)) eqn:E; [lia|].
  cbn [spec_store bind]. unfold fits, vlo, vhi.
  assert (0 <= 2 ^ (n - 1)) by (apply Z.pow_nonneg; lia).
  destruct ((- 2 ^ (n - 1) <=? v) && (v <=? 2 ^ n - 1)) eqn:E2; [|lia].
  cbn [bind]. rewrite Z.mod_small by lia. reflexivity.
Qed.

Lemma zext_ok' n u w : wfn n -> inrange n u -> n <= w < 1024 -> h_zext n u w false = Ok (w, u).
Proof.
  unfold wfn, inrange. intros Hn Hu Hw. unfold h_zext. cbn [negb andb]. destruct (n <=? w) eqn:E; [|lia]. cbn [negb].
  unfold spec_init. destruct ((w <? 1) || (1024 <=? w)) eqn:E2; [lia|]. cbn [spec_store bind].
  unfold fits, vlo, vhi. assert (2 ^ n <= 2 ^ w) by (apply Z.pow_le_mono_r; lia).
  assert (0 <= 2 ^ (w - 1)) by (apply Z.pow_nonneg; lia).
  destruct ((- 2 ^ (w - 1) <=? u) && (u <=? 2 ^ w - 1)) eqn:E3; [|lia]. cbn [bind].
  rewrite Z.mod_small by lia. reflexivity.
Qed.

Lemma sext_ok' n u w : wfn n -> inrange n u -> n <= w < 1024 ->
  h_sext n u w false = Ok (w, (spec_sint n u) mod 2 ^ w).
Proof.
  intros Hn Hu Hw. pose proof (spec_sint_range n u Hn Hu) as [Hs Hm].
  unfold wfn, inrange in *.
  unfold h_sext. cbn [negb andb]. destruct (n <=? w) eqn:E; [|lia]. cbn [negb].
  unfold spec_init. destruct ((w <? 1) || (1024 <=? w)) eqn:E2; [lia|]. cbn [spec_store bind].
  unfold fits, vlo, vhi.
  assert (2 ^ (n - 1) <= 2 ^ (w - 1)) by (apply Z.pow_le_mono_r; lia).
  assert (2 ^ (w - 1) <= 2 ^ w) by (apply Z.pow_le_mono_r; lia).
  destruct ((- 2 ^ (w - 1) <=? spec_sint n u) && (spec_sint n u <=? 2 ^ w - 1)) eqn:E3; [|lia].
  reflexivity.
Qed.

Lemma trunc_ok' n u w : 0 < w <= n -> n < 1024 -> h_trunc n u w false = Ok (w, u mod 2 ^ w).
Proof.
  intros Hw Hn. unfold h_trunc. cbn [negb andb]. destruct (w <=? n) eqn:E; [|lia]. cbn [negb].
  unfold spec_init. destruct ((w <? 1) || (1024 <=? w)) eqn:E2; [lia|reflexivity].
Qed.

(* ------------------------------------------------------------------------------------------ *)
(* 3. induction principle for the nested inductive [expr]                                       *)
Section ExprInd.
  Variable P : expr -> Prop.
  Hypothesis HSig : forall s p, P (ESig s p).
  Hypothesis HLit : forall z, P (ELit z).
  Hypothesis HSized : forall n z, P (ESized n z).
  Hypothesis HFree : forall z, P (EFree z).
  Hypothesis HCast : forall n a, P a -> P (ECast n a).
  Hypothesis HBin : forall op a b, P a -> P b -> P (EBin op a b).
  Hypothesis HCmp : forall op a b, P a -> P b -> P (ECmp op a b).
  Hypothesis HInv : forall a, P a -> P (EInv a).
  Hypothesis HSlice : forall a lo hi, P a -> P lo -> P hi -> P (ESlice a lo hi).
  Hypothesis HIdx : forall a i, P a -> P i -> P (EIdx a i).
  Hypothesis HConcat : forall es, Forall P es -> P (EConcat es).
  Hypothesis HZext : forall n a, P a -> P (EZext n a).
  Hypothesis HSext : forall n a, P a -> P (ESext n a).
  Hypothesis HTrunc : forall n a, P a -> P (ETrunc n a).
  Hypothesis HRed : forall op a, P a -> P (ERed op a).
  Hypothesis HIf : forall c a b, P c -> P a -> P b -> P (EIf c a b).
  Hypothesis HTmp : forall i, P (ETmp i).
  Hypothesis HLoop : forall i, P (ELoop i).
  Fixpoint expr_ind' (e : expr) : P e :=
    match e with
    | ESig s p => HSig s p | ELit z => HLit z | ESized n z => HSized n z | EFree z => HFree z
    | ECast n a => HCast n a (expr_ind' a)
    | EBin op a b => HBin op a b (expr_ind' a) (expr_ind' b)
    | ECmp op a b => HCmp op a b (expr_ind' a) (expr_ind' b)
    | EInv a => HInv a (expr_ind' a)
    | ESlice a lo hi => HSlice a lo hi (expr_ind' a) (expr_ind' lo) (expr_ind' hi)
    | EIdx a i => HIdx a i (expr_ind' a) (expr_ind' i)
    | EConcat es => HConcat es ((fix go (l : list expr) : Forall P l :=
                                   match l with [] => Forall_nil P | x :: r => Forall_cons x (expr_ind' x) (go r) end) es)
    | EZext n a => HZext n a (expr_ind' a) | ESext n a => HSext n a (expr_ind' a)
    | ETrunc n a => HTrunc n a (expr_ind' a) | ERed op a => HRed op a (expr_ind' a)
    | EIf c a b => HIf c a b (expr_ind' c) (expr_ind' a) (expr_ind' b)
    | ETmp i => HTmp i | ELoop i => HLoop i
    end.
End ExprInd.

Lemma path_eqb_eq p q : path_eqb p q = true -> p = q.
Proof.
  revert q; induction p as [|x p IH]; intros [|y q]; cbn; try discriminate; [reflexivity|].
  intros H. apply andb_prop in H as [H1 H2]. apply Nat.eqb_eq in H1. f_equal; auto.
Qed.

Lemma expr_eqb_eq x : forall y, expr_eqb x y = true -> x = y.
Proof.
  induction x using expr_ind'; intros y Hy; destruct y; cbn [expr_eqb] in Hy; try discriminate;
    repeat match goal with H : _ && _ = true |- _ => apply andb_prop in H as [? ?] end;
    repeat match goal with
           | H : (_ =? _) = true |- _ => apply Z.eqb_eq in H; subst
           | H : Nat.eqb _ _ = true |- _ => apply Nat.eqb_eq in H; subst
           | H : path_eqb _ _ = true |- _ => apply path_eqb_eq in H; subst
           end;
    try (f_equal; auto; fail).
  - (* EBin *) f_equal; auto. destruct op, op0; try discriminate; reflexivity.
  - (* ECmp *) f_equal; auto. destruct op, op0; try discriminate; reflexivity.
  - (* EConcat *) f_equal. revert es0 Hy. induction H as [|x r Hx Hr IH]; intros [|y r'] Hy; try discriminate; [reflexivity|].
    apply andb_prop in Hy as [H1 H2]. f_equal; auto.
  - (* ERed *) f_equal; auto. destruct op, op0; try discriminate; reflexivity.
Qed.
