(* RTL/TypingSound.v — proofs about the type-checker model (property C10). *)
From PV Require Import Base.Prelude Bits.BitsSpec Bits.BitsLemmas Bits.SpecFacts Bits.Helpers
                       RTL.Syntax RTL.Eval RTL.Typing.
Open Scope Z_scope.

(* ------------------------------------------------------------------------------------------ *)
(* 1. literal width: nbits_of z is the least k >= 1 with z < 2^k                               *)
Theorem lit_width z : 0 <= z ->
  1 <= nbits_of z /\ z < 2 ^ nbits_of z /\ (forall j, 1 <= j -> z < 2 ^ j -> nbits_of z <= j).
Proof.
  intros Hz. unfold nbits_of.
  destruct ((-1 <=? z) && (z <=? 1)) eqn:E1.
  - repeat split; intros; try lia. all: assert (z = 0 \/ z = 1) as [-> | ->] by lia; cbn; lia.
  - destruct (z <? 0) eqn:E2; [lia|].
    assert (H2 : 1 < z + 1) by lia.
    pose proof (Z.log2_up_spec (z + 1) H2) as [_ Hs].
    pose proof (Z.log2_up_pos (z + 1) H2).
    repeat split; try lia.
    intros j Hj Hlt. apply Z.log2_up_le_pow2; lia.
Qed.

Lemma nbits_of_pos z : 0 < nbits_of z.
Proof.
  unfold nbits_of. destruct ((-1 <=? z) && (z <=? 1)) eqn:E1; [lia|].
  destruct (z <? 0) eqn:E2.
  - apply Z.log2_up_pos. lia.
  - apply Z.log2_up_pos. lia.
Qed.

(* ------------------------------------------------------------------------------------------ *)
(* 2. facts about the helper functions (same statements as Bits/HelpersProofs.v, re-proved here so
      that this file does not depend on the generated Gen/*.v)                                  *)
Lemma lor_shiftl_add' v xn xu : 0 <= xn -> 0 <= xu < 2 ^ xn -> Z.lor (Z.shiftl v xn) xu = v * 2 ^ xn + xu.
Proof.
  intros Hn Hu. rewrite <- shiftl_mul by lia.
  assert (L : Z.land (Z.shiftl v xn) xu = 0).
  { apply Z.bits_inj'. intros i Hi. rewrite Z.land_spec, Z.bits_0, Z.shiftl_spec by lia.
    destruct (Z.ltb_spec i xn).
    - rewrite Z.testbit_neg_r by lia. reflexivity.
    - rewrite (testbit_high xu xn i) by lia. apply Bool.andb_false_r. }
  rewrite <- Z.lxor_lor by exact L. symmetry. apply Z.add_nocarry_lxor. exact L.
Qed.

Definition wfpair (x : Z * Z) : Prop := wfn (fst x) /\ inrange (fst x) (snd x).

Lemma concat_spec_range' xs : Forall wfpair xs ->
  0 <= fst (concat_spec xs) /\ 0 <= snd (concat_spec xs) < 2 ^ fst (concat_spec xs).
Proof.
  induction 1 as [|[n u] rest [Hn Hu] _ IH]; cbn [concat_spec]; [cbn; lia|].
  unfold wfn, inrange in *. destruct (concat_spec rest) as [n' v']. cbn [fst snd] in *.
  destruct IH as [Hn' Hv']. split; [lia|].
  rewrite Z.pow_add_r by lia. assert (0 < 2 ^ n') by (apply pow2_gt0; lia). nia.
Qed.

Lemma concat_fold_acc' xs : Forall wfpair xs -> forall nb v,
  fold_left concat_step xs (nb, v) =
    (nb + fst (concat_spec xs), v * 2 ^ fst (concat_spec xs) + snd (concat_spec xs)).
Proof.
  induction 1 as [|[n u] rest [Hn Hu] Hrest IH]; intros nb v; cbn [fold_left concat_spec].
  - cbn. f_equal; lia.
  - unfold concat_step at 2. unfold wfn, inrange in *. cbn [fst snd] in *. rewrite IH.
    pose proof (concat_spec_range' rest Hrest) as [Hn' Hv'].
    destruct (concat_spec rest) as [n' v']. cbn [fst snd] in *.
    rewrite lor_shiftl_add' by lia. f_equal; [lia|].
    rewrite Z.pow_add_r by lia. lia.
Qed.

Lemma concat_width_sum' xs : fst (concat_spec xs) = fold_right Z.add 0 (map fst xs).
Proof. induction xs as [|[n u] rest IH]; cbn; [reflexivity|]. destruct (concat_spec rest); cbn in *; lia. Qed.

Lemma concat_ok' xs : Forall wfpair xs -> 0 < fold_right Z.add 0 (map fst xs) < 1024 ->
  exists u, h_concat xs = Ok (fold_right Z.add 0 (map fst xs), u) /\ inrange (fold_right Z.add 0 (map fst xs)) u.
Proof.
  intros Hxs Hw. rewrite <- concat_width_sum' in *. unfold h_concat, concat_fold. rewrite concat_fold_acc' by exact Hxs.
  pose proof (concat_spec_range' xs Hxs) as [Hn Hv].
  destruct (concat_spec xs) as [n v]. cbn [fst snd] in *.
  replace (0 + n) with n by lia. replace (0 * 2 ^ n + v) with v by lia.
  exists v. split; [|exact Hv].
  unfold spec_init. destruct ((n <? 1) || (1024 <=? n)) eqn:E; [lia|].
  cbn [spec_store bind]. unfold fits, vlo, vhi.
  assert (0 <= 2 ^ (n - 1)) by (apply Z.pow_nonneg; lia).
  destruct ((- 2 ^ (n - 1) <=? v) && (v <=? 2 ^ n - 1)) eqn:E2; [|lia].
  cbn [bind]. rewrite Z.mod_small by lia. reflexivity.
Qed.

Lemma zext_ok' n u w : wfn n -> inrange n u -> n <= w < 1024 -> h_zext n u w false = Ok (w, u).
Proof.
  unfold wfn, inrange. intros Hn Hu Hw. unfold h_zext. cbn [negb andb]. destruct (n <=? w) eqn:E; [|lia]. cbn [negb].
  unfold spec_init. destruct ((w <? 1) || (1024 <=? w)) eqn:E2; [lia|]. cbn [spec_store bind].
  unfold fits, vlo, vhi. assert (2 ^ n <= 2 ^ w) by (apply Z.pow_le_mono_r; lia).
  assert (0 <= 2 ^ (w - 1)) by (apply Z.pow_nonneg; lia).
  destruct ((- 2 ^ (w - 1) <=? u) && (u <=? 2 ^ w - 1)) eqn:E3; [|lia]. cbn [bind].
  rewrite Z.mod_small by lia. reflexivity.
Qed.

Lemma sext_ok' n u w : wfn n -> inrange n u -> n <= w < 1024 ->
  h_sext n u w false = Ok (w, (spec_sint n u) mod 2 ^ w).
Proof.
  intros Hn Hu Hw. pose proof (spec_sint_range n u Hn Hu) as [Hs Hm].
  unfold wfn, inrange in *.
  unfold h_sext. cbn [negb andb]. destruct (n <=? w) eqn:E; [|lia]. cbn [negb].
  unfold spec_init. destruct ((w <? 1) || (1024 <=? w)) eqn:E2; [lia|]. cbn [spec_store bind].
  unfold fits, vlo, vhi.
  assert (2 ^ (n - 1) <= 2 ^ (w - 1)) by (apply Z.pow_le_mono_r; lia).
  assert (2 ^ (w - 1) <= 2 ^ w) by (apply Z.pow_le_mono_r; lia).
  destruct ((- 2 ^ (w - 1) <=? spec_sint n u) && (spec_sint n u <=? 2 ^ w - 1)) eqn:E3; [|lia].
  reflexivity.
Qed.

Lemma trunc_ok' n u w : 0 < w <= n -> n < 1024 -> h_trunc n u w false = Ok (w, u mod 2 ^ w).
Proof.
  intros Hw Hn. unfold h_trunc. cbn [negb andb]. destruct (w <=? n) eqn:E; [|lia]. cbn [negb].
  unfold spec_init. destruct ((w <? 1) || (1024 <=? w)) eqn:E2; [lia|reflexivity].
Qed.

(* ------------------------------------------------------------------------------------------ *)
(* 3. induction principle for the nested inductive [expr]                                       *)
Section ExprInd.
  Variable P : expr -> Prop.
  Hypothesis HSig : forall s p, P (ESig s p).
  Hypothesis HLit : forall z, P (ELit z).
  Hypothesis HSized : forall n z, P (ESized n z).
  Hypothesis HFree : forall z, P (EFree z).
  Hypothesis HCast : forall n a, P a -> P (ECast n a).
  Hypothesis HBin : forall op a b, P a -> P b -> P (EBin op a b).
  Hypothesis HCmp : forall op a b, P a -> P b -> P (ECmp op a b).
  Hypothesis HInv : forall a, P a -> P (EInv a).
  Hypothesis HSlice : forall a lo hi, P a -> P lo -> P hi -> P (ESlice a lo hi).
  Hypothesis HIdx : forall a i, P a -> P i -> P (EIdx a i).
  Hypothesis HConcat : forall es, Forall P es -> P (EConcat es).
  Hypothesis HZext : forall n a, P a -> P (EZext n a).
  Hypothesis HSext : forall n a, P a -> P (ESext n a).
  Hypothesis HTrunc : forall n a, P a -> P (ETrunc n a).
  Hypothesis HRed : forall op a, P a -> P (ERed op a).
  Hypothesis HIf : forall c a b, P c -> P a -> P b -> P (EIf c a b).
  Hypothesis HTmp : forall i, P (ETmp i).
  Hypothesis HLoop : forall i, P (ELoop i).
  Fixpoint expr_ind' (e : expr) : P e :=
    match e with
    | ESig s p => HSig s p | ELit z => HLit z | ESized n z => HSized n z | EFree z => HFree z
    | ECast n a => HCast n a (expr_ind' a)
    | EBin op a b => HBin op a b (expr_ind' a) (expr_ind' b)
    | ECmp op a b => HCmp op a b (expr_ind' a) (expr_ind' b)
    | EInv a => HInv a (expr_ind' a)
    | ESlice a lo hi => HSlice a lo hi (expr_ind' a) (expr_ind' lo) (expr_ind' hi)
    | EIdx a i => HIdx a i (expr_ind' a) (expr_ind' i)
    | EConcat es => HConcat es ((fix go (l : list expr) : Forall P l :=
                                   match l with [] => Forall_nil P | x :: r => Forall_cons x (expr_ind' x) (go r) end) es)
    | EZext n a => HZext n a (expr_ind' a) | ESext n a => HSext n a (expr_ind' a)
    | ETrunc n a => HTrunc n a (expr_ind' a) | ERed op a => HRed op a (expr_ind' a)
    | EIf c a b => HIf c a b (expr_ind' c) (expr_ind' a) (expr_ind' b)
    | ETmp i => HTmp i | ELoop i => HLoop i
    end.
End ExprInd.

Lemma path_eqb_eq p q : path_eqb p q = true -> p = q.
Proof.
  revert q; induction p as [|x p IH]; intros [|y q]; cbn; try discriminate; [reflexivity|].
  intros H. apply andb_prop in H as [H1 H2]. apply Nat.eqb_eq in H1. f_equal; auto.
Qed.

Lemma expr_eqb_eq x : forall y, expr_eqb x y = true -> x = y.
Proof.
  induction x using expr_ind'; intros y Hy; destruct y; cbn [expr_eqb] in Hy; try discriminate;
    repeat match goal with H : _ && _ = true |- _ => apply andb_prop in H as [? ?] end;
    repeat match goal with
           | H : (_ =? _) = true |- _ => apply Z.eqb_eq in H; subst
           | H : Nat.eqb _ _ = true |- _ => apply Nat.eqb_eq in H; subst
           | H : path_eqb _ _ = true |- _ => apply path_eqb_eq in H; subst
           end;
    try (f_equal; auto; fail).
  - (* EBin *) f_equal; auto. destruct op, op0; try discriminate; reflexivity.
  - (* ECmp *) f_equal; auto. destruct op, op0; try discriminate; reflexivity.
  - (* EConcat *) f_equal. revert es0 Hy. induction H as [|x r Hx Hr IH]; intros [|y r'] Hy; try discriminate; [reflexivity|].
    apply andb_prop in Hy as [H1 H2]. f_equal; auto.
  - (* ERed *) f_equal; auto. destruct op, op0; try discriminate; reflexivity.
Qed.

(* ------------------------------------------------------------------------------------------ *)
(* 4. the invariant relating a node's type to the value the simulator computes                  *)
Notation strict' := (fun _ : nat => true).

Definition ann_inv (a : ann) : Prop :=
  0 < aw a /\ (aex a = false -> aint a = true) /\ (aex a = true -> aint a = true -> acv a = None)
  /\ (aovf a = true -> acv a = None).

Definition val_ok (a : ann) (v : value) : Prop :=
  match v with
  | VBits n u => n = aw a /\ wfn n /\ inrange n u /\ aex a = true
  | VInt z => 0 <= z /\ aint a = true /\ (aovf a = false -> z < 2 ^ aw a)
              /\ (aex a = false -> forall c, acv a = Some c -> z = c)
  end.

Definition res_ok (a : ann) (r : res value) : Prop :=
  match r with Ok v => val_ok a v | Err EValue => False | Err _ => True end.

Definition tmp_ann (w : Z) (ex mi bo : bool) : ann :=
  {| aw := w; aex := ex; asig := true; acv := None; amut := true; astr := None; aint := mi; aovf := false; abool := bo |}.

Definition env_ok (E : tenv) (st : state) : Prop :=
  (forall i w ex mi bo, ttmp E i = Some (w, ex, mi, bo) ->
     0 < w /\ (ex = false -> mi = true) /\ forall v, tmpv st i = Some v -> val_ok (tmp_ann w ex mi bo) v) /\
  (forall i w, tloop E i = Some w -> 0 < w /\ forall z, loopv st i = Some z -> 0 <= z < 2 ^ w).

Lemma res_ok_bind a r f b :
  res_ok a r -> (forall v, r = Ok v -> val_ok a v -> res_ok b (f v)) -> res_ok b (bind r f).
Proof.
  intros Hr Hf. destruct r as [v|e]; cbn [bind].
  - apply Hf; auto.
  - destruct e; cbn in *; auto.
Qed.

Lemma pow2_le_mono a b : 0 <= a <= b -> 2 ^ a <= 2 ^ b.
Proof. intros; apply Z.pow_le_mono_r; lia. Qed.

Lemma int_operand_fit n k w : 0 <= k < 2 ^ w -> 0 <= w <= n -> int_operand_ok n k = true.
Proof.
  intros Hk Hw. unfold int_operand_ok, vhi. pose proof (pow2_le_mono w n ltac:(lia)). lia.
Qed.

Definition nodiv (op : binop) : Prop := match op with FloorDiv | Mod => False | _ => True end.

Lemma arith_total op n a b : nodiv op -> exists r, arith op n a b = Ok r.
Proof. destruct op; cbn; intros H; try contradiction; eauto. Qed.

Lemma bits_binop_bits op n a b : nodiv op -> wfn n -> inrange n a -> inrange n b ->
  exists r, spec_binop op n a (OBits n b) = Ok (n, r) /\ inrange n r.
Proof.
  intros Hop Hn Ha Hb. cbn [spec_binop]. rewrite Z.eqb_refl.
  destruct (arith_total op n a b Hop) as [r Hr]. rewrite Hr. cbn [bind]. exists r. split; [reflexivity|].
  exact (arith_range op n a b r Hn Ha Hb Hr).
Qed.

Lemma bits_binop_int op n a k : nodiv op -> wfn n -> inrange n a -> 0 <= k < 2 ^ n ->
  exists r, spec_binop op n a (OInt k) = Ok (n, r) /\ inrange n r.
Proof.
  intros Hop Hn Ha Hk. cbn [spec_binop]. rewrite (int_operand_fit n k n) by (unfold wfn in *; lia).
  destruct (arith_total op n a k Hop) as [r Hr]. rewrite Hr. cbn [bind]. exists r. split; [reflexivity|].
  exact (arith_range op n a k r Hn Ha Hk Hr).
Qed.

Lemma bits_rbinop_int op n a k : nodiv op -> wfn n -> inrange n a -> 0 <= k < 2 ^ n ->
  exists r, spec_rbinop op n a (OInt k) = Ok (n, r) /\ inrange n r.
Proof.
  intros Hop Hn Ha Hk. cbn [spec_rbinop]. rewrite (int_operand_fit n k n) by (unfold wfn in *; lia).
  destruct (arith_total op n k a Hop) as [r Hr]. rewrite Hr. cbn [bind]. exists r. split; [reflexivity|].
  exact (arith_range op n k a r Hn Hk Ha Hr).
Qed.

Lemma unify_spec la ra ifx cl cr : unify la ra ifx = Some (cl, cr) ->
  match aex la, aex ra with
  | true, true => aw la = aw ra
  | true, false => aw ra <= aw la
  | false, true => aw la <= aw ra
  | false, false => True
  end.
Proof.
  unfold unify. destruct (ifx && (aw la =? aw ra)) eqn:Q.
  { apply andb_prop in Q as [_ Q]. intros _. destruct (aex la), (aex ra); auto; lia. }
  destruct (aex la), (aex ra).
  - destruct (aw la =? aw ra) eqn:E; [lia|discriminate].
  - destruct (aw la <? aw ra) eqn:E; [discriminate|lia].
  - destruct (aw ra <? aw la) eqn:E; [discriminate|lia].
  - auto.
Qed.

Lemma val_ok_bits a n u : val_ok a (VBits n u) -> aex a = true /\ n = aw a /\ wfn n /\ inrange n u.
Proof. cbn. tauto. Qed.
Lemma val_ok_int a z : val_ok a (VInt z) -> 0 <= z /\ aint a = true.
Proof. cbn. tauto. Qed.
Lemma val_ok_int_lt a z : val_ok a (VInt z) -> aovf a = false -> 0 <= z < 2 ^ aw a.
Proof. cbn. intuition. Qed.
Lemma val_ok_implicit a v : val_ok a v -> aex a = false -> exists z, v = VInt z.
Proof. destruct v; cbn; [intros (_ & _ & _ & H) H'; congruence|eauto]. Qed.
Lemma val_ok_cv a z c : val_ok a (VInt z) -> ann_inv a -> acv a = Some c -> z = c.
Proof.
  cbn. intros (_ & Hi & _ & Hc) (_ & _ & H3 & _) Hcv.
  destruct (aex a) eqn:E; [rewrite H3 in Hcv by auto; discriminate|auto].
Qed.

Lemma max_pow a b : 0 <= a -> 0 <= b -> 2 ^ a <= 2 ^ Z.max a b /\ 2 ^ b <= 2 ^ Z.max a b.
Proof. intros; split; apply pow2_le_mono; lia. Qed.

(* visit_BinOp, max-width operators *)
Lemma rule_bin_sound_max op la ra r cl cr va vb :
  is_shift op = false ->
  rule_bin strict' op la ra = Some (r, cl, cr) ->
  ann_inv la -> ann_inv ra -> aovf la = false -> aovf ra = false ->
  val_ok la va -> val_ok ra vb ->
  ann_inv r /\ res_ok r (eval_bin op va vb).
Proof.
  intros Sh H Ila Ira Ola Ora Va Vb. unfold rule_bin in H. rewrite Sh in H.
  destruct (is_struct la || is_struct ra || is_div op) eqn:Hd; [discriminate|].
  assert (Hop : nodiv op) by (destruct op; cbn in *; auto; rewrite !orb_true_r in Hd; discriminate).
  destruct (unify la ra false) as [[cl' cr']|] eqn:U; [|discriminate].
  apply unify_spec in U. cbn [andb] in H.
  pose proof Ila as (Pla & Ila2 & Ila3 & Ila4). pose proof Ira as (Pra & Ira2 & Ira3 & Ira4).
  destruct (acv la) as [x|] eqn:Cx; [destruct (acv ra) as [y|] eqn:Cy|].
  - (* constant folding *)
    destruct (int_fold op x y) as [v|] eqn:F; [|discriminate].
    destruct (aex la || aex ra) eqn:Ex; [discriminate|]. cbn [andb orb] in H.
    destruct (v <? 0) eqn:Vn; [discriminate|]. injection H as <- <- <-.
    apply orb_false_elim in Ex as [Exl Exr].
    destruct (val_ok_implicit _ _ Va Exl) as [zx ->]. destruct (val_ok_implicit _ _ Vb Exr) as [zy ->].
    pose proof (val_ok_cv _ _ _ Va Ila Cx) as ->. pose proof (val_ok_cv _ _ _ Vb Ira Cy) as ->.
    pose proof (val_ok_int _ _ Va) as [_ Ia]. pose proof (val_ok_int _ _ Vb) as [_ Ib].
    pose proof (lit_width v ltac:(lia)) as (L1 & L2 & _).
    split.
    + unfold ann_inv, mk; cbn. rewrite Ia, Ib. repeat split; auto; try lia; try discriminate.
    + assert (eval_bin op (VInt x) (VInt y) = Ok (VInt v)) as ->.
      { cbn [eval_bin]. destruct op; cbn in *; try discriminate; try contradiction; congruence. }
      cbn. rewrite Ia, Ib. repeat split; auto; try lia. intros _ c [= <-]; reflexivity.
  - (* no folding: right has no value *)
    revert H. set (mi := aint la && aint ra).
    destruct (mi && match op with Sub => true | _ => false end) eqn:S3; [discriminate|].
    intros [= <- <- <-]. split.
    + unfold ann_inv; cbn. repeat split; try lia; auto.
      intros Ex. apply orb_false_elim in Ex as [Exl Exr]. unfold mi. rewrite Ila2, Ira2; auto.
    + destruct va as [n a|zx], vb as [m b|zy].
      * apply val_ok_bits in Va as (Ea & -> & Wa & Ra). apply val_ok_bits in Vb as (Eb & -> & Wb & Rb).
        rewrite Ea, Eb in U. cbn [eval_bin to_operand]. rewrite <- U in *.
        destruct (bits_binop_bits op _ a b Hop Wa Ra Rb) as (r' & -> & Rr). cbn.
        rewrite Ea. unfold wfn, inrange in *. repeat split; auto; lia.
      * apply val_ok_bits in Va as (Ea & -> & Wa & Ra). pose proof (val_ok_int_lt _ _ Vb Ora) as Rb.
        rewrite Ea in U. cbn [eval_bin to_operand].
        assert (Hk : 0 <= zy < 2 ^ aw la).
        { pose proof (pow2_le_mono (aw ra) (aw la)). destruct (aex ra); [rewrite U in *; lia|lia]. }
        destruct (bits_binop_int op _ a zy Hop Wa Ra Hk) as (r' & -> & Rr). cbn.
        rewrite Ea. assert (Z.max (aw la) (aw ra) = aw la) as -> by (destruct (aex ra); lia).
        unfold wfn, inrange in *. repeat split; auto; lia.
      * apply val_ok_bits in Vb as (Eb & -> & Wb & Rb). pose proof (val_ok_int_lt _ _ Va Ola) as Ra.
        rewrite Eb in U.
        assert (Hk : 0 <= zx < 2 ^ aw ra).
        { pose proof (pow2_le_mono (aw la) (aw ra)). destruct (aex la); [rewrite <- U in *; lia|lia]. }
        assert (Hm : Z.max (aw la) (aw ra) = aw ra) by (destruct (aex la); lia).
        destruct (bits_binop_int op _ b zx Hop Wb Rb Hk) as (r1 & E1 & Rr1).
        destruct (bits_rbinop_int op _ b zx Hop Wb Rb Hk) as (r2 & E2 & Rr2).
        destruct op; cbn in Sh, Hop; try discriminate; try contradiction; cbn [eval_bin];
          rewrite ?E1, ?E2; cbn; rewrite Hm, Eb, orb_true_r; unfold wfn, inrange in *; repeat split; auto; lia.
      * pose proof (val_ok_int _ _ Va) as [Pa Ia]. pose proof (val_ok_int _ _ Vb) as [Pb Ib].
        pose proof (val_ok_int_lt _ _ Va Ola) as Ra. pose proof (val_ok_int_lt _ _ Vb Ora) as Rb.
        unfold mi in *. rewrite Ia, Ib in *. cbn [andb] in *.
        pose proof (max_pow (aw la) (aw ra) ltac:(lia) ltac:(lia)) as [M1 M2].
        pose proof (land_range zx zy (Z.max (aw la) (aw ra)) ltac:(lia) ltac:(lia) ltac:(lia)).
        pose proof (lor_range zx zy (Z.max (aw la) (aw ra)) ltac:(lia) ltac:(lia) ltac:(lia)).
        pose proof (lxor_range zx zy (Z.max (aw la) (aw ra)) ltac:(lia) ltac:(lia) ltac:(lia)).
        destruct op; cbn in Sh, Hop, S3; try discriminate; try contradiction; cbn; repeat split; auto; try lia; try discriminate.
  - (* no folding: left has no value *)
    revert H. set (mi := aint la && aint ra).
    destruct (mi && match op with Sub => true | _ => false end) eqn:S3; [discriminate|].
    intros [= <- <- <-]. split.
    + unfold ann_inv; cbn. repeat split; try lia; auto.
      intros Ex. apply orb_false_elim in Ex as [Exl Exr]. unfold mi. rewrite Ila2, Ira2; auto.
    + destruct va as [n a|zx], vb as [m b|zy].
      * apply val_ok_bits in Va as (Ea & -> & Wa & Ra). apply val_ok_bits in Vb as (Eb & -> & Wb & Rb).
        rewrite Ea, Eb in U. cbn [eval_bin to_operand]. rewrite <- U in *.
        destruct (bits_binop_bits op _ a b Hop Wa Ra Rb) as (r' & -> & Rr). cbn.
        rewrite Ea. unfold wfn, inrange in *. repeat split; auto; lia.
      * apply val_ok_bits in Va as (Ea & -> & Wa & Ra). pose proof (val_ok_int_lt _ _ Vb Ora) as Rb.
        rewrite Ea in U. cbn [eval_bin to_operand].
        assert (Hk : 0 <= zy < 2 ^ aw la).
        { pose proof (pow2_le_mono (aw ra) (aw la)). destruct (aex ra); [rewrite U in *; lia|lia]. }
        destruct (bits_binop_int op _ a zy Hop Wa Ra Hk) as (r' & -> & Rr). cbn.
        rewrite Ea. assert (Z.max (aw la) (aw ra) = aw la) as -> by (destruct (aex ra); lia).
        unfold wfn, inrange in *. repeat split; auto; lia.
      * apply val_ok_bits in Vb as (Eb & -> & Wb & Rb). pose proof (val_ok_int_lt _ _ Va Ola) as Ra.
        rewrite Eb in U.
        assert (Hk : 0 <= zx < 2 ^ aw ra).
        { pose proof (pow2_le_mono (aw la) (aw ra)). destruct (aex la); [rewrite <- U in *; lia|lia]. }
        assert (Hm : Z.max (aw la) (aw ra) = aw ra) by (destruct (aex la); lia).
        destruct (bits_binop_int op _ b zx Hop Wb Rb Hk) as (r1 & E1 & Rr1).
        destruct (bits_rbinop_int op _ b zx Hop Wb Rb Hk) as (r2 & E2 & Rr2).
        destruct op; cbn in Sh, Hop; try discriminate; try contradiction; cbn [eval_bin];
          rewrite ?E1, ?E2; cbn; rewrite Hm, Eb, orb_true_r; unfold wfn, inrange in *; repeat split; auto; lia.
      * pose proof (val_ok_int _ _ Va) as [Pa Ia]. pose proof (val_ok_int _ _ Vb) as [Pb Ib].
        pose proof (val_ok_int_lt _ _ Va Ola) as Ra. pose proof (val_ok_int_lt _ _ Vb Ora) as Rb.
        unfold mi in *. rewrite Ia, Ib in *. cbn [andb] in *.
        pose proof (max_pow (aw la) (aw ra) ltac:(lia) ltac:(lia)) as [M1 M2].
        pose proof (land_range zx zy (Z.max (aw la) (aw ra)) ltac:(lia) ltac:(lia) ltac:(lia)).
        pose proof (lor_range zx zy (Z.max (aw la) (aw ra)) ltac:(lia) ltac:(lia) ltac:(lia)).
        pose proof (lxor_range zx zy (Z.max (aw la) (aw ra)) ltac:(lia) ltac:(lia) ltac:(lia)).
        destruct op; cbn in Sh, Hop, S3; try discriminate; try contradiction; cbn; repeat split; auto; try lia; try discriminate.
Qed.


Lemma div_pow_bound x y w : 0 <= x < 2 ^ w -> 0 <= y -> 0 <= x / 2 ^ y < 2 ^ w.
Proof.
  intros Hx Hy. assert (0 < 2 ^ y) by (apply pow2_gt0; lia). split.
  - apply Z.div_pos; lia.
  - apply Z.div_lt_upper_bound; [lia|]. nia.
Qed.

(* visit_BinOp, shifts (left-width rule) *)
Lemma rule_bin_sound_shift op la ra r cl cr va vb :
  is_shift op = true ->
  rule_bin strict' op la ra = Some (r, cl, cr) ->
  ann_inv la -> ann_inv ra -> aovf la = false -> aovf ra = false ->
  val_ok la va -> val_ok ra vb ->
  ann_inv r /\ res_ok r (eval_bin op va vb).
Proof.
  intros Sh H Ila Ira Ola Ora Va Vb. unfold rule_bin in H. rewrite Sh in H.
  destruct (is_struct la || is_struct ra || is_div op) eqn:Hd; [discriminate|].
  assert (Hop : nodiv op) by (destruct op; cbn in *; auto; discriminate).
  cbn [andb] in H.
  destruct (aex la && negb (if aex ra then aw ra =? aw la else aw ra <=? aw la)) eqn:ShChk; [discriminate|].
  pose proof Ila as (Pla & Ila2 & Ila3 & Ila4). pose proof Ira as (Pra & Ira2 & Ira3 & Ira4).
  assert (Hamt : aex la = true -> if aex ra then aw ra = aw la else aw ra <= aw la).
  { intros E; rewrite E in ShChk; cbn in ShChk. destruct (aex ra); lia. }
  destruct (acv la) as [x|] eqn:Cx; [destruct (acv ra) as [y|] eqn:Cy|].
  - (* constant folding *)
    destruct (int_fold op x y) as [v|] eqn:F; [|discriminate].
    destruct (aex la) eqn:Exl; [discriminate|]. cbn [andb orb] in H.
    destruct (v <? 0) eqn:Vn; [discriminate|]. injection H as <- <- <-.
    destruct (val_ok_implicit _ _ Va Exl) as [zx ->].
    pose proof (val_ok_cv _ _ _ Va Ila Cx) as ->.
    pose proof (val_ok_int _ _ Va) as [_ Ia].
    pose proof (lit_width v ltac:(lia)) as (L1 & L2 & _).
    split.
    + unfold ann_inv, mk; cbn. rewrite Ia. repeat split; auto; try lia; try discriminate.
    + destruct vb as [m b|zy].
      * destruct op; cbn in Sh; try discriminate; cbn; exact I.
      * pose proof (val_ok_cv _ _ _ Vb Ira Cy) as ->.
        assert (eval_bin op (VInt x) (VInt y) = Ok (VInt v)) as ->.
        { cbn [eval_bin].
          destruct op; cbn [is_shift] in Sh; try discriminate; cbn [int_fold] in F; cbn [eval_int_bin];
            unfold fold_limit in F; unfold int_shift_limit;
            destruct (y <? 0) eqn:Y0; cbn [orb] in F; try discriminate;
            destruct (4096 <? y) eqn:Y1; try discriminate;
            (destruct (65536 <? y) eqn:Y2; [lia|]); congruence. }
        cbn. rewrite Ia. repeat split; auto; try lia. intros _ c [= <-]; reflexivity.
  - revert H. destruct (aint la && match op with Sub => true | _ => false end) eqn:S3; [discriminate|].
    intros [= <- <- <-]. split.
    + unfold ann_inv; cbn. repeat split; try lia; auto.
    + destruct va as [n a|zx], vb as [m b|zy].
      * apply val_ok_bits in Va as (Ea & -> & Wa & Ra). apply val_ok_bits in Vb as (Eb & -> & Wb & Rb).
        specialize (Hamt Ea). rewrite Eb in Hamt. cbn [eval_bin to_operand]. rewrite Hamt in *.
        destruct (bits_binop_bits op _ a b Hop Wa Ra Rb) as (r' & -> & Rr). cbn.
        unfold wfn, inrange in *. repeat split; auto; lia.
      * apply val_ok_bits in Va as (Ea & -> & Wa & Ra). pose proof (val_ok_int_lt _ _ Vb Ora) as Rb.
        specialize (Hamt Ea). cbn [eval_bin to_operand].
        assert (Hk : 0 <= zy < 2 ^ aw la).
        { pose proof (pow2_le_mono (aw ra) (aw la)). destruct (aex ra); [rewrite Hamt in *; lia|lia]. }
        destruct (bits_binop_int op _ a zy Hop Wa Ra Hk) as (r' & -> & Rr). cbn.
        unfold wfn, inrange in *. repeat split; auto; lia.
      * destruct op; cbn in Sh; try discriminate; cbn; exact I.
      * pose proof (val_ok_int _ _ Va) as [Pa Ia]. pose proof (val_ok_int _ _ Vb) as [Pb Ib].
        pose proof (val_ok_int_lt _ _ Va Ola) as Ra.
        pose proof (div_pow_bound zx zy (aw la) Ra Pb).
        assert (0 < 2 ^ zy) by (apply pow2_gt0; lia).
        rewrite Ia in *.
        destruct op; cbn [is_shift] in Sh; try discriminate; cbn [eval_bin eval_int_bin]; unfold int_shift_limit; (destruct (zy <? 0) eqn:Y0; [lia|]);
          (destruct (65536 <? zy) eqn:Y1; [exact I|]); cbn [res_ok val_ok aw aint aovf aex acv andb]; repeat split; auto; try lia; try nia; try discriminate.
  - revert H. destruct (aint la && match op with Sub => true | _ => false end) eqn:S3; [discriminate|].
    intros [= <- <- <-]. split.
    + unfold ann_inv; cbn. repeat split; try lia; auto.
    + destruct va as [n a|zx], vb as [m b|zy].
      * apply val_ok_bits in Va as (Ea & -> & Wa & Ra). apply val_ok_bits in Vb as (Eb & -> & Wb & Rb).
        specialize (Hamt Ea). rewrite Eb in Hamt. cbn [eval_bin to_operand]. rewrite Hamt in *.
        destruct (bits_binop_bits op _ a b Hop Wa Ra Rb) as (r' & -> & Rr). cbn.
        unfold wfn, inrange in *. repeat split; auto; lia.
      * apply val_ok_bits in Va as (Ea & -> & Wa & Ra). pose proof (val_ok_int_lt _ _ Vb Ora) as Rb.
        specialize (Hamt Ea). cbn [eval_bin to_operand].
        assert (Hk : 0 <= zy < 2 ^ aw la).
        { pose proof (pow2_le_mono (aw ra) (aw la)). destruct (aex ra); [rewrite Hamt in *; lia|lia]. }
        destruct (bits_binop_int op _ a zy Hop Wa Ra Hk) as (r' & -> & Rr). cbn.
        unfold wfn, inrange in *. repeat split; auto; lia.
      * destruct op; cbn in Sh; try discriminate; cbn; exact I.
      * pose proof (val_ok_int _ _ Va) as [Pa Ia]. pose proof (val_ok_int _ _ Vb) as [Pb Ib].
        pose proof (val_ok_int_lt _ _ Va Ola) as Ra.
        pose proof (div_pow_bound zx zy (aw la) Ra Pb).
        assert (0 < 2 ^ zy) by (apply pow2_gt0; lia).
        rewrite Ia in *.
        destruct op; cbn [is_shift] in Sh; try discriminate; cbn [eval_bin eval_int_bin]; unfold int_shift_limit; (destruct (zy <? 0) eqn:Y0; [lia|]);
          (destruct (65536 <? zy) eqn:Y1; [exact I|]); cbn [res_ok val_ok aw aint aovf aex acv andb]; repeat split; auto; try lia; try nia; try discriminate.
Qed.

Lemma rule_bin_sound op la ra r cl cr va vb :
  rule_bin strict' op la ra = Some (r, cl, cr) ->
  ann_inv la -> ann_inv ra -> aovf la = false -> aovf ra = false ->
  val_ok la va -> val_ok ra vb ->
  ann_inv r /\ res_ok r (eval_bin op va vb).
Proof.
  destruct (is_shift op) eqn:Sh; [apply rule_bin_sound_shift|apply rule_bin_sound_max]; exact Sh.
Qed.

Lemma b2z_range b : 0 <= b2z b < 2 ^ 1.
Proof. destruct b; cbn; lia. Qed.

(* visit_Compare *)
Lemma rule_cmp_sound op la ra r cl cr va vb :
  rule_cmp la ra = Some (r, cl, cr) ->
  ann_inv la -> ann_inv ra -> aovf la = false -> aovf ra = false ->
  val_ok la va -> val_ok ra vb ->
  ann_inv r /\ res_ok r (eval_cmp op va vb).
Proof.
  intros H Ila Ira Ola Ora Va Vb. unfold rule_cmp in H.
  destruct (is_struct la || is_struct ra); [discriminate|].
  destruct (unify la ra false) as [[cl' cr']|] eqn:U; [|discriminate].
  apply unify_spec in U. injection H as <- <- <-.
  pose proof Ila as (Pla & _). pose proof Ira as (Pra & _).
  split.
  - unfold ann_inv, mk; cbn. repeat split; auto; try lia; try discriminate.
  - destruct va as [n a|zx], vb as [m b|zy].
    + apply val_ok_bits in Va as (Ea & -> & Wa & Ra). apply val_ok_bits in Vb as (Eb & -> & Wb & Rb).
      rewrite Ea, Eb in U. cbn [eval_cmp to_operand spec_cmp]. rewrite U, Z.eqb_refl. cbn.
      pose proof (b2z_range (cmp op a b)). unfold wfn, inrange. repeat split; auto; lia.
    + apply val_ok_bits in Va as (Ea & -> & Wa & Ra). pose proof (val_ok_int_lt _ _ Vb Ora) as Rb.
      rewrite Ea in U. cbn [eval_cmp to_operand spec_cmp].
      rewrite (int_operand_fit (aw la) zy (aw ra)) by (destruct (aex ra); lia). cbn.
      pose proof (b2z_range (cmp op a zy)). unfold wfn, inrange. repeat split; auto; lia.
    + apply val_ok_bits in Vb as (Eb & -> & Wb & Rb). pose proof (val_ok_int_lt _ _ Va Ola) as Ra.
      rewrite Eb in U. cbn [eval_cmp to_operand spec_cmp].
      rewrite (int_operand_fit (aw ra) zx (aw la)) by (destruct (aex la); lia). cbn.
      pose proof (b2z_range (cmp (swap_cmp op) b zx)). unfold wfn, inrange. repeat split; auto; lia.
    + pose proof (val_ok_int _ _ Va) as [Pa Ia]. pose proof (val_ok_int _ _ Vb) as [Pb Ib].
      cbn. rewrite Ia, Ib. pose proof (b2z_range (cmp op zx zy)). repeat split; auto; try lia; discriminate.
Qed.

Lemma aw_enf c a : aw (enf_ann c a) = if amut a && negb (aex a) then c else aw a.
Proof. unfold enf_ann. destruct (amut a && negb (aex a)); reflexivity. Qed.

(* visit_IfExp: whichever branch is taken, its value has the type given to the if-expression *)
Lemma rule_if_sound rc la ra r cl cr :
  rule_if strict' rc la ra = Some (r, cl, cr) ->
  ann_inv la -> ann_inv ra -> aovf la = false -> aovf ra = false ->
  ann_inv r /\ (forall v, val_ok la v -> val_ok r v) /\ (forall v, val_ok ra v -> val_ok r v).
Proof.
  intros H Ila Ira Ola Ora. unfold rule_if in H.
  destruct (is_struct rc || is_struct la || is_struct ra); [discriminate|]. cbn zeta in H. cbn [andb] in H.
  destruct ((abool la || abool ra) && negb (aex la && aex ra && (aw la =? aw ra))) eqn:S13; [discriminate|].
  assert (U0 : (if abool la || abool ra then Some (None, None) else unify la ra true) = unify la ra true).
  { destruct (abool la || abool ra); [|reflexivity]. cbn [andb] in S13. apply negb_false_iff in S13.
    apply andb_prop in S13 as [S13 Q]. unfold unify. rewrite Q. reflexivity. }
  rewrite U0 in H. clear U0 S13.
  destruct (unify la ra true) as [[cl' cr']|] eqn:U; [|discriminate].
  destruct (negb (aex la) && negb (aex ra) && (aw la <? aw ra)) eqn:S5; [discriminate|].
  destruct (negb (eqb (aex la) (aex ra)) &&
            negb (aw match cl' with Some c => enf_ann c la | None => la end =?
                  aw match cr' with Some c => enf_ann c ra | None => ra end)) eqn:S10; [discriminate|].
  injection H as <- <- <-.
  pose proof Ila as (Pla & Ila2 & Ila3 & Ila4). pose proof Ira as (Pra & Ira2 & Ira3 & Ira4).
  unfold unify in U.
  assert (HW : let w := aw match cl' with Some c => enf_ann c la | None => la end in
               0 < w /\ (aex la = true -> w = aw la) /\ (aex ra = true -> w = aw ra) /\
               (aex la = false -> aw la <= w) /\ (aex ra = false -> aw ra <= w)).
  { cbn zeta. cbn [andb] in U. destruct (aw la =? aw ra) eqn:Q.
    { injection U as <- <-. repeat split; auto; intros; lia. }
    destruct (aex la) eqn:El, (aex ra) eqn:Er; cbn [negb andb eqb] in *.
    - discriminate.
    - destruct (aw la <? aw ra) eqn:E; [discriminate|]. injection U as <- <-. repeat split; auto; try discriminate; lia.
    - destruct (aw ra <? aw la) eqn:E; [discriminate|]. injection U as <- <-.
      rewrite aw_enf in *. rewrite El in *. cbn [negb] in *. rewrite andb_true_r in *.
      destruct (amut la); repeat split; auto; try discriminate; lia.
    - destruct (aw ra <=? aw la) eqn:E2.
      + injection U as <- <-. rewrite aw_enf. destruct (amut la && negb (aex la)); repeat split; auto; try discriminate; lia.
      + lia. }
  cbn zeta in HW. set (w := aw match cl' with Some c => enf_ann c la | None => la end) in *.
  destruct HW as (Pw & W1 & W2 & W3 & W4).
  split; [|split].
  - unfold ann_inv; cbn. repeat split; auto.
    intros Ex. apply orb_false_elim in Ex as [Exl Exr]. rewrite Ila2; auto.
  - intros [n u|z] Hv.
    + apply val_ok_bits in Hv as (Ea & -> & Wa & Ra). cbn. rewrite Ea. pose proof (W1 Ea). unfold wfn, inrange in *. repeat split; auto; lia.
    + pose proof (val_ok_int _ _ Hv) as [Pz Iz]. pose proof (val_ok_int_lt _ _ Hv Ola) as Rz.
      cbn. rewrite Iz. repeat split; auto; try discriminate.
      intros _. destruct (aex la) eqn:El.
      * rewrite W1 by auto. lia.
      * pose proof (pow2_le_mono (aw la) w ltac:(specialize (W3 eq_refl); lia)). lia.
  - intros [n u|z] Hv.
    + apply val_ok_bits in Hv as (Ea & -> & Wa & Ra). cbn. rewrite Ea, orb_true_r. pose proof (W2 Ea). unfold wfn, inrange in *. repeat split; auto; lia.
    + pose proof (val_ok_int _ _ Hv) as [Pz Iz]. pose proof (val_ok_int_lt _ _ Hv Ora) as Rz.
      cbn. rewrite Iz, orb_true_r. repeat split; auto; try discriminate.
      intros _. destruct (aex ra) eqn:Er.
      * rewrite W2 by auto. lia.
      * pose proof (pow2_le_mono (aw ra) w ltac:(specialize (W4 eq_refl); lia)). lia.
Qed.

Lemma res_ok_weaken a b r : (forall v, val_ok a v -> val_ok b v) -> res_ok a r -> res_ok b r.
Proof. intros H. destruct r as [v|[]]; cbn; auto. Qed.

Lemma mod2_range x : 0 <= x mod 2 < 2 ^ 1.
Proof. pose proof (Z.mod_pos_bound x 2 ltac:(lia)). cbn; lia. Qed.

(* ------------------------------------------------------------------------------------------ *)
(* 5. soundness of the (strict) checker for expressions                                         *)
Definition sound_at (e : expr) : Prop :=
  forall E st a l, tc strict' E e = Some (a, l) -> castfree e = true -> env_ok E st ->
    ann_inv a /\ res_ok a (eval (tsig E) st e).

Lemma sound_sig s p : sound_at (ESig s p).
Proof.
  intros E st a l Htc Hcf Henv. cbn [tc] in Htc. cbn [eval].
  destruct (lookup_sig (tsig E) s p) as [f|] eqn:L; [|discriminate].
  destruct (sig_nodes (tsig E) s (tl (rev (prefixes p)))); [|discriminate].
  destruct (wf_width (fw f)) eqn:W; [|discriminate]. injection Htc as <- <-.
  unfold wf_width in W. split.
  - unfold ann_inv, sig_ann; cbn. repeat split; try lia; discriminate.
  - cbn. pose proof (Z.mod_pos_bound (sigv st s / 2 ^ flo f) (2 ^ fw f) ltac:(apply pow2_gt0; lia)).
    unfold wfn, inrange. repeat split; auto; lia.
Qed.

Lemma lit_ann_ok z : 0 <= z -> ann_inv (lit_ann z) /\ val_ok (lit_ann z) (VInt z).
Proof.
  intros Hz. pose proof (lit_width z Hz) as (L1 & L2 & _). split.
  - unfold ann_inv, lit_ann, mk; cbn. repeat split; auto; try lia; discriminate.
  - cbn. repeat split; auto. intros _ c [= <-]; reflexivity.
Qed.

Lemma sound_lit z : sound_at (ELit z) /\ sound_at (EFree z).
Proof.
  split; intros E st a l Htc Hcf Henv; cbn [tc] in Htc; cbn [eval];
    (destruct (z <? 0) eqn:Z0; [discriminate|]); injection Htc as <- <-;
    destruct (lit_ann_ok z ltac:(lia)); split; auto.
Qed.

Lemma sound_sized n z : sound_at (ESized n z).
Proof.
  intros E st a l Htc Hcf Henv. cbn [tc] in Htc. cbn [eval castfree] in *.
  destruct ((z <? 0) || negb (wf_width n)) eqn:C; [discriminate|]. injection Htc as <- <-.
  unfold wf_width in C. assert (Hn : 1 <= n < 1024) by lia. assert (Hz : 0 <= z < 2 ^ n) by lia.
  split.
  - unfold ann_inv, mk; cbn. repeat split; try lia; discriminate.
  - unfold eval_cast, spec_init. cbn [to_operand].
    destruct ((n <? 1) || (1024 <=? n)) eqn:E1; [lia|]. cbn [spec_store]. unfold fits, vlo, vhi.
    assert (0 <= 2 ^ (n - 1)) by (apply Z.pow_nonneg; lia).
    destruct ((- 2 ^ (n - 1) <=? z) && (z <=? 2 ^ n - 1)) eqn:E2; [|lia]. cbn.
    rewrite Z.mod_small by lia. unfold wfn, inrange. repeat split; auto; lia.
Qed.

Lemma rule_bin_inv op la ra r cl cr :
  rule_bin strict' op la ra = Some (r, cl, cr) -> ann_inv la -> ann_inv ra -> ann_inv r.
Proof.
  intros H (Pla & Ila2 & _) (Pra & Ira2 & _). unfold rule_bin in H.
  destruct (is_struct la || is_struct ra || is_div op); [discriminate|].
  destruct (match (if is_shift op then Some (None, None) else unify la ra false) with Some p => Some p | None => None end)
    as [[cl' cr']|] eqn:U.
  2: { destruct (is_shift op); [discriminate|]. destruct (unify la ra false); discriminate. }
  assert (U' : (if is_shift op then Some (None, None) else unify la ra false) = Some (cl', cr')).
  { destruct (is_shift op); [exact U|]. destruct (unify la ra false); [exact U|discriminate]. }
  rewrite U' in H. clear U U'.
  destruct (strict' 0%nat && is_shift op && aex la && negb (if aex ra then aw ra =? aw la else aw ra <=? aw la)); [discriminate|].
  assert (Hmi : (if is_shift op then aex la else aex la || aex ra) = false ->
                (if is_shift op then aint la else aint la && aint ra) = true).
  { destruct (is_shift op); [auto|]. intros Ex. apply orb_false_elim in Ex as [? ?]. rewrite Ila2, Ira2; auto. }
  assert (Hw : 0 < (if is_shift op then aw la else Z.max (aw la) (aw ra))) by (destruct (is_shift op); lia).
  destruct (acv la) as [x|]; [destruct (acv ra) as [y|]|].
  - destruct (int_fold op x y) as [v|]; [|discriminate]. cbn [andb] in H.
    destruct ((if is_shift op then aex la else aex la || aex ra) || (v <? 0)) eqn:C; [discriminate|].
    injection H as <- <- <-. apply orb_false_elim in C as [C1 C2].
    pose proof (nbits_of_pos v). unfold ann_inv, mk; cbn. rewrite C1. repeat split; auto; discriminate.
  - destruct (strict' 3%nat && (if is_shift op then aint la else aint la && aint ra) && match op with Sub => true | _ => false end); [discriminate|].
    injection H as <- <- <-. unfold ann_inv; cbn. repeat split; auto.
  - destruct (strict' 3%nat && (if is_shift op then aint la else aint la && aint ra) && match op with Sub => true | _ => false end); [discriminate|].
    injection H as <- <- <-. unfold ann_inv; cbn. repeat split; auto.
Qed.

Lemma okc_true (r : typed) : okc strict' r = true -> aovf (fst r) = false.
Proof. unfold okc. cbn. destruct (aovf (fst r)); [discriminate|reflexivity]. Qed.

Lemma sound_bin op a b : sound_at a -> sound_at b -> sound_at (EBin op a b).
Proof.
  intros IHa IHb E st r0 l Htc Hcf Henv. cbn [tc] in Htc. cbn [eval castfree] in *.
  apply andb_prop in Hcf as [Hca Hcb].
  destruct (tc strict' E a) as [ra|] eqn:Ta; [|discriminate].
  destruct (tc strict' E b) as [rb|] eqn:Tb; [|discriminate].
  destruct (okc strict' ra && okc strict' rb) eqn:Ok; [|discriminate]. cbn [negb] in Htc.
  apply andb_prop in Ok as [Oa Ob]. apply okc_true in Oa, Ob.
  destruct (rule_bin strict' op (fst ra) (fst rb)) as [[[r cl] cr]|] eqn:R; [|discriminate].
  destruct (enforce_ok strict' cl ra && enforce_ok strict' cr rb); [|discriminate]. injection Htc as <- <-.
  destruct ra as [ra la], rb as [rb lb]. cbn [fst] in *.
  destruct (IHa E st ra la Ta Hca Henv) as [Ia Ra]. destruct (IHb E st rb lb Tb Hcb Henv) as [Ib Rb].
  split.
  - eapply rule_bin_inv; eauto.
  - apply (res_ok_bind ra); [exact Ra|]. intros va _ Va. apply (res_ok_bind rb); [exact Rb|]. intros vb _ Vb.
    eapply rule_bin_sound; eauto.
Qed.

Lemma sound_cmp op a b : sound_at a -> sound_at b -> sound_at (ECmp op a b).
Proof.
  intros IHa IHb E st r0 l Htc Hcf Henv. cbn [tc] in Htc. cbn [eval castfree] in *.
  apply andb_prop in Hcf as [Hca Hcb].
  destruct (tc strict' E a) as [ra|] eqn:Ta; [|discriminate].
  destruct (tc strict' E b) as [rb|] eqn:Tb; [|discriminate].
  destruct (okc strict' ra && okc strict' rb) eqn:Ok; [|discriminate]. cbn [negb] in Htc.
  apply andb_prop in Ok as [Oa Ob]. apply okc_true in Oa, Ob.
  destruct (rule_cmp (fst ra) (fst rb)) as [[[r cl] cr]|] eqn:R; [|discriminate].
  destruct (enforce_ok strict' cl ra && enforce_ok strict' cr rb); [|discriminate]. injection Htc as <- <-.
  destruct ra as [ra la], rb as [rb lb]. cbn [fst] in *.
  destruct (IHa E st ra la Ta Hca Henv) as [Ia Ra]. destruct (IHb E st rb lb Tb Hcb Henv) as [Ib Rb].
  split.
  - unfold rule_cmp in R. destruct (is_struct ra || is_struct rb); [discriminate|].
    destruct (unify ra rb false) as [[? ?]|]; [|discriminate]. injection R as <- _ _.
    unfold ann_inv, mk; cbn. repeat split; auto; try lia; discriminate.
  - apply (res_ok_bind ra); [exact Ra|]. intros va _ Va. apply (res_ok_bind rb); [exact Rb|]. intros vb _ Vb.
    eapply rule_cmp_sound; eauto.
Qed.

Lemma sound_inv a : sound_at a -> sound_at (EInv a).
Proof.
  intros IHa E st r0 l Htc Hcf Henv. cbn [tc] in Htc. cbn [eval castfree] in *.
  destruct (tc strict' E a) as [[ra la]|] eqn:Ta; [|discriminate]. cbn [fst] in Htc.
  destruct (is_struct ra); [discriminate|]. cbn [andb] in Htc.
  destruct (aint ra) eqn:Ai; [discriminate|]. injection Htc as <- <-.
  destruct (IHa E st ra la Ta Hcf Henv) as [(Pa & I2 & I3 & I4) Ra].
  assert (Ex : aex ra = true) by (destruct (aex ra); [reflexivity|rewrite I2 in Ai; auto; discriminate]).
  split.
  - unfold ann_inv; cbn. rewrite Ex. repeat split; auto; discriminate.
  - apply (res_ok_bind ra); [exact Ra|]. intros [n u|z] _ Va.
    + apply val_ok_bits in Va as (_ & -> & Wa & Ua). cbn. pose proof (spec_invert_range _ _ Wa Ua).
      unfold wfn, inrange in *. repeat split; auto; lia.
    + apply val_ok_int in Va as [_ Va]. congruence.
Qed.

Lemma sound_ext a n : sound_at a -> sound_at (EZext n a) /\ sound_at (ESext n a) /\ sound_at (ETrunc n a).
Proof.
  intros IHa. split; [|split]; intros E st r0 l Htc Hcf Henv; cbn [tc] in Htc; cbn [eval castfree] in *;
    (destruct (tc strict' E a) as [[ra la]|] eqn:Ta; [|discriminate]); cbn [fst] in Htc.
  - destruct (is_struct ra || (n <? aw ra) || (strict' 6%nat && negb (n <? 1024)) || negb (okc strict' (ra, la))) eqn:C; [discriminate|].
    injection Htc as <- <-. cbn in C. destruct (IHa E st ra la Ta Hcf Henv) as [(Pa & _) Ra].
    split; [unfold ann_inv, mk; cbn; repeat split; try lia; discriminate|].
    apply (res_ok_bind ra); [exact Ra|]. intros [m u|z] _ Va; [|exact I].
    apply val_ok_bits in Va as (_ & -> & Wa & Ua). cbn [eval_ext]. rewrite zext_ok' by (auto; lia). cbn.
    pose proof (pow2_le_mono (aw ra) n ltac:(lia)). unfold wfn, inrange in *. repeat split; auto; lia.
  - destruct (is_struct ra || (n <? aw ra) || (strict' 6%nat && negb (n <? 1024)) || negb (okc strict' (ra, la))) eqn:C; [discriminate|].
    injection Htc as <- <-. cbn in C. destruct (IHa E st ra la Ta Hcf Henv) as [(Pa & _) Ra].
    split; [unfold ann_inv, mk; cbn; repeat split; try lia; discriminate|].
    apply (res_ok_bind ra); [exact Ra|]. intros [m u|z] _ Va; [|exact I].
    apply val_ok_bits in Va as (_ & -> & Wa & Ua). cbn [eval_ext]. rewrite sext_ok' by (auto; lia). cbn.
    pose proof (Z.mod_pos_bound (spec_sint (aw ra) u) (2 ^ n) ltac:(apply pow2_gt0; lia)).
    unfold wfn, inrange in *. repeat split; auto; lia.
  - destruct (is_struct ra || (aw ra <? n) || (n <? 1) || negb (okc strict' (ra, la))) eqn:C; [discriminate|].
    injection Htc as <- <-. destruct (IHa E st ra la Ta Hcf Henv) as [(Pa & _) Ra].
    split; [unfold ann_inv, mk; cbn; repeat split; try lia; discriminate|].
    apply (res_ok_bind ra); [exact Ra|]. intros [m u|z] _ Va; [|exact I].
    apply val_ok_bits in Va as (_ & -> & Wa & Ua). cbn [eval_ext]. unfold wfn in Wa. rewrite trunc_ok' by lia. cbn.
    pose proof (Z.mod_pos_bound u (2 ^ n) ltac:(apply pow2_gt0; lia)).
    unfold wfn, inrange in *. repeat split; auto; lia.
Qed.

Lemma sound_red op a : sound_at a -> sound_at (ERed op a).
Proof.
  intros IHa E st r0 l Htc Hcf Henv. cbn [tc] in Htc. cbn [eval castfree] in *.
  destruct (tc strict' E a) as [[ra la]|] eqn:Ta; [|discriminate]. cbn [fst] in Htc.
  destruct (is_struct ra || negb (okc strict' (ra, la))); [discriminate|]. injection Htc as <- <-.
  destruct (IHa E st ra la Ta Hcf Henv) as [_ Ra].
  split; [unfold ann_inv, mk; cbn; repeat split; try lia; discriminate|].
  apply (res_ok_bind ra); [exact Ra|]. intros [m u|z] _ Va.
  2: { cbn [eval_red]. destruct op; [exact I| |destruct (z <? 0); [exact I|]]; cbn [res_ok val_ok mk aw aex].
       - pose proof (b2z_range (negb (z =? 0))). unfold wfn, inrange. repeat split; auto; lia.
       - replace (Z.land (popcount_loop (Z.to_nat (Z.log2 z + 1)) z 0) 1) with ((popcount_loop (Z.to_nat (Z.log2 z + 1)) z 0) mod 2).
         + pose proof (mod2_range (popcount_loop (Z.to_nat (Z.log2 z + 1)) z 0)). unfold wfn, inrange. repeat split; auto; lia.
         + change 2 with (2 ^ 1). rewrite <- Z.land_ones by lia. reflexivity. }
  cbn [eval_red res_ok]. destruct op; cbn [h_reduce_and h_reduce_or h_reduce_xor fst snd val_ok mk aw aex].
  - pose proof (b2z_range (u =? Z.shiftl 1 m - 1)). unfold wfn, inrange. repeat split; auto; lia.
  - pose proof (b2z_range (negb (u =? 0))). unfold wfn, inrange. repeat split; auto; lia.
  - replace (Z.land (popcount_loop (Z.to_nat m) u 0) 1) with ((popcount_loop (Z.to_nat m) u 0) mod 2).
    + pose proof (mod2_range (popcount_loop (Z.to_nat m) u 0)). unfold wfn, inrange. repeat split; auto; lia.
    + symmetry. change 1 with (Z.ones 1) at 1. rewrite Z.land_ones by lia. reflexivity.
Qed.

Lemma sound_if c a b : sound_at c -> sound_at a -> sound_at b -> sound_at (EIf c a b).
Proof.
  intros IHc IHa IHb E st r0 l Htc Hcf Henv. cbn [tc] in Htc. cbn [eval castfree] in *.
  apply andb_prop in Hcf as [Hcf Hcb]. apply andb_prop in Hcf as [Hcc Hca].
  destruct (tc strict' E c) as [[rc lc]|] eqn:Tc; [|discriminate].
  destruct (tc strict' E a) as [[ra la]|] eqn:Ta; [|discriminate].
  destruct (tc strict' E b) as [[rb lb]|] eqn:Tb; [|discriminate].
  destruct (okc strict' (rc, lc) && okc strict' (ra, la) && okc strict' (rb, lb)) eqn:Ok; [|discriminate]. cbn [negb fst] in Htc.
  apply andb_prop in Ok as [Ok Ob]. apply andb_prop in Ok as [Oc Oa]. apply okc_true in Oa, Ob. cbn [fst] in *.
  destruct (rule_if strict' rc ra rb) as [[[r cl] cr]|] eqn:R; [|discriminate].
  destruct (enforce_ok strict' cl (ra, la) && enforce_ok strict' cr (rb, lb)); [|discriminate]. injection Htc as <- <-.
  destruct (IHc E st rc lc Tc Hcc Henv) as [_ Rc].
  destruct (IHa E st ra la Ta Hca Henv) as [Ia Ra]. destruct (IHb E st rb lb Tb Hcb Henv) as [Ib Rb].
  destruct (rule_if_sound rc ra rb r cl cr R Ia Ib Oa Ob) as (Ir & Ha & Hb).
  split; [exact Ir|].
  apply (res_ok_bind rc); [exact Rc|]. intros vc _ _.
  destruct (truthy vc); [apply (res_ok_weaken ra)|apply (res_ok_weaken rb)]; auto.
Qed.

Lemma sound_tmp i : sound_at (ETmp i).
Proof.
  intros E st r0 l Htc Hcf [Ht _]. cbn [tc] in Htc. cbn [eval].
  destruct (ttmp E i) as [[[[w ex] mi] bo]|] eqn:T; [|discriminate]. injection Htc as <- <-.
  destruct (Ht i w ex mi bo T) as (Pw & Hm & Hv). split.
  - unfold ann_inv; cbn. repeat split; auto; discriminate.
  - destruct (tmpv st i) as [v|] eqn:V; cbn; [apply Hv; reflexivity|exact I].
Qed.

Lemma sound_loop i : sound_at (ELoop i).
Proof.
  intros E st r0 l Htc Hcf [_ Hl]. cbn [tc] in Htc. cbn [eval].
  destruct (tloop E i) as [w|] eqn:T; [|discriminate]. injection Htc as <- <-.
  destruct (Hl i w T) as (Pw & Hv). split.
  - unfold ann_inv, mk; cbn. repeat split; auto; discriminate.
  - destruct (loopv st i) as [z|] eqn:V; cbn; [|exact I]. specialize (Hv z eq_refl). repeat split; auto; try lia; discriminate.
Qed.

Lemma sound_cast n a : sound_at (ECast n a).
Proof. intros E st r0 l Htc Hcf. cbn in Hcf. discriminate. Qed.

Lemma sound_idx a i : sound_at a -> sound_at i -> sound_at (EIdx a i).
Proof.
  intros IHa IHi E st r0 l Htc Hcf Henv. cbn [tc] in Htc. cbn [eval castfree] in *.
  apply andb_prop in Hcf as [Hca Hci].
  destruct (tc strict' E a) as [[ra la]|] eqn:Ta; [|discriminate].
  destruct (tc strict' E i) as [[ri li]|] eqn:Ti; [|discriminate]. cbn [fst] in Htc. cbn zeta in Htc.
  destruct (negb (asig ra) || is_struct ra || is_struct ri || negb (okc strict' (ra, la))); [discriminate|].
  destruct (index_ext (aw ra) ri true) as [c|]; [|discriminate].
  destruct (match acv ri with Some k => (0 <=? k) && (k <? aw ra) | None => true end && enforce_ok strict' c (ri, li)); [|discriminate].
  injection Htc as <- <-.
  destruct (IHa E st ra la Ta Hca Henv) as [_ Ra]. destruct (IHi E st ri li Ti Hci Henv) as [_ Ri].
  split; [unfold ann_inv, mk; cbn; repeat split; try lia; discriminate|].
  apply (res_ok_bind ra); [exact Ra|]. intros va _ Va. apply (res_ok_bind ri); [exact Ri|]. intros vi _ Vi.
  destruct va as [n u|z]; [|exact I]. cbn [eval_index spec_getitem].
  destruct ((0 <=? value_int vi) && (value_int vi <? n)); [|exact I]. cbn.
  pose proof (mod2_range (u / 2 ^ value_int vi)). unfold wfn, inrange. repeat split; auto; lia.
Qed.

Lemma slice_width_sound E st rl rh lo hi wA w zl zh :
  slice_width strict' (tc strict' E) wA rl rh lo hi = Some w ->
  ann_inv rl -> ann_inv rh -> val_ok rl (VInt zl) -> val_ok rh (VInt zh) ->
  eval (tsig E) st lo = Ok (VInt zl) -> eval (tsig E) st hi = Ok (VInt zh) ->
  0 < w /\ zh - zl = w.
Proof.
  intros H Il Ih Vl Vh El Eh. unfold slice_width in H.
  assert (Stride : match hi with
      | EBin Add x y =>
          if strict' 12%nat && negb (match y with ELit _ | EFree _ => true | _ => false end) then None else
          match tc strict' E y with
          | Some ry => match acv (fst ry) with
                       | Some k => if expr_eqb lo x && (0 <? k) then Some k else None
                       | None => None end
          | None => None
          end
      | _ => None
      end = Some w -> 0 < w /\ zh - zl = w).
  { clear H. intros H. destruct hi; try discriminate. destruct op; try discriminate. cbn [andb] in H.
    assert (G : forall k', (hi2 = ELit k' \/ hi2 = EFree k') -> 0 < w /\ zh - zl = w).
    { intros k' Hy. assert (T : tc strict' E hi2 = if k' <? 0 then None else Some (lit_ann k', [])) by (destruct Hy as [-> | ->]; reflexivity).
      assert (V : eval (tsig E) st hi2 = Ok (VInt k')) by (destruct Hy as [-> | ->]; reflexivity).
      assert (H' : match tc strict' E hi2 with
                   | Some ry => match acv (fst ry) with
                                | Some k => if expr_eqb lo hi1 && (0 <? k) then Some k else None
                                | None => None end
                   | None => None end = Some w) by (destruct Hy as [-> | ->]; exact H).
      rewrite T in H'. destruct (k' <? 0); [discriminate|]. cbn [fst lit_ann mk acv] in H'.
      destruct (expr_eqb lo hi1 && (0 <? k')) eqn:C; [|discriminate]. injection H' as <-.
      apply andb_prop in C as [C1 C2]. apply expr_eqb_eq in C1. subst hi1.
      cbn [eval] in Eh. rewrite El, V in Eh. cbn in Eh. injection Eh as <-. lia. }
    destruct hi2; try discriminate; eapply G; eauto. }
  destruct (acv rl) as [l|] eqn:Cl; [destruct (acv rh) as [h|] eqn:Ch|]; auto.
  destruct ((0 <=? l) && (l <? h) && (h <=? wA)) eqn:C; [|discriminate]. injection H as <-.
  pose proof (val_ok_cv _ _ _ Vl Il Cl). pose proof (val_ok_cv _ _ _ Vh Ih Ch). lia.
Qed.

Lemma slice_width_pos chk tcf wA rl rh lo hi w : slice_width chk tcf wA rl rh lo hi = Some w -> 0 < w.
Proof.
  unfold slice_width. intros SW.
  assert (Stride : match hi with
      | EBin Add x y =>
          if chk 12%nat && negb (match y with ELit _ | EFree _ => true | _ => false end) then None else
          match tcf y with
          | Some ry => match acv (fst ry) with
                       | Some k => if expr_eqb lo x && (0 <? k) then Some k else None
                       | None => None end
          | None => None
          end
      | _ => None
      end = Some w -> 0 < w).
  { clear SW. intros H. destruct hi; try discriminate. destruct op; try discriminate.
    destruct (chk 12%nat && negb match hi2 with ELit _ | EFree _ => true | _ => false end); [discriminate|].
    destruct (tcf hi2) as [ry|]; [|discriminate]. destruct (acv (fst ry)); [|discriminate].
    destruct (expr_eqb lo hi1 && (0 <? z)) eqn:C; [|discriminate]. injection H as <-. lia. }
  destruct (acv rl) as [l0|]; [destruct (acv rh) as [h0|]|]; auto.
  destruct ((0 <=? l0) && (l0 <? h0) && (h0 <=? wA)) eqn:C; [|discriminate]. injection SW as <-. lia.
Qed.

Lemma sound_slice a lo hi : sound_at a -> sound_at lo -> sound_at hi -> sound_at (ESlice a lo hi).
Proof.
  intros IHa IHl IHh E st r0 l Htc Hcf Henv. cbn [tc] in Htc. cbn [eval castfree] in *.
  apply andb_prop in Hcf as [Hcf Hch]. apply andb_prop in Hcf as [Hca Hcl].
  destruct (tc strict' E a) as [[ra la]|] eqn:Ta; [|discriminate].
  destruct (tc strict' E lo) as [[rl ll]|] eqn:Tl; [|discriminate].
  destruct (tc strict' E hi) as [[rh lh]|] eqn:Th; [|discriminate]. cbn [fst] in Htc. cbn zeta in Htc.
  destruct (negb (asig ra) || is_struct ra || is_struct rl || is_struct rh || negb (okc strict' (ra, la))); [discriminate|].
  cbn [andb] in Htc. destruct (aex rl || aex rh) eqn:S12; [discriminate|]. apply orb_false_elim in S12 as [Exl Exh].
  destruct (acv ra); [discriminate|].
  destruct (index_ext (aw ra) rl true) as [c1|]; [|discriminate].
  destruct (index_ext (aw ra) rh false) as [c2|]; [|discriminate].
  destruct (slice_width strict' (tc strict' E) (aw ra) rl rh lo hi) as [w|] eqn:SW; [|discriminate].
  destruct (enforce_ok strict' c1 (rl, ll) && enforce_ok strict' c2 (rh, lh)); [|discriminate]. injection Htc as <- <-.
  destruct (IHa E st ra la Ta Hca Henv) as [_ Ra].
  destruct (IHl E st rl ll Tl Hcl Henv) as [Il Rl]. destruct (IHh E st rh lh Th Hch Henv) as [Ih Rh].
  assert (G : forall va vl vh, eval (tsig E) st lo = Ok vl -> eval (tsig E) st hi = Ok vh ->
              val_ok ra va -> val_ok rl vl -> val_ok rh vh -> 0 < w /\ res_ok (mk w true false None false false) (eval_slice va vl vh)).
  { intros va vl vh El Eh Va Vl Vh.
    destruct (val_ok_implicit _ _ Vl Exl) as [zl ->]. destruct (val_ok_implicit _ _ Vh Exh) as [zh ->].
    destruct (slice_width_sound E st rl rh lo hi (aw ra) w zl zh SW Il Ih Vl Vh El Eh) as [Pw Hw].
    split; [exact Pw|]. destruct va as [n u|z]; [|exact I].
    apply val_ok_bits in Va as (_ & -> & Wa & Ua).
    cbn [eval_slice spec_getitem step_trivial negb bound value_int]. unfold valid_range.
    destruct ((0 <=? zl) && (zl <? zh) && (zh <=? aw ra)) eqn:C; [|exact I]. cbn.
    pose proof (Z.mod_pos_bound (u / 2 ^ zl) (2 ^ (zh - zl)) ltac:(apply pow2_gt0; lia)).
    unfold wfn, inrange in *. repeat split; auto; lia. }
  split.
  - pose proof (slice_width_pos _ _ _ _ _ _ _ _ SW). unfold ann_inv, mk; cbn. repeat split; auto; discriminate.
  - apply (res_ok_bind ra); [exact Ra|]. intros va _ Va.
    apply (res_ok_bind rl); [exact Rl|]. intros vl El Vl.
    apply (res_ok_bind rh); [exact Rh|]. intros vh Eh Vh.
    apply (G va vl vh El Eh Va Vl Vh).
Qed.

Definition castfree_list := fix go (l : list expr) : bool := match l with [] => true | x :: r => castfree x && go r end.

Lemma concat_list_sound E st es : Forall sound_at es -> env_ok E st ->
  forall w ns, tc_list (tc strict' E) (okc strict') es = Some (w, ns) -> castfree_list es = true ->
    0 <= w /\ (es <> [] -> 0 < w) /\
    match eval_list (eval (tsig E) st) es with
    | Ok vs => match bits_list vs with
               | Some xs => Forall wfpair xs /\ fold_right Z.add 0 (map fst xs) = w
               | None => True end
    | Err EValue => False
    | Err _ => True
    end.
Proof.
  intros HF Henv. induction HF as [|x r Hx Hr IH]; intros w ns Htc Hcf.
  - cbn in Htc. injection Htc as <- <-. cbn. repeat split; auto; try lia. congruence.
  - cbn [tc_list] in Htc. cbn [castfree_list] in Hcf. apply andb_prop in Hcf as [Hcx Hcr].
    destruct (tc strict' E x) as [[rx lx]|] eqn:Tx; [|discriminate].
    destruct (tc_list (tc strict' E) (okc strict') r) as [[w' ns']|] eqn:Tr; [|discriminate]. cbn [fst] in Htc.
    destruct (is_struct rx || negb (okc strict' (rx, lx))); [discriminate|]. injection Htc as <- <-.
    destruct (Hx E st rx lx Tx Hcx Henv) as [(Px & _) Rx].
    destruct (IH w' ns' eq_refl Hcr) as (Pw & _ & Hev).
    split; [lia|]. split; [intros _; lia|].
    cbn [eval_list]. destruct (eval (tsig E) st x) as [v|e] eqn:Ex; cbn [bind]; [|destruct e; cbn in *; auto].
    cbn [res_ok] in Rx.
    destruct (eval_list (eval (tsig E) st) r) as [vs|e] eqn:Er; cbn [bind]; [|destruct e; auto].
    cbn [bits_list]. destruct v as [n u|z]; [|exact I].
    apply val_ok_bits in Rx as (_ & -> & Wn & Un).
    destruct (bits_list vs) as [xs|]; [|exact I]. destruct Hev as [Hxs Hsum].
    split; [constructor; [split; assumption|exact Hxs]|]. cbn. lia.
Qed.

Lemma sound_concat es : Forall sound_at es -> sound_at (EConcat es).
Proof.
  intros HF E st r0 l Htc Hcf Henv. cbn [tc] in Htc. cbn [eval]. change (castfree (EConcat es)) with (castfree_list es) in Hcf.
  destruct (tc_list (tc strict' E) (okc strict') es) as [[w ns]|] eqn:TL; [|discriminate].
  destruct (concat_list_sound E st es HF Henv w ns TL Hcf) as (Pw & Pw' & Hev).
  destruct es as [|x r]; [discriminate|]. cbn [andb] in Htc.
  destruct (w <? 1024) eqn:W; [|discriminate]. cbn [negb] in Htc. injection Htc as <- <-.
  specialize (Pw' ltac:(discriminate)).
  split; [unfold ann_inv, mk; cbn; repeat split; try lia; discriminate|].
  destruct (eval_list (eval (tsig E) st) (x :: r)) as [vs|e]; cbn [bind]; [|destruct e; auto].
  unfold eval_concat. destruct (bits_list vs) as [xs|]; [|exact I]. destruct Hev as [Hxs Hsum].
  destruct (concat_ok' xs Hxs ltac:(lia)) as (u & Hc & Hu). rewrite Hc, Hsum. cbn.
  unfold wfn, inrange in *. rewrite Hsum in Hu. repeat split; auto; lia.
Qed.

Theorem tc_sound_gen : forall e, sound_at e.
Proof.
  induction e using expr_ind'.
  - apply sound_sig. - apply sound_lit. - apply sound_sized. - apply sound_lit. - apply sound_cast.
  - apply sound_bin; assumption. - apply sound_cmp; assumption. - apply sound_inv; assumption.
  - apply sound_slice; assumption. - apply sound_idx; assumption. - apply sound_concat; assumption.
  - apply sound_ext; assumption. - apply sound_ext; assumption. - apply sound_ext; assumption.
  - apply sound_red; assumption. - apply sound_if; assumption. - apply sound_tmp. - apply sound_loop.
Qed.

(* ------------------------------------------------------------------------------------------ *)
(* 6. the statement of the property: widths are the real widths, no width error                 *)
Theorem tc_sound E st e a l :
  tc strict E e = Some (a, l) -> castfree e = true -> env_ok E st ->
  eval (tsig E) st e <> Err EValue /\
  (forall n u, eval (tsig E) st e = Ok (VBits n u) -> n = aw a /\ 0 < n < 1024 /\ 0 <= u < 2 ^ n) /\
  (forall z, eval (tsig E) st e = Ok (VInt z) -> 0 <= z /\ (aovf a = false -> z < 2 ^ aw a)).
Proof.
  intros Htc Hcf Henv. destruct (tc_sound_gen e E st a l Htc Hcf Henv) as [_ R].
  destruct (eval (tsig E) st e) as [v|er]; cbn in R.
  - split; [discriminate|]. split.
    + intros n u [= ->]. cbn in R. unfold wfn, inrange in R. intuition.
    + intros z [= ->]. cbn in R. intuition.
  - split; [destruct er; try discriminate; contradiction|]. split; intros; discriminate.
Qed.

(* sub-expressions *)
Definition children (e : expr) : list expr :=
  match e with
  | ESig _ _ | ELit _ | ESized _ _ | EFree _ | ETmp _ | ELoop _ => []
  | ECast _ a | EInv a | EZext _ a | ESext _ a | ETrunc _ a | ERed _ a => [a]
  | EBin _ a b | ECmp _ a b | EIdx a b => [a; b]
  | ESlice a b c | EIf a b c => [a; b; c]
  | EConcat es => es
  end.

Inductive subexpr : expr -> expr -> Prop :=
| sub_refl e : subexpr e e
| sub_step e' c e : subexpr e' c -> In c (children e) -> subexpr e' e.

Lemma tc_list_in chk E es w ns : tc_list (tc chk E) (okc chk) es = Some (w, ns) ->
  forall c, In c es -> exists r, tc chk E c = Some r.
Proof.
  revert w ns. induction es as [|x r IH]; intros w ns H c Hc; [contradiction|].
  cbn [tc_list] in H. destruct (tc chk E x) as [rx|] eqn:Tx; [|discriminate].
  destruct (tc_list (tc chk E) (okc chk) r) as [[w' ns']|] eqn:Tr; [|discriminate].
  destruct Hc as [<-|Hc]; [eauto|]. eapply IH; eauto.
Qed.

Lemma tc_children chk E e r : tc chk E e = Some r -> forall c, In c (children e) -> exists r', tc chk E c = Some r'.
Proof.
  intros H c Hc. destruct e; cbn [children] in Hc; cbn [tc] in H;
    repeat match goal with
           | H : In _ [] |- _ => contradiction
           | H : In _ (_ :: _) |- _ => destruct H as [<- | H]
           | H : match tc chk E ?x with Some _ => _ | None => _ end = Some _ |- _ =>
               let T := fresh "T" in destruct (tc chk E x) eqn:T; [|discriminate]
           end; eauto.
  (* EConcat *)
  destruct (tc_list (tc chk E) (okc chk) es) as [[w ns]|] eqn:TL; [|discriminate].
  eapply tc_list_in; eauto.
Qed.

Lemma castfree_children e : castfree e = true -> forall c, In c (children e) -> castfree c = true.
Proof.
  intros H c Hc. destruct e; cbn [children] in Hc; cbn [castfree] in H; try discriminate;
    repeat match goal with
           | H : In _ [] |- _ => contradiction
           | H : In _ (_ :: _) |- _ => destruct H as [<- | H]
           | H : _ && _ = true |- _ => apply andb_prop in H as [? ?]
           end; auto.
  change (castfree_list es = true) in H. induction es as [|x r IH]; [contradiction|].
  cbn in H. apply andb_prop in H as [Hx Hr]. destruct Hc as [<-|Hc]; auto.
Qed.

Theorem tc_sound_sub E st e a l e' :
  tc strict E e = Some (a, l) -> castfree e = true -> env_ok E st -> subexpr e' e ->
  exists a' l', tc strict E e' = Some (a', l') /\
    eval (tsig E) st e' <> Err EValue /\
    (forall n u, eval (tsig E) st e' = Ok (VBits n u) -> n = aw a' /\ 0 < n < 1024 /\ 0 <= u < 2 ^ n) /\
    (forall z, eval (tsig E) st e' = Ok (VInt z) -> 0 <= z /\ (aovf a' = false -> z < 2 ^ aw a')).
Proof.
  intros Htc Hcf Henv Hs. revert a l Htc Hcf. induction Hs as [e|e' c e Hs IH Hin]; intros a l Htc Hcf.
  - exists a, l. split; [exact Htc|]. eapply tc_sound; eauto.
  - destruct (tc_children _ _ _ _ Htc c Hin) as [[a' l'] Tc].
    eapply IH; eauto. eapply castfree_children; eauto.
Qed.

(* ------------------------------------------------------------------------------------------ *)
(* 7. assignment statements                                                                      *)
Definition compat (L R : ann) : Prop := (aex R = true -> aw R = aw L) /\ (aex R = false -> aw R <= aw L).

Lemma assign_sig_compat rl r ns : assign_sig strict' rl r = Some ns -> compat (fst rl) (fst r).
Proof.
  unfold assign_sig. cbn zeta.
  destruct (astr (fst rl)) as [x|], (astr (fst r)) as [y|]; try discriminate.
  - destruct (Nat.eqb x y && (aw (fst rl) =? aw (fst r))) eqn:C; [|discriminate]. intros _.
    apply andb_prop in C as [_ C]. split; intros; lia.
  - destruct (aex (fst r)) eqn:Ex; cbn [negb andb].
    + destruct (negb (aw (fst r) =? aw (fst rl))) eqn:C1; [discriminate|]. intros _. split; intros; [lia|congruence].
    + intros H'. split; intros Ex'; [congruence|].
      destruct (aw (fst rl) <? aw (fst r)) eqn:C2; [|lia].
      exfalso. revert H'.
      match goal with |- context [if ?c then None else None] => destruct c end; discriminate.
Qed.

Lemma tc_assign_sig E l e E' ns :
  tc_assign strict' E l e = Some (E', ns) -> (forall i, l <> LTmp i) ->
  exists le rl r, lhs_expr l = Some le /\ tc strict' E le = Some rl /\ tc strict' E e = Some r /\ E' = E /\
                  aovf (fst r) = false /\ compat (fst rl) (fst r).
Proof.
  intros H Hl. unfold tc_assign in H.
  destruct (tc strict' E e) as [r|] eqn:Te; [|discriminate]. cbn [andb] in H.
  destruct (aovf (fst r)) eqn:Ov; [discriminate|].
  assert (H' : match lhs_expr l with
               | Some le => match tc strict' E le with
                            | Some rl => match assign_sig strict' rl r with Some ns => Some (E, ns) | None => None end
                            | None => None end
               | None => None end = Some (E', ns)).
  { destruct l; try exact H. exfalso; eapply Hl; reflexivity. }
  clear H. destruct (lhs_expr l) as [le|]; [|discriminate].
  destruct (tc strict' E le) as [rl|] eqn:Tl; [|discriminate].
  destruct (assign_sig strict' rl r) as [ns'|] eqn:A; [|discriminate]. injection H' as <- <-.
  exists le, rl, r. repeat split; auto; eapply assign_sig_compat; eauto.
Qed.

Lemma store_ok L R v : val_ok R v -> 0 < aw R -> aovf R = false -> compat L R -> wfn (aw L) ->
  exists u, spec_store (aw L) (to_operand v) = Ok u /\ inrange (aw L) u.
Proof.
  intros Hv Pr Ov [C1 C2] Wl. destruct v as [n u|z]; cbn [to_operand spec_store].
  - apply val_ok_bits in Hv as (Ex & -> & _ & Hu). rewrite (C1 Ex), Z.eqb_refl in *. eauto.
  - pose proof (val_ok_int_lt _ _ Hv Ov) as Hz.
    assert (Hz' : 0 <= z < 2 ^ aw L).
    { unfold wfn in Wl. destruct (aex R) eqn:Ex; [rewrite <- (C1 eq_refl); lia|].
      specialize (C2 eq_refl). pose proof (pow2_le_mono (aw R) (aw L)). destruct Hv as (? & ?). lia. }
    unfold fits, vlo, vhi. unfold wfn in Wl. assert (0 <= 2 ^ (aw L - 1)) by (apply Z.pow_nonneg; lia).
    destruct ((- 2 ^ (aw L - 1) <=? z) && (z <=? 2 ^ aw L - 1)) eqn:F; [|lia].
    eexists; split; [reflexivity|]. unfold inrange. rewrite Z.mod_small; lia.
Qed.

Definition castfree_lhs (l : lhs) : bool :=
  match l with
  | LSig _ _ | LTmp _ => true
  | LSlice _ _ lo hi => castfree lo && castfree hi
  | LIndex _ _ i => castfree i
  end.

Definition stmt_res_ok (E' : tenv) (r : res state) : Prop :=
  match r with Ok st' => env_ok E' st' | Err EValue => False | Err _ => True end.

Lemma env_ok_same E st st' : tmpv st' = tmpv st -> loopv st' = loopv st -> env_ok E st -> env_ok E st'.
Proof. intros Ht Hl [H1 H2]. split; intros; rewrite ?Ht, ?Hl; eauto. Qed.

Lemma res_ok_not_evalue a r : res_ok a r -> r <> Err EValue.
Proof. destruct r as [|[]]; cbn; try discriminate; contradiction. Qed.

Lemma getitem_slice_inv n u zl zh old :
  spec_getitem n u (ISlice (Some zl) (Some zh) None) = Ok old -> valid_range n zl zh = true /\ fst old = zh - zl.
Proof.
  cbn [spec_getitem step_trivial negb bound]. destruct (valid_range n zl zh); [|discriminate]. intros [= <-]. auto.
Qed.
Lemma setitem_slice_ok n u zl zh w : valid_range n zl zh = true ->
  exists r, spec_setitem n u 0 (ISlice (Some zl) (Some zh) None) (OBits (zh - zl) w) = Ok r.
Proof.
  intros V. cbn [spec_setitem step_trivial negb bound]. rewrite V. cbn [spec_store]. rewrite Z.eqb_refl. cbn. eauto.
Qed.
Lemma getitem_int_inv n u k old :
  spec_getitem n u (IInt k) = Ok old -> (0 <=? k) && (k <? n) = true /\ fst old = 1.
Proof. cbn [spec_getitem]. destruct ((0 <=? k) && (k <? n)); [|discriminate]. intros [= <-]. auto. Qed.
Lemma setitem_int_ok n u k w : (0 <=? k) && (k <? n) = true ->
  exists r, spec_setitem n u 0 (IInt k) (OBits 1 w) = Ok r.
Proof. intros V. cbn [spec_setitem]. rewrite V. cbn. eauto. Qed.

Lemma env_ok_set_tmp E st i v R :
  env_ok E st -> ann_inv R -> aovf R = false -> val_ok R v ->
  (forall w ex mi bo, ttmp E i = Some (w, ex, mi, bo) -> w = aw R /\ ex = aex R /\ mi = aint R) ->
  forall st0, tmpv st0 = tmpv st -> loopv st0 = loopv st ->
  env_ok (set_ttmp E i (aw R, aex R, aint R, abool R)) (set_tmp st0 i v).
Proof.
  intros [H1 H2] (Pr & I2 & _) Ov Hv Hsame st0 Ht Hl. split.
  - intros j w ex mi bo. cbn. unfold upd_t, upd. destruct (Nat.eqb j i) eqn:J.
    + intros [= <- <- <- <-]. split; [exact Pr|]. split; [exact I2|]. intros v' [= <-].
      destruct v as [n u|z]; cbn in *; [tauto|]. intuition; discriminate.
    + intros T. rewrite Ht. apply (H1 j w ex mi bo T).
  - intros j w T. cbn in *. rewrite Hl. apply (H2 j w T).
Qed.

Theorem assign_sound E st lbl l e blocking E' ns :
  tc_assign strict' E l e = Some (E', ns) -> castfree e = true -> castfree_lhs l = true -> env_ok E st ->
  stmt_res_ok E' (exec_assign (tsig E) st lbl l e blocking).
Proof.
  intros H Hce Hcl Henv.
  destruct l as [s p|s p lo hi|s p ix|i].
  4: { (* temporary *)
    unfold tc_assign in H. destruct (tc strict' E e) as [[R lr]|] eqn:Te; [|discriminate]. cbn [fst andb] in H.
    destruct (aovf R) eqn:Ov; [discriminate|]. destruct (is_struct R); [discriminate|].
    destruct (tc_sound_gen e E st R lr Te Hce Henv) as [IR RR].
    cbn [exec_assign]. destruct (eval (tsig E) st e) as [v|er]; cbn [bind fst snd]; [|destruct er; cbn in *; auto].
    cbn in RR. cbn [stmt_res_ok].
    destruct (ttmp E i) as [[[[w ex] mi] bo]|] eqn:T.
    - destruct (negb (w =? aw R)) eqn:C1; [discriminate|].
      destruct (negb (eqb ex (aex R) && eqb mi (aint R))) eqn:C2; [discriminate|]. injection H as <- _.
      apply negb_false_iff in C2. apply andb_prop in C2 as [C2 C3]. apply eqb_prop in C2, C3.
      eapply env_ok_set_tmp; eauto. intros w' ex' mi' bo' T'. rewrite T in T'. injection T' as <- <- <- <-. repeat split; auto. lia.
    - injection H as <- _. eapply env_ok_set_tmp; eauto. intros w' ex' mi' bo' T'. rewrite T in T'. discriminate. }
  all: destruct (tc_assign_sig E _ e E' ns H ltac:(intros i; discriminate)) as (le & [L ll] & [R lr] & Hle & Tl & Te & -> & Ov & Hc);
    cbn [fst] in *; cbn [lhs_expr] in Hle; injection Hle as <-;
    destruct (tc_sound_gen e E st R lr Te Hce Henv) as [IR RR]; pose proof IR as (PR & _).
  - (* signal / field *)
    cbn [tc] in Tl. cbn [exec_assign].
    destruct (lookup_sig (tsig E) s p) as [f|] eqn:Lk; [|discriminate].
    destruct (sig_nodes (tsig E) s (tl (rev (prefixes p)))); [|discriminate].
    destruct (wf_width (fw f)) eqn:W; [|discriminate]. injection Tl as <- _.
    destruct (eval (tsig E) st e) as [v|er]; cbn [bind fst snd]; [|destruct er; cbn in *; auto].
    cbn in RR. destruct (negb blocking && negb _); [exact I|].
    destruct (store_ok (sig_ann f) R v RR PR Ov Hc) as (u & Hu & _); [unfold wf_width in W; unfold wfn; cbn; lia|].
    cbn [sig_ann aw] in Hu. rewrite Hu. cbn [bind stmt_res_ok].
    eapply env_ok_same; [| |exact Henv]; destruct blocking; reflexivity.
  - (* constant / strided slice of a signal *)
    cbn [castfree_lhs] in Hcl.
    assert (Hcle : castfree (ESlice (ESig s p) lo hi) = true) by (cbn [castfree]; exact Hcl).
    destruct (tc_sound_gen _ E st L ll Tl Hcle Henv) as [IL RL].
    cbn [tc] in Tl. cbn [exec_assign]. cbn [eval] in RL.
    destruct (lookup_sig (tsig E) s p) as [f|] eqn:Lk; [|discriminate]. cbn [bind] in RL.
    destruct blocking; cbn [negb]; [|exact I].
    destruct (eval (tsig E) st lo) as [vl|er]; cbn [bind] in *; [|destruct er; cbn in *; auto].
    destruct (eval (tsig E) st hi) as [vh|er]; cbn [bind] in *; [|destruct er; cbn in *; auto].
    cbn zeta. unfold read_field in *. cbn [eval_slice value_int] in *.
    destruct (spec_getitem (fw f) ((sigv st s / 2 ^ flo f) mod 2 ^ fw f) (ISlice (Some (value_int vl)) (Some (value_int vh)) None))
      as [old|er] eqn:G; cbn [bind vbits] in *; [|destruct er; cbn in *; auto].
    apply val_ok_bits in RL as (_ & Hw & Wl & _).
    destruct (getitem_slice_inv _ _ _ _ _ G) as [V Hold].
    destruct (eval (tsig E) st e) as [v|er]; cbn [bind fst snd]; [|destruct er; cbn in *; auto].
    cbn in RR. rewrite Hw in *.
    destruct (store_ok L R v RR PR Ov Hc Wl) as (u & Hu & _). rewrite Hu. cbn [bind].
    destruct (setitem_slice_ok (fw f) ((sigv st s / 2 ^ flo f) mod 2 ^ fw f) (value_int vl) (value_int vh) u V) as [r Hr].
    rewrite <- Hold in Hr. rewrite Hr. cbn [bind stmt_res_ok].
    eapply env_ok_same; [| |exact Henv]; reflexivity.
  - (* bit of a signal *)
    cbn [castfree_lhs] in Hcl.
    assert (Hcle : castfree (EIdx (ESig s p) ix) = true) by (cbn [castfree]; exact Hcl).
    destruct (tc_sound_gen _ E st L ll Tl Hcle Henv) as [IL RL].
    cbn [tc] in Tl. cbn [exec_assign]. cbn [eval] in RL.
    destruct (lookup_sig (tsig E) s p) as [f|] eqn:Lk; [|discriminate]. cbn [bind] in RL.
    destruct blocking; cbn [negb]; [|exact I].
    destruct (eval (tsig E) st ix) as [vi|er]; cbn [bind] in *; [|destruct er; cbn in *; auto].
    cbn zeta. unfold read_field in *. cbn [eval_index value_int] in *.
    destruct (spec_getitem (fw f) ((sigv st s / 2 ^ flo f) mod 2 ^ fw f) (IInt (value_int vi)))
      as [old|er] eqn:G; cbn [bind vbits] in *; [|destruct er; cbn in *; auto].
    apply val_ok_bits in RL as (_ & Hw & Wl & _).
    destruct (getitem_int_inv _ _ _ _ G) as [V Hold].
    destruct (eval (tsig E) st e) as [v|er]; cbn [bind fst snd]; [|destruct er; cbn in *; auto].
    cbn in RR. rewrite Hold in Hw, Wl. rewrite Hw in Wl.
    destruct (store_ok L R v RR PR Ov Hc Wl) as (u & Hu & _). rewrite <- Hw in Hu. rewrite Hu. cbn [bind].
    destruct (setitem_int_ok (fw f) ((sigv st s / 2 ^ flo f) mod 2 ^ fw f) (value_int vi) u V) as [r Hr].
    rewrite Hr. cbn [bind stmt_res_ok].
    eapply env_ok_same; [| |exact Henv]; reflexivity.
Qed.

(* ------------------------------------------------------------------------------------------ *)
(* 8. completeness: a width mismatch between explicitly sized operands is rejected              *)
(* static form, for every setting of the extra checks (in particular for [impl], the model of the code) *)
Theorem tc_complete_bin chk E op a b ra rb :
  tc chk E a = Some ra -> tc chk E b = Some rb ->
  aex (fst ra) = true -> aex (fst rb) = true -> aw (fst ra) <> aw (fst rb) -> is_shift op = false ->
  tc chk E (EBin op a b) = None.
Proof.
  intros Ta Tb Ea Eb Hw Sh. cbn [tc]. rewrite Ta, Tb.
  destruct (negb (okc chk ra && okc chk rb)); [reflexivity|].
  unfold rule_bin. destruct (is_struct (fst ra) || is_struct (fst rb) || is_div op); [reflexivity|].
  rewrite Sh. unfold unify. rewrite Ea, Eb. destruct (aw (fst ra) =? aw (fst rb)) eqn:C; [lia|reflexivity].
Qed.

Theorem tc_complete_cmp chk E op a b ra rb :
  tc chk E a = Some ra -> tc chk E b = Some rb ->
  aex (fst ra) = true -> aex (fst rb) = true -> aw (fst ra) <> aw (fst rb) ->
  tc chk E (ECmp op a b) = None.
Proof.
  intros Ta Tb Ea Eb Hw. cbn [tc]. rewrite Ta, Tb.
  destruct (negb (okc chk ra && okc chk rb)); [reflexivity|].
  unfold rule_cmp. destruct (is_struct (fst ra) || is_struct (fst rb)); [reflexivity|].
  unfold unify. rewrite Ea, Eb. destruct (aw (fst ra) =? aw (fst rb)) eqn:C; [lia|reflexivity].
Qed.

Theorem tc_complete_ifexp chk E c a b rc ra rb :
  tc chk E c = Some rc -> tc chk E a = Some ra -> tc chk E b = Some rb ->
  aex (fst ra) = true -> aex (fst rb) = true -> aw (fst ra) <> aw (fst rb) ->
  abool (fst ra) || abool (fst rb) = false ->      (* neither branch is a bare comparison (rdt.Bool): the code skips the check then *)
  tc chk E (EIf c a b) = None.
Proof.
  intros Tc Ta Tb Ea Eb Hw Hb. cbn [tc]. rewrite Tc, Ta, Tb.
  destruct (negb (okc chk rc && okc chk ra && okc chk rb)); [reflexivity|].
  unfold rule_if. destruct (is_struct (fst rc) || is_struct (fst ra) || is_struct (fst rb)); [reflexivity|].
  cbn zeta. rewrite Hb. rewrite andb_false_r. cbn [andb].
  unfold unify. rewrite Ea, Eb. destruct (aw (fst ra) =? aw (fst rb)) eqn:C; [lia|]. cbn [andb]. reflexivity.
Qed.

Theorem tc_complete_assign chk E l e le rl r :
  lhs_expr l = Some le -> tc chk E le = Some rl -> tc chk E e = Some r ->
  astr (fst rl) = None -> astr (fst r) = None ->
  aex (fst r) = true -> aw (fst r) <> aw (fst rl) ->
  tc_assign chk E l e = None.
Proof.
  intros Hle Tl Te Sl Sr Er Hw. unfold tc_assign. rewrite Te.
  destruct (chk 3%nat && aovf (fst r)); [reflexivity|].
  assert (G : match lhs_expr l with
              | Some le => match tc chk E le with
                           | Some rl => match assign_sig chk rl r with Some ns => Some (E, ns) | None => None end
                           | None => None end
              | None => None end = None).
  { rewrite Hle, Tl. unfold assign_sig. cbn zeta. rewrite Sl, Sr, Er. cbn [negb andb].
    destruct (aw (fst r) =? aw (fst rl)) eqn:C; [lia|reflexivity]. }
  destruct l; try exact G. discriminate.
Qed.

(* runtime form (through the soundness theorem): if the two operands evaluate to Bits values of
   different widths — so that the simulator raises the width-mismatch ValueError — the checker rejects *)
Theorem tc_complete_bin_runtime E st op a b ra rb n u m v :
  tc strict E a = Some ra -> tc strict E b = Some rb -> castfree a = true -> castfree b = true -> env_ok E st ->
  eval (tsig E) st a = Ok (VBits n u) -> eval (tsig E) st b = Ok (VBits m v) -> n <> m -> is_shift op = false ->
  eval (tsig E) st (EBin op a b) = Err EValue /\ tc strict E (EBin op a b) = None.
Proof.
  intros Ta Tb Ca Cb Henv Ea Eb Hnm Sh. destruct ra as [ra la], rb as [rb lb].
  destruct (tc_sound_gen a E st ra la Ta Ca Henv) as [_ Ra]. destruct (tc_sound_gen b E st rb lb Tb Cb Henv) as [_ Rb].
  rewrite Ea in Ra. rewrite Eb in Rb. cbn in Ra, Rb. split.
  - cbn [eval]. rewrite Ea, Eb. cbn [bind eval_bin to_operand spec_binop].
    destruct (m =? n) eqn:C; [lia|reflexivity].
  - eapply tc_complete_bin; eauto; cbn [fst]; intuition; lia.
Qed.

Theorem tc_complete_cmp_runtime E st op a b ra rb n u m v :
  tc strict E a = Some ra -> tc strict E b = Some rb -> castfree a = true -> castfree b = true -> env_ok E st ->
  eval (tsig E) st a = Ok (VBits n u) -> eval (tsig E) st b = Ok (VBits m v) -> n <> m ->
  eval (tsig E) st (ECmp op a b) = Err EValue /\ tc strict E (ECmp op a b) = None.
Proof.
  intros Ta Tb Ca Cb Henv Ea Eb Hnm. destruct ra as [ra la], rb as [rb lb].
  destruct (tc_sound_gen a E st ra la Ta Ca Henv) as [_ Ra]. destruct (tc_sound_gen b E st rb lb Tb Cb Henv) as [_ Rb].
  rewrite Ea in Ra. rewrite Eb in Rb. cbn in Ra, Rb. split.
  - cbn [eval]. rewrite Ea, Eb. cbn [bind eval_cmp to_operand spec_cmp].
    destruct (m =? n) eqn:C; [lia|reflexivity].
  - eapply tc_complete_cmp; eauto; cbn [fst]; intuition; lia.
Qed.

(* ------------------------------------------------------------------------------------------ *)
(* 9. the statement does NOT hold for the checker as implemented ([impl]): machine-checked
      counterexamples, one per missing check (each is also found on the real code by harness/c10.py) *)
Definition G8 : decls := [ (0%nat, [], {| fw := 8; flo := 0; fstruct := None |});      (* s.a : Bits8 in  *)
                           (1%nat, [], {| fw := 8; flo := 0; fstruct := None |});      (* s.o : Bits8 out *)
                           (2%nat, [], {| fw := 2; flo := 0; fstruct := None |});      (* s.o2 : Bits2 out *)
                           (3%nat, [], {| fw := 3; flo := 0; fstruct := None |}) ].    (* s.o3 : Bits3 out *)
Definition accepted_but_raises (b : list stmt) : Prop :=
  (exists ws, check_block impl G8 b = Some ws) /\ check_block strict G8 b = None /\
  exec_block G8 b (init_state [5; 0; 0; 0]) = Err EValue.

Example cex_S1 : accepted_but_raises [SAssign 0 (LSig 1 []) (ELit 300) true].                       (* s.o @= 300 *)
Proof. split; [eexists|split]; vm_compute; reflexivity. Qed.
Example cex_S2 : accepted_but_raises [SAssign 0 (LSig 3 []) (EBin Add (ESized 8 3) (ESized 8 4)) true].   (* s.o3 @= Bits8(3) + Bits8(4) *)
Proof. split; [eexists|split]; vm_compute; reflexivity. Qed.
Example cex_S3 : accepted_but_raises [SFor 0 0 4 1 [SAssign 0 (LSig 2 []) (EBin Add (ELoop 0) (ELit 1)) true]].  (* for i in range(4): s.o2 @= i + 1 *)
Proof. split; [eexists|split]; vm_compute; reflexivity. Qed.
Example cex_S4 : accepted_but_raises [SAssign 0 (LSig 1 []) (EBin Add (ESig 0 []) (EBin Sub (ELit 1) (ELit 2))) true].  (* s.o @= s.a + (1 - 2) *)
Proof. split; [eexists|split]; vm_compute; reflexivity. Qed.
Example cex_S5 : accepted_but_raises
  [SAssign 0 (LSig 1 []) (EBin Add (ESig 0 []) (EIf (EIdx (ESig 0 []) (ELit 1)) (ELit 3) (ELit 300))) true].   (* s.o @= s.a + (3 if s.a[1] else 300) *)
Proof. split; [eexists|split]; vm_compute; reflexivity. Qed.
Example cex_S10 : accepted_but_raises
  [SAssign 0 (LSig 2 []) (EIf (EIdx (ESig 0 []) (ELit 1)) (EBin Add (ELit 1) (ELit 2)) (ESig 0 [])) true].     (* s.o2 @= (1 + 2) if s.a[1] else s.a *)
Proof. split; [eexists|split]; vm_compute; reflexivity. Qed.
