(* RTL/RtlFixed.v — the fixed-point half of C01 for designs whose blocks are all in the RTL language, with NO `sdep`
   hypothesis: Sched/CondFixed.v instantiated with the block semantics rtl_run of RTL/FootprintSound.v and the
   must-write / exposed-read analysis of RTL/FlowSound.v.

     rtl_fixed_ok               the boolean certificate of a design d (declared footprints) with translated bodies progs:
                                declared footprints cover the proved ones (rtl_cover_ok), every block assigns signals
                                with @= only, has no latch (no_latch) and its EXPOSED reads are declared reads (xcovers)
     rtl_accepted_schedule_fixed_point
                                for every accepted schedule o and every environment e on which no block raises along
                                the pass: afterwards every block is at its fixed point, running the whole pass again
                                changes no bit, and every other accepted schedule computes the same environment
   (a block that raises stops the simulation; nothing is claimed about such passes).  No axioms. *)
From Coq Require Import Permutation.
From PV Require Import Base.Prelude Bits.BitsSpec RTL.Syntax RTL.Eval.
From PV Require Import Sched.Block Sched.Confluence Sched.Accept Sched.CondFixed.
From PV Require Import RTL.Footprint RTL.FootprintSound RTL.FlowSound RTL.Design RTL.DesignProofs.
Open Scope Z_scope.

(* ---- a block that assigns signals with @= only leaves no pending <<= value ---- *)
Lemma resolve_blocking G st l e b' s lo hi w : resolve G st l e true = Ok (AWrite b' s lo hi w) -> b' = true.
Proof.
  destruct l as [s0 p|s0 p elo ehi|s0 p ix|k]; cbn [resolve]; intros Ha.
  - destruct (lookup_sig G s0 p); [|discriminate]. apply bind_ok in Ha. destruct Ha as (x & _ & Ha).
    cbn [negb andb] in Ha. apply bind_ok in Ha. destruct Ha as (u & _ & Ha). injection Ha as <- _ _ _ _. reflexivity.
  - destruct (lookup_sig G s0 p); [|discriminate]. cbn [negb] in Ha.
    apply bind_ok in Ha. destruct Ha as (x & _ & Ha). apply bind_ok in Ha. destruct Ha as (y & _ & Ha).
    destruct (valid_range _ _ _); [|discriminate].
    apply bind_ok in Ha. destruct Ha as (z & _ & Ha). apply bind_ok in Ha. destruct Ha as (u & _ & Ha).
    injection Ha as <- _ _ _ _. reflexivity.
  - destruct (lookup_sig G s0 p); [|discriminate]. cbn [negb] in Ha.
    apply bind_ok in Ha. destruct Ha as (x & _ & Ha). destruct (_ && _); [|discriminate].
    apply bind_ok in Ha. destruct Ha as (z & _ & Ha). apply bind_ok in Ha. destruct Ha as (u & _ & Ha).
    injection Ha as <- _ _ _ _. reflexivity.
  - apply bind_ok in Ha. destruct Ha as (x & _ & Ha). discriminate.
Qed.

Lemma assigns_ok_if w lbl c t f : assigns_ok_s w (SIf lbl c t f) = forallb (assigns_ok_s w) t && forallb (assigns_ok_s w) f.
Proof. reflexivity. Qed.
Lemma assigns_ok_for w id lo hi step body : assigns_ok_s w (SFor id lo hi step body) = forallb (assigns_ok_s w) body.
Proof. reflexivity. Qed.

Definition no_pending (st : state) : Prop := forall s, nxtv st s = None.

Section NoPending.
  Variable G : decls.
  Hypothesis W : wf_decls G.

  Definition np_s (s : stmt) : Prop := assigns_ok_s true s = true ->
    forall st st', st_ok st -> exec G s st = Ok st' -> no_pending st -> no_pending st'.
  Definition np_l (l : list stmt) : Prop := forallb (assigns_ok_s true) l = true ->
    forall st st', st_ok st -> exec_block G l st = Ok st' -> no_pending st -> no_pending st'.

  Lemma np_list l : Forall np_s l -> np_l l.
  Proof.
    induction 1 as [|x r Hx Hr IH]; intros A st st' S Hex N.
    - injection Hex as <-. exact N.
    - cbn [forallb] in A. apply andb_prop in A. destruct A as [Ax Ar].
      rewrite exec_block_cons in Hex. apply bind_ok in Hex. destruct Hex as (st1 & H1 & H2).
      destruct (exec_pres G x [] st st1 W S (lenv_ok_nil st) H1) as [S1 _].
      apply (IH Ar st1 st' S1 H2). apply (Hx Ax st st1 S H1 N).
  Qed.

  Lemma np_stmt s : np_s s.
  Proof.
    induction s using stmt_ind'; intros A st st' S Hex N.
    - cbn [exec] in Hex. rewrite exec_assign_resolve in Hex by assumption.
      apply bind_ok in Hex. destruct Hex as (a & Ha & Hex). injection Hex as <-.
      intros s. destruct a as [i v|b' s0 lo hi w]; [apply N|].
      assert (b' = true) as ->.
      { cbn [assigns_ok_s] in A. destruct l as [s1 p|s1 p elo ehi|s1 p ix|k].
        - apply Bool.eqb_prop in A. subst b. eapply resolve_blocking; eauto.
        - apply Bool.eqb_prop in A. subst b. eapply resolve_blocking; eauto.
        - apply Bool.eqb_prop in A. subst b. eapply resolve_blocking; eauto.
        - cbn [resolve] in Ha. apply bind_ok in Ha. destruct Ha as (x & _ & Ha). discriminate. }
      apply N.
    - rewrite assigns_ok_if in A. apply andb_prop in A. destruct A as [At Af].
      rewrite exec_if in Hex. apply bind_ok in Hex. destruct Hex as (vc & _ & Hex).
      destruct (truthy vc).
      + exact (np_list t H At (add_evs st _) st' S Hex N).
      + exact (np_list f H0 Af (add_evs st _) st' S Hex N).
    - rewrite assigns_ok_for in A. rewrite exec_for in Hex.
      assert (K : forall n i st, st_ok st -> no_pending st -> loop_exec G id step body n i st = Ok st' -> no_pending st').
      { induction n as [|n IH]; intros i st0 S0 N0 H0; cbn [loop_exec] in H0.
        - injection H0 as <-. exact N0.
        - apply bind_ok in H0. destruct H0 as (st1 & H1 & H2).
          destruct (exec_block_pres G body [] (set_loop st0 id i) st1 W S0 (lenv_ok_nil _) H1) as [S1 _].
          apply (IH (i + step) st1 S1); [|exact H2].
          exact (np_list body H A (set_loop st0 id i) st1 S0 H1 N0). }
      exact (K _ _ st S N Hex).
  Qed.

  Lemma np_block b : np_l b.
  Proof. apply np_list. apply Forall_forall. intros s _. apply np_stmt. Qed.
End NoPending.

(* ---- the blocks of a design, conditionally strongly dependent ---- *)
Section RtlFixed.
  Variable G : decls.
  Hypothesis Wb : wf_declsb G = true.

  (* block b completes on the environment e *)
  Definition rtl_ok (b : list stmt) (e : env bit bool) : Prop := exists st', exec_block G b (state_of G e) = Ok st'.
  (* the bits b really writes *)
  Definition rtl_aw (b : list stmt) (v : bit) : bool := block_wr G b v && in_sig G v.

  Lemma rtl_frame_aw b e v : rtl_aw b v = false -> rtl_run G b e v = e v.
  Proof.
    unfold rtl_aw. intros A. destruct (block_wr G b v) eqn:Wv.
    - cbn [andb] in A. unfold rtl_run. rewrite A. destruct (exec_block G b (state_of G e)); reflexivity.
    - exact (rtl_frame G Wb b e v Wv).
  Qed.

  Lemma state_rel2 (rdD : fp) e1 e2 : (forall v, mem_fp rdD v = true -> e1 v = e2 v) ->
    rel2 (mem_fp rdD) [] (state_of G e1) (state_of G e2).
  Proof.
    intros Hag. split; [|split; [intros s; exact I|split; intros i; reflexivity]].
    intros s j Hq. unfold un in Hq. cbn [mem_fp existsb] in Hq. rewrite orb_false_r in Hq.
    rewrite !state_of_bit. destruct (in_sig G (s, j)); [apply Hag; exact Hq|reflexivity].
  Qed.

  Lemma rtl_ok_ext b (rdD : fp) : xcovers rdD (xreads_d G b) = true ->
    forall e1 e2, (forall v, mem_fp rdD v = true -> e1 v = e2 v) -> rtl_ok b e1 -> rtl_ok b e2.
  Proof.
    intros X e1 e2 Hag [a Ha].
    pose proof (exec_sdep G b (mem_fp rdD) _ _ Wb (state_of_ok G e1) (xcovers_sound _ _ X) (state_rel2 rdD e1 e2 Hag)) as O.
    rewrite Ha in O. unfold rtl_ok. destruct (exec_block G b (state_of G e2)) as [c|y]; [eauto|destruct O].
  Qed.

  Lemma rtl_sdep_on b (rdD : fp) : xcovers rdD (xreads_d G b) = true -> no_latch G b = true -> assigns_ok true b = true ->
    forall e1 e2, rtl_ok b e1 -> rtl_ok b e2 -> (forall v, mem_fp rdD v = true -> e1 v = e2 v) ->
    forall v, rtl_aw b v = true -> rtl_run G b e1 v = rtl_run G b e2 v.
  Proof.
    intros X NL AO e1 e2 [a Ha] [c Hc] Hag [s j] Av.
    unfold rtl_aw in Av. apply andb_prop in Av. destruct Av as [Wv Iv].
    pose proof (exec_sdep G b (mem_fp rdD) _ _ Wb (state_of_ok G e1) (xcovers_sound _ _ X) (state_rel2 rdD e1 e2 Hag)) as O.
    rewrite Ha, Hc in O. destruct O as (A & _ & _).
    pose proof (wf_declsb_sound G Wb) as W.
    pose proof (np_block G W b AO _ a (state_of_ok G e1) Ha (fun _ => eq_refl)) as Na.
    pose proof (np_block G W b AO _ c (state_of_ok G e2) Hc (fun _ => eq_refl)) as Nc.
    unfold rtl_run. rewrite Ha, Hc, Iv. cbn [fst snd]. unfold final_sig. rewrite Na, Nc.
    apply A. unfold un. unfold no_latch in NL. rewrite (covers_sound _ _ NL _ Wv). apply orb_true_r.
  Qed.
End RtlFixed.

(* ---- the certificate and the theorem ---- *)
Definition rtl_fixed_ok (G : decls) (progs : nat -> list stmt) (d : design) : bool :=
  rtl_cover_ok G progs d &&
  forallb (fun i => assigns_ok true (progs i) && no_latch G (progs i) && xcovers (rds d i) (xreads_d G (progs i))) (ids d).

Definition rtl_R (G : decls) (progs : nat -> list stmt) (i : nat) : env bit bool -> env bit bool := rtl_run G (progs i).
(* no block raises while the pass o runs on e *)
Definition rtl_no_raise (G : decls) (progs : nat -> list stmt) (d : design) (o : list nat) (e : env bit bool) : Prop :=
  no_raise (Bd d (rtl_R G progs)) (fun i => rtl_ok G (progs i)) o e.

Theorem rtl_accepted_schedule_fixed_point (G : decls) (progs : nat -> list stmt) (d : design) :
  wf_declsb G = true -> wf_design d = true -> sw_ok d = true -> nsl_ok d = true -> noinv_ok d = true ->
  rtl_fixed_ok G progs d = true ->
  forall o, sched_ok d o = true -> forall e, rtl_no_raise G progs d o e ->
    (forall i, In i (ids d) -> fixed_under (Bd d (rtl_R G progs)) i (run_list (Bd d (rtl_R G progs)) o e)) /\
    eqe (run_list (Bd d (rtl_R G progs)) o (run_list (Bd d (rtl_R G progs)) o e)) (run_list (Bd d (rtl_R G progs)) o e) /\
    (forall o2, sched_ok d o2 = true -> eqe (run_list (Bd d (rtl_R G progs)) o2 e) (run_list (Bd d (rtl_R G progs)) o e)).
Proof.
  intros Wb Wd Sw Nsl Noinv Cert o Ho e Hnr.
  unfold rtl_fixed_ok in Cert. apply andb_prop in Cert. destruct Cert as [Cv Cf]. rewrite forallb_forall in Cf.
  assert (Cvi : forall i, In i (ids d) -> covers (rds d i) (reads_d G (progs i)) = true /\ covers (wrs d i) (writes_d G (progs i)) = true).
  { intros i Hi. unfold rtl_cover_ok in Cv. rewrite forallb_forall in Cv. specialize (Cv i Hi). apply andb_prop in Cv. exact Cv. }
  assert (Cfi : forall i, In i (ids d) -> assigns_ok true (progs i) = true /\ no_latch G (progs i) = true /\
                                         xcovers (rds d i) (xreads_d G (progs i)) = true).
  { intros i Hi. specialize (Cf i Hi). apply andb_prop in Cf. destruct Cf as [Cf C3]. apply andb_prop in Cf. tauto. }
  set (Bs := Bd d (rtl_R G progs)).
  assert (Hdep : forall i, In i (ids d) -> dep (Bs i)).
  { intros i Hi. destruct (Cvi i Hi) as [Cr Cw]. unfold Bs, Bd. apply rtl_blk_footprints; assumption. }
  pose proof (sched_ok_sound d o Ho) as [Hnd [Hp _]].
  assert (Hl : lin_ext (Eb d) o).
  { unfold sched_ok in Ho. apply andb_prop in Ho. destruct Ho as [_ L]. apply lin_ext_b_spec. exact L. }
  assert (Hin : incl o (ids d)) by (intros x Hx; apply (Permutation_in x Hp Hx)).
  assert (FP : forall i, In i o -> fixed_under Bs i (run_list Bs o e)).
  { apply (cond_fixed_point Bs (ids d) (fun i => rtl_ok G (progs i)) (fun i => rtl_aw G (progs i))) with (E := Eb d).
    - intros i v Hi A. cbn [Bs Bd wr]. unfold rtl_aw in A. apply andb_prop in A. destruct A as [A _].
      exact (covers_sound _ _ (proj2 (Cvi i Hi)) v A).
    - intros i Hi e0 v A. cbn [Bs Bd run]. apply (rtl_frame_aw G Wb). exact A.
    - exact (sw_sound d (rtl_R G progs) Wd Sw).
    - intros i Hi e1 e2 O1 O2 Hag v A. cbn [Bs Bd run rd] in *. destruct (Cfi i Hi) as (AO & NL & X).
      exact (rtl_sdep_on G Wb (progs i) (rds d i) X NL AO e1 e2 O1 O2 Hag v A).
    - intros i Hi e1 e2 Hag O1. cbn [Bs Bd rd] in *. destruct (Cfi i Hi) as (_ & _ & X).
      exact (rtl_ok_ext G Wb (progs i) (rds d i) X e1 e2 Hag O1).
    - exact (nsl_sound d (rtl_R G progs) Wd Nsl).
    - exact (noinv_sound d (rtl_R G progs) Wd Noinv).
    - exact Hnd.
    - exact Hin.
    - exact Hl.
    - exact Hnr. }
  split; [intros i Hi; apply FP; apply (Permutation_in i (Permutation_sym Hp) Hi)|]. split.
  - apply (fixed_list Bs (ids d) (fun i => rtl_aw G (progs i))).
    + intros i v Hi A. cbn [Bs Bd wr]. unfold rtl_aw in A. apply andb_prop in A. destruct A as [A _].
      exact (covers_sound _ _ (proj2 (Cvi i Hi)) v A).
    + intros i Hi e0 v A. cbn [Bs Bd run]. apply (rtl_frame_aw G Wb). exact A.
    + exact Hdep.
    + exact Hin.
    + exact FP.
  - intros o2 Ho2. apply (rtl_accepted_schedules_agree G progs d Wb Wd Sw Cv o2 o Ho2 Ho).
Qed.

(* a computable form of "block b completes on e" (for examples and tests) *)
Definition rtl_okb (G : decls) (b : list stmt) (e : env bit bool) : bool :=
  match exec_block G b (state_of G e) with Ok _ => true | Err _ => false end.
Lemma rtl_okb_sound G b e : rtl_okb G b e = true -> rtl_ok G b e.
Proof. unfold rtl_okb, rtl_ok. destruct (exec_block G b (state_of G e)) as [st'|x]; [eauto|discriminate]. Qed.
