(* RTL/FlowSound.v — soundness of the must-write / exposed-read analysis of RTL/Footprint.v (flow_s):

     exec_sdep     two states that agree on the EXPOSED reads of a block (reads not preceded, on every path, by a
                   definite write of the same bit in the block) give the same outcome — error class included — and the
                   same value for every definitely written bit, whatever those bits held before;
     rtl_sdep      hence a block without latch (no_latch: every bit it may write it definitely writes) satisfies the
                   strong dependence hypothesis `sdep` of Sched.Block for rd = its exposed reads;
     rtl_accepted_schedule_fixed_point
                   Sched.Accept.accepted_schedule_fixed_point with no footprint hypothesis left.
   Whole language of RTL/Syntax.v, unbounded nesting.  No axioms. *)
From PV Require Import Base.Prelude Bits.BitsSpec Bits.BitsLemmas Bits.SpecFacts.
From PV Require Import RTL.Syntax RTL.Eval Sched.Block Sched.Confluence Sched.Accept RTL.Footprint RTL.FootprintSound.
Open Scope Z_scope.

Lemma mem_fp_inter A B v : mem_fp (fp_inter A B) v = true -> mem_fp A v = true /\ mem_fp B v = true.
Proof.
  unfold fp_inter, mem_fp. intros H. apply existsb_exists in H. destruct H as (u & Hu & Hv).
  apply in_flat_map in Hu. destruct Hu as (a & Ha & Hu). apply in_map_iff in Hu. destruct Hu as (k & <- & Hk).
  apply filter_In in Hk. destruct Hk as [Hk Hb].
  destruct v as [r j]. unfold in_ivl in Hv. cbn [iroot ilo ihi fst snd] in Hv.
  apply andb_prop in Hv. destruct Hv as [Hv H3]. apply andb_prop in Hv. destruct Hv as [H1 H2].
  apply Nat.eqb_eq in H1. subst r. assert (j = ilo a + Z.of_nat k) as -> by lia.
  split; [|exact Hb]. apply existsb_exists. exists a. split; [exact Ha|].
  apply in_seq in Hk. unfold in_ivl. cbn [fst snd]. rewrite Nat.eqb_refl. cbn [andb]. lia.
Qed.

(* the definitely written bits of a target are among the bits the assignment really replaces *)
Lemma resolve_must G st L l e b b' s lo hi w : wf_decls G -> lenv_ok L st ->
  resolve G st l e b = Ok (AWrite b' s lo hi w) ->
  forall s' j, mem_fp (must_lhs G L l) (s', j) = true -> s' = s /\ lo <= j < hi.
Proof.
  intros W HL. destruct l as [s0 p|s0 p elo ehi|s0 p ix|k]; cbn [resolve must_lhs].
  - unfold whole_fp. destruct (lookup_sig G s0 p) as [f|] eqn:Lk; [|discriminate]. intros H.
    apply bind_ok in H. destruct H as (x & Hx & H). destruct (negb b && _); [discriminate|].
    apply bind_ok in H. destruct H as (u & Hu & H). injection H as <- <- <- <- <-.
    intros s' j Hm. rewrite mem_single in Hm. apply andb_prop in Hm. destruct Hm as [Hm H3].
    apply andb_prop in Hm. destruct Hm as [H1 H2]. apply Nat.eqb_eq in H1. split; [exact H1|lia].
  - destruct (lookup_sig G s0 p) as [f|] eqn:Lk; [|discriminate].
    destruct (negb b); [discriminate|]. intros H.
    apply bind_ok in H. destruct H as (vl & Hl & H). apply bind_ok in H. destruct H as (vh & Hh & H).
    destruct (valid_range (fw f) (value_int vl) (value_int vh)) eqn:V; [|discriminate].
    apply bind_ok in H. destruct H as (x & Hx & H). apply bind_ok in H. destruct H as (u & Hu & H).
    injection H as <- <- <- <- <-. intros s' j Hm.
    destruct (static_int L elo) as [l|] eqn:SL; [|discriminate].
    destruct (static_int L ehi) as [h|] eqn:SH; [|discriminate].
    destruct (valid_range (fw f) l h); [|discriminate].
    rewrite (static_int_sound G L st elo HL l SL) in Hl. rewrite (static_int_sound G L st ehi HL h SH) in Hh.
    injection Hl as <-. injection Hh as <-. cbn [value_int] in *.
    rewrite mem_single in Hm. apply andb_prop in Hm. destruct Hm as [Hm H3].
    apply andb_prop in Hm. destruct Hm as [H1 H2]. apply Nat.eqb_eq in H1. split; [exact H1|lia].
  - destruct (lookup_sig G s0 p) as [f|] eqn:Lk; [|discriminate].
    destruct (negb b); [discriminate|]. intros H.
    apply bind_ok in H. destruct H as (vi & Hi & H).
    destruct ((0 <=? value_int vi) && (value_int vi <? fw f)) eqn:V; [|discriminate].
    apply bind_ok in H. destruct H as (x & Hx & H). apply bind_ok in H. destruct H as (u & Hu & H).
    injection H as <- <- <- <- <-. intros s' j Hm.
    destruct (static_int L ix) as [k|] eqn:SI; [|discriminate].
    destruct ((0 <=? k) && (k <? fw f)); [|discriminate].
    rewrite (static_int_sound G L st ix HL k SI) in Hi. injection Hi as <-. cbn [value_int] in *.
    rewrite mem_single in Hm. apply andb_prop in Hm. destruct Hm as [Hm H3].
    apply andb_prop in Hm. destruct Hm as [H1 H2]. apply Nat.eqb_eq in H1. split; [exact H1|lia].
  - intros H. apply bind_ok in H. destruct H as (x & _ & H). discriminate.
Qed.

(* ---- the relation between two runs: signals agree on P and on the definitely written bits D;
        pending <<= values agree on P *)
Definition un (P : bit -> bool) (D : fp) : bit -> bool := fun v => P v || mem_fp D v.
Definition rel2 (P : bit -> bool) (D : fp) (st1 st2 : state) : Prop :=
  sig_agree (un P D) st1 st2 /\ nxt_agree P st1 st2 /\ loc_eq st1 st2.
Definition out_rel2 (P : bit -> bool) (D : fp) (r1 r2 : res state) : Prop :=
  match r1, r2 with
  | Ok a, Ok c => rel2 P D a c
  | Err x, Err y => x = y
  | _, _ => False
  end.
Definition xsub (X : xfp) (P : bit -> bool) : Prop :=
  forall F Dx v, In (F, Dx) X -> mem_fp F v = true -> mem_fp Dx v = false -> P v = true.

Lemma xsub_app X Y P : xsub (X ++ Y) P <-> xsub X P /\ xsub Y P.
Proof.
  unfold xsub. split.
  - intros H. split; intros F Dx v Hin; apply H; apply in_or_app; auto.
  - intros [H1 H2] F Dx v Hin. apply in_app_or in Hin. destruct Hin; eauto.
Qed.

Lemma rel2_weaken P D D' st1 st2 : (forall v, mem_fp D' v = true -> mem_fp D v = true) ->
  rel2 P D st1 st2 -> rel2 P D' st1 st2.
Proof.
  intros H (A & N & E). split; [|split; assumption]. intros s j Hq. apply A. unfold un in *.
  apply orb_prop in Hq. destruct Hq as [Hq|Hq]; [rewrite Hq; reflexivity|]. rewrite (H _ Hq). apply orb_true_r.
Qed.

Lemma apply_rel2 P D st1 st2 a M : rel2 P D st1 st2 ->
  (forall b s lo hi w, a = AWrite b s lo hi w -> 0 <= lo <= hi /\ 0 <= w < 2 ^ (hi - lo)) ->
  (forall s' j, mem_fp M (s', j) = true ->
     match a with AWrite true s lo hi _ => s' = s /\ lo <= j < hi | _ => False end) ->
  rel2 P (M ++ D) (apply_action st1 a) (apply_action st2 a).
Proof.
  intros (A & N & E) Ha Hm. destruct a as [i v|b s lo hi w].
  - split; [|split; [exact N|]].
    + intros s j Hq. cbn [apply_action set_tmp sigv]. apply A. unfold un in *.
      rewrite mem_fp_app in Hq. destruct (mem_fp M (s, j)) eqn:Em; [destruct (Hm s j Em)|]. exact Hq.
    + destruct E as [E1 E2]. split; [|exact E2].
      intros k. cbn [apply_action set_tmp tmpv]. unfold upd. destruct (Nat.eqb k i); [reflexivity|apply E1].
  - destruct (Ha b s lo hi w eq_refl) as (Hlh & Hw).
    destruct b; cbn [apply_action write_root set_sig set_nxt].
    + split; [|split; [exact N|exact E]].
      intros s' j Hq. cbn [sigv set_sig]. unfold upd. destruct (Nat.eqb_spec s' s) as [->|Hne].
      * rewrite !splice_bit by lia. destruct ((lo <=? j) && (j <? hi)) eqn:B; [reflexivity|].
        apply A. unfold un in *. rewrite mem_fp_app in Hq.
        destruct (mem_fp M (s, j)) eqn:Em; [destruct (Hm s j Em); lia|]. exact Hq.
      * apply A. unfold un in *. rewrite mem_fp_app in Hq.
        destruct (mem_fp M (s', j)) eqn:Em; [destruct (Hm s' j Em); contradiction|]. exact Hq.
    + assert (M0 : forall v, mem_fp M v = false).
      { intros [s' j]. destruct (mem_fp M (s', j)) eqn:Em; [destruct (Hm s' j Em)|reflexivity]. }
      split; [|split; [|exact E]].
      * intros s' j Hq. cbn [sigv]. apply A. unfold un in *. rewrite mem_fp_app, M0 in Hq. exact Hq.
      * intros s'. cbn [nxtv set_nxt]. unfold upd. destruct (Nat.eqb_spec s' s) as [->|Hne]; [|apply N].
        intros j Hj. rewrite !splice_bit by lia. destruct ((lo <=? j) && (j <? hi)); [reflexivity|].
        apply A. unfold un. rewrite Hj. reflexivity.
Qed.

Lemma rel2_set_loop P D st1 st2 id i : rel2 P D st1 st2 -> rel2 P D (set_loop st1 id i) (set_loop st2 id i).
Proof.
  intros (A & N & E1 & E2). split; [exact A|]. split; [exact N|]. split; [exact E1|].
  intros j. cbn [loopv set_loop]. unfold upd. destruct (Nat.eqb j id); [reflexivity|apply E2].
Qed.

(* ---- unfolding the analysis ---- *)
Lemma flow_assign G lbl l e b L D :
  flow_s G (SAssign lbl l e b) L D = ([(reads_lhs G L l ++ reads_e G L e, D)], if b then must_lhs G L l ++ D else D).
Proof. reflexivity. Qed.
Lemma flow_if G lbl c t f L D :
  flow_s G (SIf lbl c t f) L D =
  ((reads_e G L c, D) :: fst (flow_list (flow_s G) t L D) ++ fst (flow_list (flow_s G) f L D),
   fp_inter (snd (flow_list (flow_s G) t L D)) (snd (flow_list (flow_s G) f L D))).
Proof. reflexivity. Qed.
Lemma flow_for G id lo hi step body L D :
  flow_s G (SFor id lo hi step body) L D =
  flow_iter (fun L' D' => flow_list (flow_s G) body L' D') (fun i => (id, i) :: kill (id :: loop_ids_l body) L)
            (iter_vals (loop_count lo hi step) lo step) D.
Proof. reflexivity. Qed.
Lemma flow_list_cons f x r L D :
  flow_list f (x :: r) L D =
  (fst (f x L D) ++ fst (flow_list f r (kill (loop_ids_s x) L) (snd (f x L D))),
   snd (flow_list f r (kill (loop_ids_s x) L) (snd (f x L D)))).
Proof. reflexivity. Qed.
Lemma flow_iter_cons f mk i r D :
  flow_iter f mk (i :: r) D =
  (fst (f (mk i) D) ++ fst (flow_iter f mk r (snd (f (mk i) D))), snd (flow_iter f mk r (snd (f (mk i) D)))).
Proof. reflexivity. Qed.

Section TwoRuns2.
  Variables (G : decls) (P : bit -> bool).
  Hypothesis W : wf_decls G.

  Definition two2_s (s : stmt) : Prop :=
    forall L D st1 st2, st_ok st1 -> lenv_ok L st1 -> rel2 P D st1 st2 -> xsub (fst (flow_s G s L D)) P ->
      out_rel2 P (snd (flow_s G s L D)) (exec G s st1) (exec G s st2).
  Definition two2_l (l : list stmt) : Prop :=
    forall L D st1 st2, st_ok st1 -> lenv_ok L st1 -> rel2 P D st1 st2 -> xsub (fst (flow_list (flow_s G) l L D)) P ->
      out_rel2 P (snd (flow_list (flow_s G) l L D)) (exec_block G l st1) (exec_block G l st2).

  Lemma two2_list l : Forall two2_s l -> two2_l l.
  Proof.
    induction 1 as [|x r Hx Hr IH]; intros L D st1 st2 S HL R Sb.
    - exact R.
    - rewrite !exec_block_cons. rewrite flow_list_cons in *. cbn [fst snd] in *.
      apply xsub_app in Sb. destruct Sb as [Sx Sr].
      pose proof (Hx L D st1 st2 S HL R Sx) as Ox. unfold out_rel2 in Ox.
      destruct (exec G x st1) as [a|x1] eqn:E1; destruct (exec G x st2) as [b|x2] eqn:E2; try contradiction; cbn [bind].
      + destruct (exec_pres G x L st1 a W S HL E1) as [Sa Fa].
        apply (IH (kill (loop_ids_s x) L) _ a b Sa (lenv_ok_kill L _ st1 a HL Fa) Ox Sr).
      + exact Ox.
  Qed.

  Lemma two2_loop id step body (L1 : lenv) : two2_l body ->
    forall n i D st1 st2, st_ok st1 -> lenv_ok L1 st1 -> rel2 P D st1 st2 ->
      xsub (fst (flow_iter (fun L' D' => flow_list (flow_s G) body L' D') (fun k => (id, k) :: L1) (iter_vals n i step) D)) P ->
      (forall j z, lookup_l L1 j = Some z -> ~ In j (id :: loop_ids_l body)) ->
      out_rel2 P (snd (flow_iter (fun L' D' => flow_list (flow_s G) body L' D') (fun k => (id, k) :: L1) (iter_vals n i step) D))
               (loop_exec G id step body n i st1) (loop_exec G id step body n i st2).
  Proof.
    intros HB. induction n as [|n IH]; intros i D st1 st2 S HL R Sb HK; cbn [loop_exec iter_vals].
    - exact R.
    - rewrite flow_iter_cons in *. cbn [fst snd] in *. apply xsub_app in Sb. destruct Sb as [S1 S2].
      pose proof (HB ((id, i) :: L1) D (set_loop st1 id i) (set_loop st2 id i) S (lenv_ok_bind L1 id i st1 HL)
                    (rel2_set_loop P D st1 st2 id i R) S1) as Ob. unfold out_rel2 in Ob.
      destruct (exec_block G body (set_loop st1 id i)) as [a|x1] eqn:E1;
        destruct (exec_block G body (set_loop st2 id i)) as [b|x2] eqn:E2; try contradiction; cbn [bind].
      + destruct (exec_block_pres G body ((id, i) :: L1) (set_loop st1 id i) a W S (lenv_ok_bind L1 id i st1 HL) E1) as [Sa Fa].
        assert (HL1 : lenv_ok L1 a).
        { intros j z Hj. pose proof (HK j z Hj) as Hn.
          rewrite Fa by (intros Hin; apply Hn; right; exact Hin).
          cbn [loopv set_loop]. unfold upd. destruct (Nat.eqb_spec j id) as [->|Hne]; [|apply HL; exact Hj].
          exfalso. apply Hn. left. reflexivity. }
        apply (IH (i + step) _ a b Sa HL1 Ob S2 HK).
      + exact Ob.
  Qed.

  Lemma two2_stmt s : two2_s s.
  Proof.
    induction s using stmt_ind'; intros L D st1 st2 S HL R Sb.
    - destruct R as (A & N & E). pose proof (st_ok_eq st1 st2 E S) as S2.
      cbn [exec]. rewrite !exec_assign_resolve by assumption. rewrite flow_assign in *. cbn [fst snd] in *.
      assert (Sr : sub (reads_lhs G L l ++ reads_e G L e) (un P D)).
      { intros v Hv. unfold un. destruct (mem_fp D v) eqn:Ed; [apply orb_true_r|].
        rewrite (Sb _ D v (or_introl eq_refl) Hv Ed). reflexivity. }
      rewrite <- (resolve_dep G (un P D) st1 st2 L l e b W A E HL Sr).
      destruct (resolve G st1 l e b) as [a|x] eqn:Ha; cbn [bind out_rel2]; [|reflexivity].
      assert (Hb : forall b' s lo hi w, a = AWrite b' s lo hi w -> 0 <= lo <= hi /\ 0 <= w < 2 ^ (hi - lo)).
      { intros b' s lo hi w ->. destruct (resolve_fp G st1 L l e b b' s lo hi w W S HL Ha) as (H1 & H2 & _). split; [lia|exact H2]. }
      destruct b.
      + apply apply_rel2; [exact (conj A (conj N E))|exact Hb|].
        intros s' j Hm. destruct a as [i v|b' s lo hi w].
        * destruct l as [s0 p|s0 p elo ehi|s0 p ix|k]; cbn [resolve] in Ha.
          -- destruct (lookup_sig G s0 p); [|discriminate]. apply bind_ok in Ha. destruct Ha as (x & _ & Ha).
             cbn [negb andb] in Ha. apply bind_ok in Ha. destruct Ha as (u & _ & Ha). discriminate.
          -- destruct (lookup_sig G s0 p); [|discriminate]. cbn [negb] in Ha.
             apply bind_ok in Ha. destruct Ha as (x & _ & Ha). apply bind_ok in Ha. destruct Ha as (y & _ & Ha).
             destruct (valid_range _ _ _); [|discriminate].
             apply bind_ok in Ha. destruct Ha as (z & _ & Ha). apply bind_ok in Ha. destruct Ha as (u & _ & Ha). discriminate.
          -- destruct (lookup_sig G s0 p); [|discriminate]. cbn [negb] in Ha.
             apply bind_ok in Ha. destruct Ha as (x & _ & Ha). destruct (_ && _); [|discriminate].
             apply bind_ok in Ha. destruct Ha as (z & _ & Ha). apply bind_ok in Ha. destruct Ha as (u & _ & Ha). discriminate.
          -- cbn [must_lhs mem_fp existsb] in Hm. discriminate.
        * assert (b' = true) as ->.
          { destruct l as [s0 p|s0 p elo ehi|s0 p ix|k]; cbn [resolve] in Ha.
            - destruct (lookup_sig G s0 p); [|discriminate]. apply bind_ok in Ha. destruct Ha as (x & _ & Ha).
              cbn [negb andb] in Ha. apply bind_ok in Ha. destruct Ha as (u & _ & Ha). injection Ha as <- _ _ _ _. reflexivity.
            - destruct (lookup_sig G s0 p); [|discriminate]. cbn [negb] in Ha.
              apply bind_ok in Ha. destruct Ha as (x & _ & Ha). apply bind_ok in Ha. destruct Ha as (y & _ & Ha).
              destruct (valid_range _ _ _); [|discriminate].
              apply bind_ok in Ha. destruct Ha as (z & _ & Ha). apply bind_ok in Ha. destruct Ha as (u & _ & Ha).
              injection Ha as <- _ _ _ _. reflexivity.
            - destruct (lookup_sig G s0 p); [|discriminate]. cbn [negb] in Ha.
              apply bind_ok in Ha. destruct Ha as (x & _ & Ha). destruct (_ && _); [|discriminate].
              apply bind_ok in Ha. destruct Ha as (z & _ & Ha). apply bind_ok in Ha. destruct Ha as (u & _ & Ha).
              injection Ha as <- _ _ _ _. reflexivity.
            - apply bind_ok in Ha. destruct Ha as (x & _ & Ha). discriminate. }
          exact (resolve_must G st1 L l e true true s lo hi w W HL Ha s' j Hm).
      + change D with ([] ++ D). apply apply_rel2; [exact (conj A (conj N E))|exact Hb|].
        intros s' j Hm. discriminate.
    - rewrite !exec_if. rewrite flow_if in *. cbn [fst snd] in *.
      assert (Sc : sub (reads_e G L c) (un P D)).
      { intros v Hv. unfold un. destruct (mem_fp D v) eqn:Ed; [apply orb_true_r|].
        rewrite (Sb _ D v (or_introl eq_refl) Hv Ed). reflexivity. }
      assert (Sb' : xsub (fst (flow_list (flow_s G) t L D) ++ fst (flow_list (flow_s G) f L D)) P).
      { intros F Dx v Hin. apply (Sb F Dx v). right. exact Hin. }
      apply xsub_app in Sb'. destruct Sb' as [St Sf]. destruct R as (A & N & E).
      rewrite <- (eval_dep G (un P D) st1 st2 W A E L c HL Sc).
      destruct (eval G st1 c) as [vc|x]; cbn [bind out_rel2]; [|reflexivity].
      destruct (truthy vc).
      + match goal with |- out_rel2 _ _ (exec_block _ _ ?a) (exec_block _ _ ?b) =>
          pose proof (two2_list t H L D a b S HL (conj A (conj N E)) St) as O end.
        unfold out_rel2 in *. destruct (exec_block G t _) as [a|x1]; destruct (exec_block G t _) as [b|x2]; try exact O.
        eapply rel2_weaken; [|exact O]. intros v Hv. apply mem_fp_inter in Hv. tauto.
      + match goal with |- out_rel2 _ _ (exec_block _ _ ?a) (exec_block _ _ ?b) =>
          pose proof (two2_list f H0 L D a b S HL (conj A (conj N E)) Sf) as O end.
        unfold out_rel2 in *. destruct (exec_block G f _) as [a|x1]; destruct (exec_block G f _) as [b|x2]; try exact O.
        eapply rel2_weaken; [|exact O]. intros v Hv. apply mem_fp_inter in Hv. tauto.
    - rewrite !exec_for. rewrite flow_for in *.
      apply (two2_loop id step body (kill (id :: loop_ids_l body) L) (two2_list body H)); auto.
      + apply (lenv_ok_kill L _ st1 st1 HL). reflexivity.
      + intros j z Hj. apply lookup_kill in Hj. tauto.
  Qed.

  Lemma two2_block b : two2_l b.
  Proof. apply two2_list. apply Forall_forall. intros s _. apply two2_stmt. Qed.
End TwoRuns2.
