(* RTL/FootprintSound.v — the syntactic footprints of RTL/Footprint.v are sound for the big-step semantics
   of RTL/Eval.v, for the WHOLE language of RTL/Syntax.v (every expression and statement constructor,
   unbounded nesting of if / for):

     exec_frame      a block changes only bits inside writes_d
     exec_dep        outcome (error class included) and written bits depend only on the bits in reads_d and
                     on the previous values of the written bits
     rtl_frame / rtl_dep / rtl_blk_footprints
                     a block of the language, viewed as a Sched.Block.blk over single bits, satisfies the
                     frame / dep hypotheses of the scheduling theorems
     rtl_accepted_schedules_agree
                     Sched.Accept.accepted_schedules_agree with NO footprint hypothesis left: the declared
                     footprints only have to COVER the computed ones (a boolean check)
   No axioms. *)
From PV Require Import Base.Prelude Bits.BitsSpec Bits.BitsLemmas Bits.SpecFacts Bits.Helpers.
From PV Require Import RTL.Syntax RTL.Eval Sched.Block Sched.Confluence Sched.Accept RTL.Footprint.
Open Scope Z_scope.

(* ================================================================ bits of packed values *)
Lemma splice_bit u lo hi w i : 0 <= lo <= hi -> 0 <= w < 2 ^ (hi - lo) ->
  Z.testbit (splice u lo hi w) i = if (lo <=? i) && (i <? hi) then Z.testbit w (i - lo) else Z.testbit u i.
Proof.
  intros H Hw. destruct (Z.ltb_spec i 0) as [Hi|Hi].
  - rewrite !(Z.testbit_neg_r _ i) by lia.
    destruct (Z.leb_spec lo i); [lia|]. reflexivity.
  - apply splice_testbit; lia.
Qed.

Definition fld (flo fw r : Z) : Z := (r / 2 ^ flo) mod 2 ^ fw.

Lemma fld_bit flo fw r i : 0 <= flo -> 0 <= fw -> 0 <= i ->
  Z.testbit (fld flo fw r) i = if i <? fw then Z.testbit r (flo + i) else false.
Proof. intros. unfold fld. apply slice_testbit; lia. Qed.

Lemma fld_range flo fw r : 0 <= fw -> 0 <= fld flo fw r < 2 ^ fw.
Proof. intros. unfold fld. apply Z.mod_pos_bound. apply pow2_gt0; lia. Qed.

Lemma fld_agree flo fw r1 r2 : 0 <= flo -> 0 <= fw ->
  (forall j, flo <= j < flo + fw -> Z.testbit r1 j = Z.testbit r2 j) -> fld flo fw r1 = fld flo fw r2.
Proof.
  intros Hl Hw H. apply Z.bits_inj'. intros i Hi. rewrite !fld_bit by lia.
  destruct (Z.ltb_spec i fw); [apply H; lia|reflexivity].
Qed.

Lemma fld_slice_agree flo fw l h r1 r2 : 0 <= flo -> 0 <= l -> l < h -> h <= fw ->
  (forall j, flo + l <= j < flo + h -> Z.testbit r1 j = Z.testbit r2 j) ->
  (fld flo fw r1 / 2 ^ l) mod 2 ^ (h - l) = (fld flo fw r2 / 2 ^ l) mod 2 ^ (h - l).
Proof.
  intros Hf Hl Hlh Hh H. apply Z.bits_inj'. intros i Hi.
  rewrite !slice_testbit by lia.
  destruct (Z.ltb_spec i (h - l)); [|reflexivity].
  rewrite !fld_bit by lia. destruct (Z.ltb_spec (l + i) fw); [|lia]. apply H. lia.
Qed.

Lemma splice_fld u flo fw l h w : 0 <= flo -> 0 <= l -> l < h -> h <= fw -> 0 <= w < 2 ^ (h - l) ->
  splice u flo (flo + fw) (splice (fld flo fw u) l h w) = splice u (flo + l) (flo + h) w.
Proof.
  intros Hf Hl Hlh Hh Hw. apply Z.bits_inj'. intros i Hi.
  assert (R : 0 <= splice (fld flo fw u) l h w < 2 ^ fw).
  { apply splice_range; try lia. apply fld_range; lia. }
  rewrite splice_bit by (replace (flo + fw - flo) with fw by lia; lia).
  rewrite (splice_bit u (flo + l) (flo + h) w) by (replace (flo + h - (flo + l)) with (h - l) by lia; lia).
  destruct (Z.leb_spec flo i); destruct (Z.ltb_spec i (flo + fw)); cbn [andb].
  - rewrite splice_bit by lia.
    destruct (Z.leb_spec l (i - flo)); destruct (Z.ltb_spec (i - flo) h); cbn [andb];
      destruct (Z.leb_spec (flo + l) i); destruct (Z.ltb_spec i (flo + h)); cbn [andb]; try lia;
      try (f_equal; lia);
      (rewrite fld_bit by lia; destruct (Z.ltb_spec (i - flo) fw); [f_equal; lia|lia]).
  - destruct (Z.leb_spec (flo + l) i); destruct (Z.ltb_spec i (flo + h)); cbn [andb]; try lia; reflexivity.
  - destruct (Z.leb_spec (flo + l) i); destruct (Z.ltb_spec i (flo + h)); cbn [andb]; try lia; reflexivity.
  - lia.
Qed.

(* ================================================================ footprints as sets of bits *)
Definition sub (F : fp) (P : bit -> bool) : Prop := forall v, mem_fp F v = true -> P v = true.

Lemma mem_fp_app F F' v : mem_fp (F ++ F') v = mem_fp F v || mem_fp F' v.
Proof. unfold mem_fp. apply existsb_app. Qed.

Lemma sub_app F F' P : sub (F ++ F') P <-> sub F P /\ sub F' P.
Proof.
  unfold sub. split.
  - intros H. split; intros v Hv; apply H; rewrite mem_fp_app, Hv; auto using orb_true_r.
  - intros [H1 H2] v Hv. rewrite mem_fp_app in Hv. apply orb_prop in Hv. destruct Hv; auto.
Qed.

Lemma sub_nil P : sub [] P.
Proof. intros v Hv. discriminate. Qed.

Lemma sub_flat_map {A} (f : A -> fp) l P : sub (flat_map f l) P <-> forall x, In x l -> sub (f x) P.
Proof.
  induction l as [|a r IH]; cbn [flat_map].
  - split; [intros _ x []|intros _; apply sub_nil].
  - rewrite sub_app, IH. split.
    + intros [H1 H2] x [<-|Hx]; auto.
    + intros H. split; [apply H; left; reflexivity|intros x Hx; apply H; right; exact Hx].
Qed.

Lemma sub_single s lo hi P : sub [(s, lo, hi)] P <-> forall j, lo <= j < hi -> P (s, j) = true.
Proof.
  unfold sub, mem_fp, in_ivl. cbn [existsb iroot ilo ihi fst snd]. split.
  - intros H j Hj. apply H. cbn [fst snd]. rewrite Nat.eqb_refl, orb_false_r. cbn [andb]. lia.
  - intros H [r j] Hv. cbn [fst snd] in Hv. rewrite orb_false_r in Hv.
    apply andb_prop in Hv. destruct Hv as [Hv H3]. apply andb_prop in Hv. destruct Hv as [H1 H2].
    apply Nat.eqb_eq in H1. subst r. apply H. lia.
Qed.

Lemma mem_single s lo hi r j : mem_fp [(s, lo, hi)] (r, j) = Nat.eqb r s && (lo <=? j) && (j <? hi).
Proof. unfold mem_fp, in_ivl. cbn [existsb iroot ilo ihi fst snd]. apply orb_false_r. Qed.

(* ================================================================ well-formed values *)
Definition value_wf (v : value) : Prop :=
  match v with VBits n u => wfn n /\ inrange n u | VInt _ => True end.
Definition wf_decls (G : decls) : Prop :=
  forall s p f, lookup_sig G s p = Some f -> 0 < fw f < 1024 /\ 0 <= flo f.
Definition st_ok (st : state) : Prop := forall i v, tmpv st i = Some v -> value_wf v.

Lemma wf_declsb_sound G : wf_declsb G = true -> wf_decls G.
Proof.
  unfold wf_declsb, wf_decls. induction G as [|[[s' p'] f'] G IH]; cbn [forallb lookup_sig snd]; intros H s p f.
  - discriminate.
  - apply andb_prop in H. destruct H as [H1 H2].
    destruct (Nat.eqb s s' && path_eqb p p').
    + intros [= <-]. unfold wf_finfo in H1. lia.
    + apply IH. exact H2.
Qed.

Lemma owf_operand v : value_wf v -> owf (to_operand v).
Proof. destruct v; cbn; auto. Qed.

Lemma vbits_inv r v : vbits r = Ok v -> exists n u, r = Ok (n, u) /\ v = VBits n u.
Proof.
  unfold vbits. destruct r as [[n u]|]; cbn [bind fst snd]; [|discriminate].
  intros [= <-]. eauto.
Qed.

Lemma spec_init_wf n o t v : owf o -> vbits (spec_init n o t) = Ok v -> value_wf v.
Proof.
  intros Ho H. apply vbits_inv in H. destruct H as (m & u & H & ->).
  apply spec_init_range in H; [|exact Ho]. cbn. destruct H as (-> & Hn & Hu). auto.
Qed.

Lemma eval_cast_wf n x v : value_wf x -> eval_cast n x = Ok v -> value_wf v.
Proof. intros Hx. unfold eval_cast. apply spec_init_wf. apply owf_operand. exact Hx. Qed.

Lemma eval_int_bin_wf op a b v : eval_int_bin op a b = Ok v -> value_wf v.
Proof.
  destruct op; cbn; try (intros [= <-]; exact I); try discriminate;
    destruct (b <? 0); try discriminate; destruct (int_shift_limit <? b); try discriminate; intros [= <-]; exact I.
Qed.

Lemma eval_bin_wf op x y v : value_wf x -> value_wf y -> eval_bin op x y = Ok v -> value_wf v.
Proof.
  intros Hx Hy. destruct x as [n a|a]; cbn [eval_bin].
  - intros H. apply vbits_inv in H. destruct H as (m & u & H & ->). cbn in Hx.
    apply spec_binop_range in H; [|tauto|tauto|apply owf_operand; exact Hy]. destruct H as [-> H]. cbn. tauto.
  - destruct y as [n b|b].
    + cbn in Hy. destruct op; try discriminate;
        intros H; apply vbits_inv in H; destruct H as (m & u & H & ->);
        first [apply spec_binop_range in H; [|tauto|tauto|exact I] | apply spec_rbinop_range in H; [|tauto|tauto]];
        destruct H as [-> H]; cbn; tauto.
    + apply eval_int_bin_wf.
Qed.

Lemma b2z_wf1 b : wfn 1 /\ inrange 1 (b2z b).
Proof. unfold wfn, inrange. destruct b; cbn; lia. Qed.

Lemma eval_cmp_wf op x y v : eval_cmp op x y = Ok v -> value_wf v.
Proof.
  assert (G : forall r, vbits r = Ok v -> (forall m u, r = Ok (m, u) -> m = 1 /\ (u = 0 \/ u = 1)) -> value_wf v).
  { intros r H K. apply vbits_inv in H. destruct H as (m & u & H & ->). destruct (K m u H) as [-> Hu].
    cbn. unfold wfn, inrange. cbn. lia. }
  destruct x as [n a|a]; cbn [eval_cmp].
  - intros H. apply (G _ H). intros m u. apply spec_cmp_bool.
  - destruct y as [n b|b].
    + intros H. apply (G _ H). intros m u. apply spec_cmp_bool.
    + intros [= <-]. exact I.
Qed.

Lemma eval_inv_wf x v : value_wf x -> eval_inv x = Ok v -> value_wf v.
Proof.
  destruct x as [n u|z]; cbn.
  - intros [Hn Hu] [= <-]. cbn. split; [exact Hn|]. apply spec_invert_range; assumption.
  - intros _ [= <-]. exact I.
Qed.

Lemma getitem_wf n u i v : wfn n -> vbits (spec_getitem n u i) = Ok v -> value_wf v.
Proof.
  intros Hn H. apply vbits_inv in H. destruct H as (m & w & H & ->). unfold wfn in Hn.
  destruct i as [s e st|k]; cbn [spec_getitem] in H.
  - destruct (negb (step_trivial st)); [discriminate|].
    destruct (valid_range n (bound s 0) (bound e n)) eqn:V; [|discriminate]. injection H as <- <-.
    unfold valid_range in V. cbn. unfold wfn, inrange. split; [lia|].
    apply Z.mod_pos_bound. apply pow2_gt0. lia.
  - destruct ((0 <=? k) && (k <? n)); [|discriminate]. injection H as <- <-.
    cbn. unfold wfn, inrange. split; [lia|]. change (2 ^ 1) with 2. apply Z.mod_pos_bound. lia.
Qed.

Lemma eval_slice_wf x l h v : value_wf x -> eval_slice x l h = Ok v -> value_wf v.
Proof. destruct x as [n u|z]; cbn [eval_slice value_wf]; [|discriminate]. intros [Hn _]. apply getitem_wf. exact Hn. Qed.
Lemma eval_index_wf x i v : value_wf x -> eval_index x i = Ok v -> value_wf v.
Proof. destruct x as [n u|z]; cbn [eval_index value_wf]; [|discriminate]. intros [Hn _]. apply getitem_wf. exact Hn. Qed.

Lemma eval_concat_wf vs v : eval_concat vs = Ok v -> value_wf v.
Proof.
  unfold eval_concat. destruct (bits_list vs) as [l|]; [|discriminate].
  unfold h_concat. destruct (concat_fold l) as [nb w]. apply spec_init_wf. exact I.
Qed.

Lemma eval_zext_wf n x v : eval_ext h_zext n x = Ok v -> value_wf v.
Proof.
  destruct x as [m u|z]; cbn [eval_ext]; [|discriminate]. unfold h_zext.
  destruct (negb false && negb (m <=? n)); [discriminate|]. apply spec_init_wf. exact I.
Qed.
Lemma eval_sext_wf n x v : eval_ext h_sext n x = Ok v -> value_wf v.
Proof.
  destruct x as [m u|z]; cbn [eval_ext]; [|discriminate]. unfold h_sext.
  destruct (negb false && negb (m <=? n)); [discriminate|]. apply spec_init_wf. exact I.
Qed.
Lemma eval_trunc_wf n x v : eval_ext h_trunc n x = Ok v -> value_wf v.
Proof.
  destruct x as [m u|z]; cbn [eval_ext]; [|discriminate]. unfold h_trunc.
  destruct (negb false && negb (n <=? m)); [discriminate|]. apply spec_init_wf. exact I.
Qed.

Lemma land1_wf1 x : wfn 1 /\ inrange 1 (Z.land x 1).
Proof.
  unfold wfn, inrange. split; [lia|]. change (2 ^ 1) with 2.
  pose proof (Z.land_ones x 1 ltac:(lia)) as K. change (Z.ones 1) with 1 in K. change (2 ^ 1) with 2 in K.
  rewrite K. apply Z.mod_pos_bound. lia.
Qed.

Lemma eval_red_wf op x v : eval_red op x = Ok v -> value_wf v.
Proof.
  destruct x as [n u|z]; cbn [eval_red].
  - intros [= <-].
    destruct op; cbn [h_reduce_and h_reduce_or h_reduce_xor fst snd value_wf];
      [apply b2z_wf1|apply b2z_wf1|apply land1_wf1].
  - destruct op; [discriminate| |].
    + intros [= <-]. apply b2z_wf1.
    + destruct (z <? 0); [discriminate|]. intros [= <-]. apply land1_wf1.
Qed.

Lemma read_field_wf G s p f r : wf_decls G -> lookup_sig G s p = Some f -> value_wf (read_field f r).
Proof.
  intros W H. destruct (W s p f H) as [Hw Hl]. cbn. unfold wfn, inrange. split; [lia|].
  apply Z.mod_pos_bound. apply pow2_gt0. lia.
Qed.

(* ---- induction principle for the nested type expr ---- *)
Section ExprInd.
  Variable P : expr -> Prop.
  Hypothesis HSig : forall s p, P (ESig s p).
  Hypothesis HLit : forall z, P (ELit z).
  Hypothesis HSized : forall n z, P (ESized n z).
  Hypothesis HFree : forall z, P (EFree z).
  Hypothesis HCast : forall n a, P a -> P (ECast n a).
  Hypothesis HBin : forall op a b, P a -> P b -> P (EBin op a b).
  Hypothesis HCmp : forall op a b, P a -> P b -> P (ECmp op a b).
  Hypothesis HInv : forall a, P a -> P (EInv a).
  Hypothesis HSlice : forall a lo hi, P a -> P lo -> P hi -> P (ESlice a lo hi).
  Hypothesis HIdx : forall a i, P a -> P i -> P (EIdx a i).
  Hypothesis HConcat : forall es, Forall P es -> P (EConcat es).
  Hypothesis HZext : forall n a, P a -> P (EZext n a).
  Hypothesis HSext : forall n a, P a -> P (ESext n a).
  Hypothesis HTrunc : forall n a, P a -> P (ETrunc n a).
  Hypothesis HRed : forall op a, P a -> P (ERed op a).
  Hypothesis HIf : forall c a b, P c -> P a -> P b -> P (EIf c a b).
  Hypothesis HTmp : forall i, P (ETmp i).
  Hypothesis HLoop : forall i, P (ELoop i).
  Fixpoint expr_ind' (e : expr) : P e :=
    match e with
    | ESig s p => HSig s p
    | ELit z => HLit z
    | ESized n z => HSized n z
    | EFree z => HFree z
    | ECast n a => HCast n a (expr_ind' a)
    | EBin op a b => HBin op a b (expr_ind' a) (expr_ind' b)
    | ECmp op a b => HCmp op a b (expr_ind' a) (expr_ind' b)
    | EInv a => HInv a (expr_ind' a)
    | ESlice a lo hi => HSlice a lo hi (expr_ind' a) (expr_ind' lo) (expr_ind' hi)
    | EIdx a i => HIdx a i (expr_ind' a) (expr_ind' i)
    | EConcat es =>
        HConcat es ((fix go (l : list expr) : Forall P l :=
                       match l with [] => Forall_nil P | x :: r => Forall_cons x (expr_ind' x) (go r) end) es)
    | EZext n a => HZext n a (expr_ind' a)
    | ESext n a => HSext n a (expr_ind' a)
    | ETrunc n a => HTrunc n a (expr_ind' a)
    | ERed op a => HRed op a (expr_ind' a)
    | EIf c a b => HIf c a b (expr_ind' c) (expr_ind' a) (expr_ind' b)
    | ETmp i => HTmp i
    | ELoop i => HLoop i
    end.
End ExprInd.

Lemma bind_ok {A B} (r : res A) (f : A -> res B) b : bind r f = Ok b -> exists a, r = Ok a /\ f a = Ok b.
Proof. destruct r; cbn; [eauto|discriminate]. Qed.

(* every Bits value the evaluator produces is a value of its width *)
Lemma eval_wf G st e : wf_decls G -> st_ok st -> forall v, eval G st e = Ok v -> value_wf v.
Proof.
  intros W S. induction e using expr_ind'; intros v Hev; cbn [eval] in Hev.
  - destruct (lookup_sig G s p) eqn:E; [|discriminate]. injection Hev as <-. eapply read_field_wf; eauto.
  - injection Hev as <-. exact I.
  - eapply eval_cast_wf; [|exact Hev]. exact I.
  - injection Hev as <-. exact I.
  - apply bind_ok in Hev. destruct Hev as (x & Hx & Hev). eapply eval_cast_wf; [|exact Hev]. auto.
  - apply bind_ok in Hev. destruct Hev as (x & Hx & Hev). apply bind_ok in Hev. destruct Hev as (y & Hy & Hev).
    eapply eval_bin_wf; [| |exact Hev]; auto.
  - apply bind_ok in Hev. destruct Hev as (x & Hx & Hev). apply bind_ok in Hev. destruct Hev as (y & Hy & Hev).
    eapply eval_cmp_wf; exact Hev.
  - apply bind_ok in Hev. destruct Hev as (x & Hx & Hev). eapply eval_inv_wf; [|exact Hev]. auto.
  - apply bind_ok in Hev. destruct Hev as (x & Hx & Hev). apply bind_ok in Hev. destruct Hev as (y & Hy & Hev).
    apply bind_ok in Hev. destruct Hev as (z & Hz & Hev). eapply eval_slice_wf; [|exact Hev]. auto.
  - apply bind_ok in Hev. destruct Hev as (x & Hx & Hev). apply bind_ok in Hev. destruct Hev as (y & Hy & Hev).
    eapply eval_index_wf; [|exact Hev]. auto.
  - apply bind_ok in Hev. destruct Hev as (x & Hx & Hev). eapply eval_concat_wf; exact Hev.
  - apply bind_ok in Hev. destruct Hev as (x & Hx & Hev). eapply eval_zext_wf; exact Hev.
  - apply bind_ok in Hev. destruct Hev as (x & Hx & Hev). eapply eval_sext_wf; exact Hev.
  - apply bind_ok in Hev. destruct Hev as (x & Hx & Hev). eapply eval_trunc_wf; exact Hev.
  - apply bind_ok in Hev. destruct Hev as (x & Hx & Hev). eapply eval_red_wf; exact Hev.
  - apply bind_ok in Hev. destruct Hev as (x & Hx & Hev). destruct (truthy x); auto.
  - destruct (tmpv st i) eqn:E; [|discriminate]. injection Hev as <-. eapply S; eauto.
  - destruct (loopv st i); [|discriminate]. injection Hev as <-. exact I.
Qed.

(* ================================================================ static integers *)
Definition lenv_ok (L : lenv) (st : state) : Prop := forall i z, lookup_l L i = Some z -> loopv st i = Some z.

Lemma static_int_sound G L st e : lenv_ok L st -> forall k, static_int L e = Some k -> eval G st e = Ok (VInt k).
Proof.
  intros HL. induction e; intros k H; cbn [static_int] in H; try discriminate.
  - injection H as <-. reflexivity.
  - injection H as <-. reflexivity.
  - destruct (static_int L e1) as [x|] eqn:E1; [|discriminate]. destruct (static_int L e2) as [y|] eqn:E2; [|discriminate].
    cbn [eval]. rewrite (IHe1 _ eq_refl), (IHe2 _ eq_refl). cbn [bind eval_bin eval_int_bin].
    destruct op; try discriminate; injection H as <-; reflexivity.
  - cbn [eval]. rewrite (HL _ _ H). reflexivity.
Qed.

(* ================================================================ expressions read only their footprint *)
Definition sig_agree (P : bit -> bool) (st1 st2 : state) : Prop :=
  forall s j, P (s, j) = true -> Z.testbit (sigv st1 s) j = Z.testbit (sigv st2 s) j.
Definition loc_eq (st1 st2 : state) : Prop :=
  (forall i, tmpv st1 i = tmpv st2 i) /\ (forall i, loopv st1 i = loopv st2 i).

Lemma lenv_ok_eq L st1 st2 : loc_eq st1 st2 -> lenv_ok L st1 -> lenv_ok L st2.
Proof. intros [_ E] H i z Hi. rewrite <- E. apply H. exact Hi. Qed.

Lemma eval_slice_unfold G st a lo hi :
  eval G st (ESlice a lo hi) =
  bind (eval G st a) (fun x => bind (eval G st lo) (fun l => bind (eval G st hi) (fun h => eval_slice x l h))).
Proof. reflexivity. Qed.
Lemma eval_idx_unfold G st a i :
  eval G st (EIdx a i) = bind (eval G st a) (fun x => bind (eval G st i) (fun k => eval_index x k)).
Proof. reflexivity. Qed.
Lemma reads_concat_cons G L x r : reads_e G L (EConcat (x :: r)) = reads_e G L x ++ reads_e G L (EConcat r).
Proof. reflexivity. Qed.
Lemma eval_list_cons (f : expr -> res value) x r :
  eval_list f (x :: r) = bind (f x) (fun v => bind (eval_list f r) (fun vs => Ok (v :: vs))).
Proof. reflexivity. Qed.
Lemma base_sig_inv a s p : base_sig a = Some (s, p) -> a = ESig s p.
Proof. destruct a; cbn; try discriminate. intros [= -> ->]. reflexivity. Qed.

Section EvalDep.
  Variables (G : decls) (P : bit -> bool) (st1 st2 : state).
  Hypothesis W : wf_decls G.
  Hypothesis A : sig_agree P st1 st2.
  Hypothesis E : loc_eq st1 st2.

  Lemma field_agree s p f : lookup_sig G s p = Some f -> sub [(s, flo f, flo f + fw f)] P ->
    read_field f (sigv st1 s) = read_field f (sigv st2 s).
  Proof.
    intros Lk S. destruct (W _ _ _ Lk) as [Hw Hl]. unfold read_field. f_equal.
    apply (fld_agree (flo f) (fw f)); [lia|lia|]. intros j Hj. apply A. apply (proj1 (sub_single _ _ _ _) S). exact Hj.
  Qed.

  Lemma eval_sig_dep s p : sub (whole_fp G s p) P -> eval G st1 (ESig s p) = eval G st2 (ESig s p).
  Proof.
    intros S. cbn [eval]. unfold whole_fp in S. destruct (lookup_sig G s p) as [f|] eqn:Lk; [|reflexivity].
    f_equal. apply (field_agree s p f); assumption.
  Qed.

  Lemma eval_slice_sig_dep L s p lo hi : lenv_ok L st1 -> sub (slice_fp G L s p lo hi) P ->
    eval G st1 lo = eval G st2 lo -> eval G st1 hi = eval G st2 hi ->
    eval G st1 (ESlice (ESig s p) lo hi) = eval G st2 (ESlice (ESig s p) lo hi).
  Proof.
    intros HL S Hlo Hhi. rewrite !eval_slice_unfold, Hlo, Hhi.
    assert (Wh : sub (whole_fp G s p) P -> bind (eval G st1 (ESig s p)) (fun x => bind (eval G st2 lo) (fun l => bind (eval G st2 hi) (fun h => eval_slice x l h))) =
                 bind (eval G st2 (ESig s p)) (fun x => bind (eval G st2 lo) (fun l => bind (eval G st2 hi) (fun h => eval_slice x l h)))).
    { intros S'. rewrite (eval_sig_dep s p S'). reflexivity. }
    unfold slice_fp in S. unfold whole_fp in Wh. cbn [eval] in *.
    destruct (lookup_sig G s p) as [f|] eqn:Lk; [|reflexivity].
    destruct (static_int L lo) as [l|] eqn:SL; [|exact (Wh S)].
    destruct (static_int L hi) as [h|] eqn:SH; [|exact (Wh S)].
    destruct (valid_range (fw f) l h) eqn:V; [|exact (Wh S)].
    pose proof (lenv_ok_eq L st1 st2 E HL) as HL2.
    rewrite (static_int_sound G L st2 lo HL2 l SL), (static_int_sound G L st2 hi HL2 h SH).
    cbn [bind eval_slice read_field value_int]. unfold spec_getitem. cbn [step_trivial negb bound]. rewrite V.
    destruct (W _ _ _ Lk) as [Hw Hl]. unfold valid_range in V.
    assert (K : (fld (flo f) (fw f) (sigv st1 s) / 2 ^ l) mod 2 ^ (h - l) = (fld (flo f) (fw f) (sigv st2 s) / 2 ^ l) mod 2 ^ (h - l)).
    { apply fld_slice_agree; try lia. intros j Hj. apply A. apply (proj1 (sub_single _ _ _ _) S). exact Hj. }
    unfold fld in K. rewrite K. reflexivity.
  Qed.

  Lemma eval_idx_sig_dep L s p i : lenv_ok L st1 -> sub (index_fp G L s p i) P ->
    eval G st1 i = eval G st2 i ->
    eval G st1 (EIdx (ESig s p) i) = eval G st2 (EIdx (ESig s p) i).
  Proof.
    intros HL S Hi. rewrite !eval_idx_unfold, Hi.
    assert (Wh : sub (whole_fp G s p) P -> bind (eval G st1 (ESig s p)) (fun x => bind (eval G st2 i) (fun k => eval_index x k)) =
                 bind (eval G st2 (ESig s p)) (fun x => bind (eval G st2 i) (fun k => eval_index x k))).
    { intros S'. rewrite (eval_sig_dep s p S'). reflexivity. }
    unfold index_fp in S. unfold whole_fp in Wh. cbn [eval] in *.
    destruct (lookup_sig G s p) as [f|] eqn:Lk; [|reflexivity].
    destruct (static_int L i) as [k|] eqn:SI; [|exact (Wh S)].
    destruct ((0 <=? k) && (k <? fw f)) eqn:V; [|exact (Wh S)].
    pose proof (lenv_ok_eq L st1 st2 E HL) as HL2.
    rewrite (static_int_sound G L st2 i HL2 k SI).
    cbn [bind eval_index read_field value_int]. unfold spec_getitem. rewrite V.
    destruct (W _ _ _ Lk) as [Hw Hl].
    assert (K : (fld (flo f) (fw f) (sigv st1 s) / 2 ^ k) mod 2 ^ (k + 1 - k) = (fld (flo f) (fw f) (sigv st2 s) / 2 ^ k) mod 2 ^ (k + 1 - k)).
    { apply fld_slice_agree; try lia. intros j Hj. apply A. apply (proj1 (sub_single _ _ _ _) S). lia. }
    replace (k + 1 - k) with 1 in K by lia. change (2 ^ 1) with 2 in K. unfold fld in K. rewrite K. reflexivity.
  Qed.

  Lemma eval_dep L e : lenv_ok L st1 -> sub (reads_e G L e) P -> eval G st1 e = eval G st2 e.
  Proof.
    intros HL. induction e using expr_ind'; intros S.
    - apply eval_sig_dep. exact S.
    - reflexivity.
    - reflexivity.
    - reflexivity.
    - cbn [reads_e] in S. cbn [eval]. rewrite (IHe S). reflexivity.
    - cbn [reads_e] in S. apply sub_app in S. destruct S as [S1 S2]. cbn [eval]. rewrite (IHe1 S1), (IHe2 S2). reflexivity.
    - cbn [reads_e] in S. apply sub_app in S. destruct S as [S1 S2]. cbn [eval]. rewrite (IHe1 S1), (IHe2 S2). reflexivity.
    - cbn [reads_e] in S. cbn [eval]. rewrite (IHe S). reflexivity.
    - cbn [reads_e] in S. apply sub_app in S. destruct S as [Sa S]. apply sub_app in S. destruct S as [Sl Sh].
      destruct (base_sig e1) as [[s p]|] eqn:B.
      + apply base_sig_inv in B. subst e1. apply (eval_slice_sig_dep L); auto.
      + rewrite !eval_slice_unfold, (IHe1 Sa), (IHe2 Sl), (IHe3 Sh). reflexivity.
    - cbn [reads_e] in S. apply sub_app in S. destruct S as [Sa Si].
      destruct (base_sig e1) as [[s p]|] eqn:B.
      + apply base_sig_inv in B. subst e1. apply (eval_idx_sig_dep L); auto.
      + rewrite !eval_idx_unfold, (IHe1 Sa), (IHe2 Si). reflexivity.
    - cbn [eval]. assert (K : eval_list (eval G st1) es = eval_list (eval G st2) es).
      { induction H as [|x r Hx Hr IH]; [reflexivity|].
        rewrite reads_concat_cons in S. apply sub_app in S. destruct S as [S1 S2].
        rewrite !eval_list_cons, (Hx S1), (IH S2). reflexivity. }
      rewrite K. reflexivity.
    - cbn [reads_e] in S. cbn [eval]. rewrite (IHe S). reflexivity.
    - cbn [reads_e] in S. cbn [eval]. rewrite (IHe S). reflexivity.
    - cbn [reads_e] in S. cbn [eval]. rewrite (IHe S). reflexivity.
    - cbn [reads_e] in S. cbn [eval]. rewrite (IHe S). reflexivity.
    - cbn [reads_e] in S. apply sub_app in S. destruct S as [Sc S]. apply sub_app in S. destruct S as [Sa Sb].
      cbn [eval]. rewrite (IHe1 Sc). destruct (eval G st2 e1) as [vc|]; cbn [bind]; [|reflexivity].
      destruct (truthy vc); auto.
    - cbn [eval]. rewrite (proj1 E i). reflexivity.
    - cbn [eval]. rewrite (proj2 E i). reflexivity.
  Qed.
End EvalDep.

(* ================================================================ what an assignment does *)
(* An assignment either binds a temporary or replaces bits [lo,hi) of one packed signal by w. *)
Inductive action : Type :=
| ATmp   (i : nat) (v : value)
| AWrite (blocking : bool) (s : nat) (lo hi w : Z).

Definition apply_action (st : state) (a : action) : state :=
  match a with
  | ATmp i v => set_tmp st i v
  | AWrite b s lo hi w => write_root st b s (splice (sigv st s) lo hi w)
  end.

(* mirrors Eval.exec_assign (same order of evaluation, same errors) *)
Definition resolve (G : decls) (st : state) (l : lhs) (e : expr) (blocking : bool) : res action :=
  match l with
  | LTmp i => bind (eval G st e) (fun v => Ok (ATmp i v))
  | LSig s p =>
      match lookup_sig G s p with
      | None => Err EOther
      | Some f =>
          bind (eval G st e) (fun v =>
          if negb blocking && negb (match p with [] => true | _ => false end) then Err EOther else
          bind (spec_store (fw f) (to_operand v)) (fun u =>
          Ok (AWrite blocking s (flo f) (flo f + fw f) u)))
      end
  | LSlice s p lo hi =>
      match lookup_sig G s p with
      | None => Err EOther
      | Some f =>
          if negb blocking then Err EOther else
          bind (eval G st lo) (fun vl => bind (eval G st hi) (fun vh =>
          if valid_range (fw f) (value_int vl) (value_int vh) then
            bind (eval G st e) (fun v =>
            bind (spec_store (value_int vh - value_int vl) (to_operand v)) (fun u =>
            Ok (AWrite true s (flo f + value_int vl) (flo f + value_int vh) u)))
          else Err EIndex))
      end
  | LIndex s p ix =>
      match lookup_sig G s p with
      | None => Err EOther
      | Some f =>
          if negb blocking then Err EOther else
          bind (eval G st ix) (fun vi =>
          if (0 <=? value_int vi) && (value_int vi <? fw f) then
            bind (eval G st e) (fun v =>
            bind (spec_store 1 (to_operand v)) (fun u =>
            Ok (AWrite true s (flo f + value_int vi) (flo f + (value_int vi + 1)) u)))
          else Err EIndex)
      end
  end.

Lemma exec_assign_resolve G st lbl l e b : wf_decls G -> st_ok st ->
  exec_assign G st lbl l e b =
  bind (resolve G st l e b)
       (fun a => Ok (apply_action (add_evs st (map (fun p => (lbl, fst p, snd p)) (probes G st 0 e))) a)).
Proof.
  intros W S. destruct l as [s p|s p lo hi|s p ix|i]; unfold exec_assign, resolve.
  - destruct (lookup_sig G s p) as [f|]; [|reflexivity].
    destruct (eval G st e) as [v|]; cbn [bind fst snd]; [|reflexivity].
    destruct (negb b && _); [reflexivity|].
    destruct (spec_store (fw f) (to_operand v)); reflexivity.
  - destruct (lookup_sig G s p) as [f|] eqn:Lk; [|reflexivity].
    destruct (negb b) eqn:Hb; [reflexivity|]. destruct b; [|discriminate].
    destruct (eval G st lo) as [vl|]; cbn [bind]; [|reflexivity].
    destruct (eval G st hi) as [vh|]; cbn [bind]; [|reflexivity].
    unfold spec_getitem. cbn [step_trivial negb bound].
    destruct (valid_range (fw f) (value_int vl) (value_int vh)) eqn:V; cbn [bind]; [|reflexivity].
    destruct (eval G st e) as [v|] eqn:Ev; cbn [bind fst snd]; [|reflexivity].
    destruct (spec_store (value_int vh - value_int vl) (to_operand v)) as [u|] eqn:St; cbn [bind]; [|reflexivity].
    unfold spec_setitem. cbn [step_trivial negb bound]. rewrite V. cbn [spec_store]. rewrite Z.eqb_refl. cbn [bind fst snd].
    destruct (W _ _ _ Lk) as [Hw Hl]. unfold valid_range in V.
    assert (Ru : inrange (value_int vh - value_int vl) u).
    { eapply spec_store_range; [|apply owf_operand; eapply eval_wf; eauto|exact St]. unfold wfn. lia. }
    unfold inrange in Ru. cbn [apply_action write_root add_evs sigv value_int read_field].
    change ((sigv st s / 2 ^ flo f) mod 2 ^ fw f) with (fld (flo f) (fw f) (sigv st s)).
    rewrite splice_fld by lia. reflexivity.
  - destruct (lookup_sig G s p) as [f|] eqn:Lk; [|reflexivity].
    destruct (negb b) eqn:Hb; [reflexivity|]. destruct b; [|discriminate].
    destruct (eval G st ix) as [vi|]; cbn [bind]; [|reflexivity].
    unfold spec_getitem.
    destruct ((0 <=? value_int vi) && (value_int vi <? fw f)) eqn:V; cbn [bind]; [|reflexivity].
    destruct (eval G st e) as [v|] eqn:Ev; cbn [bind fst snd]; [|reflexivity].
    destruct (spec_store 1 (to_operand v)) as [u|] eqn:St; cbn [bind]; [|reflexivity].
    unfold spec_setitem. rewrite V. change (1 <? 1) with false. cbn [bind fst snd].
    destruct (W _ _ _ Lk) as [Hw Hl].
    assert (Ru : inrange 1 u).
    { eapply spec_store_range; [|apply owf_operand; eapply eval_wf; eauto|exact St]. unfold wfn. lia. }
    unfold inrange in Ru. change (2 ^ 1) with 2 in Ru. rewrite (Z.mod_small u 2) by lia.
    cbn [apply_action write_root add_evs sigv value_int read_field].
    change ((sigv st s / 2 ^ flo f) mod 2 ^ fw f) with (fld (flo f) (fw f) (sigv st s)).
    rewrite splice_fld; [reflexivity|lia|lia|lia|lia|].
    replace (value_int vi + 1 - value_int vi) with 1 by lia. change (2 ^ 1) with 2. lia.
  - destruct (eval G st e) as [v|]; reflexivity.
Qed.

Lemma resolve_dep G P st1 st2 L l e b : wf_decls G -> sig_agree P st1 st2 -> loc_eq st1 st2 -> lenv_ok L st1 ->
  sub (reads_lhs G L l ++ reads_e G L e) P -> resolve G st1 l e b = resolve G st2 l e b.
Proof.
  intros W A E HL S. apply sub_app in S. destruct S as [Sl Se].
  pose proof (eval_dep G P st1 st2 W A E L e HL Se) as He.
  destruct l as [s p|s p lo hi|s p ix|i]; cbn [resolve reads_lhs] in *.
  - rewrite He. reflexivity.
  - apply sub_app in Sl. destruct Sl as [S1 S2].
    rewrite He, (eval_dep G P st1 st2 W A E L lo HL S1), (eval_dep G P st1 st2 W A E L hi HL S2). reflexivity.
  - rewrite He, (eval_dep G P st1 st2 W A E L ix HL Sl). reflexivity.
  - rewrite He. reflexivity.
Qed.

Lemma resolve_tmp_wf G st l e b i v : wf_decls G -> st_ok st -> resolve G st l e b = Ok (ATmp i v) -> value_wf v.
Proof.
  intros W S. destruct l as [s p|s p lo hi|s p ix|k]; cbn [resolve].
  - destruct (lookup_sig G s p); [|discriminate]. intros H. apply bind_ok in H. destruct H as (x & _ & H).
    destruct (negb b && _); [discriminate|]. apply bind_ok in H. destruct H as (u & _ & H). discriminate.
  - destruct (lookup_sig G s p); [|discriminate]. destruct (negb b); [discriminate|]. intros H.
    apply bind_ok in H. destruct H as (x & _ & H). apply bind_ok in H. destruct H as (y & _ & H).
    destruct (valid_range _ _ _); [|discriminate].
    apply bind_ok in H. destruct H as (z & _ & H). apply bind_ok in H. destruct H as (u & _ & H). discriminate.
  - destruct (lookup_sig G s p); [|discriminate]. destruct (negb b); [discriminate|]. intros H.
    apply bind_ok in H. destruct H as (x & _ & H). destruct (_ && _); [|discriminate].
    apply bind_ok in H. destruct H as (z & _ & H). apply bind_ok in H. destruct H as (u & _ & H). discriminate.
  - intros H. apply bind_ok in H. destruct H as (x & Hx & H). injection H as _ <-. eapply eval_wf; eauto.
Qed.

(* the bits an assignment replaces lie inside the syntactic write footprint of its target *)
Lemma resolve_fp G st L l e b b' s lo hi w : wf_decls G -> st_ok st -> lenv_ok L st ->
  resolve G st l e b = Ok (AWrite b' s lo hi w) ->
  0 <= lo < hi /\ 0 <= w < 2 ^ (hi - lo) /\ (forall j, lo <= j < hi -> mem_fp (writes_lhs G L l) (s, j) = true).
Proof.
  intros W S HL. destruct l as [s0 p|s0 p elo ehi|s0 p ix|k]; cbn [resolve writes_lhs].
  - unfold whole_fp. destruct (lookup_sig G s0 p) as [f|] eqn:Lk; [|discriminate]. intros H.
    apply bind_ok in H. destruct H as (x & Hx & H). destruct (negb b && _); [discriminate|].
    apply bind_ok in H. destruct H as (u & Hu & H). injection H as <- <- <- <- <-.
    destruct (W _ _ _ Lk) as [Hw Hl].
    assert (Ru : inrange (fw f) u).
    { eapply spec_store_range; [|apply owf_operand; eapply eval_wf; eauto|exact Hu]. unfold wfn. lia. }
    unfold inrange in Ru. replace (flo f + fw f - flo f) with (fw f) by lia.
    split; [lia|]. split; [lia|]. intros j Hj. rewrite mem_single, Nat.eqb_refl. cbn [andb]. lia.
  - unfold slice_fp. destruct (lookup_sig G s0 p) as [f|] eqn:Lk; [|discriminate].
    destruct (negb b); [discriminate|]. intros H.
    apply bind_ok in H. destruct H as (vl & Hl & H). apply bind_ok in H. destruct H as (vh & Hh & H).
    destruct (valid_range (fw f) (value_int vl) (value_int vh)) eqn:V; [|discriminate].
    apply bind_ok in H. destruct H as (x & Hx & H). apply bind_ok in H. destruct H as (u & Hu & H).
    injection H as <- <- <- <- <-.
    destruct (W _ _ _ Lk) as [Hw Hfl]. unfold valid_range in V.
    assert (Ru : inrange (value_int vh - value_int vl) u).
    { eapply spec_store_range; [|apply owf_operand; eapply eval_wf; eauto|exact Hu]. unfold wfn. lia. }
    unfold inrange in Ru.
    replace (flo f + value_int vh - (flo f + value_int vl)) with (value_int vh - value_int vl) by lia.
    split; [lia|]. split; [lia|]. intros j Hj.
    assert (Wh : mem_fp [(s0, flo f, flo f + fw f)] (s0, j) = true).
    { rewrite mem_single, Nat.eqb_refl. cbn [andb]. lia. }
    destruct (static_int L elo) as [l|] eqn:SL; [|exact Wh].
    destruct (static_int L ehi) as [h|] eqn:SH; [|exact Wh].
    destruct (valid_range (fw f) l h); [|exact Wh].
    rewrite (static_int_sound G L st elo HL l SL) in Hl. rewrite (static_int_sound G L st ehi HL h SH) in Hh.
    injection Hl as <-. injection Hh as <-. cbn [value_int] in *.
    rewrite mem_single, Nat.eqb_refl. cbn [andb]. lia.
  - unfold index_fp. destruct (lookup_sig G s0 p) as [f|] eqn:Lk; [|discriminate].
    destruct (negb b); [discriminate|]. intros H.
    apply bind_ok in H. destruct H as (vi & Hi & H).
    destruct ((0 <=? value_int vi) && (value_int vi <? fw f)) eqn:V; [|discriminate].
    apply bind_ok in H. destruct H as (x & Hx & H). apply bind_ok in H. destruct H as (u & Hu & H).
    injection H as <- <- <- <- <-.
    destruct (W _ _ _ Lk) as [Hw Hfl].
    assert (Ru : inrange 1 u).
    { eapply spec_store_range; [|apply owf_operand; eapply eval_wf; eauto|exact Hu]. unfold wfn. lia. }
    unfold inrange in Ru.
    replace (flo f + (value_int vi + 1) - (flo f + value_int vi)) with 1 by lia.
    split; [lia|]. split; [lia|]. intros j Hj.
    assert (Wh : mem_fp [(s0, flo f, flo f + fw f)] (s0, j) = true).
    { rewrite mem_single, Nat.eqb_refl. cbn [andb]. lia. }
    destruct (static_int L ix) as [k|] eqn:SI; [|exact Wh].
    destruct ((0 <=? k) && (k <? fw f)); [|exact Wh].
    rewrite (static_int_sound G L st ix HL k SI) in Hi. injection Hi as <-. cbn [value_int] in *.
    rewrite mem_single, Nat.eqb_refl. cbn [andb]. lia.
  - intros H. apply bind_ok in H. destruct H as (x & _ & H). discriminate.
Qed.

(* ================================================================ invariants of one run / of two runs *)
(* bits outside Wr still have the value they had in st0 (also in the pending <<= values) *)
Definition Inv (Wr : bit -> bool) (st0 st : state) : Prop :=
  forall s j, Wr (s, j) = false ->
    Z.testbit (sigv st s) j = Z.testbit (sigv st0 s) j /\
    (forall v, nxtv st s = Some v -> Z.testbit v j = Z.testbit (sigv st0 s) j).

Definition nxt_agree (P : bit -> bool) (st1 st2 : state) : Prop :=
  forall s, match nxtv st1 s, nxtv st2 s with
            | None, None => True
            | Some a, Some b => forall j, P (s, j) = true -> Z.testbit a j = Z.testbit b j
            | _, _ => False
            end.
Definition rel (P : bit -> bool) (st1 st2 : state) : Prop :=
  sig_agree P st1 st2 /\ nxt_agree P st1 st2 /\ loc_eq st1 st2.

Lemma apply_loopv st a : loopv (apply_action st a) = loopv st.
Proof. destruct a as [i v|b s lo hi w]; [reflexivity|]. destruct b; reflexivity. Qed.

Lemma apply_st_ok st a : st_ok st -> (forall i v, a = ATmp i v -> value_wf v) -> st_ok (apply_action st a).
Proof.
  intros S Ha. destruct a as [i v|b s lo hi w].
  - intros k x. cbn [apply_action set_tmp tmpv]. unfold upd. destruct (Nat.eqb k i).
    + intros [= <-]. eapply Ha. reflexivity.
    + apply S.
  - destruct b; exact S.
Qed.

Lemma apply_inv Wr st0 st a : Inv Wr st0 st ->
  (forall b s lo hi w, a = AWrite b s lo hi w ->
     0 <= lo <= hi /\ 0 <= w < 2 ^ (hi - lo) /\ forall j, lo <= j < hi -> Wr (s, j) = true) ->
  Inv Wr st0 (apply_action st a).
Proof.
  intros HI Ha. destruct a as [i v|b s lo hi w]; [exact HI|].
  destruct (Ha b s lo hi w eq_refl) as (Hlh & Hw & Hin).
  assert (K : forall j, Wr (s, j) = false -> Z.testbit (splice (sigv st s) lo hi w) j = Z.testbit (sigv st0 s) j).
  { intros j Hj. rewrite splice_bit by lia.
    destruct ((lo <=? j) && (j <? hi)) eqn:B; [rewrite Hin in Hj by lia; discriminate|]. exact (proj1 (HI s j Hj)). }
  intros s' j Hj. destruct b; cbn [apply_action write_root set_sig set_nxt sigv nxtv]; unfold upd.
  - destruct (Nat.eqb_spec s' s) as [->|Hne]; [|exact (HI s' j Hj)].
    split; [apply K; exact Hj|exact (proj2 (HI s j Hj))].
  - destruct (Nat.eqb_spec s' s) as [->|Hne]; [|exact (HI s' j Hj)].
    split; [exact (proj1 (HI s j Hj))|]. intros v [= <-]. apply K. exact Hj.
Qed.

Lemma apply_rel P st1 st2 a : rel P st1 st2 ->
  (forall b s lo hi w, a = AWrite b s lo hi w -> 0 <= lo <= hi /\ 0 <= w < 2 ^ (hi - lo)) ->
  rel P (apply_action st1 a) (apply_action st2 a).
Proof.
  intros (A & N & E) Ha. destruct a as [i v|b s lo hi w].
  - split; [exact A|]. split; [exact N|]. destruct E as [E1 E2]. split; [|exact E2].
    intros k. cbn [apply_action set_tmp tmpv]. unfold upd. destruct (Nat.eqb k i); [reflexivity|apply E1].
  - destruct (Ha b s lo hi w eq_refl) as (Hlh & Hw).
    assert (K : forall j, P (s, j) = true ->
                Z.testbit (splice (sigv st1 s) lo hi w) j = Z.testbit (splice (sigv st2 s) lo hi w) j).
    { intros j Hj. rewrite !splice_bit by lia. destruct ((lo <=? j) && (j <? hi)); [reflexivity|]. apply A. exact Hj. }
    destruct b; cbn [apply_action write_root set_sig set_nxt].
    + split; [|split; [exact N|exact E]].
      intros s' j Hj. cbn [sigv set_sig]. unfold upd. destruct (Nat.eqb_spec s' s) as [->|Hne]; [apply K; exact Hj|apply A; exact Hj].
    + split; [exact A|]. split; [|exact E].
      intros s'. cbn [nxtv set_nxt]. unfold upd. destruct (Nat.eqb_spec s' s) as [->|Hne]; [exact K|apply N].
Qed.

(* ================================================================ unfolding the statement executor *)
Section LoopExec.
  Variables (G : decls) (id : nat) (step : Z) (body : list stmt).
  Fixpoint loop_exec (n : nat) (i : Z) (st : state) : res state :=
    match n with
    | O => Ok st
    | S n' => bind (exec_block G body (set_loop st id i)) (loop_exec n' (i + step))
    end.
End LoopExec.

Lemma exec_for G id lo hi step body st :
  exec G (SFor id lo hi step body) st = loop_exec G id step body (loop_count lo hi step) lo st.
Proof. reflexivity. Qed.
Lemma exec_if G lbl c t f st :
  exec G (SIf lbl c t f) st =
  bind (eval G st c) (fun vc => exec_block G (if truthy vc then t else f)
                                  (add_evs st (map (fun p => (lbl, fst p, snd p)) (probes G st 0 c)))).
Proof. reflexivity. Qed.
Lemma exec_block_cons G x r st : exec_block G (x :: r) st = bind (exec G x st) (exec_block G r).
Proof. reflexivity. Qed.

Lemma fp_list_cons f x r L : fp_list f (x :: r) L = f x L ++ fp_list f r (kill (loop_ids_s x) L).
Proof. reflexivity. Qed.
Lemma writes_assign G lbl l e b L : writes_s G (SAssign lbl l e b) L = writes_lhs G L l.
Proof. reflexivity. Qed.
Lemma writes_if G lbl c t f L : writes_s G (SIf lbl c t f) L = fp_list (writes_s G) t L ++ fp_list (writes_s G) f L.
Proof. reflexivity. Qed.
Lemma writes_for G id lo hi step body L :
  writes_s G (SFor id lo hi step body) L =
  flat_map (fun i => fp_list (writes_s G) body ((id, i) :: kill (id :: loop_ids_l body) L))
           (iter_vals (loop_count lo hi step) lo step).
Proof. reflexivity. Qed.
Lemma reads_assign G lbl l e b L : reads_s G (SAssign lbl l e b) L = reads_lhs G L l ++ reads_e G L e.
Proof. reflexivity. Qed.
Lemma reads_if G lbl c t f L :
  reads_s G (SIf lbl c t f) L = reads_e G L c ++ fp_list (reads_s G) t L ++ fp_list (reads_s G) f L.
Proof. reflexivity. Qed.
Lemma reads_for G id lo hi step body L :
  reads_s G (SFor id lo hi step body) L =
  flat_map (fun i => fp_list (reads_s G) body ((id, i) :: kill (id :: loop_ids_l body) L))
           (iter_vals (loop_count lo hi step) lo step).
Proof. reflexivity. Qed.
Lemma loop_ids_if lbl c t f : loop_ids_s (SIf lbl c t f) = loop_ids_l t ++ loop_ids_l f.
Proof. reflexivity. Qed.
Lemma loop_ids_for id lo hi step body : loop_ids_s (SFor id lo hi step body) = id :: loop_ids_l body.
Proof. reflexivity. Qed.

Section StmtInd.
  Variable P : stmt -> Prop.
  Hypothesis HA : forall lbl l e b, P (SAssign lbl l e b).
  Hypothesis HI : forall lbl c t f, Forall P t -> Forall P f -> P (SIf lbl c t f).
  Hypothesis HF : forall id lo hi step body, Forall P body -> P (SFor id lo hi step body).
  Fixpoint stmt_ind' (s : stmt) : P s :=
    match s with
    | SAssign lbl l e b => HA lbl l e b
    | SIf lbl c t f =>
        HI lbl c t f
          ((fix go (l : list stmt) : Forall P l :=
              match l with [] => Forall_nil P | x :: r => Forall_cons x (stmt_ind' x) (go r) end) t)
          ((fix go (l : list stmt) : Forall P l :=
              match l with [] => Forall_nil P | x :: r => Forall_cons x (stmt_ind' x) (go r) end) f)
    | SFor id lo hi step body =>
        HF id lo hi step body
          ((fix go (l : list stmt) : Forall P l :=
              match l with [] => Forall_nil P | x :: r => Forall_cons x (stmt_ind' x) (go r) end) body)
    end.
End StmtInd.

(* ---- what is known about loop variables stays true ---- *)
Lemma lookup_kill ids L j z : lookup_l (kill ids L) j = Some z -> ~ In j ids /\ lookup_l L j = Some z.
Proof.
  unfold kill. induction L as [|[k y] L IH]; cbn [filter lookup_l fst]; [discriminate|].
  destruct (existsb (Nat.eqb k) ids) eqn:Ex; cbn [negb].
  - intros H. destruct (IH H) as [H1 H2]. split; [exact H1|].
    destruct (Nat.eqb_spec j k) as [->|Hne]; [|exact H2]. exfalso. apply H1.
    apply existsb_exists in Ex. destruct Ex as (x & Hx & Hk). apply Nat.eqb_eq in Hk. subst x. exact Hx.
  - cbn [lookup_l]. destruct (Nat.eqb_spec j k) as [->|Hne]; [|exact IH].
    intros [= <-]. split; [|reflexivity]. intros Hin.
    assert (existsb (Nat.eqb k) ids = true) by (apply existsb_exists; exists k; split; [exact Hin|apply Nat.eqb_refl]).
    congruence.
Qed.

Lemma lenv_ok_kill L ids st st' : lenv_ok L st -> (forall i, ~ In i ids -> loopv st' i = loopv st i) ->
  lenv_ok (kill ids L) st'.
Proof. intros H F i z Hi. apply lookup_kill in Hi. destruct Hi as [Hn Hl]. rewrite F by exact Hn. apply H. exact Hl. Qed.

Lemma lenv_ok_bind L id i st : lenv_ok L st -> lenv_ok ((id, i) :: L) (set_loop st id i).
Proof.
  intros H j z. cbn [lookup_l loopv set_loop]. unfold upd. destruct (Nat.eqb j id); [intros [= <-]; reflexivity|apply H].
Qed.

Lemma lenv_ok_nil st : lenv_ok [] st.
Proof. intros i z H. discriminate. Qed.

(* ================================================================ one run: frame *)
Section OneRun.
  Variables (G : decls) (Wr : bit -> bool) (st0 : state).
  Hypothesis W : wf_decls G.

  Definition one_s (s : stmt) : Prop :=
    forall L st st', st_ok st -> lenv_ok L st -> Inv Wr st0 st -> sub (writes_s G s L) Wr -> exec G s st = Ok st' ->
      st_ok st' /\ (forall i, ~ In i (loop_ids_s s) -> loopv st' i = loopv st i) /\ Inv Wr st0 st'.
  Definition one_l (l : list stmt) : Prop :=
    forall L st st', st_ok st -> lenv_ok L st -> Inv Wr st0 st -> sub (fp_list (writes_s G) l L) Wr ->
      exec_block G l st = Ok st' ->
      st_ok st' /\ (forall i, ~ In i (loop_ids_l l) -> loopv st' i = loopv st i) /\ Inv Wr st0 st'.

  Lemma one_list l : Forall one_s l -> one_l l.
  Proof.
    induction 1 as [|x r Hx Hr IH]; intros L st st' S HL HI Sb Hex.
    - injection Hex as <-. auto.
    - rewrite exec_block_cons in Hex. apply bind_ok in Hex. destruct Hex as (st1 & H1 & H2).
      rewrite fp_list_cons in Sb. apply sub_app in Sb. destruct Sb as [Sx Sr].
      destruct (Hx L st st1 S HL HI Sx H1) as (S1 & F1 & I1).
      destruct (IH (kill (loop_ids_s x) L) st1 st' S1 (lenv_ok_kill L _ st st1 HL F1) I1 Sr H2) as (S2 & F2 & I2).
      split; [exact S2|]. split; [|exact I2].
      intros i Hi. cbn [loop_ids_l] in Hi. rewrite F2, F1; [reflexivity| |]; intros Hin; apply Hi; apply in_or_app; auto.
  Qed.

  Lemma one_loop id step body (L1 : lenv) : one_l body ->
    forall n i st st', st_ok st -> lenv_ok L1 st -> Inv Wr st0 st ->
      (forall k, In k (iter_vals n i step) -> sub (fp_list (writes_s G) body ((id, k) :: L1)) Wr) ->
      (forall j z, lookup_l L1 j = Some z -> ~ In j (id :: loop_ids_l body)) ->
      loop_exec G id step body n i st = Ok st' ->
      st_ok st' /\ (forall j, ~ In j (id :: loop_ids_l body) -> loopv st' j = loopv st j) /\ Inv Wr st0 st'.
  Proof.
    intros HB. induction n as [|n IH]; intros i st st' S HL HI Sb HK Hex; cbn [loop_exec] in Hex.
    - injection Hex as <-. auto.
    - apply bind_ok in Hex. destruct Hex as (st1 & H1 & H2).
      destruct (HB ((id, i) :: L1) (set_loop st id i) st1 S (lenv_ok_bind L1 id i st HL) HI
                   (Sb i (or_introl eq_refl)) H1) as (S1 & F1 & I1).
      assert (Fr : forall j, ~ In j (id :: loop_ids_l body) -> loopv st1 j = loopv st j).
      { intros j Hj. rewrite F1 by (intros Hin; apply Hj; right; exact Hin).
        cbn [loopv set_loop]. unfold upd. destruct (Nat.eqb_spec j id) as [->|Hne]; [|reflexivity].
        exfalso. apply Hj. left. reflexivity. }
      assert (HL1 : lenv_ok L1 st1).
      { intros j z Hj. rewrite Fr by (eapply HK; eauto). apply HL. exact Hj. }
      destruct (IH (i + step) st1 st' S1 HL1 I1 (fun k Hk => Sb k (or_intror Hk)) HK H2) as (S2 & F2 & I2).
      split; [exact S2|]. split; [|exact I2]. intros j Hj. rewrite F2, Fr by exact Hj. reflexivity.
  Qed.

  Lemma one_stmt s : one_s s.
  Proof.
    induction s using stmt_ind'; intros L st st' S HL HI Sb Hex.
    - cbn [exec] in Hex. rewrite exec_assign_resolve in Hex by assumption.
      apply bind_ok in Hex. destruct Hex as (a & Ha & Hex). injection Hex as <-.
      rewrite writes_assign in Sb.
      split; [|split].
      + apply apply_st_ok; [exact S|]. intros i v ->. eapply resolve_tmp_wf; eauto.
      + intros i _. rewrite apply_loopv. reflexivity.
      + apply apply_inv; [exact HI|]. intros b' s lo hi w ->.
        destruct (resolve_fp G st L l e b b' s lo hi w W S HL Ha) as (H1 & H2 & H3).
        split; [lia|]. split; [exact H2|]. intros j Hj. apply Sb. apply H3. exact Hj.
    - rewrite exec_if in Hex. apply bind_ok in Hex. destruct Hex as (vc & Hc & Hex).
      rewrite writes_if in Sb. apply sub_app in Sb. destruct Sb as [St Sf].
      rewrite loop_ids_if.
      destruct (truthy vc).
      + destruct (one_list t H L (add_evs st _) st' S HL HI St Hex) as (S1 & F1 & I1).
        split; [exact S1|]. split; [|exact I1]. intros i Hi. apply F1. intros Hin. apply Hi. apply in_or_app. auto.
      + destruct (one_list f H0 L (add_evs st _) st' S HL HI Sf Hex) as (S1 & F1 & I1).
        split; [exact S1|]. split; [|exact I1]. intros i Hi. apply F1. intros Hin. apply Hi. apply in_or_app. auto.
    - rewrite exec_for in Hex. rewrite writes_for in Sb. rewrite loop_ids_for.
      apply (one_loop id step body (kill (id :: loop_ids_l body) L) (one_list body H)
               (loop_count lo hi step) lo st st' S); auto.
      + apply (lenv_ok_kill L _ st st HL). reflexivity.
      + intros k Hk. apply (proj1 (sub_flat_map _ _ _) Sb k Hk).
      + intros j z Hj. apply lookup_kill in Hj. tauto.
  Qed.

  Lemma one_block b : one_l b.
  Proof. apply one_list. apply Forall_forall. intros s _. apply one_stmt. Qed.
End OneRun.

(* what one run preserves, without any footprint bookkeeping *)
Lemma inv_true st0 st : Inv (fun _ => true) st0 st.
Proof. intros s j H. discriminate. Qed.
Lemma sub_true F : sub F (fun _ => true).
Proof. intros v _. reflexivity. Qed.

Lemma exec_block_pres G l L st st' : wf_decls G -> st_ok st -> lenv_ok L st -> exec_block G l st = Ok st' ->
  st_ok st' /\ (forall i, ~ In i (loop_ids_l l) -> loopv st' i = loopv st i).
Proof.
  intros W S HL H.
  destruct (one_block G (fun _ => true) st W l L st st' S HL (inv_true st st) (sub_true _) H) as (S1 & F1 & _). auto.
Qed.
Lemma exec_pres G s L st st' : wf_decls G -> st_ok st -> lenv_ok L st -> exec G s st = Ok st' ->
  st_ok st' /\ (forall i, ~ In i (loop_ids_s s) -> loopv st' i = loopv st i).
Proof.
  intros W S HL H.
  destruct (one_stmt G (fun _ => true) st W s L st st' S HL (inv_true st st) (sub_true _) H) as (S1 & F1 & _). auto.
Qed.

(* ================================================================ two runs: dependence *)
Definition out_rel (P : bit -> bool) (r1 r2 : res state) : Prop :=
  match r1, r2 with
  | Ok a, Ok b => rel P a b
  | Err x, Err y => x = y
  | _, _ => False
  end.

Lemma st_ok_eq st1 st2 : loc_eq st1 st2 -> st_ok st1 -> st_ok st2.
Proof. intros [E _] S i v H. rewrite <- E in H. eapply S; eauto. Qed.

Lemma rel_set_loop P st1 st2 id i : rel P st1 st2 -> rel P (set_loop st1 id i) (set_loop st2 id i).
Proof.
  intros (A & N & E1 & E2). split; [exact A|]. split; [exact N|]. split; [exact E1|].
  intros j. cbn [loopv set_loop]. unfold upd. destruct (Nat.eqb j id); [reflexivity|apply E2].
Qed.

Section TwoRuns.
  Variables (G : decls) (P : bit -> bool).
  Hypothesis W : wf_decls G.

  Definition two_s (s : stmt) : Prop :=
    forall L st1 st2, st_ok st1 -> lenv_ok L st1 -> rel P st1 st2 -> sub (reads_s G s L) P ->
      out_rel P (exec G s st1) (exec G s st2).
  Definition two_l (l : list stmt) : Prop :=
    forall L st1 st2, st_ok st1 -> lenv_ok L st1 -> rel P st1 st2 -> sub (fp_list (reads_s G) l L) P ->
      out_rel P (exec_block G l st1) (exec_block G l st2).

  Lemma two_list l : Forall two_s l -> two_l l.
  Proof.
    induction 1 as [|x r Hx Hr IH]; intros L st1 st2 S HL R Sb.
    - exact R.
    - rewrite !exec_block_cons. rewrite fp_list_cons in Sb. apply sub_app in Sb. destruct Sb as [Sx Sr].
      pose proof (Hx L st1 st2 S HL R Sx) as Ox. unfold out_rel in Ox.
      destruct (exec G x st1) as [a|x1] eqn:E1; destruct (exec G x st2) as [b|x2] eqn:E2; try contradiction; cbn [bind].
      + destruct (exec_pres G x L st1 a W S HL E1) as [Sa Fa].
        apply (IH (kill (loop_ids_s x) L) a b Sa (lenv_ok_kill L _ st1 a HL Fa) Ox Sr).
      + exact Ox.
  Qed.

  Lemma two_loop id step body (L1 : lenv) : two_l body ->
    forall n i st1 st2, st_ok st1 -> lenv_ok L1 st1 -> rel P st1 st2 ->
      (forall k, In k (iter_vals n i step) -> sub (fp_list (reads_s G) body ((id, k) :: L1)) P) ->
      (forall j z, lookup_l L1 j = Some z -> ~ In j (id :: loop_ids_l body)) ->
      out_rel P (loop_exec G id step body n i st1) (loop_exec G id step body n i st2).
  Proof.
    intros HB. induction n as [|n IH]; intros i st1 st2 S HL R Sb HK; cbn [loop_exec].
    - exact R.
    - pose proof (HB ((id, i) :: L1) (set_loop st1 id i) (set_loop st2 id i) S (lenv_ok_bind L1 id i st1 HL)
                    (rel_set_loop P st1 st2 id i R) (Sb i (or_introl eq_refl))) as Ob. unfold out_rel in Ob.
      destruct (exec_block G body (set_loop st1 id i)) as [a|x1] eqn:E1;
        destruct (exec_block G body (set_loop st2 id i)) as [b|x2] eqn:E2; try contradiction; cbn [bind].
      + destruct (exec_block_pres G body ((id, i) :: L1) (set_loop st1 id i) a W S (lenv_ok_bind L1 id i st1 HL) E1) as [Sa Fa].
        assert (HL1 : lenv_ok L1 a).
        { intros j z Hj. pose proof (HK j z Hj) as Hn.
          rewrite Fa by (intros Hin; apply Hn; right; exact Hin).
          cbn [loopv set_loop]. unfold upd. destruct (Nat.eqb_spec j id) as [->|Hne]; [|apply HL; exact Hj].
          exfalso. apply Hn. left. reflexivity. }
        apply (IH (i + step) a b Sa HL1 Ob (fun k Hk => Sb k (or_intror Hk)) HK).
      + exact Ob.
  Qed.

  Lemma two_stmt s : two_s s.
  Proof.
    induction s using stmt_ind'; intros L st1 st2 S HL R Sb.
    - destruct R as (A & N & E). pose proof (st_ok_eq st1 st2 E S) as S2.
      cbn [exec]. rewrite !exec_assign_resolve by assumption. rewrite reads_assign in Sb.
      rewrite <- (resolve_dep G P st1 st2 L l e b W A E HL Sb).
      destruct (resolve G st1 l e b) as [a|x] eqn:Ha; cbn [bind out_rel]; [|reflexivity].
      apply apply_rel; [exact (conj A (conj N E))|].
      intros b' s lo hi w ->. destruct (resolve_fp G st1 L l e b b' s lo hi w W S HL Ha) as (H1 & H2 & _).
      split; [lia|exact H2].
    - rewrite !exec_if. rewrite reads_if in Sb. apply sub_app in Sb. destruct Sb as [Sc Sb].
      apply sub_app in Sb. destruct Sb as [St Sf]. destruct R as (A & N & E).
      rewrite <- (eval_dep G P st1 st2 W A E L c HL Sc).
      destruct (eval G st1 c) as [vc|x]; cbn [bind out_rel]; [|reflexivity].
      destruct (truthy vc).
      + apply (two_list t H L (add_evs st1 _) (add_evs st2 _) S HL (conj A (conj N E)) St).
      + apply (two_list f H0 L (add_evs st1 _) (add_evs st2 _) S HL (conj A (conj N E)) Sf).
    - rewrite !exec_for. rewrite reads_for in Sb.
      apply (two_loop id step body (kill (id :: loop_ids_l body) L) (two_list body H)); auto.
      + apply (lenv_ok_kill L _ st1 st1 HL). reflexivity.
      + intros k Hk. apply (proj1 (sub_flat_map _ _ _) Sb k Hk).
      + intros j z Hj. apply lookup_kill in Hj. tauto.
  Qed.

  Lemma two_block b : two_l b.
  Proof. apply two_list. apply Forall_forall. intros s _. apply two_stmt. Qed.
End TwoRuns.

(* ================================================================ the block-level theorems *)
Definition block_rd (G : decls) (b : list stmt) : bit -> bool := mem_fp (reads_d G b).
Definition block_wr (G : decls) (b : list stmt) : bit -> bool := mem_fp (writes_d G b).

(* (a) frame.  A block that starts with no pending <<= value changes only bits inside writes_d:
   every other bit of every signal — also as seen after the clock edge (final_sig) — keeps its value. *)
Theorem exec_frame G b st st' : wf_declsb G = true -> st_ok st -> (forall s, nxtv st s = None) ->
  exec_block G b st = Ok st' ->
  forall s j, block_wr G b (s, j) = false ->
    Z.testbit (sigv st' s) j = Z.testbit (sigv st s) j /\ Z.testbit (final_sig st' s) j = Z.testbit (sigv st s) j.
Proof.
  intros Wb S N H s j Hj. apply wf_declsb_sound in Wb.
  assert (I0 : Inv (block_wr G b) st st).
  { intros s' j' _. split; [reflexivity|]. intros v Hv. rewrite N in Hv. discriminate. }
  destruct (one_block G (block_wr G b) st Wb b [] st st' S (lenv_ok_nil st) I0 (fun v Hv => Hv) H) as (_ & _ & I1).
  destruct (I1 s j Hj) as [H1 H2]. split; [exact H1|].
  unfold final_sig. destruct (nxtv st' s) as [v|] eqn:E; [apply H2; reflexivity|exact H1].
Qed.

Lemma rel_final P a c s j : rel P a c -> P (s, j) = true ->
  Z.testbit (final_sig a s) j = Z.testbit (final_sig c s) j.
Proof.
  intros (A & N & _) Hj. unfold final_sig. specialize (N s).
  destruct (nxtv a s), (nxtv c s); try contradiction; [apply N; exact Hj|apply A; exact Hj].
Qed.

(* (b) dependence.  Two states that agree on the bits in reads_d and on the bits in writes_d (and have the same
   temporaries / loop variables, e.g. none) give the same outcome: the same error class, or the same value
   for every bit in the write footprint, now and after the clock edge. *)
Theorem exec_dep G b st1 st2 : wf_declsb G = true -> st_ok st1 ->
  rel (fun v => block_rd G b v || block_wr G b v) st1 st2 ->
  match exec_block G b st1, exec_block G b st2 with
  | Ok a, Ok c => forall s j, block_wr G b (s, j) = true ->
                    Z.testbit (sigv a s) j = Z.testbit (sigv c s) j /\
                    Z.testbit (final_sig a s) j = Z.testbit (final_sig c s) j
  | Err x, Err y => x = y
  | _, _ => False
  end.
Proof.
  intros Wb S R. apply wf_declsb_sound in Wb.
  pose proof (two_block G (fun v => block_rd G b v || block_wr G b v) Wb b [] st1 st2 S (lenv_ok_nil st1) R
                (fun v Hv => orb_true_intro _ _ (or_introl Hv))) as O.
  unfold out_rel in O. destruct (exec_block G b st1) as [a|x]; destruct (exec_block G b st2) as [c|y]; try exact O.
  intros s j Hj. assert (Hp : block_rd G b (s, j) || block_wr G b (s, j) = true) by (rewrite Hj; apply orb_true_r).
  split; [apply (proj1 O); exact Hp|]. apply (rel_final _ a c s j O Hp).
Qed.

Lemma nth_map_seq (f : nat -> Z) n s : (s < n)%nat -> nth s (map f (seq 0 n)) 0 = f s.
Proof.
  intros H. rewrite nth_indep with (d' := f 0%nat) by (rewrite map_length, seq_length; exact H).
  rewrite map_nth, seq_nth by exact H. reflexivity.
Qed.

(* the same two facts for the observable of Eval.run_block on two input vectors *)
Corollary run_block_dep G nsig b i1 i2 : wf_declsb G = true ->
  (forall s j, block_rd G b (s, j) || block_wr G b (s, j) = true -> Z.testbit (nth s i1 0) j = Z.testbit (nth s i2 0) j) ->
  match run_block G nsig b i1, run_block G nsig b i2 with
  | Ok (o1, _), Ok (o2, _) =>
      forall s j, (s < nsig)%nat -> block_wr G b (s, j) = true -> Z.testbit (nth s o1 0) j = Z.testbit (nth s o2 0) j
  | Err x, Err y => x = y
  | _, _ => False
  end.
Proof.
  intros Wb H. unfold run_block.
  assert (R : rel (fun v => block_rd G b v || block_wr G b v) (init_state i1) (init_state i2)).
  { split; [exact H|]. split; [intros s; exact I|]. split; intros i; reflexivity. }
  assert (S : st_ok (init_state i1)) by (intros i v Hv; discriminate).
  pose proof (exec_dep G b (init_state i1) (init_state i2) Wb S R) as O.
  destruct (exec_block G b (init_state i1)) as [a|x]; destruct (exec_block G b (init_state i2)) as [c|y]; cbn [bind]; try exact O.
  intros s j Hs Hj. rewrite !nth_map_seq by exact Hs. apply O. exact Hj.
Qed.

(* ================================================================ blocks of the language as Sched.Block.blk *)
Lemma covers_sound D C : covers D C = true -> forall v, mem_fp C v = true -> mem_fp D v = true.
Proof.
  unfold covers. intros H [r j] Hv. rewrite forallb_forall in H.
  unfold mem_fp in Hv. apply existsb_exists in Hv. destruct Hv as (a & Ha & Hin).
  specialize (H a Ha). unfold ivl_covered in H. rewrite forallb_forall in H.
  unfold in_ivl in Hin. cbn [fst snd] in Hin.
  apply andb_prop in Hin. destruct Hin as [Hin H3]. apply andb_prop in Hin. destruct Hin as [H1 H2].
  apply Nat.eqb_eq in H1. subst r.
  specialize (H (Z.to_nat (j - ilo a))).
  replace (ilo a + Z.of_nat (Z.to_nat (j - ilo a))) with j in H by lia.
  apply H. apply in_seq. lia.
Qed.

Fixpoint pack_bits (e : Z -> bool) (n : nat) : Z :=
  match n with
  | O => 0
  | S k => if e (Z.of_nat k) then Z.setbit (pack_bits e k) (Z.of_nat k) else pack_bits e k
  end.

Lemma pack_bits_spec e n j : Z.testbit (pack_bits e n) j = if (0 <=? j) && (j <? Z.of_nat n) then e j else false.
Proof.
  induction n as [|k IH]; cbn [pack_bits].
  - rewrite Z.bits_0. destruct ((0 <=? j) && (j <? Z.of_nat 0)) eqn:B; [lia|reflexivity].
  - destruct (Z.eq_dec j (Z.of_nat k)) as [->|Hne].
    + destruct (e (Z.of_nat k)) eqn:Ek.
      * rewrite Z.setbit_eq by lia. destruct ((0 <=? Z.of_nat k) && (Z.of_nat k <? Z.of_nat (S k))) eqn:B; [reflexivity|lia].
      * rewrite IH. destruct ((0 <=? Z.of_nat k) && (Z.of_nat k <? Z.of_nat k)) eqn:B; [lia|].
        destruct ((0 <=? Z.of_nat k) && (Z.of_nat k <? Z.of_nat (S k))); auto.
    + assert (K : Z.testbit (if e (Z.of_nat k) then Z.setbit (pack_bits e k) (Z.of_nat k) else pack_bits e k) j
                  = Z.testbit (pack_bits e k) j).
      { destruct (e (Z.of_nat k)); [|reflexivity]. apply Z.setbit_neq; lia. }
      rewrite K, IH.
      destruct ((0 <=? j) && (j <? Z.of_nat k)) eqn:B1; destruct ((0 <=? j) && (j <? Z.of_nat (S k))) eqn:B2; try reflexivity; lia.
Qed.

Section Package.
  Variable G : decls.

  (* the packed simulator state described by a bit environment (bits of signal s: 0 .. sig_hi G s - 1) *)
  Definition state_of (e : env bit bool) : state :=
    {| sigv := fun s => pack_bits (fun k => e (s, k)) (Z.to_nat (sig_hi G s));
       nxtv := fun _ => None; tmpv := fun _ => None; loopv := fun _ => None; evs := [] |}.

  Definition in_sig (v : bit) : bool := (0 <=? snd v) && (snd v <? sig_hi G (fst v)).

  (* a block as a transformer of bit environments; an exception leaves the environment as it is
     (the simulation stops; exec_dep shows that the exception itself depends on the read set only).
     For an update_ff block the result is the state after the clock edge (final_sig). *)
  Definition rtl_run (b : list stmt) (e : env bit bool) : env bit bool :=
    fun v => match exec_block G b (state_of e) with
             | Ok st' => if in_sig v then Z.testbit (final_sig st' (fst v)) (snd v) else e v
             | Err _ => e v
             end.

  Definition rtl_blk (b : list stmt) : blk bit bool := mkBlk (block_rd G b) (block_wr G b) (rtl_run b).

  Lemma state_of_bit e s j : Z.testbit (sigv (state_of e) s) j = if in_sig (s, j) then e (s, j) else false.
  Proof.
    cbn [sigv state_of]. rewrite pack_bits_spec. unfold in_sig. cbn [fst snd].
    destruct (Z.leb_spec 0 j); cbn [andb]; [|reflexivity].
    destruct (Z.ltb_spec j (Z.of_nat (Z.to_nat (sig_hi G s)))); destruct (Z.ltb_spec j (sig_hi G s)); try reflexivity; lia.
  Qed.

  Lemma state_of_ok e : st_ok (state_of e).
  Proof. intros i v H. discriminate. Qed.

  Hypothesis Wb : wf_declsb G = true.

  Theorem rtl_frame b : frame (rtl_blk b).
  Proof.
    intros e [s j] Hv. cbn [run rtl_blk wr] in *. unfold rtl_run.
    destruct (exec_block G b (state_of e)) as [st'|x] eqn:Ex; [|reflexivity].
    destruct (in_sig (s, j)) eqn:B; [|reflexivity]. cbn [fst snd].
    destruct (exec_frame G b (state_of e) st' Wb (state_of_ok e) (fun _ => eq_refl) Ex s j Hv) as [_ H].
    rewrite H, state_of_bit, B. reflexivity.
  Qed.

  Theorem rtl_dep b : dep (rtl_blk b).
  Proof.
    intros e1 e2 Hag [s j] Hv. cbn [run rtl_blk wr rd] in *. unfold rtl_run.
    assert (R : rel (fun v => block_rd G b v || block_wr G b v) (state_of e1) (state_of e2)).
    { split; [|split; [intros s'; exact I|split; intros i; reflexivity]].
      intros s' j' Hp. rewrite !state_of_bit. destruct (in_sig (s', j')); [|reflexivity].
      apply Hag. apply orb_prop in Hp. exact Hp. }
    pose proof (exec_dep G b (state_of e1) (state_of e2) Wb (state_of_ok e1) R) as O.
    assert (He : e1 (s, j) = e2 (s, j)) by (apply Hag; right; exact Hv).
    destruct (exec_block G b (state_of e1)) as [a|x]; destruct (exec_block G b (state_of e2)) as [c|y]; try contradiction.
    - destruct (in_sig (s, j)); [|exact He]. cbn [fst snd]. apply O. exact Hv.
    - exact He.
  Qed.
End Package.

(* enlarging the declared footprints keeps frame and dep *)
Lemma blk_mono {val : Type} (R : env bit val -> env bit val) (rd1 wr1 rd2 wr2 : bit -> bool) :
  frame (mkBlk rd1 wr1 R) -> dep (mkBlk rd1 wr1 R) ->
  (forall v, rd1 v = true -> rd2 v = true) -> (forall v, wr1 v = true -> wr2 v = true) ->
  frame (mkBlk rd2 wr2 R) /\ dep (mkBlk rd2 wr2 R).
Proof.
  intros F D Hr Hw. split.
  - intros e v Hv. cbn [wr run] in *. apply F. cbn [wr]. destruct (wr1 v) eqn:E; [|reflexivity].
    rewrite (Hw v E) in Hv. discriminate.
  - intros e1 e2 Hag v Hv. cbn [rd wr run] in *.
    destruct (wr1 v) eqn:E.
    + apply D; [|exact E]. intros u [Hu|Hu]; cbn [rd wr] in Hu; apply Hag; auto.
    + transitivity (e1 v); [exact (F e1 v E)|]. transitivity (e2 v); [|symmetry; exact (F e2 v E)].
      apply Hag. right. exact Hv.
Qed.

(* (c) a block of the language satisfies the hypotheses of the scheduling theorems for ANY declared
   footprints that cover the computed ones *)
Theorem rtl_blk_footprints G b (rdD wrD : fp) : wf_declsb G = true ->
  covers rdD (reads_d G b) = true -> covers wrD (writes_d G b) = true ->
  frame (mkBlk (mem_fp rdD) (mem_fp wrD) (rtl_run G b)) /\ dep (mkBlk (mem_fp rdD) (mem_fp wrD) (rtl_run G b)).
Proof.
  intros Wb Cr Cw.
  apply (blk_mono (rtl_run G b) (block_rd G b) (block_wr G b)).
  - exact (rtl_frame G Wb b).
  - exact (rtl_dep G Wb b).
  - apply covers_sound. exact Cr.
  - apply covers_sound. exact Cw.
Qed.

(* the end-to-end theorem of C01 with no footprint hypothesis: for a design whose blocks are all in the
   language, any two observed schedules accepted by sched_ok compute the same state *)
Theorem rtl_accepted_schedules_agree (G : decls) (progs : nat -> list stmt) (d : design) :
  wf_declsb G = true -> wf_design d = true -> sw_ok d = true -> rtl_cover_ok G progs d = true ->
  forall o1 o2, sched_ok d o1 = true -> sched_ok d o2 = true ->
  forall e, eqe (run_list (Bd d (fun i => rtl_run G (progs i))) o1 e)
                (run_list (Bd d (fun i => rtl_run G (progs i))) o2 e).
Proof.
  intros Wb Wd Sw Cv.
  assert (K : forall i, In i (ids d) ->
            frame (Bd d (fun i => rtl_run G (progs i)) i) /\ dep (Bd d (fun i => rtl_run G (progs i)) i)).
  { intros i Hi. unfold rtl_cover_ok in Cv. rewrite forallb_forall in Cv. specialize (Cv i Hi).
    apply andb_prop in Cv. destruct Cv as [Cr Cw]. unfold Bd. apply rtl_blk_footprints; assumption. }
  apply (accepted_schedules_agree d (fun i => rtl_run G (progs i)) Wd Sw (fun i Hi => proj1 (K i Hi)) (fun i Hi => proj2 (K i Hi))).
Qed.

(* ================================================================ the table computed from shapes is legal *)
Section SShapeInd.
  Variable P : sshape -> Prop.
  Hypothesis HB : forall w, P (ShBits w).
  Hypothesis HS : forall fs, Forall P fs -> P (ShStruct fs).
  Fixpoint sshape_ind' (t : sshape) : P t :=
    match t with
    | ShBits w => HB w
    | ShStruct fs =>
        HS fs ((fix go (l : list sshape) : Forall P l :=
                  match l with [] => Forall_nil P | x :: r => Forall_cons x (sshape_ind' x) (go r) end) fs)
    end.
End SShapeInd.

Fixpoint swidths (l : list sshape) : Z := match l with [] => 0 | f :: r => swidth f + swidths r end.
Fixpoint wf_fields (l : list sshape) : bool := match l with [] => true | f :: r => wf_shape f && wf_fields r end.
Fixpoint fields_paths (l : list sshape) (i : nat) (top : Z) : list (list nat * finfo) :=
  match l with
  | [] => []
  | f :: r => map (fun pf => (i :: fst pf, snd pf)) (shape_paths f (top - swidth f)) ++ fields_paths r (S i) (top - swidth f)
  end.
Lemma swidth_struct fs : swidth (ShStruct fs) = swidths fs.
Proof. reflexivity. Qed.
Lemma wf_struct fs : wf_shape (ShStruct fs) = match fs with [] => false | _ => true end && wf_fields fs.
Proof. reflexivity. Qed.
Lemma shape_paths_struct fs lo :
  shape_paths (ShStruct fs) lo =
  ([], {| fw := swidths fs; flo := lo; fstruct := Some 0%nat |}) :: fields_paths fs 0%nat (lo + swidths fs).
Proof. reflexivity. Qed.

(* every field lies inside its parent, has positive width *)
Definition inside (lo hi : Z) (pf : list nat * finfo) : Prop :=
  0 < fw (snd pf) /\ lo <= flo (snd pf) /\ flo (snd pf) + fw (snd pf) <= hi.

Lemma inside_weaken lo hi lo' hi' l : lo' <= lo -> hi <= hi' -> Forall (inside lo hi) l -> Forall (inside lo' hi') l.
Proof. intros H1 H2 H. eapply Forall_impl; [|exact H]. unfold inside. intros a. lia. Qed.

Lemma shape_paths_inside t : wf_shape t = true ->
  0 < swidth t /\ forall lo, Forall (inside lo (lo + swidth t)) (shape_paths t lo).
Proof.
  induction t using sshape_ind'; intros Wt.
  - cbn in Wt. cbn [swidth shape_paths]. split; [lia|]. intros lo. constructor; [|constructor].
    unfold inside. cbn [snd fw flo]. lia.
  - rewrite wf_struct in Wt. apply andb_prop in Wt. destruct Wt as [Hne Wf].
    assert (K : forall i top, Forall (inside (top - swidths fs) top) (fields_paths fs i top) /\ 0 <= swidths fs /\
                              (fs <> [] -> 0 < swidths fs)).
    { clear Hne. induction H as [|f r Hf Hr IH]; intros i top.
      - cbn. split; [constructor|]. split; [lia|]. congruence.
      - cbn [wf_fields] in Wf. apply andb_prop in Wf. destruct Wf as [W1 W2].
        destruct (Hf W1) as [Pf Sf]. destruct (IH W2 (S i) (top - swidth f)) as (Fr & Nr & _).
        cbn [fields_paths swidths]. split; [|split; [lia|intros _; lia]].
        apply Forall_app. split.
        + apply Forall_map. specialize (Sf (top - swidth f)).
          eapply Forall_impl; [|exact Sf]. unfold inside. cbn [snd]. intros a. lia.
        + eapply inside_weaken; [| |exact Fr]; lia. }
    destruct (K 0%nat 0) as (_ & N0 & P0).
    assert (Pos : 0 < swidths fs) by (apply P0; destruct fs; [discriminate|congruence]).
    rewrite swidth_struct. split; [exact Pos|]. intros lo. rewrite shape_paths_struct.
    constructor.
    + unfold inside. cbn [snd fw flo]. lia.
    + destruct (K 0%nat (lo + swidths fs)) as (F & _ & _).
      eapply inside_weaken; [| |exact F]; lia.
Qed.

Lemma wf_declsb_Forall G : wf_declsb G = true <-> Forall (fun d => wf_finfo (snd d) = true) G.
Proof. unfold wf_declsb. rewrite forallb_forall, Forall_forall. reflexivity. Qed.

Theorem decls_of_wf T : wf_shapes T = true -> wf_declsb (decls_of T) = true.
Proof.
  unfold decls_of, wf_shapes. generalize 0%nat. induction T as [|t r IH]; intros s H; cbn [decls_from].
  - reflexivity.
  - cbn [forallb] in H. apply andb_prop in H. destruct H as [Ht Hr]. apply andb_prop in Ht. destruct Ht as [Wt Lt].
    apply wf_declsb_Forall. apply Forall_app. split; [|apply wf_declsb_Forall; apply IH; exact Hr].
    apply Forall_map. destruct (shape_paths_inside t Wt) as [Pt St].
    eapply Forall_impl; [|exact (St 0)]. unfold inside, wf_finfo. cbn [snd]. intros a. lia.
Qed.

(* the same for a design only SOME of whose blocks are in the language: the footprint hypotheses remain only
   for the other blocks (inl i = false), whose semantics R0 i is arbitrary *)
Definition mixed_run (G : decls) (progs : nat -> list stmt) (inl : nat -> bool)
           (R0 : nat -> env bit bool -> env bit bool) (i : nat) : env bit bool -> env bit bool :=
  if inl i then rtl_run G (progs i) else R0 i.
Definition mixed_cover_ok (G : decls) (progs : nat -> list stmt) (inl : nat -> bool) (d : design) : bool :=
  forallb (fun i => negb (inl i) ||
                    (covers (rds d i) (reads_d G (progs i)) && covers (wrs d i) (writes_d G (progs i)))) (ids d).

Theorem rtl_mixed_schedules_agree (G : decls) (progs : nat -> list stmt) (inl : nat -> bool)
        (R0 : nat -> env bit bool -> env bit bool) (d : design) :
  wf_declsb G = true -> wf_design d = true -> sw_ok d = true -> mixed_cover_ok G progs inl d = true ->
  (forall i, In i (ids d) -> inl i = false -> frame (Bd d R0 i) /\ dep (Bd d R0 i)) ->
  forall o1 o2, sched_ok d o1 = true -> sched_ok d o2 = true ->
  forall e, eqe (run_list (Bd d (mixed_run G progs inl R0)) o1 e) (run_list (Bd d (mixed_run G progs inl R0)) o2 e).
Proof.
  intros Wb Wd Sw Cv Hout.
  assert (K : forall i, In i (ids d) ->
            frame (Bd d (mixed_run G progs inl R0) i) /\ dep (Bd d (mixed_run G progs inl R0) i)).
  { intros i Hi. unfold mixed_cover_ok in Cv. rewrite forallb_forall in Cv. specialize (Cv i Hi).
    unfold Bd, mixed_run. destruct (inl i) eqn:E.
    - cbn [negb orb] in Cv. apply andb_prop in Cv. destruct Cv as [Cr Cw]. apply rtl_blk_footprints; assumption.
    - exact (Hout i Hi E). }
  apply (accepted_schedules_agree d (mixed_run G progs inl R0) Wd Sw (fun i Hi => proj1 (K i Hi)) (fun i Hi => proj2 (K i Hi))).
Qed.
