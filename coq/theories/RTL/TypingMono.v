(* RTL/TypingMono.v — the extra checks only restrict: tc is anti-monotone in [chk]; in particular whatever
   [tc strict] accepts, [tc impl] (the model of the code) accepts with the same type and node annotations. *)
From PV Require Import Base.Prelude Bits.BitsSpec RTL.Syntax RTL.Eval RTL.Typing RTL.TypingSound.
Open Scope Z_scope.

(* ------------------------------------------------------------------------------------------ *)
(* 10. switching extra checks on only removes accepted programs: what [tc c2] accepts, every
       [tc c1] with fewer checks accepts with the same type and annotations (so strict ⊆ impl)  *)
Definition le_chk (c1 c2 : nat -> bool) : Prop := forall k, c1 k = true -> c2 k = true.

Ltac split_chk c1 c2 Hle k :=
  let A := fresh "A" in let B := fresh "B" in
  destruct (c1 k) eqn:A; destruct (c2 k) eqn:B;
  try (rewrite (Hle k A) in B; discriminate B).

Ltac destruct_bool g :=
  match g with
  | ?a || ?b => destruct_bool a
  | ?a && ?b => destruct_bool a
  | negb ?a => destruct_bool a
  | _ => destruct g
  end.
Ltac crunch H :=
  repeat (cbn [andb orb negb] in *;
          match type of H with
          | context [if ?g then _ else _] => destruct_bool g
          | context [match ?g with _ => _ end] => destruct g
          end);
  cbn [andb orb negb] in *; try discriminate H; try exact H; try reflexivity.

Lemma okc_mono c1 c2 r : le_chk c1 c2 -> okc c2 r = true -> okc c1 r = true.
Proof. intros Hle H. unfold okc in *. split_chk c1 c2 Hle 3%nat; crunch H. Qed.

Lemma enforce_ok_mono c1 c2 c r : le_chk c1 c2 -> enforce_ok c2 c r = true -> enforce_ok c1 c r = true.
Proof. intros Hle H. unfold enforce_ok in *. destruct c; [|reflexivity]. split_chk c1 c2 Hle 11%nat; crunch H. Qed.

Lemma rule_bin_mono c1 c2 op la ra x : le_chk c1 c2 -> rule_bin c2 op la ra = Some x -> rule_bin c1 op la ra = Some x.
Proof.
  intros Hle H. unfold rule_bin in *.
  split_chk c1 c2 Hle 0%nat; split_chk c1 c2 Hle 2%nat; split_chk c1 c2 Hle 3%nat; split_chk c1 c2 Hle 4%nat; crunch H.
Qed.

Lemma rule_if_mono c1 c2 rc la ra x : le_chk c1 c2 -> rule_if c2 rc la ra = Some x -> rule_if c1 rc la ra = Some x.
Proof.
  intros Hle H. unfold rule_if in *. cbn zeta in *.
  split_chk c1 c2 Hle 5%nat; split_chk c1 c2 Hle 10%nat; split_chk c1 c2 Hle 13%nat; crunch H.
Qed.

Lemma slice_width_mono c1 c2 f1 f2 wA rl rh lo hi w : le_chk c1 c2 ->
  (forall x y, hi = EBin Add x y -> forall r, f2 y = Some r -> f1 y = Some r) ->
  slice_width c2 f2 wA rl rh lo hi = Some w -> slice_width c1 f1 wA rl rh lo hi = Some w.
Proof.
  intros Hle Hf H. unfold slice_width in *.
  destruct (acv rl); [destruct (acv rh)|]; try exact H;
    (destruct hi; try discriminate H; destruct op; try discriminate H;
     split_chk c1 c2 Hle 12%nat; cbn [andb] in *;
     try (destruct (negb match hi2 with ELit _ | EFree _ => true | _ => false end); [discriminate H|]);
     destruct (f2 hi2) as [ry|] eqn:F; try discriminate H; rewrite (Hf _ _ eq_refl _ F); exact H).
Qed.

Lemma tc_list_mono c1 c2 f1 f2 es x : le_chk c1 c2 ->
  (forall y, In y es -> forall r, f2 y = Some r -> f1 y = Some r) ->
  tc_list f2 (okc c2) es = Some x -> tc_list f1 (okc c1) es = Some x.
Proof.
  intros Hle. revert x. induction es as [|e r IH]; intros x Hf H; [exact H|].
  cbn [tc_list] in *. destruct (f2 e) as [rx|] eqn:F; [|discriminate H].
  rewrite (Hf e (or_introl eq_refl) _ F).
  destruct (tc_list f2 (okc c2) r) as [[w ns]|] eqn:T; [|discriminate H].
  rewrite (IH _ (fun y Hy => Hf y (or_intror Hy)) eq_refl).
  destruct (is_struct (fst rx)); [exact H|]. cbn [orb] in *.
  destruct (okc c2 rx) eqn:O; [|discriminate H]. rewrite (okc_mono c1 c2 rx Hle O). exact H.
Qed.

Lemma assign_sig_mono c1 c2 rl r x : le_chk c1 c2 -> assign_sig c2 rl r = Some x -> assign_sig c1 rl r = Some x.
Proof.
  intros Hle H. unfold assign_sig in *. cbn zeta in *.
  destruct (astr (fst rl)), (astr (fst r)); try exact H.
  unfold enforce_ok in *.
  split_chk c1 c2 Hle 1%nat; split_chk c1 c2 Hle 11%nat; crunch H.
Qed.


Definition mono_at (c1 c2 : nat -> bool) (E : tenv) (e : expr) : Prop := forall r, tc c2 E e = Some r -> tc c1 E e = Some r.

Ltac child_ok a := exists a; split; [cbn [children In]; intuition|apply sub_refl].

Lemma mono_step c1 c2 E e : le_chk c1 c2 ->
  (forall e', (exists c, In c (children e) /\ subexpr e' c) -> mono_at c1 c2 E e') -> mono_at c1 c2 E e.
Proof.
  intros Hle Hsub r Htc. destruct e; cbn [tc] in *; try exact Htc;
    repeat match type of Htc with
           | context [tc c2 E ?a] =>
               is_var a;
               let T := fresh "T" in let ra := fresh "ra" in
               destruct (tc c2 E a) as [ra|] eqn:T; [rewrite (Hsub a ltac:(child_ok a) _ T)|]
           end; try discriminate Htc.
  - (* ECast *) destruct (is_struct (fst ra) || negb (wf_width n)); cbn [orb] in *; [discriminate Htc|].
    destruct (okc c2 ra) eqn:O; cbn [negb] in *; [|discriminate Htc]. rewrite (okc_mono _ _ _ Hle O). exact Htc.
  - (* EBin *)
    destruct (okc c2 ra) eqn:O1; [|discriminate Htc]. destruct (okc c2 ra0) eqn:O2; [|discriminate Htc].
    rewrite (okc_mono _ _ _ Hle O1), (okc_mono _ _ _ Hle O2). cbn [andb negb] in *.
    destruct (rule_bin c2 op (fst ra) (fst ra0)) as [[[x cl] cr]|] eqn:R; [|discriminate Htc].
    rewrite (rule_bin_mono _ _ _ _ _ _ Hle R).
    destruct (enforce_ok c2 cl ra) eqn:E1; [|discriminate Htc]. destruct (enforce_ok c2 cr ra0) eqn:E2; [|discriminate Htc].
    rewrite (enforce_ok_mono _ _ _ _ Hle E1), (enforce_ok_mono _ _ _ _ Hle E2). exact Htc.
  - (* ECmp *)
    destruct (okc c2 ra) eqn:O1; [|discriminate Htc]. destruct (okc c2 ra0) eqn:O2; [|discriminate Htc].
    rewrite (okc_mono _ _ _ Hle O1), (okc_mono _ _ _ Hle O2). cbn [andb negb] in *.
    destruct (rule_cmp (fst ra) (fst ra0)) as [[[x cl] cr]|]; [|discriminate Htc].
    destruct (enforce_ok c2 cl ra) eqn:E1; [|discriminate Htc]. destruct (enforce_ok c2 cr ra0) eqn:E2; [|discriminate Htc].
    rewrite (enforce_ok_mono _ _ _ _ Hle E1), (enforce_ok_mono _ _ _ _ Hle E2). exact Htc.
  - (* EInv *) destruct (is_struct (fst ra)); [discriminate Htc|]. split_chk c1 c2 Hle 4%nat; crunch Htc.
  - (* ESlice *) cbn zeta in *.
    destruct (negb (asig (fst ra)) || is_struct (fst ra) || is_struct (fst ra0) || is_struct (fst ra1)); cbn [orb] in *; [discriminate Htc|].
    destruct (okc c2 ra) eqn:O; cbn [negb] in *; [|discriminate Htc]. rewrite (okc_mono _ _ _ Hle O). cbn [negb] in *.
    assert (G12 : c1 12%nat && (aex (fst ra0) || aex (fst ra1)) = false).
    { destruct (c1 12%nat) eqn:A; [|reflexivity]. rewrite (Hle _ A) in Htc. destruct (aex (fst ra0) || aex (fst ra1)); [discriminate Htc|reflexivity]. }
    rewrite G12. destruct (c2 12%nat && (aex (fst ra0) || aex (fst ra1))); [discriminate Htc|].
    destruct (acv (fst ra)); [discriminate Htc|].
    destruct (index_ext (aw (fst ra)) (fst ra0) true) as [k1|]; [|discriminate Htc].
    destruct (index_ext (aw (fst ra)) (fst ra1) false) as [k2|]; [|discriminate Htc].
    destruct (slice_width c2 (tc c2 E) (aw (fst ra)) (fst ra0) (fst ra1) e2 e3) as [w|] eqn:SW; [|discriminate Htc].
    erewrite (slice_width_mono c1 c2 (tc c1 E) (tc c2 E)); [|exact Hle| |exact SW].
    + destruct (enforce_ok c2 k1 ra0) eqn:E1; [|discriminate Htc]. destruct (enforce_ok c2 k2 ra1) eqn:E2; [|discriminate Htc].
      rewrite (enforce_ok_mono _ _ _ _ Hle E1), (enforce_ok_mono _ _ _ _ Hle E2). exact Htc.
    + intros x y -> ry Hy. apply (Hsub y); [|exact Hy].
      exists (EBin Add x y). split; [cbn [children In]; auto|]. eapply sub_step; [apply sub_refl|cbn [children In]; auto].
  - (* EIdx *) cbn zeta in *.
    destruct (negb (asig (fst ra)) || is_struct (fst ra) || is_struct (fst ra0)); cbn [orb] in *; [discriminate Htc|].
    destruct (okc c2 ra) eqn:O; cbn [negb] in *; [|discriminate Htc]. rewrite (okc_mono _ _ _ Hle O). cbn [negb] in *.
    destruct (index_ext (aw (fst ra)) (fst ra0) true) as [k1|]; [|discriminate Htc].
    destruct (match acv (fst ra0) with Some k => (0 <=? k) && (k <? aw (fst ra)) | None => true end); cbn [andb] in *; [|discriminate Htc].
    destruct (enforce_ok c2 k1 ra0) eqn:E1; [|discriminate Htc]. rewrite (enforce_ok_mono _ _ _ _ Hle E1). exact Htc.
  - (* EConcat *)
    destruct (tc_list (tc c2 E) (okc c2) es) as [[w ns]|] eqn:TL; [|discriminate Htc].
    erewrite (tc_list_mono c1 c2 (tc c1 E) (tc c2 E)); [|exact Hle| |exact TL].
    + destruct es; [exact Htc|]. split_chk c1 c2 Hle 6%nat; crunch Htc.
    + intros y Hy ry Ty. apply (Hsub y); [|exact Ty]. exists y. split; [exact Hy|apply sub_refl].
  - (* EZext *)
    destruct (is_struct (fst ra) || (n <? aw (fst ra))); cbn [orb] in *; [discriminate Htc|].
    destruct (okc c2 ra) eqn:O; [|rewrite orb_true_r in Htc; discriminate Htc]. rewrite (okc_mono _ _ _ Hle O).
    split_chk c1 c2 Hle 6%nat; crunch Htc.
  - (* ESext *)
    destruct (is_struct (fst ra) || (n <? aw (fst ra))); cbn [orb] in *; [discriminate Htc|].
    destruct (okc c2 ra) eqn:O; [|rewrite orb_true_r in Htc; discriminate Htc]. rewrite (okc_mono _ _ _ Hle O).
    split_chk c1 c2 Hle 6%nat; crunch Htc.
  - (* ETrunc *)
    destruct (is_struct (fst ra) || (aw (fst ra) <? n) || (n <? 1)); cbn [orb] in *; [discriminate Htc|].
    destruct (okc c2 ra) eqn:O; cbn [negb] in *; [|discriminate Htc]. rewrite (okc_mono _ _ _ Hle O). exact Htc.
  - (* ERed *)
    destruct (is_struct (fst ra)); cbn [orb] in *; [discriminate Htc|].
    destruct (okc c2 ra) eqn:O; cbn [negb] in *; [|discriminate Htc]. rewrite (okc_mono _ _ _ Hle O). exact Htc.
  - (* EIf *)
    destruct (okc c2 ra) eqn:O1; [|discriminate Htc]. destruct (okc c2 ra0) eqn:O2; [|rewrite ?andb_false_r in Htc; discriminate Htc].
    destruct (okc c2 ra1) eqn:O3; [|rewrite ?andb_false_r in Htc; discriminate Htc].
    rewrite (okc_mono _ _ _ Hle O1), (okc_mono _ _ _ Hle O2), (okc_mono _ _ _ Hle O3). cbn [andb negb] in *.
    match type of Htc with context [rule_if c2 ?a ?b ?c] =>
      destruct (rule_if c2 a b c) as [[[x cl] cr]|] eqn:R; [|discriminate Htc]; rewrite (rule_if_mono _ _ _ _ _ _ Hle R) end.
    match type of Htc with context [enforce_ok c2 cl ?a && enforce_ok c2 cr ?b] =>
      destruct (enforce_ok c2 cl a) eqn:E1; [|discriminate Htc]; destruct (enforce_ok c2 cr b) eqn:E2; [|discriminate Htc];
      rewrite (enforce_ok_mono _ _ _ _ Hle E1), (enforce_ok_mono _ _ _ _ Hle E2) end.
    exact Htc.
Qed.

Theorem tc_mono c1 c2 E : le_chk c1 c2 -> forall e r, tc c2 E e = Some r -> tc c1 E e = Some r.
Proof.
  intros Hle.
  assert (Q : forall e e', subexpr e' e -> mono_at c1 c2 E e').
  { induction e using expr_ind'; intros e' Hs;
      (inversion Hs as [|x c y Hs' Hin]; subst;
       [apply mono_step; [exact Hle|]; intros e'' (c & Hin & Hs''); cbn [children In] in Hin|cbn [children In] in Hin]);
      repeat match goal with
             | H : _ \/ _ |- _ => destruct H as [<-|H]
             | H : False |- _ => contradiction
             end; eauto.
    - (* EConcat, sub-expression of e itself *) rewrite Forall_forall in H. eapply H; eauto.
    - rewrite Forall_forall in H. eapply H; eauto. }
  intros e. apply (Q e e). apply sub_refl.
Qed.

Corollary strict_sub_impl E e r : tc strict E e = Some r -> tc impl E e = Some r.
Proof. apply tc_mono. intros k Hk. discriminate Hk. Qed.

Lemma tc_assign_mono c1 c2 E l e x : le_chk c1 c2 -> tc_assign c2 E l e = Some x -> tc_assign c1 E l e = Some x.
Proof.
  intros Hle H. unfold tc_assign in *.
  destruct (tc c2 E e) as [r|] eqn:Te; [|discriminate H]. rewrite (tc_mono _ _ _ Hle _ _ Te).
  assert (G3 : c1 3%nat && aovf (fst r) = false).
  { destruct (c1 3%nat) eqn:A; [|reflexivity]. rewrite (Hle _ A) in H. destruct (aovf (fst r)); [discriminate H|reflexivity]. }
  rewrite G3. destruct (c2 3%nat && aovf (fst r)); [discriminate H|].
  destruct l; cbn [lhs_expr] in *;
    try (match type of H with context [tc c2 E ?le] =>
           destruct (tc c2 E le) as [rl|] eqn:Tl; [|discriminate H]; rewrite (tc_mono _ _ _ Hle _ _ Tl) end;
         destruct (assign_sig c2 rl r) as [ns|] eqn:A; [|discriminate H]; rewrite (assign_sig_mono _ _ _ _ _ Hle A); exact H).
  destruct (is_struct (fst r)); [exact H|]. destruct (ttmp E id) as [[[[w ex] mi] bo]|]; [|exact H].
  destruct (negb (w =? aw (fst r))); [exact H|]. split_chk c1 c2 Hle 7%nat; crunch H.
Qed.


(* runtime completeness phrased for the checker as implemented *)
Corollary tc_complete_bin_runtime_impl E st op a b ra rb n u m v :
  tc strict E a = Some ra -> tc strict E b = Some rb -> castfree a = true -> castfree b = true -> env_ok E st ->
  eval (tsig E) st a = Ok (VBits n u) -> eval (tsig E) st b = Ok (VBits m v) -> n <> m -> is_shift op = false ->
  eval (tsig E) st (EBin op a b) = Err EValue /\ tc impl E (EBin op a b) = None.
Proof.
  intros Ta Tb Ca Cb Henv Ea Eb Hnm Sh.
  destruct (tc_complete_bin_runtime E st op a b ra rb n u m v Ta Tb Ca Cb Henv Ea Eb Hnm Sh) as [H1 _]. split; [exact H1|].
  destruct ra as [ra la], rb as [rb lb].
  destruct (tc_sound_gen a E st ra la Ta Ca Henv) as [_ Ra]. destruct (tc_sound_gen b E st rb lb Tb Cb Henv) as [_ Rb].
  rewrite Ea in Ra. rewrite Eb in Rb. cbn in Ra, Rb.
  eapply tc_complete_bin; [apply strict_sub_impl; exact Ta|apply strict_sub_impl; exact Tb| | | |exact Sh]; cbn [fst]; intuition; lia.
Qed.
