(* RTL/Typing.v — executable model [tc] of BehavioralRTLIRTypeCheckL1/L2/L3Pass on the language of
   RTL/Syntax.v, written rule by rule after the visitor methods.  It returns, like the real pass,
   the type of the root node AND the (width, explicit) annotation the pass leaves on every RTLIR
   node of the sub-tree (after all enforcement of implicit terms), in the order in which the
   harness walks the real tree.  No proofs here.

   [chk : nat -> bool] switches extra checks on.  [impl = fun _ => false] is the model of the code.
   [strict = fun _ => true] adds the checks under which the soundness theorem (TypingSound.v)
   holds; check number k is marked (Sk) below ((Sh) is number 0):
     (Sh) property's own exemption: the amount of a shift of a Bits value has the width of the
          shifted value (or is a narrower int);
     (S1) an implicit right-hand side is not wider than the assignment target;
     (S2) no constant folding through explicitly sized operands;
     (S3) no - between two terms that may both be python ints unless the value is known; + * << between such
          terms only as a slice bound or bit index (where the magnitude cannot cause a width error);
     (S4) no negative constants;
     (S5) IfExp between two implicit terms: the else-branch is not wider than the body;
     (S6) widths stay below 1024;
     (S7) a temporary keeps its explicitness when re-assigned;
     (S10) IfExp with one implicit side: the implicit side really took the explicit width;
     (S13) an if-expression with a comparison result (rdt.Bool) on one side is only accepted between two explicit
          1-bit terms (the code skips every width check in that case);
     (S12) slice bounds are python ints (not Bits values); the k of x:x+k is a literal;
     (S11) an enforcement never narrows an implicit node below its inferred width (this one only concerns
          the annotations left on the nodes, not acceptance of sound programs). *)
From PV Require Import Base.Prelude Bits.BitsSpec RTL.Syntax.
Open Scope Z_scope.

(* least k >= 1 with z < 2^k for z >= 0 (theorem lit_width); the code's formula for z < 0 *)
Definition nbits_of (z : Z) : Z :=
  if (-1 <=? z) && (z <=? 1) then 1 else if z <? 0 then Z.log2_up (- z) else Z.log2_up (z + 1).

(* Vector.get_index_width *)
Definition idx_width (w : Z) : Z := if w <=? 1 then 1 else Z.log2_up w.

(* type of an RTLIR node as seen by its parent *)
Record ann : Set := {
  aw   : Z;            (* Type.get_dtype().get_length() *)
  aex  : bool;         (* _is_explicit *)
  asig : bool;         (* Type is rt.Port / rt.Wire (may be sliced / indexed) *)
  acv  : option Z;     (* _value, when the node has one *)
  amut : bool;         (* the type enforcer rewrites this node's width when it is implicit *)
  astr : option nat;   (* Some name: the data type is that bitstruct *)
  aint : bool;         (* analysis only (used by the extra checks): may evaluate to a python int *)
  aovf : bool;         (* analysis only: unchecked + * << between python ints (value may exceed the width) *)
  abool : bool         (* the data type is rdt.Bool (result of a comparison) rather than rdt.Vector(1) *)
}.
Record wnode : Set := { nw : Z; nex : bool; nmut : bool }.

Definition node (a : ann) : wnode := {| nw := aw a; nex := aex a; nmut := amut a |}.
Definition set_w (a : ann) (w : Z) : ann :=
  {| aw := w; aex := aex a; asig := asig a; acv := acv a; amut := amut a; astr := astr a; aint := aint a; aovf := aovf a; abool := abool a |}.

(* BehavioralRTLIRTypeEnforcer: every reachable implicit Number / FreeVar / LoopVar / TmpVar / IfExp
   node takes the context width; nothing else changes *)
Definition enf_ann (c : Z) (a : ann) : ann := if amut a && negb (aex a) then set_w a c else a.
Definition enf_node (c : Z) (n : wnode) : wnode :=
  if nmut n && negb (nex n) then {| nw := c; nex := nex n; nmut := nmut n |} else n.
Definition typed := (ann * list wnode)%type.
Definition enforce (c : option Z) (r : typed) : typed :=
  match c with None => r | Some c => (enf_ann c (fst r), map (enf_node c) (snd r)) end.
Definition flat (r : typed) : list wnode := node (fst r) :: snd r.
(* (S11) an enforcement never narrows an implicit term below its inferred width *)
Definition enforce_ok (chk : nat -> bool) (c : option Z) (r : typed) : bool :=
  match c with
  | None => true
  | Some c => negb (chk 11%nat) || forallb (fun n => negb (nmut n && negb (nex n)) || (nw n <=? c)) (flat r)
  end.
(* sub-trees the enforcer never enters (index expressions, IfExp conditions) *)
Definition shield (l : list wnode) : list wnode := map (fun n => {| nw := nw n; nex := nex n; nmut := false |}) l.

Definition mk (w : Z) (ex sig : bool) (cv : option Z) (mut : bool) (mi : bool) : ann :=
  {| aw := w; aex := ex; asig := sig; acv := cv; amut := mut; astr := None; aint := mi; aovf := false; abool := false |}.
Definition lit_ann (z : Z) : ann := mk (nbits_of z) false false (Some z) true true.
Definition is_struct (a : ann) : bool := match astr a with Some _ => true | None => false end.

Definition is_shift (op : binop) : bool := match op with LShift | RShift => true | _ => false end.
Definition is_div (op : binop) : bool := match op with FloorDiv | Mod => true | _ => false end.
Definition fold_limit : Z := 4096.
Definition int_fold (op : binop) (x y : Z) : option Z :=
  match op with
  | Add => Some (x + y) | Sub => Some (x - y) | Mul => Some (x * y)
  | And => Some (Z.land x y) | Or => Some (Z.lor x y) | Xor => Some (Z.lxor x y)
  | LShift => if (y <? 0) || (fold_limit <? y) then None else Some (x * 2 ^ y)
  | RShift => if (y <? 0) || (fold_limit <? y) then None else Some (x / 2 ^ y)
  | FloorDiv | Mod => None
  end.

(* contexts for the two operands of BinOp(max rule) / Compare / IfExp: None = reject *)
Definition unify (la ra : ann) (ifexp : bool) : option (option Z * option Z) :=
  if ifexp && (aw la =? aw ra) then Some (None, None) else      (* visit_IfExp unifies only when the widths differ *)
  match aex la, aex ra with
  | true, true => if aw la =? aw ra then Some (None, None) else None
  | true, false => if aw la <? aw ra then None else Some (None, Some (aw la))
  | false, true => if aw ra <? aw la then None else Some (Some (aw ra), None)
  | false, false =>
      if ifexp then
        (* visit_IfExp enforces the WIDER side to its own width *)
        if aw ra <=? aw la then Some (Some (aw la), None) else Some (None, Some (aw ra))
      else
        if aw ra <=? aw la then Some (None, Some (aw la)) else Some (Some (aw ra), None)
  end.

(* visit_BinOp *)
Definition rule_bin (chk : nat -> bool) (op : binop) (la ra : ann) : option (ann * option Z * option Z) :=
  if is_struct la || is_struct ra || is_div op then None else    (* / % : not modelled *)
  let sh := is_shift op in
  match (if sh then Some (None, None) else unify la ra false) with
  | None => None
  | Some (cl, cr) =>
      let resw := if sh then aw la else Z.max (aw la) (aw ra) in
      let ex := if sh then aex la else aex la || aex ra in
      let mi := if sh then aint la else aint la && aint ra in
      (* (Sh) *)
      if chk 0%nat && sh && aex la && negb (if aex ra then aw ra =? aw la else aw ra <=? aw la) then None else
      match acv la, acv ra with
      | Some x, Some y =>
          match int_fold op x y with
          | None => None                                    (* eval_const_binop raises *)
          | Some v =>
              if (chk 2%nat && ex) || (chk 4%nat && (v <? 0)) then None else  (* (S2) (S4) *)
              Some (mk (nbits_of v) ex false (Some v) false mi, cl, cr)
          end
      | _, _ =>
          (* (S3) int - int may go negative: rejected; int + * << int: marked, rejected by the parent unless it is a slice bound / index *)
          if chk 3%nat && mi && (match op with Sub => true | _ => false end) then None else
          Some ({| aw := resw; aex := ex; asig := false; acv := None; amut := false; astr := None; aint := mi;
                   aovf := mi && (match op with Add | Mul | LShift => true | _ => false end); abool := false |}, cl, cr)
      end
  end.

(* visit_Compare *)
Definition rule_cmp (la ra : ann) : option (ann * option Z * option Z) :=
  if is_struct la || is_struct ra then None else
  match unify la ra false with
  | None => None
  | Some (cl, cr) => Some ({| aw := 1; aex := true; asig := false; acv := None; amut := false; astr := None;
                               aint := aint la && aint ra; aovf := false; abool := true |}, cl, cr)
  end.

(* visit_IfExp (rc: condition, la: body, ra: orelse) *)
Definition rule_if (chk : nat -> bool) (rc la ra : ann) : option (ann * option Z * option Z) :=
  if is_struct rc || is_struct la || is_struct ra then None else
  (* "unify body and orelse if both are rdt.Vector": a comparison result (rdt.Bool) on either side skips every check *)
  let skip := abool la || abool ra in
  if chk 13%nat && skip && negb (aex la && aex ra && (aw la =? aw ra)) then None else                 (* (S13) *)
  match (if skip then Some (None, None) else unify la ra true) with
  | None => None
  | Some (cl, cr) =>
      let la' := match cl with Some c => enf_ann c la | None => la end in
      let ra' := match cr with Some c => enf_ann c ra | None => ra end in
      if chk 5%nat && negb (aex la) && negb (aex ra) && (aw la <? aw ra) then None else      (* (S5) *)
      if chk 10%nat && negb (eqb (aex la) (aex ra)) && negb (aw la' =? aw ra') then None else (* (S10) *)
      Some ({| aw := aw la'; aex := aex la || aex ra; asig := asig la; acv := None; amut := true;
               astr := None; aint := aint la || aint ra; aovf := false; abool := abool la |}, cl, cr)
  end.

(* _handle_index_extension: None = reject, Some c = accepted, enforce the index to c *)
Definition index_ext (basew : Z) (i : ann) (inclusive : bool) : option (option Z) :=
  let expected := idx_width basew in
  let inb := match inclusive, acv i with false, Some v => nbits_of (v - 1) | _, _ => aw i end in
  if expected <? inb then None
  else if inb <? expected then (if aex i then None else Some (Some expected))
  else if negb (inb =? aw i) then Some (Some inb) else Some None.

(* typing environment *)
Record tenv : Type := {
  tsig  : decls;
  ttmp  : nat -> option (Z * bool * bool * bool);   (* width, explicit, may-be-int, rdt.Bool *)
  tloop : nat -> option Z
}.
Definition upd_t {A} (f : nat -> option A) (k : nat) (v : option A) : nat -> option A :=
  fun j => if Nat.eqb j k then v else f j.
Definition set_ttmp (E : tenv) i v := {| tsig := tsig E; ttmp := upd_t (ttmp E) i (Some v); tloop := tloop E |}.
Definition set_tloop (E : tenv) i v := {| tsig := tsig E; ttmp := ttmp E; tloop := upd_t (tloop E) i v |}.

Definition sig_ann (f : finfo) : ann :=
  {| aw := fw f; aex := true; asig := true; acv := None; amut := false; astr := fstruct f; aint := false; aovf := false; abool := false |}.

Fixpoint sig_nodes (G : decls) (s : nat) (ps : list (list nat)) : option (list wnode) :=
  match ps with
  | [] => Some []
  | p :: r => match lookup_sig G s p, sig_nodes G s r with
              | Some f, Some l => Some (node (sig_ann f) :: l)
              | _, _ => None
              end
  end.

Definition wf_width (n : Z) : bool := (1 <=? n) && (n <? 1024).

Definition tc_list (f : expr -> option typed) (okc : typed -> bool) : list expr -> option (Z * list wnode) :=
  fix go (l : list expr) : option (Z * list wnode) :=
    match l with
    | [] => Some (0, [])
    | x :: r => match f x, go r with
                | Some rx, Some (w, ns) => if is_struct (fst rx) || negb (okc rx) then None else Some (aw (fst rx) + w, flat rx ++ ns)
                | _, _ => None
                end
    end.

(* width of  a[lo:hi] : both bounds constant, or the  x : x+k  form (visit_Slice) *)
Definition slice_width (chk : nat -> bool) (tcf : expr -> option typed) (wA : Z) (rl rh : ann) (lo hi : expr) : option Z :=
  match acv rl, acv rh with
  | Some l, Some h => if (0 <=? l) && (l <? h) && (h <=? wA) then Some (h - l) else None
  | _, _ =>
      match hi with
      | EBin Add x y =>
          if chk 12%nat && negb (match y with ELit _ | EFree _ => true | _ => false end) then None else  (* (S12) *)
          match tcf y with
          | Some ry => match acv (fst ry) with
                       | Some k => if expr_eqb lo x && (0 <? k) then Some k else None
                       | None => None end
          | None => None
          end
      | _ => None
      end
  end.

Section TC.
Variable chk : nat -> bool.
Variable E : tenv.
(* (S3) a marked int + * << int is only allowed where its magnitude does not matter *)
Definition okc (r : typed) : bool := negb (chk 3%nat && aovf (fst r)).

Fixpoint tc (e : expr) {struct e} : option typed :=
  match e with
  | ESig s p =>
      match lookup_sig (tsig E) s p, sig_nodes (tsig E) s (tl (rev (prefixes p))) with
      | Some f, Some l => if wf_width (fw f) then Some (sig_ann f, l) else None
      | _, _ => None
      end
  | ELit z | EFree z => if z <? 0 then None else Some (lit_ann z, [])
  | ESized n z =>
      if (z <? 0) || negb (wf_width n) then None
      else Some (mk n true false (Some z) false false, [node (lit_ann z)])
  | ECast n a =>
      match tc a with
      | Some r => if is_struct (fst r) || negb (wf_width n) || negb (okc r) then None
                  else Some (mk n true (asig (fst r)) (acv (fst r)) false false, flat r)
      | None => None
      end
  | EBin op a b =>
      match tc a, tc b with
      | Some ra, Some rb =>
          if negb (okc ra && okc rb) then None else
          match rule_bin chk op (fst ra) (fst rb) with
          | Some (r, cl, cr) =>
              if enforce_ok chk cl ra && enforce_ok chk cr rb then Some (r, flat (enforce cl ra) ++ flat (enforce cr rb)) else None
          | None => None
          end
      | _, _ => None
      end
  | ECmp op a b =>
      match tc a, tc b with
      | Some ra, Some rb =>
          if negb (okc ra && okc rb) then None else
          match rule_cmp (fst ra) (fst rb) with
          | Some (r, cl, cr) =>
              if enforce_ok chk cl ra && enforce_ok chk cr rb then Some (r, flat (enforce cl ra) ++ flat (enforce cr rb)) else None
          | None => None
          end
      | _, _ => None
      end
  | EInv a =>
      match tc a with
      | Some r =>
          let ra := fst r in
          if is_struct ra then None else
          if chk 4%nat && aint ra then None else                                  (* (S4) *)
          Some ({| aw := aw ra; aex := aex ra; asig := asig ra; acv := option_map (fun v => - v - 1) (acv ra);
                   amut := false; astr := None; aint := aint ra; aovf := false; abool := abool ra |}, flat r)
      | None => None
      end
  | ESlice a lo hi =>
      match tc a, tc lo, tc hi with
      | Some ra, Some rl, Some rh =>
          let A := fst ra in
          if negb (asig A) || is_struct A || is_struct (fst rl) || is_struct (fst rh) || negb (okc ra) then None else
          if chk 12%nat && (aex (fst rl) || aex (fst rh)) then None else                 (* (S12) *)
          match acv A with Some _ => None | None =>
          match index_ext (aw A) (fst rl) true, index_ext (aw A) (fst rh) false with
          | Some c1, Some c2 =>
              let w := slice_width chk tc (aw A) (fst rl) (fst rh) lo hi in
              match w with
              | Some w => if enforce_ok chk c1 rl && enforce_ok chk c2 rh
                          then Some (mk w true false None false false, flat ra ++ flat (enforce c1 rl) ++ flat (enforce c2 rh))
                          else None
              | None => None
              end
          | _, _ => None
          end end
      | _, _, _ => None
      end
  | EIdx a i =>
      match tc a, tc i with
      | Some ra, Some ri =>
          let A := fst ra in
          if negb (asig A) || is_struct A || is_struct (fst ri) || negb (okc ra) then None else
          match index_ext (aw A) (fst ri) true with
          | Some c =>
              if match acv (fst ri) with Some k => (0 <=? k) && (k <? aw A) | None => true end && enforce_ok chk c ri
              then Some (mk 1 true false None false false, shield (flat ra ++ flat (enforce c ri)))
              else None
          | None => None
          end
      | _, _ => None
      end
  | EConcat es =>
      match tc_list tc okc es with
      | Some (w, ns) =>
          match es with [] => None | _ =>
          if chk 6%nat && negb (w <? 1024) then None else                         (* (S6) *)
          Some (mk w true false None false false, ns) end
      | None => None
      end
  | EZext n a | ESext n a =>
      match tc a with
      | Some r => if is_struct (fst r) || (n <? aw (fst r)) || (chk 6%nat && negb (n <? 1024)) || negb (okc r) then None   (* (S6) *)
                  else Some (mk n true (asig (fst r)) None false false, flat r)
      | None => None
      end
  | ETrunc n a =>
      match tc a with
      | Some r => if is_struct (fst r) || (aw (fst r) <? n) || (n <? 1) || negb (okc r) then None
                  else Some (mk n true (asig (fst r)) None false false, flat r)
      | None => None
      end
  | ERed _ a =>
      match tc a with
      | Some r => if is_struct (fst r) || negb (okc r) then None else Some (mk 1 true (asig (fst r)) None false false, flat r)
      | None => None
      end
  | EIf c a b =>
      match tc c, tc a, tc b with
      | Some rc, Some ra, Some rb =>
          if negb (okc rc && okc ra && okc rb) then None else
          match rule_if chk (fst rc) (fst ra) (fst rb) with
          | Some (r, cl, cr) =>
              if enforce_ok chk cl ra && enforce_ok chk cr rb
              then Some (r, shield (flat rc) ++ flat (enforce cl ra) ++ flat (enforce cr rb)) else None
          | None => None
          end
      | _, _, _ => None
      end
  | ETmp i =>
      match ttmp E i with
      | Some (w, ex, mi, bo) => Some ({| aw := w; aex := ex; asig := true; acv := None; amut := true; astr := None; aint := mi; aovf := false; abool := bo |}, [])
      | None => None
      end
  | ELoop i =>
      match tloop E i with
      | Some w => Some (mk w false false None true true, [])
      | None => None
      end
  end.
End TC.

Definition lhs_expr (l : lhs) : option expr :=
  match l with
  | LSig s p => Some (ESig s p)
  | LSlice s p lo hi => Some (ESlice (ESig s p) lo hi)
  | LIndex s p i => Some (EIdx (ESig s p) i)
  | LTmp _ => None
  end.

(* signal := expression, both already typed (L3 struct rule, then the L1 rule) *)
Definition assign_sig (chk : nat -> bool) (rl r : typed) : option (list wnode) :=
  let L := fst rl in let R := fst r in
  match astr L, astr R with
  | Some x, Some y => if Nat.eqb x y && (aw L =? aw R) then Some (flat rl ++ flat r) else None   (* same bitstruct *)
  | Some _, None | None, Some _ => None          (* struct <-> vector of equal width: not modelled *)
  | None, None =>
      let r' := if negb (aex R) && negb (aw R =? aw L) then enforce (Some (aw L)) r else r in
      if negb (aw (fst r') =? aw L) then None else
      if chk 1%nat && negb (aex R) && (aw L <? aw R) then None else                 (* (S1) *)
      if negb (aex R) && negb (aw R =? aw L) && negb (enforce_ok chk (Some (aw L)) r) then None else
      Some (flat rl ++ flat r')
  end.

(* _visit_Assign_single_target (L3 -> L2 -> L1) *)
Definition tc_assign (chk : nat -> bool) (E : tenv) (l : lhs) (e : expr) : option (tenv * list wnode) :=
  match tc chk E e with
  | None => None
  | Some r =>
      let R := fst r in
      if chk 3%nat && aovf R then None else                                                        (* (S3) *)
      match l with
      | LTmp i =>
          if is_struct R then None else
          match ttmp E i with
          | Some (w, ex, mi, bo) =>
              if negb (w =? aw R) then None else
              if chk 7%nat && negb (eqb ex (aex R) && eqb mi (aint R)) then None else             (* (S7) *)
              Some (set_ttmp E i (aw R, aex R, aint R, abool R), {| nw := aw R; nex := ex; nmut := true |} :: flat r)
          | None => Some (set_ttmp E i (aw R, aex R, aint R, abool R), {| nw := aw R; nex := true; nmut := true |} :: flat r)
          end
      | _ =>
          match lhs_expr l with
          | None => None
          | Some le =>
              match tc chk E le with
              | None => None
              | Some rl => match assign_sig chk rl r with Some ns => Some (E, ns) | None => None end
              end
          end
      end
  end.

(* loop variable width (visit_For) *)
Definition loopvar_width (lo hi step : Z) : Z :=
  if (hi <=? lo) then nbits_of (Z.max lo (Z.max hi step))
  else nbits_of (lo + ((hi - lo + step - 1) / step - 1) * step).

Definition tcs_list (f : tenv -> stmt -> option (tenv * list wnode)) : list stmt -> tenv -> option (tenv * list wnode) :=
  fix go (l : list stmt) (E : tenv) : option (tenv * list wnode) :=
    match l with
    | [] => Some (E, [])
    | x :: r => match f E x with
                | Some (E1, n1) => match go r E1 with Some (E2, n2) => Some (E2, n1 ++ n2) | None => None end
                | None => None
                end
    end.

Fixpoint tcs (chk : nat -> bool) (E : tenv) (s : stmt) {struct s} : option (tenv * list wnode) :=
  match s with
  | SAssign _ l e _ => tc_assign chk E l e
  | SIf _ c t f =>
      match tc chk E c with
      | None => None
      | Some rc =>
          if is_struct (fst rc) || (chk 3%nat && aovf (fst rc)) then None else
          match tcs_list (tcs chk) t E with
          | Some (E1, n1) => match tcs_list (tcs chk) f E1 with Some (E2, n2) => Some (E2, flat rc ++ n1 ++ n2) | None => None end
          | None => None
          end
      end
  | SFor id lo hi step body =>
      if (lo <? 0) || (hi <? 0) || (step <=? 0) then None else
      match tloop E id with Some _ => None | None =>
      let E0 := set_tloop E id (Some (loopvar_width lo hi step)) in
      match tcs_list (tcs chk) body E0 with
      | Some (E1, ns) => Some (set_tloop E1 id None, node (lit_ann lo) :: node (lit_ann hi) :: node (lit_ann step) :: ns)
      | None => None
      end end
  end.

Definition tc_block (chk : nat -> bool) (E : tenv) (b : list stmt) : option (tenv * list wnode) := tcs_list (tcs chk) b E.

Definition impl : nat -> bool := fun _ => false.     (* the checker as implemented *)
Definition strict : nat -> bool := fun _ => true.    (* + the checks the soundness proof needs *)
Definition only (k : nat) : nat -> bool := Nat.eqb k.  (* exactly one extra check (diagnosis) *)

Definition init_tenv (G : decls) : tenv := {| tsig := G; ttmp := fun _ => None; tloop := fun _ => None |}.

(* what the harness compares with the real pass: None = rejected, Some [(width, explicit)] per node *)
Definition check_block (chk : nat -> bool) (G : decls) (b : list stmt) : option (list (Z * bool)) :=
  match tc_block chk (init_tenv G) b with
  | Some (_, ns) => Some (map (fun n => (nw n, nex n)) ns)
  | None => None
  end.
