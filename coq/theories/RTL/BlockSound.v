(* RTL/BlockSound.v — soundness of the (strict) type checker for WHOLE update blocks: assignments, if / else and
   constant-bounded for loops, arbitrarily nested.  An accepted, cast-free block never raises a width error, whatever
   the inputs, and leaves the temporaries / loop variables well typed.

   How the statement-level typing of the code works (mirrored by Typing.tcs): the environment of temporaries is
   threaded flow-insensitively — then-branch, else-branch and the rest of the block are typed one after the other, a
   loop body is typed once.  Under check (S7) a temporary keeps the type of its first typing, so all the
   environments met along the way are prefixes of the FINAL one; the proof uses that final environment B as the
   invariant: every temporary that has a value at run time has the type B gives it.  A temporary assigned in one
   branch only and read after the other branch was taken is an UnboundLocalError at run time (not a width error). *)
From PV Require Import Base.Prelude Bits.BitsSpec Bits.BitsLemmas RTL.Syntax RTL.Eval RTL.EvalLemmas RTL.Typing RTL.TypingSound.
Open Scope Z_scope.

Notation strict' := (fun _ : nat => true).

(* ---- induction principle for the nested inductive [stmt] ---- *)
Section StmtInd.
  Variable P : stmt -> Prop.
  Hypothesis HA : forall lbl l e b, P (SAssign lbl l e b).
  Hypothesis HI : forall lbl c t f, Forall P t -> Forall P f -> P (SIf lbl c t f).
  Hypothesis HF : forall id lo hi step body, Forall P body -> P (SFor id lo hi step body).
  Fixpoint stmt_ind' (s : stmt) : P s :=
    let go := fix go (l : list stmt) : Forall P l :=
                match l with [] => Forall_nil P | x :: r => Forall_cons x (stmt_ind' x) (go r) end in
    match s with
    | SAssign lbl l e b => HA lbl l e b
    | SIf lbl c t f => HI lbl c t f (go t) (go f)
    | SFor id lo hi step body => HF id lo hi step body (go body)
    end.
End StmtInd.

(* the property's side condition on statements: no explicit width-changing cast anywhere *)
Fixpoint castfree_stmt (s : stmt) : bool :=
  match s with
  | SAssign _ l e _ => castfree e && castfree_lhs l
  | SIf _ c t f => castfree c &&
      (fix go (l : list stmt) : bool := match l with [] => true | x :: r => castfree_stmt x && go r end) t &&
      (fix go (l : list stmt) : bool := match l with [] => true | x :: r => castfree_stmt x && go r end) f
  | SFor _ _ _ _ body =>
      (fix go (l : list stmt) : bool := match l with [] => true | x :: r => castfree_stmt x && go r end) body
  end.
Definition castfree_block : list stmt -> bool :=
  fix go (l : list stmt) : bool := match l with [] => true | x :: r => castfree_stmt x && go r end.

(* ---- static facts about the typing environments ---- *)
Definition tenv_wf (E : tenv) : Prop :=
  (forall i w ex mi bo, ttmp E i = Some (w, ex, mi, bo) -> 0 < w /\ (ex = false -> mi = true)) /\
  (forall i w, tloop E i = Some w -> 0 < w).

(* every temporary typed in E has the same width / explicitness in B *)
Definition tmps_in (E B : tenv) : Prop :=
  forall i w ex mi bo, ttmp E i = Some (w, ex, mi, bo) -> exists bo', ttmp B i = Some (w, ex, mi, bo').

Lemma tmps_in_refl E : tmps_in E E.
Proof. intros i w ex mi bo H; eauto. Qed.
Lemma tmps_in_trans E1 E2 E3 : tmps_in E1 E2 -> tmps_in E2 E3 -> tmps_in E1 E3.
Proof. intros H1 H2 i w ex mi bo H. destruct (H1 _ _ _ _ _ H) as [bo' H']. eauto. Qed.

(* the invariant: run-time temporaries are typed by the final environment B, loop variables by the current E *)
Definition inv (E B : tenv) (st : state) : Prop :=
  (forall i w ex mi bo v, ttmp B i = Some (w, ex, mi, bo) -> tmpv st i = Some v -> val_ok (tmp_ann w ex mi bo) v) /\
  (forall i w z, tloop E i = Some w -> loopv st i = Some z -> 0 <= z < 2 ^ w).

Lemma val_ok_tmp_bool w ex mi bo bo' v : val_ok (tmp_ann w ex mi bo) v -> val_ok (tmp_ann w ex mi bo') v.
Proof. destruct v; cbn; auto. Qed.

Lemma inv_env_ok E B st : tenv_wf E -> tmps_in E B -> inv E B st -> env_ok E st.
Proof.
  intros [W1 W2] Hin [I1 I2]. split.
  - intros i w ex mi bo T. destruct (W1 _ _ _ _ _ T) as [Pw Hm]. split; [exact Pw|]. split; [exact Hm|].
    intros v Hv. destruct (Hin _ _ _ _ _ T) as [bo' TB]. eapply val_ok_tmp_bool. eapply I1; eauto.
  - intros i w T. split; [eapply W2; eauto|]. intros z Hz. eapply I2; eauto.
Qed.

Lemma inv_same E B st st' : tmpv st' = tmpv st -> loopv st' = loopv st -> inv E B st -> inv E B st'.
Proof. intros Ht Hl [I1 I2]. split; intros; rewrite ?Ht, ?Hl in *; eauto. Qed.

Lemma inv_loops E E' B st : (forall i, tloop E' i = tloop E i) -> inv E B st -> inv E' B st.
Proof. intros Hl [I1 I2]. split; [exact I1|]. intros i w z T. rewrite Hl in T. eauto. Qed.

Definition static_ok (E E' : tenv) : Prop :=
  tenv_wf E' /\ tmps_in E E' /\ tsig E' = tsig E /\ (forall i, tloop E' i = tloop E i).

Definition sres_ok (E' B : tenv) (r : res state) : Prop :=
  match r with Ok st' => inv E' B st' | Err EValue => False | Err _ => True end.

(* what has to be shown of every statement *)
Definition stmt_sound (s : stmt) : Prop :=
  forall E E' ns, tcs strict' E s = Some (E', ns) -> castfree_stmt s = true -> tenv_wf E ->
    static_ok E E' /\
    forall B st, tmps_in E' B -> inv E B st -> sres_ok E' B (exec (tsig E) s st).

Definition stmts_sound (l : list stmt) : Prop :=
  forall E E' ns, tcs_list (tcs strict') l E = Some (E', ns) -> castfree_block l = true -> tenv_wf E ->
    static_ok E E' /\
    forall B st, tmps_in E' B -> inv E B st -> sres_ok E' B (exec_list (exec (tsig E)) l st).

Lemma static_ok_refl E : tenv_wf E -> static_ok E E.
Proof. intros W. split; [exact W|]. split; [apply tmps_in_refl|]. split; reflexivity. Qed.

Lemma static_ok_trans E1 E2 E3 : static_ok E1 E2 -> static_ok E2 E3 -> static_ok E1 E3.
Proof.
  intros (_ & T1 & S1 & L1) (W3 & T2 & S2 & L2). split; [exact W3|]. split; [eapply tmps_in_trans; eauto|].
  split; [congruence|]. intros i. rewrite L2. apply L1.
Qed.

Lemma stmts_sound_of l : Forall stmt_sound l -> stmts_sound l.
Proof.
  induction 1 as [|x r Hx Hr IH]; intros E E' ns Htc Hcf W.
  - cbn in Htc. injection Htc as <- <-. split; [apply static_ok_refl; exact W|]. intros B st _ I. exact I.
  - cbn [tcs_list] in Htc. cbn [castfree_block] in Hcf. apply andb_prop in Hcf as [Hcx Hcr].
    destruct (tcs strict' E x) as [[E1 n1]|] eqn:Tx; [|discriminate].
    destruct (tcs_list (tcs strict') r E1) as [[E2 n2]|] eqn:Tr; [|discriminate]. injection Htc as <- <-.
    destruct (Hx E E1 n1 Tx Hcx W) as [S1 X1]. pose proof S1 as (W1 & T1 & G1 & L1).
    destruct (IH E1 E2 n2 Tr Hcr W1) as [S2 X2]. pose proof S2 as (W2 & T2 & G2 & L2).
    split; [eapply static_ok_trans; eauto|].
    intros B st HB I. cbn [exec_list].
    specialize (X1 B st (tmps_in_trans _ _ _ T2 HB) I).
    destruct (exec (tsig E) x st) as [st1|er]; cbn [bind]; [|exact X1].
    rewrite <- G1. apply X2; assumption.
Qed.

(* ---- assignment ---- *)
Lemma tenv_wf_env_ok0 E : tenv_wf E -> env_ok E (init_state []).
Proof.
  intros [W1 W2]. split.
  - intros i w ex mi bo T. destruct (W1 _ _ _ _ _ T) as [Pw Hm]. split; [exact Pw|]. split; [exact Hm|]. intros v Hv; discriminate Hv.
  - intros i w T. split; [eapply W2; eauto|]. intros z Hz; discriminate Hz.
Qed.

Lemma tc_assign_tmp E i e E' ns :
  tc_assign strict' E (LTmp i) e = Some (E', ns) ->
  exists R lr, tc strict' E e = Some (R, lr) /\ aovf R = false /\
    E' = set_ttmp E i (aw R, aex R, aint R, abool R) /\
    (forall w ex mi bo, ttmp E i = Some (w, ex, mi, bo) -> w = aw R /\ ex = aex R /\ mi = aint R).
Proof.
  unfold tc_assign. destruct (tc strict' E e) as [[R lr]|] eqn:Te; [|discriminate]. cbn [fst andb].
  destruct (aovf R) eqn:Ov; [discriminate|]. destruct (is_struct R); [discriminate|].
  destruct (ttmp E i) as [[[[w ex] mi] bo]|] eqn:T.
  - destruct (negb (w =? aw R)) eqn:C1; [discriminate|].
    destruct (negb (eqb ex (aex R) && eqb mi (aint R))) eqn:C2; [discriminate|]. intros [= <- _].
    apply negb_false_iff in C2. apply andb_prop in C2 as [C2 C3]. apply eqb_prop in C2, C3.
    exists R, lr. split; [reflexivity|]. split; [exact Ov|]. split; [reflexivity|].
    intros w' ex' mi' bo' [= <- <- <- <-]. split; [lia|]. split; assumption.
  - intros [= <- _]. exists R, lr. split; [reflexivity|]. split; [exact Ov|]. split; [reflexivity|]. intros w' ex' mi' bo' H; discriminate H.
Qed.

Lemma sound_assign lbl l e b : stmt_sound (SAssign lbl l e b).
Proof.
  intros E E' ns Htc Hcf W. cbn [tcs] in Htc. cbn [castfree_stmt] in Hcf. apply andb_prop in Hcf as [Hce Hcl].
  assert (S : static_ok E E').
  { destruct l as [s p|s p lo hi|s p ix|i];
      try (destruct (tc_assign_sig E _ e E' ns Htc ltac:(intros i; discriminate)) as (? & ? & ? & _ & _ & _ & -> & _);
           apply static_ok_refl; exact W).
    destruct (tc_assign_tmp E i e E' ns Htc) as (R & lr & Te & Ov & -> & Hsame).
    destruct (tc_sound_gen e E (init_state []) R lr Te Hce (tenv_wf_env_ok0 E W)) as [(PR & I2 & _) _].
    destruct W as [W1 W2]. split; [|split; [|split; [reflexivity|intros j; reflexivity]]].
    - split; [|exact W2]. intros j w ex mi bo. cbn. unfold upd_t. destruct (Nat.eqb j i).
      + intros [= <- <- <- <-]. auto.
      + apply W1.
    - intros j w ex mi bo T. cbn. unfold upd_t. destruct (Nat.eqb j i) eqn:J; [|eauto].
      apply Nat.eqb_eq in J. subst j. destruct (Hsame _ _ _ _ T) as (-> & -> & ->). eauto. }
  split; [exact S|]. intros B st HB I. destruct S as (W' & T' & G' & L').
  pose proof (inv_env_ok E B st W (tmps_in_trans _ _ _ T' HB) I) as Henv.
  pose proof (assign_sound E st lbl l e b E' ns Htc Hce Hcl Henv) as A.
  cbn [exec]. destruct (exec_assign (tsig E) st lbl l e b) as [st'|er] eqn:X; [|exact A].
  cbn [stmt_res_ok] in A. cbn [sres_ok]. destruct (exec_assign_frame _ _ _ _ _ _ _ X) as [Fl Ft].
  destruct I as [I1 I2]. split.
  - intros j w ex mi bo v TB Hv.
    assert (Old : tmpv st' j = tmpv st j -> val_ok (tmp_ann w ex mi bo) v) by (intros Q; rewrite Q in Hv; eapply I1; eauto).
    destruct l as [s p|s p lo hi|s p ix|i]; try (apply Old, Ft; intros i Q; discriminate Q).
    destruct (Nat.eq_dec j i) as [->|Hne]; [|apply Old, Ft; intros i' [= <-]; exact Hne].
    destruct (tc_assign_tmp E i e E' ns Htc) as (R & lr & _ & _ & -> & _).
    destruct A as [A1 _].
    assert (TE : ttmp (set_ttmp E i (aw R, aex R, aint R, abool R)) i = Some (aw R, aex R, aint R, abool R))
      by (cbn; unfold upd_t; rewrite Nat.eqb_refl; reflexivity).
    destruct (HB _ _ _ _ _ TE) as [bo' TB']. rewrite TB in TB'. injection TB' as -> -> -> ->.
    destruct (A1 _ _ _ _ _ TE) as (_ & _ & Hval). eapply val_ok_tmp_bool. apply Hval. exact Hv.
  - intros j w z T Hz. rewrite L' in T. rewrite Fl in Hz. eauto.
Qed.

(* ---- if / else ---- *)
Lemma sres_ok_err E B er : er <> EValue -> sres_ok E B (Err er).
Proof. destruct er; cbn; auto. Qed.

Lemma sres_ok_loops E E' B r : (forall i, tloop E' i = tloop E i) -> sres_ok E B r -> sres_ok E' B r.
Proof. intros Hl. destruct r as [st|er]; cbn; [apply inv_loops; exact Hl|auto]. Qed.

Lemma sound_if lbl c t f : Forall stmt_sound t -> Forall stmt_sound f -> stmt_sound (SIf lbl c t f).
Proof.
  intros Ht Hf E E' ns Htc Hcf W. apply stmts_sound_of in Ht, Hf.
  cbn [tcs] in Htc. cbn [castfree_stmt] in Hcf.
  apply andb_prop in Hcf as [Hcf Hcff]. apply andb_prop in Hcf as [Hcc Hcft].
  change (castfree_block t = true) in Hcft. change (castfree_block f = true) in Hcff.
  destruct (tc strict' E c) as [[rc lc]|] eqn:Tc; [|discriminate]. cbn [fst] in Htc.
  destruct (is_struct rc || (true && aovf rc)); [discriminate|].
  destruct (tcs_list (tcs strict') t E) as [[E1 n1]|] eqn:T1; [|discriminate].
  destruct (tcs_list (tcs strict') f E1) as [[E2 n2]|] eqn:T2; [|discriminate]. injection Htc as <- <-.
  destruct (Ht E E1 n1 T1 Hcft W) as [S1 X1]. pose proof S1 as (W1 & I1 & G1 & L1).
  destruct (Hf E1 E2 n2 T2 Hcff W1) as [S2 X2]. pose proof S2 as (W2 & I2 & G2 & L2).
  split; [eapply static_ok_trans; eauto|].
  intros B st HB I. cbn [exec].
  pose proof (inv_env_ok E B st W (tmps_in_trans _ _ _ I1 (tmps_in_trans _ _ _ I2 HB)) I) as Henv.
  destruct (tc_sound_gen c E st rc lc Tc Hcc Henv) as [_ Rc].
  destruct (eval (tsig E) st c) as [vc|er]; cbn [bind].
  2: { apply sres_ok_err. intros ->. exact Rc. }
  cbn zeta.
  set (st' := add_evs st (map (fun p => (lbl, fst p, snd p)) (probes (tsig E) st 0 c))).
  assert (I' : inv E B st') by (eapply inv_same; [| |exact I]; reflexivity).
  destruct (truthy vc).
  - eapply sres_ok_loops; [exact L2|]. apply X1; [eapply tmps_in_trans; eauto|exact I'].
  - rewrite <- G1. apply X2; [exact HB|]. eapply inv_loops; [exact L1|exact I'].
Qed.

(* ---- for ---- *)
Lemma loop_range lo hi step k : 0 <= lo -> 0 < step -> (k < loop_count lo hi step)%nat ->
  0 <= lo + Z.of_nat k * step < 2 ^ loopvar_width lo hi step.
Proof.
  intros Hlo Hst Hk. unfold loop_count, loopvar_width in *.
  destruct (step <=? 0) eqn:S0; [lia|]. cbn [orb] in Hk.
  destruct (hi <=? lo) eqn:C; [lia|].
  set (q := (hi - lo + step - 1) / step) in *.
  assert (Hq : Z.of_nat k < q) by lia.
  assert (Hm : 0 <= lo + (q - 1) * step) by nia.
  pose proof (lit_width (lo + (q - 1) * step) Hm) as (_ & L2 & _).
  split; [nia|]. assert (lo + Z.of_nat k * step <= lo + (q - 1) * step) by nia. lia.
Qed.

Lemma loopvar_width_pos lo hi step : 0 < loopvar_width lo hi step.
Proof. unfold loopvar_width. destruct (hi <=? lo); apply nbits_of_pos. Qed.

Lemma sound_for id lo hi step body : Forall stmt_sound body -> stmt_sound (SFor id lo hi step body).
Proof.
  intros Hb E E' ns Htc Hcf W. apply stmts_sound_of in Hb.
  cbn [tcs] in Htc. cbn [castfree_stmt] in Hcf. change (castfree_block body = true) in Hcf.
  destruct ((lo <? 0) || (hi <? 0) || (step <=? 0)) eqn:Fl; [discriminate|].
  destruct (tloop E id) as [?|] eqn:Tid; [discriminate|]. cbn zeta in Htc.
  set (lw := loopvar_width lo hi step) in *. set (E0 := set_tloop E id (Some lw)) in *.
  destruct (tcs_list (tcs strict') body E0) as [[E1 ns1]|] eqn:Tb; [|discriminate]. injection Htc as <- <-.
  assert (W0 : tenv_wf E0).
  { destruct W as [W1 W2]. split; [exact W1|]. intros j w. cbn. unfold upd_t. destruct (Nat.eqb j id).
    - intros [= <-]. apply loopvar_width_pos.
    - apply W2. }
  destruct (Hb E0 E1 ns1 Tb Hcf W0) as [S1 X1]. destruct S1 as (W1 & I1 & G1 & L1).
  assert (Lp : forall j, tloop (set_tloop E1 id None) j = tloop E j).
  { intros j. cbn. unfold upd_t. destruct (Nat.eqb j id) eqn:J.
    - apply Nat.eqb_eq in J. subst j. symmetry. exact Tid.
    - rewrite L1. cbn. unfold upd_t. rewrite J. reflexivity. }
  split.
  - split; [|split; [|split]].
    + destruct W1 as [A1 A2]. split; [exact A1|]. intros j w T. rewrite Lp in T. destruct W as [_ W2]. eapply W2; eauto.
    + exact I1.
    + exact G1.
    + exact Lp.
  - intros B st HB I. cbn [exec]. eapply sres_ok_loops; [exact Lp|].
    assert (Hr : forall k, (k < loop_count lo hi step)%nat -> 0 <= lo + Z.of_nat k * step < 2 ^ lw)
      by (intros k Hk; apply loop_range; [lia|lia|exact Hk]).
    revert Hr I. generalize (loop_count lo hi step) as n. generalize lo as i. revert st.
    intros st i n. revert i st. induction n as [|n IH]; intros i st Hr I; [exact I|].
    assert (I0 : inv E0 B (set_loop st id i)).
    { destruct I as [A1 A2]. split; [exact A1|]. intros j w z. cbn. unfold upd_t, upd. destruct (Nat.eqb j id).
      - intros [= <-] [= <-]. specialize (Hr O ltac:(lia)). cbn in Hr. lia.
      - apply A2. }
    specialize (X1 B (set_loop st id i) HB I0). change (tsig E0) with (tsig E) in X1.
    destruct (exec_list (exec (tsig E)) body (set_loop st id i)) as [st1|er]; cbn [bind]; [|exact X1].
    apply IH.
    + intros k Hk. specialize (Hr (S k) ltac:(lia)). rewrite Nat2Z.inj_succ in Hr. lia.
    + destruct X1 as [A1 A2]. split; [exact A1|]. intros j w z T. apply A2. rewrite L1. cbn. unfold upd_t.
      destruct (Nat.eqb j id) eqn:J; [|exact T]. apply Nat.eqb_eq in J. subst j. congruence.
Qed.

(* ---- every statement, every block ---- *)
Theorem stmt_sound_all : forall s, stmt_sound s.
Proof.
  induction s using stmt_ind'.
  - apply sound_assign. - apply sound_if; assumption. - apply sound_for; assumption.
Qed.

Theorem block_sound G b inputs E' ns :
  tc_block strict (init_tenv G) b = Some (E', ns) -> castfree_block b = true ->
  match exec_block G b (init_state inputs) with
  | Ok st' => env_ok E' st'
  | Err EValue => False
  | Err _ => True
  end.
Proof.
  intros Htc Hcf.
  assert (W : tenv_wf (init_tenv G)) by (split; intros; discriminate).
  assert (HS : stmts_sound b) by (apply stmts_sound_of, Forall_forall; intros s _; apply stmt_sound_all).
  destruct (HS (init_tenv G) E' ns Htc Hcf W) as [(W' & _ & _ & _) X].
  assert (I : inv (init_tenv G) E' (init_state inputs)) by (split; intros; discriminate).
  specialize (X E' (init_state inputs) (tmps_in_refl E') I). unfold exec_block. cbn [init_tenv tsig] in X.
  destruct (exec_list (exec G) b (init_state inputs)) as [st'|er]; [|exact X].
  eapply inv_env_ok; [exact W'|apply tmps_in_refl|exact X].
Qed.
