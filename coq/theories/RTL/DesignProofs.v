(* RTL/DesignProofs.v — the result of the design evaluator RTL/Design.v is a function of the inputs and registers only:

     exec_sdep           (block)  exposed reads determine outcome and definitely written bits
     comb_pass_det       (pass)   det_pass G bs Q = Some Q' : environments agreeing on Q give the same outcome and
                                  agree on Q' afterwards — whatever the other signals (stale wires) held
     sim_tick_obs_det    (tick)   det_tick D Q = Some (Q1, Q2) : the same for what is observed after
                                  sim_eval_combinational (Q1) and after sim_tick (Q2)
   No axioms. *)
From PV Require Import Base.Prelude Bits.BitsSpec RTL.Syntax RTL.Eval Sched.Block Sched.Accept RTL.Footprint RTL.FootprintSound RTL.FlowSound RTL.Design.
Open Scope Z_scope.

Lemma exposed_xsub X : xsub X (exposed X).
Proof.
  intros F Dx v Hin Hf Hd. unfold exposed. apply existsb_exists. exists (F, Dx). split; [exact Hin|].
  cbn [fst snd]. rewrite Hf, Hd. reflexivity.
Qed.

Lemma xcovers_sound Q X : xcovers Q X = true -> xsub X (mem_fp Q).
Proof.
  unfold xcovers. intros H F Dx [r j] Hin Hf Hd. rewrite forallb_forall in H. specialize (H _ Hin). cbn [fst snd] in H.
  rewrite forallb_forall in H. unfold mem_fp in Hf. apply existsb_exists in Hf. destruct Hf as (a & Ha & Hv).
  specialize (H a Ha). rewrite forallb_forall in H.
  unfold in_ivl in Hv. cbn [fst snd] in Hv.
  apply andb_prop in Hv. destruct Hv as [Hv H3]. apply andb_prop in Hv. destruct Hv as [H1 H2].
  apply Nat.eqb_eq in H1. subst r.
  specialize (H (Z.to_nat (j - ilo a))). replace (ilo a + Z.of_nat (Z.to_nat (j - ilo a))) with j in H by lia.
  assert (Hs : In (Z.to_nat (j - ilo a)) (seq 0 (Z.to_nat (ihi a - ilo a)))) by (apply in_seq; lia).
  specialize (H Hs). rewrite Hd in H. exact H.
Qed.

(* (block) outcome and definitely written bits are determined by the exposed reads *)
Theorem exec_sdep G b (P : bit -> bool) st1 st2 : wf_declsb G = true -> st_ok st1 ->
  xsub (xreads_d G b) P -> rel2 P [] st1 st2 ->
  out_rel2 P (must_d G b) (exec_block G b st1) (exec_block G b st2).
Proof.
  intros Wb S X R. apply wf_declsb_sound in Wb.
  exact (two2_block G P Wb b [] [] st1 st2 S (lenv_ok_nil st1) R X).
Qed.

(* ---- environments ---- *)
Definition eagree (Q : bit -> bool) (e1 e2 : senv) : Prop :=
  length e1 = length e2 /\ forall s j, Q (s, j) = true -> Z.testbit (nth s e1 0) j = Z.testbit (nth s e2 0) j.
Definition oagree (Q : bit -> bool) (l1 l2 : list (option Z)) : Prop :=
  length l1 = length l2 /\
  forall s, match nth s l1 None, nth s l2 None with
            | None, None => True
            | Some x, Some y => forall j, Q (s, j) = true -> Z.testbit x j = Z.testbit y j
            | _, _ => False
            end.

Lemma eagree_weaken (Q Q' : bit -> bool) e1 e2 : (forall v, Q' v = true -> Q v = true) -> eagree Q e1 e2 -> eagree Q' e1 e2.
Proof. intros H [L A]. split; [exact L|]. intros s j Hq. apply A. apply H. exact Hq. Qed.

Lemma nth_mapseq_Z (f : nat -> Z) n s : nth s (map f (seq 0 n)) 0 = if (s <? n)%nat then f s else 0.
Proof.
  destruct (Nat.ltb_spec s n); [apply nth_map_seq; assumption|].
  apply nth_overflow. rewrite map_length, seq_length. assumption.
Qed.
Lemma nth_mapseq_opt (f : nat -> option Z) n s : nth s (map f (seq 0 n)) None = if (s <? n)%nat then f s else None.
Proof.
  destruct (Nat.ltb_spec s n).
  - rewrite nth_indep with (d' := f 0%nat) by (rewrite map_length, seq_length; assumption).
    rewrite map_nth, seq_nth by assumption. reflexivity.
  - apply nth_overflow. rewrite map_length, seq_length. assumption.
Qed.

Lemma init_rel2 P e1 e2 : eagree P e1 e2 -> rel2 P [] (init_state e1) (init_state e2).
Proof.
  intros [_ A]. split; [|split; [intros s; exact I|split; intros i; reflexivity]].
  intros s j Hq. cbn [sigv init_state]. apply A. unfold un in Hq. cbn [mem_fp existsb] in Hq. rewrite orb_false_r in Hq. exact Hq.
Qed.
Lemma init_ok e : st_ok (init_state e).
Proof. intros i v H. discriminate. Qed.

Section Det.
  Variables (G : decls) (n : nat).
  Hypothesis Wb : wf_declsb G = true.

  Lemma run_comb1_det b (P : bit -> bool) e1 e2 : xsub (xreads_d G b) P -> eagree P e1 e2 ->
    match run_comb1 G n b e1, run_comb1 G n b e2 with
    | Ok a, Ok c => eagree (un P (must_d G b)) a c
    | Err x, Err y => x = y
    | _, _ => False
    end.
  Proof.
    intros X A. unfold run_comb1.
    pose proof (exec_sdep G b P (init_state e1) (init_state e2) Wb (init_ok e1) X (init_rel2 P e1 e2 A)) as O.
    unfold out_rel2 in O.
    destruct (exec_block G b (init_state e1)) as [a|x]; destruct (exec_block G b (init_state e2)) as [c|y]; cbn [bind]; try exact O.
    destruct O as (S & _ & _). split; [rewrite !map_length; reflexivity|].
    intros s j Hq. rewrite !nth_mapseq_Z. destruct (s <? n)%nat; [apply S; exact Hq|reflexivity].
  Qed.

  Theorem comb_pass_det bs : forall Q Q' e1 e2, det_pass G bs Q = Some Q' -> eagree (mem_fp Q) e1 e2 ->
    match comb_pass G n bs e1, comb_pass G n bs e2 with
    | Ok a, Ok c => eagree (mem_fp Q') a c
    | Err x, Err y => x = y
    | _, _ => False
    end.
  Proof.
    induction bs as [|b r IH]; intros Q Q' e1 e2 H A; cbn [det_pass comb_pass] in *.
    - injection H as <-. exact A.
    - destruct (xcovers Q (xreads_d G b)) eqn:C; [|discriminate].
      pose proof (run_comb1_det b (mem_fp Q) e1 e2 (xcovers_sound _ _ C) A) as O.
      destruct (run_comb1 G n b e1) as [a|x]; destruct (run_comb1 G n b e2) as [c|y]; cbn [bind];
        [|destruct O|destruct O|exact O].
      apply (IH _ _ a c H). eapply eagree_weaken; [|exact O].
      intros v Hv. unfold un. rewrite mem_fp_app in Hv. rewrite orb_comm. exact Hv.
  Qed.

  Lemma det_pass_mono bs : forall Q Q', det_pass G bs Q = Some Q' -> forall v, mem_fp Q v = true -> mem_fp Q' v = true.
  Proof.
    induction bs as [|b r IH]; intros Q Q' H v Hv; cbn [det_pass] in H.
    - injection H as <-. exact Hv.
    - destruct (xcovers Q (xreads_d G b)); [|discriminate]. apply (IH _ _ H). rewrite mem_fp_app, Hv. apply orb_true_r.
  Qed.

  (* ---- the clock edge ---- *)
  Lemma run_ff1_det b Q e1 e2 : covers Q (reads_d G b) = true -> eagree (mem_fp Q) e1 e2 ->
    match run_ff1 G n b e1, run_ff1 G n b e2 with
    | Ok a, Ok c => oagree (mem_fp Q) a c
    | Err x, Err y => x = y
    | _, _ => False
    end.
  Proof.
    intros C [L A]. unfold run_ff1.
    assert (R : rel (mem_fp Q) (init_state e1) (init_state e2)).
    { split; [intros s j Hq; apply A; exact Hq|]. split; [intros s; exact I|split; intros i; reflexivity]. }
    pose proof (two_block G (mem_fp Q) (wf_declsb_sound G Wb) b [] (init_state e1) (init_state e2) (init_ok e1)
                  (lenv_ok_nil _) R (covers_sound _ _ C)) as O.
    unfold out_rel in O.
    destruct (exec_block G b (init_state e1)) as [a|x]; destruct (exec_block G b (init_state e2)) as [c|y]; cbn [bind]; try exact O.
    destruct O as (_ & N & _). split; [rewrite !map_length; reflexivity|].
    intros s. rewrite !nth_mapseq_opt. destruct (s <? n)%nat; [apply N|exact I].
  Qed.

  Lemma merge_nxt_nth old new s :
    nth s (merge_nxt old new) None =
    if (s <? length old)%nat && (s <? length new)%nat
    then match nth s new None with Some v => Some v | None => nth s old None end else None.
  Proof.
    revert new s. induction old as [|o old IH]; intros new s; cbn [merge_nxt].
    - destruct s; reflexivity.
    - destruct new as [|x new]; cbn [merge_nxt].
      + destruct s; cbn; rewrite ?andb_false_r; reflexivity.
      + destruct s as [|s]; cbn [nth length]; [reflexivity|]. rewrite IH. reflexivity.
  Qed.
  Lemma merge_nxt_length old new : length (merge_nxt old new) = Nat.min (length old) (length new).
  Proof.
    revert new. induction old as [|o old IH]; intros new; cbn [merge_nxt]; [reflexivity|].
    destruct new; cbn [merge_nxt length]; [reflexivity|]. rewrite IH. reflexivity.
  Qed.

  Lemma merge_oagree Q a1 a2 x1 x2 : oagree Q a1 a2 -> oagree Q x1 x2 -> oagree Q (merge_nxt a1 x1) (merge_nxt a2 x2).
  Proof.
    intros [La Aa] [Lx Ax]. split; [rewrite !merge_nxt_length, La, Lx; reflexivity|].
    intros s. rewrite !merge_nxt_nth, La, Lx. destruct ((s <? length a2)%nat && (s <? length x2)%nat); [|exact I].
    specialize (Aa s). specialize (Ax s).
    destruct (nth s x1 None), (nth s x2 None); try contradiction; [exact Ax|exact Aa].
  Qed.

  Lemma ff_pass_det bs Q : forallb (fun b => covers Q (reads_d G b)) bs = true ->
    forall e1 e2 a1 a2, eagree (mem_fp Q) e1 e2 -> oagree (mem_fp Q) a1 a2 ->
    match ff_pass G n bs e1 a1, ff_pass G n bs e2 a2 with
    | Ok x, Ok y => oagree (mem_fp Q) x y
    | Err x, Err y => x = y
    | _, _ => False
    end.
  Proof.
    induction bs as [|b r IH]; intros C e1 e2 a1 a2 A O; cbn [ff_pass].
    - exact O.
    - cbn [forallb] in C. apply andb_prop in C. destruct C as [Cb Cr].
      pose proof (run_ff1_det b Q e1 e2 Cb A) as Ob.
      destruct (run_ff1 G n b e1) as [x|x]; destruct (run_ff1 G n b e2) as [y|y]; cbn [bind];
        [|destruct Ob|destruct Ob|exact Ob].
      apply (IH Cr); [exact A|]. apply merge_oagree; assumption.
  Qed.

  Lemma flip_length e nx : length (flip e nx) = length e.
  Proof.
    revert nx. induction e as [|v e IH]; intros nx; cbn [flip]; [reflexivity|].
    destruct nx; cbn [flip length]; [reflexivity|]. rewrite IH. reflexivity.
  Qed.
  Lemma flip_nth e nx s :
    nth s (flip e nx) 0 = match nth s nx None with Some w => if (s <? length e)%nat then w else 0 | None => nth s e 0 end.
  Proof.
    revert nx s. induction e as [|v e IH]; intros nx s; cbn [flip].
    - destruct (nth s nx None); destruct s; reflexivity.
    - destruct nx as [|x nx]; cbn [flip].
      + destruct s; reflexivity.
      + destruct s as [|s]; cbn [nth length]; [destruct x; reflexivity|]. rewrite IH. reflexivity.
  Qed.

  Lemma flip_eagree Q e1 e2 x1 x2 : eagree Q e1 e2 -> oagree Q x1 x2 -> eagree Q (flip e1 x1) (flip e2 x2).
  Proof.
    intros [L A] [Lx Ax]. split; [rewrite !flip_length; exact L|].
    intros s j Hq. rewrite !flip_nth, L. specialize (Ax s).
    destruct (nth s x1 None), (nth s x2 None); try contradiction.
    - destruct (s <? length e2)%nat; [apply Ax; exact Hq|reflexivity].
    - apply A. exact Hq.
  Qed.
End Det.

Lemma none_oagree Q e1 e2 : length e1 = length e2 ->
  oagree Q (map (fun _ : Z => @None Z) e1) (map (fun _ : Z => @None Z) e2).
Proof.
  intros L. split; [rewrite !map_length; exact L|]. intros s.
  assert (K : forall e : senv, nth s (map (fun _ : Z => @None Z) e) None = None).
  { intros e. revert s. induction e as [|v e IH]; intros s; destruct s; cbn; auto. }
  rewrite !K. exact I.
Qed.

(* (tick) *)
Theorem sim_tick_obs_det (D : rdesign) Q Q1 Q2 e1 e2 : wf_shapes (rd_shapes D) = true ->
  det_tick D Q = Some (Q1, Q2) -> eagree (mem_fp Q) e1 e2 ->
  match sim_tick_obs D e1, sim_tick_obs D e2 with
  | Ok (a1, a3), Ok (c1, c3) => eagree (mem_fp Q1) a1 c1 /\ eagree (mem_fp Q2) a3 c3
  | Err x, Err y => x = y
  | _, _ => False
  end.
Proof.
  intros Ws H A. pose proof (decls_of_wf _ Ws) as Wb. unfold det_tick in H. fold (rd_decls D) in Wb.
  destruct (det_pass (rd_decls D) (rd_comb D) Q) as [Q1'|] eqn:H1; [|discriminate].
  destruct (forallb (fun b => covers Q1' (reads_d (rd_decls D) b)) (rd_ff D)) eqn:Hf; [|discriminate].
  destruct (det_pass (rd_decls D) (rd_comb D) Q1') as [Q2'|] eqn:H2; [|discriminate].
  injection H as <- <-.
  unfold sim_tick_obs, sim_eval_comb.
  pose proof (comb_pass_det (rd_decls D) (rd_nsig D) Wb (rd_comb D) Q Q1' e1 e2 H1 A) as O1.
  destruct (comb_pass (rd_decls D) (rd_nsig D) (rd_comb D) e1) as [a1|x]; destruct (comb_pass (rd_decls D) (rd_nsig D) (rd_comb D) e2) as [c1|y];
    cbn [bind]; [|destruct O1|destruct O1|exact O1].
  unfold clock_edge.
  pose proof (ff_pass_det (rd_decls D) (rd_nsig D) Wb (rd_ff D) Q1' Hf a1 c1 _ _ O1 (none_oagree _ a1 c1 (proj1 O1))) as Of.
  destruct (ff_pass (rd_decls D) (rd_nsig D) (rd_ff D) a1 _) as [x1|x]; destruct (ff_pass (rd_decls D) (rd_nsig D) (rd_ff D) c1 _) as [x2|y];
    cbn [bind]; [|destruct Of|destruct Of|exact Of].
  pose proof (flip_eagree (mem_fp Q1') a1 c1 x1 x2 O1 Of) as Oe.
  pose proof (comb_pass_det (rd_decls D) (rd_nsig D) Wb (rd_comb D) Q1' Q2' _ _ H2 Oe) as O3.
  destruct (comb_pass (rd_decls D) (rd_nsig D) (rd_comb D) (flip a1 x1)) as [a3|x]; destruct (comb_pass (rd_decls D) (rd_nsig D) (rd_comb D) (flip c1 x2)) as [c3|y];
    cbn [bind]; [|destruct O3|destruct O3|exact O3].
  split; assumption.
Qed.

(* sim_eval_combinational alone *)
Theorem sim_eval_comb_det (D : rdesign) Q Q1 e1 e2 : wf_shapes (rd_shapes D) = true ->
  det_pass (rd_decls D) (rd_comb D) Q = Some Q1 -> eagree (mem_fp Q) e1 e2 ->
  match sim_eval_comb D e1, sim_eval_comb D e2 with
  | Ok a, Ok c => eagree (mem_fp Q1) a c
  | Err x, Err y => x = y
  | _, _ => False
  end.
Proof.
  intros Ws H A. pose proof (decls_of_wf _ Ws) as Wb.
  exact (comb_pass_det (rd_decls D) (rd_nsig D) Wb (rd_comb D) Q Q1 e1 e2 H A).
Qed.
