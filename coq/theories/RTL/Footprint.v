(* RTL/Footprint.v — syntactic bit-level read / write footprints of update blocks of the RTL language
   (RTL/Syntax.v), as lists of bit intervals of the packed top-level signals (the [ivl] / [fp] types of
   Sched/Accept.v).  Definitions only; the soundness theorems are in RTL/FootprintSound.v.

   Precision rules (at least as precise as pymtl3's AstHelper, so that "pymtl3's declared footprint covers
   the proved one" is a meaningful check):
     s.x, s.x.f...             the whole signal / field                      (offset and width from the table)
     s.x[lo:hi], s.x[i]        exactly the named bits when lo/hi/i are static: integer literals, closure
                               integers, loop variables (each loop iteration is accounted separately, the loop
                               variable ranging over the loop) and + - * of those; otherwise the whole
                               signal / field, as AstHelper does for a non-constant index
     anything else             the union of the sub-expressions
   Reads of a statement include the index / slice-bound expressions of its target and the conditions of
   enclosing ifs.  Temporaries and loop variables are not signals and have no footprint. *)
From PV Require Import Base.Prelude Bits.BitsSpec RTL.Syntax RTL.Eval Sched.Accept.
Open Scope Z_scope.

(* ---- the signal-shape table ----
   One shape per top-level signal (signal id = position in the list): a Bits vector of width w or a
   bitstruct with the listed fields in declaration order.  The first field is the most significant. *)
Inductive sshape : Type :=
| ShBits   (w : Z)
| ShStruct (fs : list sshape).
Definition sigshapes := list sshape.

Fixpoint swidth (t : sshape) : Z :=
  match t with
  | ShBits w => w
  | ShStruct fs => (fix go (l : list sshape) : Z := match l with [] => 0 | f :: r => swidth f + go r end) fs
  end.

(* every attribute path of a value of shape t that sits at bit offset lo: (path, width/offset) *)
Fixpoint shape_paths (t : sshape) (lo : Z) : list (list nat * finfo) :=
  ([], {| fw := swidth t; flo := lo; fstruct := match t with ShBits _ => None | ShStruct _ => Some 0%nat end |}) ::
  match t with
  | ShBits _ => []
  | ShStruct fs =>
      (fix go (l : list sshape) (i : nat) (top : Z) : list (list nat * finfo) :=
         match l with
         | [] => []
         | f :: r => map (fun pf => (i :: fst pf, snd pf)) (shape_paths f (top - swidth f)) ++ go r (S i) (top - swidth f)
         end) fs 0%nat (lo + swidth t)
  end.

Fixpoint decls_from (T : sigshapes) (s : nat) : decls :=
  match T with
  | [] => []
  | t :: r => map (fun pf => (s, fst pf, snd pf)) (shape_paths t 0) ++ decls_from r (S s)
  end.
(* the declaration table of RTL/Eval.v computed from the shapes *)
Definition decls_of (T : sigshapes) : decls := decls_from T 0%nat.

(* legal shapes: positive leaf widths, no empty struct, packed width below 1024 (the Bits limit) *)
Fixpoint wf_shape (t : sshape) : bool :=
  match t with
  | ShBits w => 0 <? w
  | ShStruct fs =>
      match fs with [] => false | _ => true end &&
      (fix go (l : list sshape) : bool := match l with [] => true | f :: r => wf_shape f && go r end) fs
  end.
Definition wf_shapes (T : sigshapes) : bool := forallb (fun t => wf_shape t && (swidth t <? 1024)) T.

(* what the soundness theorems need from a declaration table (a computable check) *)
Definition wf_finfo (f : finfo) : bool := (0 <? fw f) && (fw f <? 1024) && (0 <=? flo f).
Definition wf_declsb (G : decls) : bool := forallb (fun d => wf_finfo (snd d)) G.

(* one past the highest declared bit of signal s *)
Fixpoint sig_hi (G : decls) (s : nat) : Z :=
  match G with
  | [] => 0
  | (s', _, f) :: G' => if Nat.eqb s s' then Z.max (flo f + fw f) (sig_hi G' s) else sig_hi G' s
  end.

(* ---- static integers: what is known about loop variables while walking the block ---- *)
Definition lenv := list (nat * Z).
Fixpoint lookup_l (L : lenv) (i : nat) : option Z :=
  match L with [] => None | (j, z) :: r => if Nat.eqb i j then Some z else lookup_l r i end.
Definition kill (ids : list nat) (L : lenv) : lenv :=
  filter (fun p => negb (existsb (Nat.eqb (fst p)) ids)) L.

Fixpoint static_int (L : lenv) (e : expr) : option Z :=
  match e with
  | ELit z | EFree z => Some z
  | ELoop i => lookup_l L i
  | EBin op a b =>
      match static_int L a, static_int L b with
      | Some x, Some y =>
          match op with Add => Some (x + y) | Sub => Some (x - y) | Mul => Some (x * y) | _ => None end
      | _, _ => None
      end
  | _ => None
  end.

(* ---- footprints of signal accesses ---- *)
Definition whole_fp (G : decls) (s : nat) (p : list nat) : fp :=
  match lookup_sig G s p with Some f => [(s, flo f, flo f + fw f)] | None => [] end.

Definition slice_fp (G : decls) (L : lenv) (s : nat) (p : list nat) (lo hi : expr) : fp :=
  match lookup_sig G s p with
  | None => []
  | Some f =>
      match static_int L lo, static_int L hi with
      | Some l, Some h => if valid_range (fw f) l h then [(s, flo f + l, flo f + h)] else [(s, flo f, flo f + fw f)]
      | _, _ => [(s, flo f, flo f + fw f)]
      end
  end.

Definition index_fp (G : decls) (L : lenv) (s : nat) (p : list nat) (i : expr) : fp :=
  match lookup_sig G s p with
  | None => []
  | Some f =>
      match static_int L i with
      | Some k => if (0 <=? k) && (k <? fw f) then [(s, flo f + k, flo f + k + 1)] else [(s, flo f, flo f + fw f)]
      | None => [(s, flo f, flo f + fw f)]
      end
  end.

Definition base_sig (a : expr) : option (nat * list nat) :=
  match a with ESig s p => Some (s, p) | _ => None end.

(* ---- expressions ---- *)
Fixpoint reads_e (G : decls) (L : lenv) (e : expr) {struct e} : fp :=
  match e with
  | ESig s p => whole_fp G s p
  | ELit _ | ESized _ _ | EFree _ | ETmp _ | ELoop _ => []
  | ECast _ a | EInv a | EZext _ a | ESext _ a | ETrunc _ a | ERed _ a => reads_e G L a
  | EBin _ a b | ECmp _ a b => reads_e G L a ++ reads_e G L b
  | ESlice a lo hi =>
      match base_sig a with
      | Some (s, p) => slice_fp G L s p lo hi
      | None => reads_e G L a
      end ++ reads_e G L lo ++ reads_e G L hi
  | EIdx a i =>
      match base_sig a with
      | Some (s, p) => index_fp G L s p i
      | None => reads_e G L a
      end ++ reads_e G L i
  | EConcat es => (fix go (l : list expr) : fp := match l with [] => [] | x :: r => reads_e G L x ++ go r end) es
  | EIf c a b => reads_e G L c ++ reads_e G L a ++ reads_e G L b
  end.

(* ---- assignment targets ---- *)
Definition writes_lhs (G : decls) (L : lenv) (l : lhs) : fp :=
  match l with
  | LSig s p => whole_fp G s p
  | LSlice s p lo hi => slice_fp G L s p lo hi
  | LIndex s p i => index_fp G L s p i
  | LTmp _ => []
  end.
Definition reads_lhs (G : decls) (L : lenv) (l : lhs) : fp :=
  match l with
  | LSlice _ _ lo hi => reads_e G L lo ++ reads_e G L hi
  | LIndex _ _ i => reads_e G L i
  | LSig _ _ | LTmp _ => []
  end.

(* ---- statements ---- *)
(* loop variables a statement may rebind *)
Fixpoint loop_ids_s (s : stmt) : list nat :=
  match s with
  | SAssign _ _ _ _ => []
  | SIf _ _ t f =>
      (fix go (l : list stmt) : list nat := match l with [] => [] | x :: r => loop_ids_s x ++ go r end) t ++
      (fix go (l : list stmt) : list nat := match l with [] => [] | x :: r => loop_ids_s x ++ go r end) f
  | SFor id _ _ _ body =>
      id :: (fix go (l : list stmt) : list nat := match l with [] => [] | x :: r => loop_ids_s x ++ go r end) body
  end.
Fixpoint loop_ids_l (l : list stmt) : list nat :=
  match l with [] => [] | x :: r => loop_ids_s x ++ loop_ids_l r end.

(* the values a loop variable takes *)
Fixpoint iter_vals (n : nat) (i step : Z) : list Z :=
  match n with O => [] | S n' => i :: iter_vals n' (i + step) step end.

(* footprint of a statement list: after a statement, what it may have rebound is forgotten *)
Definition fp_list (f : stmt -> lenv -> fp) : list stmt -> lenv -> fp :=
  fix go (l : list stmt) (L : lenv) : fp :=
    match l with [] => [] | x :: r => f x L ++ go r (kill (loop_ids_s x) L) end.

Section Walk.
  Variable fa : lenv -> lhs -> expr -> fp.     (* contribution of an assignment *)
  Variable fc : lenv -> expr -> fp.            (* contribution of an if condition *)
  Fixpoint walk (s : stmt) (L : lenv) {struct s} : fp :=
    match s with
    | SAssign _ l e _ => fa L l e
    | SIf _ c t f => fc L c ++ fp_list walk t L ++ fp_list walk f L
    | SFor id lo hi step body =>
        flat_map (fun i => fp_list walk body ((id, i) :: kill (id :: loop_ids_l body) L))
                 (iter_vals (loop_count lo hi step) lo step)
    end.
End Walk.

Definition reads_s (G : decls) : stmt -> lenv -> fp :=
  walk (fun L l e => reads_lhs G L l ++ reads_e G L e) (fun L c => reads_e G L c).
Definition writes_s (G : decls) : stmt -> lenv -> fp :=
  walk (fun L l _ => writes_lhs G L l) (fun _ _ => []).

Definition reads_d (G : decls) (b : list stmt) : fp := fp_list (reads_s G) b [].
Definition writes_d (G : decls) (b : list stmt) : fp := fp_list (writes_s G) b [].

(* the footprints of a block over a shape table *)
Definition reads_of (T : sigshapes) (b : list stmt) : fp := reads_d (decls_of T) b.
Definition writes_of (T : sigshapes) (b : list stmt) : fp := writes_d (decls_of T) b.

(* ---- coverage: every bit of C is a bit of D (checked bit by bit; widths are below 1024) ---- *)
Definition ivl_covered (D : fp) (a : ivl) : bool :=
  forallb (fun k => mem_fp D (iroot a, ilo a + Z.of_nat k)) (seq 0 (Z.to_nat (ihi a - ilo a))).
Definition covers (D C : fp) : bool := forallb (ivl_covered D) C.

(* number of bits of a footprint that belong to signal ids below nsig (over-approximation statistics) *)
Definition fp_bits (G : decls) (nsig : nat) (F : fp) : Z :=
  fold_right Z.add 0
    (map (fun s => Z.of_nat (length (filter (fun k => mem_fp F (s, Z.of_nat k)) (seq 0 (Z.to_nat (sig_hi G s))))))
         (seq 0 nsig)).

(* ---- a design whose blocks are all in the language: the acceptor used by the end-to-end theorem ----
   progs i is the translated body of block i;  d carries the DECLARED (pymtl3) footprints. *)
Definition rtl_cover_ok (G : decls) (progs : nat -> list stmt) (d : design) : bool :=
  forallb (fun i => covers (rds d i) (reads_d G (progs i)) && covers (wrs d i) (writes_d G (progs i))) (ids d).

(* ================================================================ must-write / exposed-read analysis
   A flow-sensitive pass over a block (loops are walked iteration by iteration, their bounds being constants):
     D   the bits DEFINITELY written (with @=, at a static position) on every path that does not raise
     X   every read, paired with the D that held before it: a read bit is EXPOSED iff it is not in that D
   If all exposed reads of a block are known, its written bits in D do not depend on their previous values
   (RTL/FlowSound.v): no latch, and reading back what the block itself has just written (the arbiter kill chain)
   is not a read of the block. *)
Definition must_lhs (G : decls) (L : lenv) (l : lhs) : fp :=
  match l with
  | LSig s p => whole_fp G s p
  | LSlice s p lo hi =>
      match lookup_sig G s p with
      | None => []
      | Some f =>
          match static_int L lo, static_int L hi with
          | Some l, Some h => if valid_range (fw f) l h then [(s, flo f + l, flo f + h)] else []
          | _, _ => []
          end
      end
  | LIndex s p i =>
      match lookup_sig G s p with
      | None => []
      | Some f =>
          match static_int L i with
          | Some k => if (0 <=? k) && (k <? fw f) then [(s, flo f + k, flo f + k + 1)] else []
          | None => []
          end
      end
  | LTmp _ => []
  end.

(* bits of A that are also in B, as unit intervals *)
Definition fp_inter (A B : fp) : fp :=
  flat_map (fun a => map (fun k => (iroot a, ilo a + Z.of_nat k, ilo a + Z.of_nat k + 1))
                         (filter (fun k => mem_fp B (iroot a, ilo a + Z.of_nat k)) (seq 0 (Z.to_nat (ihi a - ilo a))))) A.

Definition xfp := list (fp * fp).
Definition exposed (X : xfp) (v : bit) : bool := existsb (fun p => mem_fp (fst p) v && negb (mem_fp (snd p) v)) X.

Definition flow_list (f : stmt -> lenv -> fp -> xfp * fp) : list stmt -> lenv -> fp -> xfp * fp :=
  fix go (l : list stmt) (L : lenv) (D : fp) : xfp * fp :=
    match l with
    | [] => ([], D)
    | x :: r => let xd := f x L D in let rd := go r (kill (loop_ids_s x) L) (snd xd) in (fst xd ++ fst rd, snd rd)
    end.

Fixpoint flow_iter (f : lenv -> fp -> xfp * fp) (mk : Z -> lenv) (vals : list Z) (D : fp) : xfp * fp :=
  match vals with
  | [] => ([], D)
  | i :: r => let xd := f (mk i) D in let rd := flow_iter f mk r (snd xd) in (fst xd ++ fst rd, snd rd)
  end.

Fixpoint flow_s (G : decls) (s : stmt) (L : lenv) (D : fp) {struct s} : xfp * fp :=
  match s with
  | SAssign _ l e b => ([(reads_lhs G L l ++ reads_e G L e, D)], if b then must_lhs G L l ++ D else D)
  | SIf _ c t f =>
      let a := flow_list (flow_s G) t L D in
      let b := flow_list (flow_s G) f L D in
      ((reads_e G L c, D) :: fst a ++ fst b, fp_inter (snd a) (snd b))
  | SFor id lo hi step body =>
      flow_iter (fun L' D' => flow_list (flow_s G) body L' D')
                (fun i => (id, i) :: kill (id :: loop_ids_l body) L)
                (iter_vals (loop_count lo hi step) lo step) D
  end.

Definition flow_d (G : decls) (b : list stmt) : xfp * fp := flow_list (flow_s G) b [] [].
(* exposed reads / definite writes of a block *)
Definition xreads_d (G : decls) (b : list stmt) : xfp := fst (flow_d G b).
Definition must_d (G : decls) (b : list stmt) : fp := snd (flow_d G b).

(* every exposed bit of X is a bit of Q *)
Definition xcovers (Q : fp) (X : xfp) : bool :=
  forallb (fun p => forallb (fun a => forallb (fun k => let v := (iroot a, ilo a + Z.of_nat k) in mem_fp (snd p) v || mem_fp Q v)
                                              (seq 0 (Z.to_nat (ihi a - ilo a)))) (fst p)) X.

(* a combinational block without latch: everything it may write, it definitely writes *)
Definition no_latch (G : decls) (b : list stmt) : bool := covers (must_d G b) (writes_d G b).
