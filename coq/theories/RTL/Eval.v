(* RTL/Eval.v — big-step semantics of the update-block language = what the PyMTL simulator (plain
   CPython executing the block on Bits objects) computes: Python int arithmetic between ints,
   Bits methods (Bits/BitsSpec.v, Bits/Helpers.v — the specifications proved about the real
   PythonBits.py in C04/C05) otherwise, with the same exception classes.  No proofs here. *)
From PV Require Import Base.Prelude Bits.BitsSpec Bits.Helpers RTL.Syntax.
Open Scope Z_scope.

Inductive value : Set :=
| VBits (n u : Z)     (* a Bits object: .nbits = n, value u *)
| VInt  (z : Z).      (* a python int (or bool) *)

Definition to_operand (v : value) : operand :=
  match v with VBits n u => OBits n u | VInt z => OInt z end.
Definition value_int (v : value) : Z := match v with VBits _ u => u | VInt z => z end.
Definition truthy (v : value) : bool := negb (value_int v =? 0).
Definition vbits (r : res (Z * Z)) : res value := bind r (fun p => Ok (VBits (fst p) (snd p))).

(* ---- state ---- *)
Record state : Type := {
  sigv  : nat -> Z;                 (* packed current value of every declared signal *)
  nxtv  : nat -> option Z;          (* value written by <<= (visible after the clock edge) *)
  tmpv  : nat -> option value;      (* temporaries of the block *)
  loopv : nat -> option Z;          (* loop variables *)
  evs   : list (nat * nat * (Z * Z))  (* runtime probes: (root label, node index, shape), newest first *)
}.
Definition upd {A} (f : nat -> A) (k : nat) (v : A) : nat -> A := fun j => if Nat.eqb j k then v else f j.
Definition set_sig  (st : state) s v := {| sigv := upd (sigv st) s v; nxtv := nxtv st; tmpv := tmpv st; loopv := loopv st; evs := evs st |}.
Definition set_nxt  (st : state) s v := {| sigv := sigv st; nxtv := upd (nxtv st) s (Some v); tmpv := tmpv st; loopv := loopv st; evs := evs st |}.
Definition set_tmp  (st : state) i v := {| sigv := sigv st; nxtv := nxtv st; tmpv := upd (tmpv st) i (Some v); loopv := loopv st; evs := evs st |}.
Definition set_loop (st : state) i z := {| sigv := sigv st; nxtv := nxtv st; tmpv := tmpv st; loopv := upd (loopv st) i (Some z); evs := evs st |}.
Definition add_evs  (st : state) l   := {| sigv := sigv st; nxtv := nxtv st; tmpv := tmpv st; loopv := loopv st; evs := rev_append l (evs st) |}.
Definition init_state (inputs : list Z) : state :=
  {| sigv := fun s => nth s inputs 0; nxtv := fun _ => None; tmpv := fun _ => None; loopv := fun _ => None; evs := [] |}.
(* value of signal s after the block (and, for <<=, after the clock edge) *)
Definition final_sig (st : state) (s : nat) : Z := match nxtv st s with Some v => v | None => sigv st s end.

(* ---- operators ---- *)
Definition int_shift_limit : Z := 65536.   (* python would build a gigantic int; the generator never does *)

Definition eval_int_bin (op : binop) (a b : Z) : res value :=
  match op with
  | Add => Ok (VInt (a + b)) | Sub => Ok (VInt (a - b)) | Mul => Ok (VInt (a * b))
  | And => Ok (VInt (Z.land a b)) | Or => Ok (VInt (Z.lor a b)) | Xor => Ok (VInt (Z.lxor a b))
  | LShift => if b <? 0 then Err EValue else if int_shift_limit <? b then Err EOther else Ok (VInt (a * 2 ^ b))
  | RShift => if b <? 0 then Err EValue else if int_shift_limit <? b then Err EOther else Ok (VInt (a / 2 ^ b))
  | FloorDiv | Mod => Err EOther          (* rejected by the front end / float division: not modelled *)
  end.

Definition eval_bin (op : binop) (x y : value) : res value :=
  match x, y with
  | VInt a, VInt b => eval_int_bin op a b
  | VBits n a, _ => vbits (spec_binop op n a (to_operand y))
  | VInt k, VBits n b =>
      match op with
      | Add | Mul | And | Or | Xor => vbits (spec_binop op n b (OInt k))     (* __radd__ etc. *)
      | Sub => vbits (spec_rbinop Sub n b (OInt k))                            (* __rsub__ *)
      | LShift | RShift => Err EType                                            (* no __rlshift__ *)
      | FloorDiv | Mod => Err EOther
      end
  end.

Definition swap_cmp (op : cmpop) : cmpop :=
  match op with CEq => CEq | CNe => CNe | CLt => CGt | CLe => CGe | CGt => CLt | CGe => CLe end.

Definition eval_cmp (op : cmpop) (x y : value) : res value :=
  match x, y with
  | VInt a, VInt b => Ok (VInt (b2z (cmp op a b)))                       (* python bool *)
  | VBits n a, _ => vbits (spec_cmp op n a (to_operand y))
  | VInt k, VBits n b => vbits (spec_cmp (swap_cmp op) n b (OInt k))     (* reflected comparison *)
  end.

Definition eval_inv (x : value) : res value :=
  match x with VBits n u => vbits (spec_invert n u) | VInt z => Ok (VInt (- z - 1)) end.

Definition eval_slice (x lo hi : value) : res value :=
  match x with
  | VBits n u => vbits (spec_getitem n u (ISlice (Some (value_int lo)) (Some (value_int hi)) None))
  | VInt _ => Err EType
  end.
Definition eval_index (x i : value) : res value :=
  match x with
  | VBits n u => vbits (spec_getitem n u (IInt (value_int i)))
  | VInt _ => Err EType
  end.

Fixpoint bits_list (vs : list value) : option (list (Z * Z)) :=
  match vs with
  | [] => Some []
  | VBits n u :: r => match bits_list r with Some l => Some ((n, u) :: l) | None => None end
  | VInt _ :: _ => None
  end.
Definition eval_concat (vs : list value) : res value :=
  match bits_list vs with Some l => vbits (h_concat l) | None => Err EType end.

Definition eval_ext (f : Z -> Z -> Z -> bool -> res (Z * Z)) (w : Z) (x : value) : res value :=
  match x with VBits n u => vbits (f n u w false) | VInt _ => Err EType end.

Definition eval_red (op : redop) (x : value) : res value :=
  match x with
  | VBits n u => Ok (match op with
                     | RAnd => VBits (fst (h_reduce_and n u)) (snd (h_reduce_and n u))
                     | ROr  => VBits (fst (h_reduce_or n u)) (snd (h_reduce_or n u))
                     | RXor => VBits (fst (h_reduce_xor n u)) (snd (h_reduce_xor n u))
                     end)
  | VInt z =>     (* helpers.py: reduce_and needs .nbits; reduce_or / reduce_xor only use int(value) *)
      match op with
      | RAnd => Err EType
      | ROr => Ok (VBits 1 (b2z (negb (z =? 0))))
      | RXor => if z <? 0 then Err EOther      (* the popcount loop does not terminate on a negative int *)
                else Ok (VBits 1 (Z.land (popcount_loop (Z.to_nat (Z.log2 z + 1)) z 0) 1))
      end
  end.

Definition eval_cast (n : Z) (x : value) : res value := vbits (spec_init n (to_operand x) false).

Definition read_field (f : finfo) (root : Z) : value := VBits (fw f) ((root / 2 ^ flo f) mod 2 ^ fw f).

(* ---- expressions ---- *)
Definition eval_list (f : expr -> res value) : list expr -> res (list value) :=
  fix go (l : list expr) : res (list value) :=
    match l with
    | [] => Ok []
    | x :: r => bind (f x) (fun v => bind (go r) (fun vs => Ok (v :: vs)))
    end.

Fixpoint eval (G : decls) (st : state) (e : expr) {struct e} : res value :=
  match e with
  | ESig s p => match lookup_sig G s p with Some f => Ok (read_field f (sigv st s)) | None => Err EOther end
  | ELit z | EFree z => Ok (VInt z)
  | ESized n z => eval_cast n (VInt z)
  | ECast n a => bind (eval G st a) (eval_cast n)
  | EBin op a b => bind (eval G st a) (fun x => bind (eval G st b) (fun y => eval_bin op x y))
  | ECmp op a b => bind (eval G st a) (fun x => bind (eval G st b) (fun y => eval_cmp op x y))
  | EInv a => bind (eval G st a) eval_inv
  | ESlice a lo hi =>
      bind (eval G st a) (fun x => bind (eval G st lo) (fun l => bind (eval G st hi) (fun h => eval_slice x l h)))
  | EIdx a i => bind (eval G st a) (fun x => bind (eval G st i) (fun k => eval_index x k))
  | EConcat es => bind (eval_list (eval G st) es) eval_concat
  | EZext n a => bind (eval G st a) (eval_ext h_zext n)
  | ESext n a => bind (eval G st a) (eval_ext h_sext n)
  | ETrunc n a => bind (eval G st a) (eval_ext h_trunc n)
  | ERed op a => bind (eval G st a) (eval_red op)
  | EIf c a b => bind (eval G st c) (fun vc => if truthy vc then eval G st a else eval G st b)
  | ETmp i => match tmpv st i with Some v => Ok v | None => Err EOther end      (* UnboundLocalError *)
  | ELoop i => match loopv st i with Some z => Ok (VInt z) | None => Err EOther end
  end.

(* ---- runtime probes: (preorder index of the sub-expression, shape of its value) for every
   sub-expression that Python actually evaluates (the untaken IfExp branch is not) ---- *)
Fixpoint esize (e : expr) : nat :=
  match e with
  | ESig _ _ | ELit _ | ESized _ _ | EFree _ | ETmp _ | ELoop _ => 1
  | ECast _ a | EInv a | EZext _ a | ESext _ a | ETrunc _ a | ERed _ a => S (esize a)
  | EBin _ a b | ECmp _ a b | EIdx a b => S (esize a + esize b)
  | ESlice a b c | EIf a b c => S (esize a + esize b + esize c)
  | EConcat es => S ((fix go (l : list expr) : nat := match l with [] => O | x :: r => (esize x + go r)%nat end) es)
  end.

Definition shape (r : res value) : Z * Z :=
  match r with Ok (VBits n _) => (1, n) | Ok (VInt z) => (0, z) | Err _ => (2, 0) end.

Fixpoint probes (G : decls) (st : state) (k : nat) (e : expr) {struct e} : list (nat * (Z * Z)) :=
  (k, shape (eval G st e)) ::
  match e with
  | ESig _ _ | ELit _ | ESized _ _ | EFree _ | ETmp _ | ELoop _ => []
  | ECast _ a | EInv a | EZext _ a | ESext _ a | ETrunc _ a | ERed _ a => probes G st (S k) a
  | EBin _ a b | ECmp _ a b | EIdx a b => probes G st (S k) a ++ probes G st (S k + esize a) b
  | ESlice a b c => probes G st (S k) a ++ probes G st (S k + esize a) b ++ probes G st (S k + esize a + esize b) c
  | EIf c a b =>
      probes G st (S k) c ++
      match eval G st c with
      | Ok vc => if truthy vc then probes G st (S k + esize c) a else probes G st (S k + esize c + esize a) b
      | Err _ => []
      end
  | EConcat es =>
      (fix go (l : list expr) (k : nat) : list (nat * (Z * Z)) :=
         match l with [] => [] | x :: r => probes G st k x ++ go r (k + esize x)%nat end) es (S k)
  end.

(* ---- statements ---- *)
Definition write_root (st : state) (blocking : bool) (s : nat) (v : Z) : state :=
  if blocking then set_sig st s v else set_nxt st s v.

Definition exec_assign (G : decls) (st : state) (lbl : nat) (l : lhs) (e : expr) (blocking : bool) : res state :=
  let rhs (st : state) : res (value * state) :=
    bind (eval G st e) (fun v => Ok (v, add_evs st (map (fun p => (lbl, fst p, snd p)) (probes G st 0 e)))) in
  match l with
  | LTmp i => bind (rhs st) (fun vs => Ok (set_tmp (snd vs) i (fst vs)))
  | LSig s p =>
      match lookup_sig G s p with
      | None => Err EOther
      | Some f =>
          bind (rhs st) (fun vs =>
          (* <<= is modelled for whole signals (vector or bitstruct) only *)
          if negb blocking && negb (match p with [] => true | _ => false end) then Err EOther else
          bind (spec_store (fw f) (to_operand (fst vs))) (fun u =>
          Ok (write_root (snd vs) blocking s (splice (sigv st s) (flo f) (flo f + fw f) u))))
      end
  | LSlice s p lo hi =>
      match lookup_sig G s p with
      | None => Err EOther
      | Some f =>
          if negb blocking then Err EOther else
          bind (eval G st lo) (fun vl => bind (eval G st hi) (fun vh =>
          let cur := value_int (read_field f (sigv st s)) in
          let i := ISlice (Some (value_int vl)) (Some (value_int vh)) None in
          bind (spec_getitem (fw f) cur i) (fun old =>         (* s.x[lo:hi] is read first *)
          bind (rhs st) (fun vs =>
          bind (spec_store (fst old) (to_operand (fst vs))) (fun u =>   (* tmp @= rhs *)
          bind (spec_setitem (fw f) cur 0 i (OBits (fst old) u)) (fun r =>   (* s.x[lo:hi] = tmp *)
          Ok (set_sig (snd vs) s (splice (sigv st s) (flo f) (flo f + fw f) (snd (fst r))))))))))
      end
  | LIndex s p ix =>
      match lookup_sig G s p with
      | None => Err EOther
      | Some f =>
          if negb blocking then Err EOther else
          bind (eval G st ix) (fun vi =>
          let cur := value_int (read_field f (sigv st s)) in
          let i := IInt (value_int vi) in
          bind (spec_getitem (fw f) cur i) (fun old =>
          bind (rhs st) (fun vs =>
          bind (spec_store 1 (to_operand (fst vs))) (fun u =>
          bind (spec_setitem (fw f) cur 0 i (OBits 1 u)) (fun r =>
          Ok (set_sig (snd vs) s (splice (sigv st s) (flo f) (flo f + fw f) (snd (fst r)))))))))
      end
  end.

Definition loop_count (lo hi step : Z) : nat :=
  if (step <=? 0) || (hi <=? lo) then O else Z.to_nat ((hi - lo + step - 1) / step).

Definition exec_list (f : stmt -> state -> res state) : list stmt -> state -> res state :=
  fix go (l : list stmt) (st : state) : res state :=
    match l with [] => Ok st | x :: r => bind (f x st) (go r) end.

Fixpoint exec (G : decls) (s : stmt) (st : state) {struct s} : res state :=
  match s with
  | SAssign lbl l e blocking => exec_assign G st lbl l e blocking
  | SIf lbl c t f =>
      bind (eval G st c) (fun vc =>
      let st' := add_evs st (map (fun p => (lbl, fst p, snd p)) (probes G st 0 c)) in
      exec_list (exec G) (if truthy vc then t else f) st')
  | SFor id lo hi step body =>
      (fix loop (n : nat) (i : Z) (st : state) : res state :=
         match n with
         | O => Ok st
         | S n' =>
             bind (exec_list (exec G) body (set_loop st id i)) (loop n' (i + step))
         end) (loop_count lo hi step) lo st
  end.

Definition exec_block (G : decls) (b : list stmt) (st : state) : res state := exec_list (exec G) b st.

(* observable outcome of running a block on given input values: error class, or the final
   packed values of signals 0..k-1 together with the runtime probes (oldest first) *)
Definition run_block (G : decls) (nsig : nat) (b : list stmt) (inputs : list Z)
  : res (list Z * list (nat * nat * (Z * Z))) :=
  bind (exec_block G b (init_state inputs)) (fun st => Ok (map (final_sig st) (seq 0 nsig), rev (evs st))).
