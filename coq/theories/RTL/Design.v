(* RTL/Design.v — a generic evaluator for whole designs whose blocks are terms of RTL/Syntax.v, over the
   big-step semantics of RTL/Eval.v.  It mirrors what PrepareSimPass builds for a pure RTL design:

     sim_eval_combinational  =  the combinational blocks (update blocks and GenDAGPass net blocks) in schedule order
     sim_tick                =  combinational pass ; every update_ff block ; flip ; combinational pass

   The environment is the packed value of every signal id (a list, position = id).  Signals that share one storage
   object in the simulator (top-level signals of one net, see lock_in_simulation) have ONE id here.
   Every block runs with fresh temporaries / loop variables (python locals) on the current environment.
   update_ff blocks all read the pre-edge values; their <<= values are collected (a later block overrides an
   earlier one, as successive writes to _next do) and copied into the signals by the flip.
   Definitions only. *)
From PV Require Import Base.Prelude Bits.BitsSpec RTL.Syntax RTL.Eval Sched.Accept RTL.Footprint.
Open Scope Z_scope.

Record rdesign : Type := mkRD {
  rd_shapes : sigshapes;               (* one shape per signal id *)
  rd_comb   : list (list stmt);        (* combinational blocks, in the order of the schedule *)
  rd_ff     : list (list stmt);        (* update_ff blocks, in the order of schedule_ff *)
  rd_expl   : list (nat * nat)         (* explicit U(a) < U(b) constraints between combinational blocks (indices) *)
}.

Definition senv := list Z.
Definition rd_decls (D : rdesign) : decls := decls_of (rd_shapes D).
Definition rd_nsig (D : rdesign) : nat := length (rd_shapes D).

(* one combinational block on environment e *)
Definition run_comb1 (G : decls) (n : nat) (b : list stmt) (e : senv) : res senv :=
  bind (exec_block G b (init_state e)) (fun st => Ok (map (sigv st) (seq 0 n))).

Fixpoint comb_pass (G : decls) (n : nat) (bs : list (list stmt)) (e : senv) : res senv :=
  match bs with
  | [] => Ok e
  | b :: r => bind (run_comb1 G n b e) (comb_pass G n r)
  end.

(* one update_ff block on the pre-edge environment: the values it leaves pending *)
Definition run_ff1 (G : decls) (n : nat) (b : list stmt) (e : senv) : res (list (option Z)) :=
  bind (exec_block G b (init_state e)) (fun st => Ok (map (nxtv st) (seq 0 n))).

Fixpoint merge_nxt (old new : list (option Z)) : list (option Z) :=
  match old, new with
  | o :: old', x :: new' => (match x with Some v => Some v | None => o end) :: merge_nxt old' new'
  | _, _ => []
  end.

Fixpoint ff_pass (G : decls) (n : nat) (bs : list (list stmt)) (e : senv) (acc : list (option Z)) : res (list (option Z)) :=
  match bs with
  | [] => Ok acc
  | b :: r => bind (run_ff1 G n b e) (fun nx => ff_pass G n r e (merge_nxt acc nx))
  end.

Fixpoint flip (e : senv) (nx : list (option Z)) : senv :=
  match e, nx with
  | v :: e', x :: nx' => (match x with Some w => w | None => v end) :: flip e' nx'
  | _, _ => e
  end.

Definition sim_eval_comb (D : rdesign) (e : senv) : res senv :=
  comb_pass (rd_decls D) (rd_nsig D) (rd_comb D) e.

Definition clock_edge (D : rdesign) (e : senv) : res senv :=
  bind (ff_pass (rd_decls D) (rd_nsig D) (rd_ff D) e (map (fun _ => None) e)) (fun nx => Ok (flip e nx)).

(* (environment observed after the first combinational pass, environment after the whole tick) *)
Definition sim_tick_obs (D : rdesign) (e : senv) : res (senv * senv) :=
  bind (sim_eval_comb D e) (fun e1 =>
  bind (clock_edge D e1) (fun e2 =>
  bind (sim_eval_comb D e2) (fun e3 => Ok (e1, e3)))).
Definition sim_tick (D : rdesign) (e : senv) : res senv := bind (sim_tick_obs D e) (fun p => Ok (snd p)).

(* replace the value of signal id k *)
Fixpoint set_nth (k : nat) (v : Z) (e : senv) : senv :=
  match e, k with
  | [], _ => []
  | _ :: e', O => v :: e'
  | x :: e', S k' => x :: set_nth k' v e'
  end.

(* ---- legality of a design term (all computable) ---- *)
(* combinational blocks write signals with @= only, update_ff blocks with <<= only (pymtl3 enforces this at
   elaboration); temporaries are always "blocking" *)
Fixpoint assigns_ok_s (want_blocking : bool) (s : stmt) : bool :=
  match s with
  | SAssign _ l _ b => match l with LTmp _ => true | _ => Bool.eqb b want_blocking end
  | SIf _ _ t f =>
      (fix go (l : list stmt) : bool := match l with [] => true | x :: r => assigns_ok_s want_blocking x && go r end) t &&
      (fix go (l : list stmt) : bool := match l with [] => true | x :: r => assigns_ok_s want_blocking x && go r end) f
  | SFor _ _ _ _ body =>
      (fix go (l : list stmt) : bool := match l with [] => true | x :: r => assigns_ok_s want_blocking x && go r end) body
  end.
Definition assigns_ok (want_blocking : bool) (b : list stmt) : bool := forallb (assigns_ok_s want_blocking) b.

(* the design seen by the schedule acceptor of Sched/Accept.v, with the PROVED footprints of RTL/Footprint.v *)
Definition rd_design (D : rdesign) : design :=
  mkDesign (length (rd_comb D))
           (fun i => reads_of (rd_shapes D) (nth i (rd_comb D) []))
           (fun i => writes_of (rd_shapes D) (nth i (rd_comb D) []))
           (rd_expl D).
(* all blocks, for the single-writer check across combinational and update_ff blocks *)
Definition rd_design_all (D : rdesign) : design :=
  mkDesign (length (rd_comb D ++ rd_ff D))
           (fun i => reads_of (rd_shapes D) (nth i (rd_comb D ++ rd_ff D) []))
           (fun i => writes_of (rd_shapes D) (nth i (rd_comb D ++ rd_ff D) []))
           [].

(* shapes legal; assignment kinds legal; the emitted order of the combinational blocks is a legal schedule for the
   proved footprints (every block after the writers of what it reads, explicit constraints honoured); every bit
   has one writer; no combinational block reads what it writes... is NOT required (a block may read back a bit
   it has just written, e.g. the kill chain) *)
Definition rd_ok (D : rdesign) : bool :=
  wf_shapes (rd_shapes D) &&
  forallb (assigns_ok true) (rd_comb D) && forallb (assigns_ok false) (rd_ff D) &&
  sched_ok (rd_design D) (seq 0 (length (rd_comb D))) && noinv_ok (rd_design D) &&
  sw_ok (rd_design_all D).

(* ---- determinism certificate: which bits of the environment the result of a pass / of a tick is a function of ----
   Q = the bits two environments are known to agree on (inputs and registers to start with).  A combinational pass keeps
   the agreement and extends it by the definitely written bits of each block, provided every EXPOSED read of the block
   is already in Q (RTL/DesignProofs.v: comb_pass_det). *)
Fixpoint det_pass (G : decls) (bs : list (list stmt)) (Q : fp) : option fp :=
  match bs with
  | [] => Some Q
  | b :: r => if xcovers Q (xreads_d G b) then det_pass G r (must_d G b ++ Q) else None
  end.

(* (agreement after the first combinational pass, agreement after the whole tick) *)
Definition det_tick (D : rdesign) (Q : fp) : option (fp * fp) :=
  let G := rd_decls D in
  match det_pass G (rd_comb D) Q with
  | None => None
  | Some Q1 =>
      if forallb (fun b => covers Q1 (reads_d G b)) (rd_ff D) then
        match det_pass G (rd_comb D) Q1 with
        | None => None
        | Some Q2 => Some (Q1, Q2)
        end
      else None
  end.
