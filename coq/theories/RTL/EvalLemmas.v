(* RTL/EvalLemmas.v — frame facts about the evaluator of RTL/Eval.v (which variables a statement can change),
   used by the block-level soundness proof of the type checker (RTL/BlockSound.v).  No axioms. *)
From PV Require Import Base.Prelude Bits.BitsSpec RTL.Syntax RTL.Eval.
Open Scope Z_scope.

(* an assignment never changes a loop variable, and changes no temporary except the one it assigns *)
Lemma exec_assign_frame G st lbl l e b st' : exec_assign G st lbl l e b = Ok st' ->
  loopv st' = loopv st /\ (forall j, (forall i, l = LTmp i -> j <> i) -> tmpv st' j = tmpv st j).
Proof.
  unfold exec_assign. intros H.
  destruct l as [s p|s p lo hi|s p ix|i];
    repeat match type of H with
           | bind ?r _ = Ok _ => let Q := fresh "Q" in destruct r eqn:Q; cbn [bind fst snd] in H; [|discriminate H]
           | (if ?c then _ else _) = Ok _ => destruct c; [try discriminate H|try discriminate H]
           | match ?x with _ => _ end = Ok _ => destruct x; try discriminate H
           | (let _ := _ in _) = Ok _ => cbn zeta in H
           end;
    try (injection H as <-); try discriminate;
    repeat match goal with Q : bind ?r _ = Ok _ |- _ => destruct r; cbn [bind] in Q; [injection Q as <-|discriminate Q] end;
    cbn [fst snd].
  all: try (split; [reflexivity|intros j _; reflexivity]).
  all: try (destruct b; (split; [reflexivity|intros j _; reflexivity])).
  (* temporary *)
  split; [reflexivity|]. intros j Hj. cbn. unfold upd. specialize (Hj i eq_refl).
  destruct (Nat.eqb j i) eqn:J; [apply Nat.eqb_eq in J; contradiction|reflexivity].
Qed.
