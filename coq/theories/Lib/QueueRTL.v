(* Lib/QueueRTL.v — concrete models that mirror the STRUCTURE of pymtl3's RTL queues (model only, no proofs).

   crtl_*   : the multi-entry queues = *CtrlRTL (head / tail / count registers, wrap-around at n-1, the
              enq_rdy / deq_rdy / xfer equations) + *DpathRTL (register file written at tail when enq_xfer,
              read combinationally at head; bypass mux selected by count == 0).
              pymtl3/stdlib/queues/queues.py  {Normal,Pipe,Bypass}Queue{Ctrl,Dpath}RTL   (gated = true : rdy = ~reset & ...)
              pymtl3/stdlib/stream/queues.py  {Normal,Pipe,Bypass}Queue{Ctrl,Dpath}RTL   (gated = false)
              The two files have the same equations up to signal names (enq_en ~ recv_val, deq_en ~ send_rdy,
              deq_rdy ~ send_val) and the reset gating of the rdy outputs.
   e1_*     : queues.py        {Normal,Pipe,Bypass}Queue1EntryRTL  (en/rdy, `full` bit + `entry`)
   s1_*     : stream/queues.py {Normal,Pipe,Bypass}Queue1EntryRTL  (val/rdy, `full` bit + `entry`)
   p1_*     : enrdy_queues.py  {Normal,Pipe,Bypass}Queue1RTL       (recv en/rdy in, send en/rdy out; Reg/RegEn/RegRst)
   v1_*     : valrdy_queues.py {Normal,Pipe,Bypass}Queue1RTL       (val/rdy, `full` wire + RegEn buffer)
   vq_*     : valrdy_queues.py NormalQueueRTL{Ctrl,Dpath}          (enq_ptr / deq_ptr / full, num_free_entries)

   Registers are nat (the Bits widths clog2(n), clog2(n+1) are not modelled: the invariants head < n,
   count <= n proved in QueueProofs.v show no value ever leaves those widths). *)
From PV Require Import Base.Prelude Lib.Fifo.

Record rin (M : Type) : Type := mkIn {
  i_rst : bool;      (* s.reset *)
  i_enq : bool;      (* enq.en | recv.val | enq.val *)
  i_msg : M;         (* enq.msg | recv.msg *)
  i_deq : bool }.    (* deq.en (give ifc) | send.rdy | deq.rdy *)
Arguments mkIn {M}. Arguments i_rst {M}. Arguments i_enq {M}. Arguments i_msg {M}. Arguments i_deq {M}.

Definition offer_of {M} (i : rin M) : offer M := mkOffer (i_enq i) (i_msg i) (i_deq i).

Section QueueRTL.
  Context {M : Type}.

  (* ---------------------------------------------------------------- multi-entry Ctrl + Dpath *)
  Record cstate : Type := mkC { c_head : nat; c_tail : nat; c_count : nat; c_regs : nat -> M }.

  Definition c_init (d : M) : cstate := mkC 0 0 0 (fun _ => d).

  Definition upd (regs : nat -> M) (a : nat) (m : M) : nat -> M :=
    fun x => if (x =? a)%nat then m else regs x.

  (* s.head + 1 if s.head < s.last_idx else 0 *)
  Definition wrap_inc (n p : nat) : nat := if (p <? n - 1)%nat then (p + 1)%nat else 0%nat.

  Definition c_gate (gated : bool) (i : rin M) : bool := if gated then negb (i_rst i) else true.

  (* enq_rdy = ~reset & ( count < num_entries [ | deq_en   for the pipe   queue ] ) *)
  Definition c_enq_rdy (k : qkind) (n : nat) (gated : bool) (s : cstate) (i : rin M) : bool :=
    c_gate gated i && ((c_count s <? n)%nat || (is_pipe k && i_deq i)).
  (* deq_rdy = ~reset & ( count > 0           [ | enq_en   for the bypass queue ] ) *)
  Definition c_deq_rdy (k : qkind) (n : nat) (gated : bool) (s : cstate) (i : rin M) : bool :=
    c_gate gated i && ((0 <? c_count s)%nat || (is_bypass k && i_enq i)).
  Definition c_enq_xfer k n g s i : bool := i_enq i && c_enq_rdy k n g s i.
  Definition c_deq_xfer k n g s i : bool := i_deq i && c_deq_rdy k n g s i.
  (* deq.ret : register file read port at head; the bypass dpath muxes enq_msg in when count == 0 *)
  Definition c_ret (k : qkind) (s : cstate) (i : rin M) : M :=
    if is_bypass k && (c_count s =? 0)%nat then i_msg i else c_regs s (c_head s).

  Definition crtl_step (k : qkind) (n : nat) (gated : bool) (s : cstate) (i : rin M) : cstate * fout M :=
    let ex := c_enq_xfer k n gated s i in
    let dx := c_deq_xfer k n gated s i in
    let regs' := if ex then upd (c_regs s) (c_tail s) (i_msg i) else c_regs s in   (* RegisterFile: wen = enq_xfer, waddr = tail *)
    let s' :=
      if i_rst i then mkC 0 0 0 regs'
      else mkC (if dx then wrap_inc n (c_head s) else c_head s)
               (if ex then wrap_inc n (c_tail s) else c_tail s)
               (if ex && negb dx then (c_count s + 1)%nat
                else if negb ex && dx then (c_count s - 1)%nat else c_count s)
               regs' in
    (s', mkOut (c_enq_rdy k n gated s i) (c_deq_rdy k n gated s i) ex dx
               (if dx then Some (c_ret k s i) else None) (c_count s)).

  (* index of the i-th oldest entry, and the abstraction  abs s = [ regs((head+i) mod n) | i < count ] *)
  Definition c_abs (n : nat) (s : cstate) : list M :=
    map (fun i => c_regs s ((c_head s + i) mod n)%nat) (seq 0 (c_count s)).

  (* ---------------------------------------------------------------- one-entry queues: full bit + entry *)
  Record ostate : Type := mkO { o_full : bool; o_entry : M }.
  Definition o_init (d : M) : ostate := mkO false d.
  Definition o_abs (s : ostate) : list M := if o_full s then [o_entry s] else [].
  Definition o_cnt (s : ostate) : nat := if o_full s then 1%nat else 0%nat.

  (* queues.py *Queue1EntryRTL — en/rdy; NOTE full/entry are updated from the raw en signals *)
  Definition e1_step (k : qkind) (s : ostate) (i : rin M) : ostate * fout M :=
    let full := o_full s in let rst := i_rst i in let en := i_enq i in let de := i_deq i in
    match k with
    | Normal =>
        let er := negb rst && negb full in let dr := negb rst && full in
        (mkO (negb rst && (negb de && (en || full))) (if en then i_msg i else o_entry s),
         mkOut er dr en de (if de then Some (o_entry s) else None) (o_cnt s))
    | Pipe =>
        let er := negb rst && (negb full || de) in let dr := full && negb rst in
        (mkO (negb rst && (en || (full && negb de))) (if en then i_msg i else o_entry s),
         mkOut er dr en de (if de then Some (o_entry s) else None) (o_cnt s))
    | Bypass =>
        let er := negb rst && negb full in let dr := negb rst && (full || en) in
        let ret := if full then o_entry s else i_msg i in             (* Mux sel = full *)
        (mkO (negb rst && (negb de && (en || full))) (if en && negb de then i_msg i else o_entry s),
         mkOut er dr en de (if de then Some ret else None) (o_cnt s))
    end.
  (* the en/rdy protocol: en may be raised only when rdy is *)
  Definition e1_legal (k : qkind) (s : ostate) (i : rin M) : Prop :=
    let f := snd (e1_step k s i) in (i_enq i = true -> f_enq_rdy f = true) /\ (i_deq i = true -> f_deq_rdy f = true).

  (* stream/queues.py *Queue1EntryRTL — val/rdy *)
  Definition s1_step (k : qkind) (s : ostate) (i : rin M) : ostate * fout M :=
    let full := o_full s in let rst := i_rst i in let val := i_enq i in let srdy := i_deq i in
    match k with
    | Normal =>
        let rrdy := negb full in let sval := full in
        (mkO (if rst then false else (val && negb full) || (full && negb srdy))
             (if val && negb full then i_msg i else o_entry s),
         mkOut rrdy sval (val && rrdy) (sval && srdy) (if sval && srdy then Some (o_entry s) else None) (o_cnt s))
    | Pipe =>
        let rrdy := srdy || negb full in let sval := full in
        (mkO (if rst then false else negb rrdy || val)
             (if rrdy && val then i_msg i else o_entry s),
         mkOut rrdy sval (val && rrdy) (sval && srdy) (if sval && srdy then Some (o_entry s) else None) (o_cnt s))
    | Bypass =>
        let rrdy := negb full in let sval := full || val in
        let out := if full then o_entry s else i_msg i in
        (mkO (if rst then false else negb srdy && (full || val))
             (if negb srdy && negb full && val then i_msg i else o_entry s),
         mkOut rrdy sval (val && rrdy) (sval && srdy) (if sval && srdy then Some out else None) (o_cnt s))
    end.

  (* enrdy_queues.py *Queue1RTL — enq : RecvIfcRTL (en in, rdy out), deq : SendIfcRTL (en OUT, rdy in).
     f_deq_rdy is the factor that multiplies deq.rdy in the deq.en equation; f_deq_fire is deq.en itself.
     Normal/Pipe keep `full` in a Reg WITHOUT reset; Bypass uses RegRst. *)
  Definition p1_step (k : qkind) (s : ostate) (i : rin M) : ostate * fout M :=
    let full := o_full s in let rst := i_rst i in let en := i_enq i in let drdy := i_deq i in
    match k with
    | Normal =>
        let er := negb full in let den := full && drdy in
        (mkO ((negb full && en) || (negb drdy && en) || (negb drdy && full)) (if en then i_msg i else o_entry s),
         mkOut er full en den (if den then Some (o_entry s) else None) (o_cnt s))
    | Pipe =>
        let er := negb full || drdy in let den := full && drdy in
        (mkO (en || (full && negb drdy)) (if en then i_msg i else o_entry s),
         mkOut er full en den (if den then Some (o_entry s) else None) (o_cnt s))
    | Bypass =>
        let er := negb full in let den := (en || full) && drdy in
        let out := if full then o_entry s else i_msg i in
        (mkO (if rst then false else (en || full) && negb den) (if en && negb den then i_msg i else o_entry s),
         mkOut er (en || full) en den (if den then Some out else None) (o_cnt s))
    end.
  Definition p1_legal (k : qkind) (s : ostate) (i : rin M) : Prop :=
    (i_enq i = true -> f_enq_rdy (snd (p1_step k s i)) = true) /\
    (i_rst i = true -> k = Bypass).     (* only the bypass variant has a reset *)

  (* valrdy_queues.py *Queue1RTL — val/rdy, no reset on `full` *)
  Definition v1_step (k : qkind) (s : ostate) (i : rin M) : ostate * fout M :=
    let full := o_full s in let val := i_enq i in let drdy := i_deq i in
    match k with
    | Normal =>
        let er := negb full in let ben := val && er in
        (mkO ((full && negb drdy) || ben) (if ben then i_msg i else o_entry s),
         mkOut er full (val && er) (full && drdy) (if full && drdy then Some (o_entry s) else None) (o_cnt s))
    | Pipe =>
        let er := negb full || drdy in let ben := val && er in
        (mkO (val || (full && negb drdy)) (if ben then i_msg i else o_entry s),
         mkOut er full (val && er) (full && drdy) (if full && drdy then Some (o_entry s) else None) (o_cnt s))
    | Bypass =>
        let er := negb full in let dval := full || val in
        let ben := negb drdy && (val && er) in
        let out := if full then o_entry s else i_msg i in
        (mkO (negb drdy && dval) (if ben then i_msg i else o_entry s),
         mkOut er dval (val && er) (dval && drdy) (if dval && drdy then Some out else None) (o_cnt s))
    end.
  Definition v1_legal (s : ostate) (i : rin M) : Prop := i_rst i = false.

  (* ---------------------------------------------------------------- valrdy_queues.py NormalQueueRTL{Ctrl,Dpath} *)
  Record vstate : Type := mkV { v_enq_ptr : nat; v_deq_ptr : nat; v_full : bool; v_regs : nat -> M }.
  Definition v_init (d : M) : vstate := mkV 0 0 false (fun _ => d).
  (* if ptr == last_idx: 0 else ptr + 1 *)
  Definition v_inc (n p : nat) : nat := if (p =? n - 1)%nat then 0%nat else (p + 1)%nat.
  Definition v_empty (s : vstate) : bool := negb (v_full s) && (v_enq_ptr s =? v_deq_ptr s)%nat.
  Definition v_num_free (n : nat) (s : vstate) (i : rin M) : nat :=
    if i_rst i then n
    else if v_full s then 0%nat
    else if v_empty s then n
    else if (v_deq_ptr s <? v_enq_ptr s)%nat then (n - (v_enq_ptr s - v_deq_ptr s))%nat
    else if (v_enq_ptr s <? v_deq_ptr s)%nat then (v_deq_ptr s - v_enq_ptr s)%nat
    else n.   (* unreachable: ~full & enq_ptr == deq_ptr is `empty` (the code leaves the signal unassigned here) *)
  Definition vq_step (n : nat) (s : vstate) (i : rin M) : vstate * fout M :=
    let er := negb (v_full s) in
    let dval := negb (v_empty s) in
    let do_enq := er && i_enq i in
    let do_deq := i_deq i && dval in
    let enq_next := if do_enq then v_inc n (v_enq_ptr s) else v_enq_ptr s in
    let deq_next := if do_deq then v_inc n (v_deq_ptr s) else v_deq_ptr s in
    let full_next_cycle := do_enq && negb do_deq && (enq_next =? v_deq_ptr s)%nat in
    let regs' := if do_enq then upd (v_regs s) (v_enq_ptr s) (i_msg i) else v_regs s in
    let s' :=
      if i_rst i then mkV 0 0 false regs'
      else mkV enq_next deq_next
               (if full_next_cycle then true else if do_deq && v_full s then false else v_full s) regs' in
    (s', mkOut er dval do_enq do_deq (if do_deq then Some (v_regs s (v_deq_ptr s)) else None)
               (n - v_num_free n s i)%nat).
  Definition v_count (n : nat) (s : vstate) : nat :=
    if v_full s then n
    else if (v_deq_ptr s <=? v_enq_ptr s)%nat then (v_enq_ptr s - v_deq_ptr s)%nat
    else (v_enq_ptr s + n - v_deq_ptr s)%nat.
  Definition v_abs (n : nat) (s : vstate) : list M :=
    map (fun j => v_regs s ((v_deq_ptr s + j) mod n)%nat) (seq 0 (v_count n s)).

  (* ---------------------------------------------------------------- running a machine over an input sequence *)
  Fixpoint run {S : Type} (step : S -> rin M -> S * fout M) (s : S) (is : list (rin M)) : S * list (option (fout M)) :=
    match is with
    | [] => (s, [])
    | i :: r => let '(s', out) := step s i in
                let '(sf, outs) := run step s' r in
                (sf, (if i_rst i then None else Some out) :: outs)
    end.
  Fixpoint legal_run {S : Type} (step : S -> rin M -> S * fout M) (legal : S -> rin M -> Prop)
           (s : S) (is : list (rin M)) : Prop :=
    match is with
    | [] => True
    | i :: r => legal s i /\ legal_run step legal (fst (step s i)) r
    end.
  Definition offers_of (is : list (rin M)) : list (bool * offer M) := map (fun i => (i_rst i, offer_of i)) is.
End QueueRTL.

Arguments cstate M : clear implicits.
Arguments ostate M : clear implicits.
Arguments vstate M : clear implicits.

(* ------------------------------------------------------------------------------------------------
   Executable comparison of an observed history with the concrete models, INCLUDING the internal registers
   read out of the simulated component before each clock edge.  co_ein / co_din are the raw signals that
   were applied to the ports (for en/rdy interfaces these are the en signals, i.e. offer && rdy).
     multi-entry : co_a = head (deq_ptr), co_b = tail (enq_ptr), co_c = count (vq: full bit), co_regs = register file
     one-entry   : co_c = full bit, co_regs = [entry] *)
Record cobs : Type := mkCObs { co : obs; co_ein : bool; co_din : bool; co_a : Z; co_b : Z; co_c : Z; co_regs : list Z }.

Definition rin_of (c : cobs) : rin Z := mkIn (b_rst (co c)) (co_ein c) (b_msg (co c)) (co_din c).

Definition regs_agree (n : nat) (regs : nat -> Z) (l : list Z) : bool :=
  (length l =? n)%nat && forallb (fun j => nth j l 0 =? regs j) (seq 0 n).

Definition out_ok (c : cobs) (f : fout Z) : bool := b_rst (co c) || obs_matches (co c) f.

Fixpoint crtl_first_bad (k : qkind) (n : nat) (gated : bool) (s : cstate Z) (i : nat) (h : list cobs) : option nat :=
  match h with
  | [] => None
  | c :: r =>
      let '(s', f) := crtl_step k n gated s (rin_of c) in
      if (co_a c =? Z.of_nat (c_head s)) && (co_b c =? Z.of_nat (c_tail s)) && (co_c c =? Z.of_nat (c_count s))
         && regs_agree n (c_regs s) (co_regs c) && out_ok c f
      then crtl_first_bad k n gated s' (S i) r else Some i
  end.

Fixpoint vq_first_bad (n : nat) (s : vstate Z) (i : nat) (h : list cobs) : option nat :=
  match h with
  | [] => None
  | c :: r =>
      let '(s', f) := vq_step n s (rin_of c) in
      if (co_a c =? Z.of_nat (v_deq_ptr s)) && (co_b c =? Z.of_nat (v_enq_ptr s)) && (co_c c =? b2z (v_full s))
         && regs_agree n (v_regs s) (co_regs c) && out_ok c f
      then vq_first_bad n s' (S i) r else Some i
  end.

Fixpoint o1_first_bad (step : ostate Z -> rin Z -> ostate Z * fout Z) (s : ostate Z) (i : nat) (h : list cobs) : option nat :=
  match h with
  | [] => None
  | c :: r =>
      let '(s', f) := step s (rin_of c) in
      if (co_c c =? b2z (o_full s)) && (nth 0 (co_regs c) 0 =? o_entry s) && out_ok c f
      then o1_first_bad step s' (S i) r else Some i
  end.

Definition none_nat (x : option nat) : bool := match x with None => true | Some _ => false end.
