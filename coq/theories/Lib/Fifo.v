(* Lib/Fifo.v — the abstract FIFO specification of property C17, per kind and capacity.
   Model only (no proofs): state = the list of queued messages, oldest first.
   One cycle takes an OFFER (enqueue offered?, message, dequeue offered?) and produces
   (enq_rdy, deq_rdy/val, enq fired, deq fired, delivered message, occupancy count).
     enqueue ready  iff not full,  plus, for Pipe   queues, when full    iff a dequeue happens this cycle;
     dequeue ready  iff not empty, plus, for Bypass queues, when empty   iff an enqueue happens this cycle.
   "offered" is the producer's valid / the consumer's ready (val-rdy and stream interfaces) or the producer's /
   consumer's wish to call (en-rdy and method interfaces, where en may only be raised when rdy is seen);
   in every flavour a transfer FIRES iff it is offered and the queue's rdy/val is up. *)
From PV Require Import Base.Prelude.

Inductive qkind : Set := Normal | Pipe | Bypass.

Definition is_pipe (k : qkind) : bool := match k with Pipe => true | _ => false end.
Definition is_bypass (k : qkind) : bool := match k with Bypass => true | _ => false end.

Record offer (M : Type) : Type := mkOffer { o_enq : bool; o_msg : M; o_deq : bool }.
Arguments mkOffer {M}. Arguments o_enq {M}. Arguments o_msg {M}. Arguments o_deq {M}.

Record fout (M : Type) : Type := mkOut {
  f_enq_rdy : bool;          (* enq.rdy / recv.rdy *)
  f_deq_rdy : bool;          (* deq.rdy / send.val *)
  f_enq_fire : bool;         (* a message is accepted this cycle *)
  f_deq_fire : bool;         (* a message is delivered this cycle *)
  f_msg : option M;          (* the delivered message (Some iff f_deq_fire) *)
  f_count : nat }.           (* occupancy at the start of the cycle *)
Arguments mkOut {M}. Arguments f_enq_rdy {M}. Arguments f_deq_rdy {M}. Arguments f_enq_fire {M}.
Arguments f_deq_fire {M}. Arguments f_msg {M}. Arguments f_count {M}.

Section Fifo.
  Context {M : Type}.

  Definition q_empty (q : list M) : bool := match q with [] => true | _ => false end.
  Definition q_full (n : nat) (q : list M) : bool := (n <=? length q)%nat.

  (* (enq_rdy, deq_rdy) with the same-cycle rules of the property *)
  Definition fifo_rdys (k : qkind) (n : nat) (q : list M) (o : offer M) : bool * bool :=
    match k with
    | Normal => (negb (q_full n q), negb (q_empty q))
    | Pipe   => let dr := negb (q_empty q) in
                (negb (q_full n q) || (o_deq o && dr), dr)
    | Bypass => let er := negb (q_full n q) in
                (er, negb (q_empty q) || (o_enq o && er))
    end.

  Definition fifo_step (k : qkind) (n : nat) (q : list M) (o : offer M) : list M * fout M :=
    let '(er, dr) := fifo_rdys k n q o in
    let ef := o_enq o && er in
    let df := o_deq o && dr in
    let q1 := if ef then q ++ [o_msg o] else q in
    (if df then tl q1 else q1,
     mkOut er dr ef df (if df then hd_error q1 else None) (length q)).

  (* with synchronous reset: the state returns to the empty queue; outputs in a reset cycle are not specified *)
  Definition fifo_step_r (k : qkind) (n : nat) (q : list M) (rst : bool) (o : offer M) : list M * option (fout M) :=
    if rst then ([], None) else let '(q', out) := fifo_step k n q o in (q', Some out).

  Fixpoint fifo_run (k : qkind) (n : nat) (q : list M) (os : list (bool * offer M)) : list M * list (option (fout M)) :=
    match os with
    | [] => (q, [])
    | (rst, o) :: r => let '(q', out) := fifo_step_r k n q rst o in
                       let '(qf, outs) := fifo_run k n q' r in (qf, out :: outs)
    end.

  (* the messages accepted / delivered along a run, read off the (offer, output) pairs *)
  Definition accepted1 (o : offer M) (out : option (fout M)) : list M :=
    match out with Some f => if f_enq_fire f then [o_msg o] else [] | None => [] end.
  Definition delivered1 (out : option (fout M)) : list M :=
    match out with Some f => match f_msg f with Some m => [m] | None => [] end | None => [] end.
  Fixpoint accepted (os : list (bool * offer M)) (outs : list (option (fout M))) : list M :=
    match os, outs with
    | (_, o) :: r, out :: r' => accepted1 o out ++ accepted r r'
    | _, _ => []
    end.
  Fixpoint delivered (outs : list (option (fout M))) : list M :=
    match outs with out :: r => delivered1 out ++ delivered r | [] => [] end.

  Definition no_reset (os : list (bool * offer M)) : Prop := Forall (fun x => fst x = false) os.
End Fifo.

(* ------------------------------------------------------------------------------------------------
   Executable comparison used by the correspondence harness (messages are Z there).
   One observed cycle of a real queue = the inputs that were applied and what the ports showed.
   Fields a class does not expose are None (e.g. no count port, or a push-style send interface
   whose only dequeue-side output is the fire signal). *)
Record obs : Type := mkObs {
  b_rst : bool; b_enq : bool; b_msg : Z; b_deq : bool;      (* applied: reset, offer *)
  b_enq_rdy : option bool; b_deq_rdy : option bool;          (* observed rdy / val *)
  b_enq_fire : bool; b_deq_fire : bool;                      (* observed transfers *)
  b_out : Z;                                                 (* observed delivered message (meaningful iff b_deq_fire) *)
  b_count : option Z;                                        (* observed occupancy *)
  b_head : bool }.                                           (* b_out is also valid as a peek-like data output whenever rdy/val is up *)

Definition optb_agrees (x : option bool) (y : bool) : bool :=
  match x with None => true | Some b => Bool.eqb b y end.
Definition optz_agrees (x : option Z) (y : Z) : bool :=
  match x with None => true | Some b => (b =? y) end.

Definition obs_matches (c : obs) (f : fout Z) : bool :=
  optb_agrees (b_enq_rdy c) (f_enq_rdy f) && optb_agrees (b_deq_rdy c) (f_deq_rdy f) &&
  Bool.eqb (b_enq_fire c) (f_enq_fire f) && Bool.eqb (b_deq_fire c) (f_deq_fire f) &&
  match f_msg f with Some m => (b_out c =? m) | None => true end &&
  optz_agrees (b_count c) (Z.of_nat (f_count f)).

(* the data output a queue shows while its deq_rdy / val is up (deq.ret, send.msg, peek): the message the next
   dequeue delivers = the oldest queued one, or for a bypass queue that is empty the message being accepted *)
Definition fifo_head {M} (q : list M) (o : offer M) (f : fout M) : option M :=
  if f_deq_rdy f then hd_error (if f_enq_fire f then q ++ [o_msg o] else q) else None.
Definition head_ok (c : obs) (h : option Z) : bool :=
  if b_head c then match h with Some m => (b_out c =? m) | None => true end else true.

(* index of the first cycle at which the observed history leaves the specification; None = conforms *)
Fixpoint fifo_first_bad (k : qkind) (n : nat) (q : list Z) (i : nat) (h : list obs) : option nat :=
  match h with
  | [] => None
  | c :: r =>
      if b_rst c then fifo_first_bad k n [] (S i) r
      else let '(q', f) := fifo_step k n q (mkOffer (b_enq c) (b_msg c) (b_deq c)) in
           if obs_matches c f && head_ok c (fifo_head q (mkOffer (b_enq c) (b_msg c) (b_deq c)) f)
           then fifo_first_bad k n q' (S i) r else Some i
  end.
Definition fifo_conforms (k : qkind) (n : nat) (h : list obs) : bool :=
  match fifo_first_bad k n [] 0%nat h with None => true | Some _ => false end.

(* ------------------------------------------------------------------------------------------------
   Stream acceptor (certified in QueueProofs.v: stream_run_sound).  Used for CHAINS in which a library queue is fed /
   drained through the library's own CL<->RTL interface adapters: only the two message streams are judged (what the
   producer got accepted, what the consumer got delivered), not the same-cycle ready rules (the adapters add
   buffering and scheduling of their own).  The outstanding messages follow the OBSERVED transfers; every delivered
   message must be the oldest outstanding one (a message accepted in the same cycle may pass straight through);
   never more than cap outstanding.  Returns the outstanding messages at the end, None on a violation. *)
Definition stream_step (cap : nat) (q : list Z) (c : obs) : option (list Z) :=
  if b_rst c then Some [] else
  let q1 := if b_enq_fire c then q ++ [b_msg c] else q in
  if b_deq_fire c then
    match q1 with
    | m :: t => if (b_out c =? m) && (length t <=? cap)%nat then Some t else None
    | [] => None
    end
  else if (length q1 <=? cap)%nat then Some q1 else None.
Fixpoint stream_run (cap : nat) (q : list Z) (h : list obs) : option (list Z) :=
  match h with
  | [] => Some q
  | c :: r => match stream_step cap q c with Some q' => stream_run cap q' r | None => None end
  end.
(* first cycle at which the streams are violated; a history that ends with messages still outstanding although the
   harness drained it is reported at index = length (message lost) *)
Fixpoint stream_first_bad (cap : nat) (q : list Z) (i : nat) (h : list obs) : option nat :=
  match h with
  | [] => match q with [] => None | _ => Some i end
  | c :: r => match stream_step cap q c with Some q' => stream_first_bad cap q' (S i) r | None => Some i end
  end.
Definition obs_accepted (h : list obs) : list Z := flat_map (fun c => if b_enq_fire c then [b_msg c] else []) h.
Definition obs_delivered (h : list obs) : list Z := flat_map (fun c => if b_deq_fire c then [b_out c] else []) h.
