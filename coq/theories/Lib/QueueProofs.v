(* Lib/QueueProofs.v — C17: every concrete queue model refines the FIFO specification, for ALL capacities n >= 1,
   all kinds, all (protocol-legal) input sequences; consequences at trace level. No axioms. *)
From PV Require Import Base.Prelude Lib.Fifo Lib.QueueRTL Lib.QueueCL.
Open Scope nat_scope.

(* ================================================================= facts about the specification *)
Section SpecFacts.
  Context {M : Type}.
  Implicit Types (q : list M) (o : offer M).

  Lemma q_empty_len q : q_empty q = (length q =? 0).
  Proof. destruct q; reflexivity. Qed.

  (* conservation in one cycle: what was queued plus what is accepted = what is delivered plus what stays queued *)
  Lemma fifo_step_conserve k n q o :
    q ++ accepted1 o (Some (snd (fifo_step k n q o))) = delivered1 (Some (snd (fifo_step k n q o))) ++ fst (fifo_step k n q o).
  Proof.
    unfold fifo_step. destruct (fifo_rdys k n q o) as [er dr].
    destruct (o_enq o && er), (o_deq o && dr); cbn; rewrite ?app_nil_r; try reflexivity.
    - destruct q; reflexivity.
    - destruct q; reflexivity.
  Qed.

  (* the delivered message is Some exactly when the dequeue fires *)
  Lemma fifo_step_msg_iff k n q o : 0 < n ->
    (f_msg (snd (fifo_step k n q o)) <> None) <-> f_deq_fire (snd (fifo_step k n q o)) = true.
  Proof.
    intros Hn. unfold fifo_step, fifo_rdys, q_full.
    destruct k, q as [|a q]; cbn [q_empty length negb orb andb fst snd];
      destruct (o_enq o), (o_deq o); cbn; try (destruct (n <=? S (length q))); cbn;
      try (destruct n; [lia|]); cbn; split; intros; try congruence; try discriminate.
  Qed.

  (* occupancy: exact, and never above the capacity *)
  Lemma fifo_step_count k n q o : f_count (snd (fifo_step k n q o)) = length q.
  Proof. unfold fifo_step. destruct (fifo_rdys k n q o). reflexivity. Qed.

  Lemma fifo_step_bound k n q o : 0 < n -> length q <= n -> length (fst (fifo_step k n q o)) <= n.
  Proof.
    intros Hn Hq. unfold fifo_step, fifo_rdys, q_full.
    destruct k; cbn [fst snd];
      destruct (n <=? length q) eqn:Hf; destruct q as [|a q]; cbn [q_empty negb orb andb length] in *;
      destruct (o_enq o), (o_deq o); cbn [negb orb andb fst snd app tl length];
      rewrite ?app_length; cbn [length]; try lia.
  Qed.

  (* the same-cycle ready rules, exactly as the property words them *)
  Lemma fifo_enq_rdy_rule k n q o :
    f_enq_rdy (snd (fifo_step k n q o)) = true <->
    (length q < n \/ (k = Pipe /\ f_deq_fire (snd (fifo_step k n q o)) = true)).
  Proof.
    unfold fifo_step, fifo_rdys, q_full.
    destruct k; cbn [fst snd f_enq_rdy f_deq_fire];
      destruct (n <=? length q) eqn:Hf; cbn [negb orb];
      (split; [intros H|intros [H|[H1 H]]]); try discriminate; try (right; split; [reflexivity|assumption]);
      try (left; lia); try reflexivity; try assumption; try lia.
  Qed.

  Lemma fifo_deq_rdy_rule k n q o :
    f_deq_rdy (snd (fifo_step k n q o)) = true <->
    (0 < length q \/ (k = Bypass /\ f_enq_fire (snd (fifo_step k n q o)) = true)).
  Proof.
    unfold fifo_step, fifo_rdys.
    destruct k; cbn [fst snd f_deq_rdy f_enq_fire];
      destruct q as [|a q]; cbn [q_empty negb orb length];
      (split; [intros H|intros [H|[H1 H]]]); try discriminate; try (right; split; [reflexivity|assumption]);
      try (left; lia); try reflexivity; try assumption; try lia.
  Qed.

  Lemma fifo_fire_rule k n q o :
    f_enq_fire (snd (fifo_step k n q o)) = (o_enq o && f_enq_rdy (snd (fifo_step k n q o)))%bool /\
    f_deq_fire (snd (fifo_step k n q o)) = (o_deq o && f_deq_rdy (snd (fifo_step k n q o)))%bool.
  Proof. unfold fifo_step. destruct (fifo_rdys k n q o). split; reflexivity. Qed.

  (* a full pipe queue accepts iff it delivers in the same cycle; an empty bypass queue delivers iff it accepts *)
  Lemma fifo_pipe_full n q o : length q = n -> 0 < n ->
    f_enq_rdy (snd (fifo_step Pipe n q o)) = f_deq_fire (snd (fifo_step Pipe n q o)).
  Proof.
    intros Hl Hn. unfold fifo_step, fifo_rdys, q_full. cbn.
    replace (n <=? length q) with true by (symmetry; apply Nat.leb_le; lia). reflexivity.
  Qed.
  Lemma fifo_bypass_empty n o : 0 < n ->
    f_deq_rdy (snd (fifo_step Bypass n [] o)) = f_enq_fire (snd (fifo_step Bypass n [] o)) /\
    (f_deq_fire (snd (fifo_step Bypass n [] o)) = true -> f_msg (snd (fifo_step Bypass n [] o)) = Some (o_msg o)).
  Proof.
    intros Hn. unfold fifo_step, fifo_rdys, q_full. cbn.
    replace (n <=? 0) with false by (symmetry; apply Nat.leb_gt; lia). cbn.
    split; [reflexivity|]. destruct (o_enq o), (o_deq o); cbn; congruence.
  Qed.

  (* ---- runs ---- *)
  Lemma fifo_run_conserve k n os : no_reset os -> forall q,
    q ++ accepted os (snd (fifo_run k n q os)) = delivered (snd (fifo_run k n q os)) ++ fst (fifo_run k n q os).
  Proof.
    induction os as [|[rst o] r IH]; intros Hnr q; cbn.
    - now rewrite app_nil_r.
    - inversion Hnr as [|x l Hx Hr]; subst. cbn in Hx; subst rst. cbn.
      pose proof (fifo_step_conserve k n q o) as Hc.
      destruct (fifo_step k n q o) as [q' f] eqn:Hs. cbn [fst snd] in Hc.
      specialize (IH Hr q'). destruct (fifo_run k n q' r) as [qf outs]. cbn [fst snd] in *.
      cbn [accepted delivered]. rewrite app_assoc, Hc, <- !app_assoc, IH. reflexivity.
  Qed.

  Lemma fifo_run_bound k n os : 0 < n -> forall q, length q <= n -> length (fst (fifo_run k n q os)) <= n.
  Proof.
    intros Hn. induction os as [|[rst o] r IH]; intros q Hq; cbn; [assumption|].
    unfold fifo_step_r. destruct rst.
    - specialize (IH [] ltac:(cbn; lia)). destruct (fifo_run k n [] r). assumption.
    - pose proof (fifo_step_bound k n q o Hn Hq) as Hb. destruct (fifo_step k n q o) as [q' f]. cbn [fst] in Hb.
      specialize (IH q' Hb). destruct (fifo_run k n q' r). assumption.
  Qed.

  Lemma fifo_reset k n q o : fifo_step_r k n q true o = ([], None).
  Proof. reflexivity. Qed.
End SpecFacts.

(* ================================================================= lifting a one-cycle simulation to runs *)
Section Lift.
  Context {M S : Type}.
  Variables (k : qkind) (n : nat).
  Variable step : S -> rin M -> S * fout M.
  Variable abs : S -> list M.
  Variable inv : S -> Prop.
  Variable legal : S -> rin M -> Prop.

  Definition sim1 : Prop := forall s i, inv s -> legal s i ->
    inv (fst (step s i)) /\
    abs (fst (step s i)) = fst (fifo_step_r k n (abs s) (i_rst i) (offer_of i)) /\
    (i_rst i = false -> snd (step s i) = snd (fifo_step k n (abs s) (offer_of i))).

  Lemma run_refines : sim1 -> forall is s, inv s -> legal_run step legal s is ->
    inv (fst (run step s is)) /\
    abs (fst (run step s is)) = fst (fifo_run k n (abs s) (offers_of is)) /\
    snd (run step s is) = snd (fifo_run k n (abs s) (offers_of is)).
  Proof.
    intros Hsim. induction is as [|i r IH]; intros s Hinv Hleg.
    - cbn. auto.
    - change (offers_of (i :: r)) with ((i_rst i, offer_of i) :: offers_of r).
      cbn [run fifo_run legal_run] in *. destruct Hleg as [Hl Hr]. destruct (Hsim s i Hinv Hl) as (Hi' & Ha & Ho).
      destruct (step s i) as [s' out] eqn:Hst. cbn [fst snd] in *.
      destruct (IH s' Hi' Hr) as (IHi & IHa & IHo).
      destruct (run step s' r) as [sf outs] eqn:Hrun. cbn [fst snd] in *.
      unfold fifo_step_r in *. destruct (i_rst i) eqn:Hrst.
      + cbn [fst] in Ha. rewrite Ha in *. destruct (fifo_run k n [] (offers_of r)) as [qf souts]. cbn [fst snd] in *.
        repeat split; congruence.
      + specialize (Ho eq_refl). destruct (fifo_step k n (abs s) (offer_of i)) as [q' f]. cbn [fst snd] in *.
        rewrite Ha in *. destruct (fifo_run k n q' (offers_of r)) as [qf souts]. cbn [fst snd] in *.
        repeat split; congruence.
  Qed.
End Lift.

(* ================================================================= the multi-entry Ctrl + Dpath model *)
Section Ctrl.
  Context {M : Type}.
  Implicit Types (s : cstate M) (i : rin M) (regs : nat -> M).

  (* head in range, occupancy within capacity, tail = (head + count) mod n *)
  Definition c_inv (n : nat) s : Prop :=
    c_head s < n /\ c_count s <= n /\ c_tail s = (c_head s + c_count s) mod n.

  Definition idx (n h j : nat) : nat := if h + j <? n then h + j else h + j - n.

  Lemma mod_idx n h j : h < n -> j <= n -> (h + j) mod n = idx n h j.
  Proof.
    intros Hh Hj. unfold idx. destruct (h + j <? n) eqn:E.
    - apply Nat.mod_small. lia.
    - symmetry. apply (Nat.mod_unique (h + j) n 1 (h + j - n)); lia.
  Qed.

  Ltac arith := unfold idx, wrap_inc in *;
    repeat match goal with
           | |- context [if ?b then _ else _] => destruct b eqn:?
           | H : context [if ?b then _ else _] |- _ => destruct b eqn:?
           end; lia.

  Lemma idx_0 n h : h < n -> idx n h 0 = h.
  Proof. intros. arith. Qed.
  Lemma idx_wrap n h j : h < n -> S j <= n -> idx n (wrap_inc n h) j = idx n h (S j).
  Proof. intros. arith. Qed.
  Lemma idx_wrap_comm n h c : h < n -> c <= n -> idx n (wrap_inc n h) c = wrap_inc n (idx n h c).
  Proof. intros. arith. Qed.
  Lemma wrap_idx n h c : h < n -> c < n -> wrap_inc n (idx n h c) = idx n h (S c).
  Proof. intros. arith. Qed.
  Lemma idx_inj n h j j' : h < n -> j < j' -> j' <= n -> j' - j < n -> idx n h j <> idx n h j'.
  Proof. intros. arith. Qed.
  Lemma wrap_lt n h : 0 < n -> wrap_inc n h < n.
  Proof. intros. arith. Qed.

  Definition ents (n : nat) regs (h c : nat) : list M := map (fun j => regs (idx n h j)) (seq 0 c).

  Lemma ents_length n regs h c : length (ents n regs h c) = c.
  Proof. unfold ents. now rewrite map_length, seq_length. Qed.

  Lemma abs_ents n s : c_head s < n -> c_count s <= n -> c_abs n s = ents n (c_regs s) (c_head s) (c_count s).
  Proof.
    intros Hh Hc. unfold c_abs, ents. apply map_ext_in. intros j Hj. apply in_seq in Hj.
    rewrite mod_idx by lia. reflexivity.
  Qed.

  Lemma ents_S n regs h c : ents n regs h (S c) = ents n regs h c ++ [regs (idx n h c)].
  Proof. unfold ents. rewrite seq_S, map_app. reflexivity. Qed.

  Lemma ents_upd_other n regs h c a m :
    (forall j, j < c -> idx n h j <> a) -> ents n (upd regs a m) h c = ents n regs h c.
  Proof.
    intros H. unfold ents. apply map_ext_in. intros j Hj. apply in_seq in Hj. unfold upd.
    destruct (idx n h j =? a) eqn:E; [|reflexivity]. apply Nat.eqb_eq in E. exfalso. apply (H j); [lia|assumption].
  Qed.

  Lemma ents_tl n regs h c : h < n -> S c <= n -> tl (ents n regs h (S c)) = ents n regs (wrap_inc n h) c.
  Proof.
    intros Hh Hc. unfold ents. cbn [seq map tl]. rewrite <- seq_shift, map_map.
    apply map_ext_in. intros j Hj. apply in_seq in Hj. rewrite idx_wrap by lia. reflexivity.
  Qed.

  Lemma ents_hd n regs h c : h < n -> hd_error (ents n regs h (S c)) = Some (regs h).
  Proof. intros Hh. unfold ents. cbn [seq map hd_error]. now rewrite idx_0. Qed.

  (* the specification step written with length tests (what the hardware compares) *)
  Lemma fifo_step_alt k n (q : list M) o : 0 < n -> length q <= n ->
    fifo_step k n q o =
    let c := length q in
    let er := (c <? n) || (is_pipe k && o_deq o) in
    let dr := (0 <? c) || (is_bypass k && o_enq o) in
    let ef := o_enq o && er in let df := o_deq o && dr in
    let q1 := if ef then q ++ [o_msg o] else q in
    (if df then tl q1 else q1, mkOut er dr ef df (if df then hd_error q1 else None) c).
  Proof.
    intros Hn Hq. unfold fifo_step, fifo_rdys, q_full. rewrite q_empty_len.
    assert (E1 : negb (n <=? length q) = (length q <? n)) by lia.
    assert (E2 : negb (length q =? 0) = (0 <? length q)) by lia.
    destruct k; cbn [is_pipe is_bypass andb]; rewrite ?E1, ?E2, ?orb_false_r.
    - reflexivity.
    - assert (E : (length q <? n) || o_deq o && (0 <? length q) = (length q <? n) || o_deq o).
      { destruct (o_deq o); lia. }
      rewrite E. reflexivity.
    - assert (E : (0 <? length q) || o_enq o && (length q <? n) = (0 <? length q) || o_enq o).
      { destruct (o_enq o); lia. }
      rewrite E. reflexivity.
  Qed.

  Theorem crtl_sim k n gated : 0 < n ->
    sim1 k n (crtl_step k n gated) (c_abs n) (c_inv n) (fun _ _ => True).
  Proof.
    intros Hn [h t c regs] [rst en m de] (Hh & Hc & Ht) _. cbn [c_head c_tail c_count c_regs] in *.
    rewrite mod_idx in Ht by lia.
    unfold crtl_step, c_enq_xfer, c_deq_xfer, c_enq_rdy, c_deq_rdy, c_gate, c_ret, offer_of, fifo_step_r.
    cbn [c_head c_tail c_count c_regs i_rst i_enq i_msg i_deq fst snd].
    destruct rst.
    { (* reset *)
      split; [|split]; [| |discriminate].
      - unfold c_inv; cbn. repeat split; try lia. symmetry. apply Nat.mod_small. lia.
      - reflexivity. }
    assert (Hg : (if gated then negb false else true) = true) by (destruct gated; reflexivity).
    rewrite Hg. cbn [andb].
    pose proof (abs_ents n (mkC h t c regs) Hh Hc) as Ha. cbn [c_head c_count c_regs] in Ha.
    rewrite Ha. rewrite fifo_step_alt by (rewrite ?ents_length; lia).
    rewrite ents_length. cbn zeta. cbn [o_enq o_msg o_deq].
    set (er := (c <? n) || is_pipe k && de). set (dr := (0 <? c) || is_bypass k && en).
    destruct (en && er) eqn:Ef, (de && dr) eqn:Edf; cbn [andb negb fst snd].
    - (* enqueue and dequeue in the same cycle *)
      destruct c as [|c'].
      + (* empty: only the bypass queue gets here; the message goes straight through *)
        assert (Hk : is_bypass k = true) by (subst er dr; destruct k, en, de; unfold is_pipe, is_bypass in *; lia).
        rewrite Hk. cbn [Nat.eqb andb].
        assert (Ht0 : t = h) by (rewrite Ht; apply idx_0; lia). clear Ht. subst t.
        split; [|split].
        * unfold c_inv; cbn [c_head c_tail c_count]. pose proof (wrap_lt n h Hn). repeat split; try lia.
          rewrite mod_idx by lia. now rewrite idx_0.
        * cbn. reflexivity.
        * intros _. cbn. reflexivity.
      + assert (Hz : (is_bypass k && (S c' =? 0))%bool = false) by (rewrite andb_false_r; reflexivity).
        rewrite Hz.
        split; [|split].
        * unfold c_inv; cbn [c_head c_tail c_count]. pose proof (wrap_lt n h Hn). repeat split; try lia.
          rewrite mod_idx by lia. rewrite Ht. symmetry. apply idx_wrap_comm; lia.
        * rewrite abs_ents; cbn [c_head c_tail c_count c_regs]; [|apply wrap_lt; lia|lia].
          (* new contents = (old tail-of-queue) ++ [m] *)
          rewrite (ents_S n _ (wrap_inc n h) c').
          rewrite idx_wrap by lia. rewrite <- Ht. unfold upd at 2. rewrite Nat.eqb_refl.
          rewrite ents_upd_other.
          2:{ intros j Hj. rewrite idx_wrap by lia. rewrite Ht. apply idx_inj; lia. }
          rewrite <- ents_tl by lia.
          destruct (ents n regs h (S c')) eqn:Ee; [pose proof (ents_length n regs h (S c')) as Hl; rewrite Ee in Hl; discriminate|].
          reflexivity.
        * intros _. f_equal.
          pose proof (ents_hd n regs h c' Hh) as Hhd.
          destruct (ents n regs h (S c')) eqn:Ee; [discriminate|]. cbn in *. congruence.
    - (* enqueue only *)
      assert (Hlt : c < n) by (subst er dr; destruct k, en, de; unfold is_pipe, is_bypass in *; lia).
      split; [|split].
      + unfold c_inv; cbn [c_head c_tail c_count]. repeat split; try lia.
        rewrite mod_idx by lia. rewrite Ht. replace (c + 1) with (S c) by lia. apply wrap_idx; lia.
      + rewrite abs_ents; cbn [c_head c_tail c_count c_regs]; [|lia|lia].
        replace (c + 1) with (S c) by lia. rewrite ents_S. rewrite <- Ht. unfold upd at 2. rewrite Nat.eqb_refl.
        rewrite ents_upd_other; [reflexivity|].
        intros j Hj. rewrite Ht. apply idx_inj; lia.
      + intros _. reflexivity.
    - (* dequeue only *)
      assert (Hgt : 0 < c) by (subst er dr; destruct k, en, de; unfold is_pipe, is_bypass in *; lia).
      destruct c as [|c']; [lia|].
      assert (Hz : (is_bypass k && (S c' =? 0))%bool = false) by (rewrite andb_false_r; reflexivity).
      rewrite Hz.
      split; [|split].
      + unfold c_inv; cbn [c_head c_tail c_count]. pose proof (wrap_lt n h Hn). repeat split; try lia.
        rewrite mod_idx by lia. rewrite Ht. replace (S c' - 1) with c' by lia. symmetry. apply idx_wrap; lia.
      + rewrite abs_ents; cbn [c_head c_tail c_count c_regs]; [|apply wrap_lt; lia|lia].
        replace (S c' - 1) with c' by lia. rewrite ents_tl by lia. reflexivity.
      + intros _. f_equal. rewrite ents_hd by lia. reflexivity.
    - (* nothing moves *)
      split; [|split].
      + unfold c_inv; cbn [c_head c_tail c_count]. repeat split; try lia. rewrite mod_idx by lia. assumption.
      + rewrite abs_ents; cbn [c_head c_tail c_count c_regs]; [reflexivity|lia|lia].
      + intros _. reflexivity.
  Qed.

  Lemma c_init_inv n d : 0 < n -> c_inv n (c_init d).
  Proof. intros. unfold c_inv, c_init; cbn. repeat split; try lia. symmetry. apply Nat.mod_small. lia. Qed.
  Lemma c_init_abs n (d : M) : c_abs n (c_init d) = [].
  Proof. reflexivity. Qed.

  (* occupancy register = length of the abstract queue *)
  Lemma c_abs_length n s : length (c_abs n s) = c_count s.
  Proof. unfold c_abs. now rewrite map_length, seq_length. Qed.
End Ctrl.

(* ================================================================= the one-entry queues (full bit + entry) *)
Section OneEntry.
  Context {M : Type}.

  Ltac crush :=
    repeat match goal with
           | H : _ /\ _ |- _ => destruct H
           | H : true = true -> _ |- _ => specialize (H eq_refl)
           | H : ?a = ?a -> _ |- _ => specialize (H eq_refl)
           end;
    try discriminate; try congruence;
    repeat split; intros; try reflexivity; try discriminate; try congruence.

  (* queues.py {Normal,Pipe,Bypass}Queue1EntryRTL under the en/rdy protocol *)
  Theorem e1_sim k : sim1 (M:=M) k 1 (e1_step k) o_abs (fun _ => True) (e1_legal k).
  Proof.
    intros [full entry] [rst en m de] _ Hl. unfold e1_legal in Hl.
    destruct k, full, rst, en, de; cbn in Hl; crush.
  Qed.

  (* stream/queues.py {Normal,Pipe,Bypass}Queue1EntryRTL: any val/rdy inputs *)
  Theorem s1_sim k : sim1 (M:=M) k 1 (s1_step k) o_abs (fun _ => True) (fun _ _ => True).
  Proof.
    intros [full entry] [rst en m de] _ _.
    destruct k, full, rst, en, de; cbn; crush.
  Qed.

  (* enrdy_queues.py {Normal,Pipe,Bypass}Queue1RTL: enq.en only when enq.rdy; no reset on Normal/Pipe *)
  Theorem p1_sim k : sim1 (M:=M) k 1 (p1_step k) o_abs (fun _ => True) (p1_legal k).
  Proof.
    intros [full entry] [rst en m de] _ Hl. unfold p1_legal in Hl.
    destruct k, full, rst, en, de; cbn in Hl; crush.
  Qed.

  (* valrdy_queues.py {Normal,Pipe,Bypass}Queue1RTL: any val/rdy inputs, no reset *)
  Theorem v1_sim k : sim1 (M:=M) k 1 (v1_step k) o_abs (fun _ => True) v1_legal.
  Proof.
    intros [full entry] [rst en m de] _ Hl. unfold v1_legal in Hl. cbn in Hl. subst rst.
    destruct k, full, en, de; cbn; crush.
  Qed.

  Lemma o_abs_length (s : ostate M) : length (o_abs s) = o_cnt s.
  Proof. destruct s as [[] e]; reflexivity. Qed.
End OneEntry.

(* ================================================================= valrdy NormalQueueRTL (enq_ptr / deq_ptr / full) *)
Section PtrQueue.
  Context {M : Type}.
  Implicit Types (s : vstate M) (i : rin M).

  Definition v_inv (n : nat) s : Prop :=
    v_deq_ptr s < n /\ v_enq_ptr s < n /\ (v_full s = true -> v_enq_ptr s = v_deq_ptr s).

  (* the pointer/full representation, read as a head/tail/count state *)
  Definition v2c (n : nat) s : cstate M := mkC (v_deq_ptr s) (v_enq_ptr s) (v_count n s) (v_regs s).

  Lemma v_abs_c n s : v_abs n s = c_abs n (v2c n s).
  Proof. reflexivity. Qed.

  Ltac ifs :=
    repeat match goal with
           | |- context [if ?b then _ else _] => destruct b eqn:?
           | H : context [if ?b then _ else _] |- _ => destruct b eqn:?
           end.

  Lemma v2c_inv n s : 0 < n -> v_inv n s -> c_inv n (v2c n s).
  Proof.
    intros Hn (Hd & He & Hf). destruct s as [e d full regs]. cbn in *.
    unfold c_inv, v2c, v_count. cbn [c_head c_tail c_count v_full v_enq_ptr v_deq_ptr].
    assert (Hc : (if full then n else if d <=? e then e - d else e + n - d) <= n) by (ifs; lia).
    repeat split; try lia. rewrite mod_idx by lia. unfold idx. destruct full; [specialize (Hf eq_refl)|]; ifs; lia.
  Qed.

  (* occupancy as a function of the two pointers and the full bit *)
  Definition cntf (n e d : nat) (full : bool) : nat := if full then n else if d <=? e then e - d else e + n - d.

  Lemma v_count_cntf n e d f (r : nat -> M) : v_count n (mkV e d f r) = cntf n e d f.
  Proof. reflexivity. Qed.
  Lemma v_inc_wrap n p : p < n -> v_inc n p = wrap_inc n p.
  Proof. intros. unfold v_inc, wrap_inc. ifs; lia. Qed.
  Lemma cnt_enq n e d : e < n -> d < n -> cntf n e d false < n ->
    cntf n (wrap_inc n e) d (wrap_inc n e =? d) = cntf n e d false + 1.
  Proof. intros. unfold cntf, wrap_inc in *. ifs; lia. Qed.
  Lemma cnt_deq n e d full : e < n -> d < n -> (full = true -> e = d) -> 0 < cntf n e d full ->
    cntf n e (wrap_inc n d) false = cntf n e d full - 1.
  Proof. intros He Hd Hf Hc. unfold cntf, wrap_inc in *. destruct full; [specialize (Hf eq_refl)|]; ifs; lia. Qed.
  Lemma cnt_both n e d : e < n -> d < n -> 0 < cntf n e d false ->
    cntf n (wrap_inc n e) (wrap_inc n d) false = cntf n e d false.
  Proof. intros. unfold cntf, wrap_inc in *. ifs; lia. Qed.
  Lemma cnt_full n e d full : e < n -> d < n -> (full = true -> e = d) -> negb full = (cntf n e d full <? n).
  Proof. intros He Hd Hf. unfold cntf. destruct full; [specialize (Hf eq_refl)|]; ifs; lia. Qed.
  Lemma cnt_empty n e d full : 0 < n -> e < n -> d < n -> (full = true -> e = d) ->
    negb (negb full && (e =? d)) = (0 <? cntf n e d full).
  Proof. intros Hn He Hd Hf. unfold cntf. destruct full; [specialize (Hf eq_refl)|]; cbn [negb andb]; ifs; lia. Qed.
  Lemma cnt_free n e d full : e < n -> d < n -> (full = true -> e = d) ->
    n - v_num_free n (mkV e d full (fun _ : nat => @None M)) (mkIn false false None false) = cntf n e d full.
  Proof.
    intros He Hd Hf. unfold v_num_free, v_empty, cntf. cbn [i_rst v_full v_enq_ptr v_deq_ptr].
    destruct full; [specialize (Hf eq_refl)|]; cbn [negb andb]; ifs; lia.
  Qed.

  Lemma vq_as_crtl n s i : 0 < n -> v_inv n s ->
    v_inv n (fst (vq_step n s i)) /\
    v2c n (fst (vq_step n s i)) = fst (crtl_step Normal n false (v2c n s) i) /\
    (i_rst i = false -> snd (vq_step n s i) = snd (crtl_step Normal n false (v2c n s) i)).
  Proof.
    intros Hn (Hd & He & Hf). destruct s as [e d full regs], i as [rst en m de]. cbn in Hd, He, Hf.
    pose proof (cnt_full n e d full He Hd Hf) as F1.
    pose proof (cnt_empty n e d full Hn He Hd Hf) as F2.
    assert (F4 : forall (r : nat -> M) x, n - v_num_free n (mkV e d full r) (mkIn false en x de) = cntf n e d full).
    { intros r x. rewrite <- (cnt_free n e d full He Hd Hf). reflexivity. }
    unfold vq_step, crtl_step, c_enq_xfer, c_deq_xfer, c_enq_rdy, c_deq_rdy, c_gate, c_ret, v2c, v_inv.
    cbn [i_rst]. destruct rst.
    - (* reset *)
      unfold v_empty.
      cbn [v_full v_enq_ptr v_deq_ptr v_regs c_head c_tail c_count c_regs i_rst i_enq i_msg i_deq is_pipe is_bypass andb orb fst snd].
      rewrite !v_count_cntf. rewrite F1, ?orb_false_r. rewrite (andb_comm en).
      repeat split; try lia; discriminate.
    - rewrite F4. unfold v_empty.
      cbn [v_full v_enq_ptr v_deq_ptr v_regs c_head c_tail c_count c_regs i_rst i_enq i_msg i_deq is_pipe is_bypass andb orb fst snd].
      rewrite !v_count_cntf. rewrite F2, F1, ?orb_false_r. rewrite (andb_comm _ en).
      set (c := cntf n e d full) in *.
      rewrite !v_inc_wrap by assumption.
      destruct (en && (c <? n)) eqn:Ex, (de && (0 <? c)) eqn:Dx; cbn [negb andb fst snd v_full v_enq_ptr v_deq_ptr v_regs].
      + (* both: the queue is neither full nor empty *)
        assert (Hfull : full = false) by (destruct full; [cbn [negb] in F1; rewrite <- F1 in Ex; rewrite andb_false_r in Ex; discriminate|reflexivity]).
        subst full. cbn [andb]. pose proof (wrap_lt n e Hn). pose proof (wrap_lt n d Hn).
        repeat split; try lia; try discriminate.
        f_equal. subst c. apply cnt_both; try assumption. destruct de; [cbn [andb] in Dx; lia|discriminate].
      + (* enqueue only *)
        assert (Hfull : full = false) by (destruct full; [cbn [negb] in F1; rewrite <- F1 in Ex; rewrite andb_false_r in Ex; discriminate|reflexivity]).
        subst full. pose proof (wrap_lt n e Hn).
        assert (Hc : c < n) by (destruct en; [cbn [andb] in Ex; lia|discriminate]).
        destruct (wrap_inc n e =? d) eqn:Efd; cbn [v_full v_enq_ptr v_deq_ptr].
        * repeat split; try lia; try discriminate.
          f_equal. subst c. rewrite <- cnt_enq by assumption. rewrite Efd. reflexivity.
        * repeat split; try lia; try discriminate.
          f_equal. subst c. rewrite <- cnt_enq by assumption. rewrite Efd. reflexivity.
      + (* dequeue only *)
        pose proof (wrap_lt n d Hn).
        assert (Hc : 0 < c) by (destruct de; [cbn [andb] in Dx; lia|discriminate]).
        assert (Hde : de = true) by (destruct de; [reflexivity|discriminate]). subst de. cbn [andb].
        assert (Efn : (if full then false else full) = false) by (destruct full; reflexivity). rewrite Efn.
        cbn [v_full v_enq_ptr v_deq_ptr].
        repeat split; try lia; try discriminate.
        f_equal. subst c. apply cnt_deq; assumption.
      + (* nothing moves *)
        repeat split; try lia; try assumption; try discriminate.
  Qed.

  Theorem vq_sim n : 0 < n -> sim1 Normal n (vq_step n) (v_abs n) (v_inv n) (fun _ _ => True).
  Proof.
    intros Hn s i Hinv _.
    destruct (vq_as_crtl n s i Hn Hinv) as (Hi & Hs & Ho).
    destruct (crtl_sim Normal n false Hn (v2c n s) i (v2c_inv n s Hn Hinv) I) as (_ & Ha & Hout).
    split; [assumption|]. split.
    - rewrite !v_abs_c, Hs. exact Ha.
    - intros Hr. rewrite (Ho Hr). rewrite v_abs_c. exact (Hout Hr).
  Qed.

  Lemma v_init_inv n (d : M) : 0 < n -> v_inv n (v_init d).
  Proof. intros. unfold v_inv, v_init; cbn. repeat split; try lia; try discriminate. Qed.
  Lemma v_abs_length n s : length (v_abs n s) = v_count n s.
  Proof. unfold v_abs. now rewrite map_length, seq_length. Qed.
End PtrQueue.

(* ================================================================= the cycle-level (method) queues *)
Section CL.
  Context {M : Type}.

  (* whatever order the scheduler picks for NormalQueueCL, the cycle is the specification's cycle *)
  Theorem cl_step_spec k n enq_first (q : list M) o : 0 < n -> length q <= n ->
    cl_step k n enq_first q o = fifo_step k n q o.
  Proof.
    intros Hn Hq. rewrite fifo_step_alt by assumption.
    unfold cl_step, cl_enq_rdy, cl_deq_rdy, cl_enq, cl_deq. cbn zeta.
    destruct k; cbn [is_pipe is_bypass andb]; rewrite ?orb_false_r.
    - (* Normal: both call orders *)
      destruct enq_first; [reflexivity|].
      destruct (o_enq o && (length q <? n)) eqn:Ef, (o_deq o && (0 <? length q)) eqn:Ed; cbn [fst snd]; try reflexivity.
      destruct q as [|a q]; [cbn in Ed; rewrite andb_false_r in Ed; discriminate|]. reflexivity.
    - (* Pipe: deq, then enq.rdy is evaluated on the shortened deque *)
      destruct q as [|a q].
      + cbn [length tl hd_error fst snd]. replace (0 <? 0) with false by reflexivity.
        rewrite !andb_false_r. cbn [length]. replace (0 <? n) with true by lia. cbn [orb]. reflexivity.
      + cbn [length]. replace (0 <? S (length q)) with true by reflexivity. rewrite !andb_true_r.
        destruct (o_deq o); cbn [fst snd tl hd_error length orb].
        * replace (length q <? n) with true by (cbn [length] in Hq; lia). rewrite orb_true_r.
          destruct (o_enq o); reflexivity.
        * rewrite orb_false_r. reflexivity.
    - (* Bypass: enq, then deq.rdy is evaluated on the lengthened deque *)
      destruct (o_enq o) eqn:Ee; cbn [andb orb]; rewrite ?orb_false_r, ?orb_true_r.
      + destruct (length q <? n) eqn:El; cbn [orb].
        * rewrite app_length. cbn [length]. replace (0 <? length q + 1) with true by lia. reflexivity.
        * replace (0 <? length q) with true by lia. reflexivity.
      + reflexivity.
  Qed.
End CL.

  (* the CL queue as a machine over the common input record (there is no reset behaviour: legal = no reset) *)
Section CLMachine.
  Context {M : Type}.
  Definition cl_mstep (k : qkind) (n : nat) (enq_first : bool) (q : list M) (i : rin M) : list M * fout M :=
    cl_step k n enq_first q (offer_of i).
  Theorem cl_sim k n enq_first : 0 < n ->
    sim1 k n (cl_mstep k n enq_first) (fun q => q) (fun q => length q <= n) (fun _ i => i_rst i = false).
  Proof.
    intros Hn q i Hq Hr. unfold cl_mstep, fifo_step_r. rewrite Hr. rewrite cl_step_spec by assumption.
    pose proof (fifo_step_bound k n q (offer_of i) Hn Hq) as Hb.
    destruct (fifo_step k n q (offer_of i)) as [q' f]. cbn [fst snd] in *. auto.
  Qed.
End CLMachine.

(* ================================================================= consequences for every machine that simulates the spec *)
Section Corollaries.
  Context {M S : Type}.
  Variables (k : qkind) (n : nat).
  Variable step : S -> rin M -> S * fout M.
  Variable abs : S -> list M.
  Variable inv : S -> Prop.
  Variable legal : S -> rin M -> Prop.
  Hypothesis Hn : 0 < n.
  Hypothesis Hsim : sim1 k n step abs inv legal.
  Hypothesis Hbound : forall s, inv s -> length (abs s) <= n.

  Definition rst_free (is : list (rin M)) : Prop := Forall (fun i => i_rst i = false) is.

  Lemma rst_free_offers is : rst_free is -> no_reset (offers_of is).
  Proof. unfold rst_free, no_reset, offers_of. rewrite Forall_map. apply Forall_impl. auto. Qed.

  (* one cycle: the ready/valid outputs are exactly the rules of the property, the count is exact and bounded *)
  Theorem step_rules s i : inv s -> legal s i -> i_rst i = false ->
    let f := snd (step s i) in
    (f_enq_rdy f = true <-> (length (abs s) < n \/ (k = Pipe /\ f_deq_fire f = true))) /\
    (f_deq_rdy f = true <-> (0 < length (abs s) \/ (k = Bypass /\ f_enq_fire f = true))) /\
    f_enq_fire f = (i_enq i && f_enq_rdy f)%bool /\ f_deq_fire f = (i_deq i && f_deq_rdy f)%bool /\
    (f_msg f <> None <-> f_deq_fire f = true) /\
    f_count f = length (abs s) /\ f_count f <= n.
  Proof.
    intros Hi Hl Hr. destruct (Hsim s i Hi Hl) as (_ & _ & Ho). cbn zeta. rewrite (Ho Hr).
    pose proof (fifo_fire_rule k n (abs s) (offer_of i)) as [F1 F2].
    repeat split.
    - apply fifo_enq_rdy_rule.
    - apply fifo_enq_rdy_rule.
    - apply fifo_deq_rdy_rule.
    - apply fifo_deq_rdy_rule.
    - exact F1.
    - exact F2.
    - apply fifo_step_msg_iff; assumption.
    - apply fifo_step_msg_iff; assumption.
    - apply fifo_step_count.
    - rewrite fifo_step_count. auto.
  Qed.

  (* one cycle: the state moves like the abstract queue; a delivered message is the oldest one (or, for an empty
     bypass queue, the message being accepted) *)
  Theorem step_state s i : inv s -> legal s i -> i_rst i = false ->
    let f := snd (step s i) in
    abs s ++ (if f_enq_fire f then [i_msg i] else []) =
    (match f_msg f with Some m => [m] | None => [] end) ++ abs (fst (step s i)).
  Proof.
    intros Hi Hl Hr. destruct (Hsim s i Hi Hl) as (_ & Ha & Ho). cbn zeta. rewrite (Ho Hr), Ha.
    unfold fifo_step_r. rewrite Hr.
    pose proof (fifo_step_conserve k n (abs s) (offer_of i)) as Hc.
    destruct (fifo_step k n (abs s) (offer_of i)) as [q' f]. exact Hc.
  Qed.

  Theorem step_reset s i : inv s -> legal s i -> i_rst i = true -> abs (fst (step s i)) = [] /\ inv (fst (step s i)).
  Proof.
    intros Hi Hl Hr. destruct (Hsim s i Hi Hl) as (Hi' & Ha & _). unfold fifo_step_r in Ha. rewrite Hr in Ha. auto.
  Qed.

  (* whole runs: same outputs as the specification at every cycle, same final contents *)
  Theorem run_outputs is s : inv s -> legal_run step legal s is ->
    snd (run step s is) = snd (fifo_run k n (abs s) (offers_of is)) /\
    abs (fst (run step s is)) = fst (fifo_run k n (abs s) (offers_of is)) /\
    inv (fst (run step s is)).
  Proof. intros Hi Hl. destruct (run_refines k n step abs inv legal Hsim is s Hi Hl) as (A & B & C). auto. Qed.

  (* FIFO order: contents ++ accepted = delivered ++ remaining contents *)
  Theorem run_conserve is s : inv s -> legal_run step legal s is -> rst_free is ->
    abs s ++ accepted (offers_of is) (snd (run step s is)) = delivered (snd (run step s is)) ++ abs (fst (run step s is)).
  Proof.
    intros Hi Hl Hr. destruct (run_outputs is s Hi Hl) as (A & B & _). rewrite A, B.
    apply fifo_run_conserve. apply rst_free_offers. assumption.
  Qed.

  (* from an empty queue: delivered is a prefix of accepted and the rest is still queued, in order, nothing else *)
  Theorem run_fifo is s : inv s -> abs s = [] -> legal_run step legal s is -> rst_free is ->
    accepted (offers_of is) (snd (run step s is)) = delivered (snd (run step s is)) ++ abs (fst (run step s is)) /\
    length (abs (fst (run step s is))) <= n.
  Proof.
    intros Hi He Hl Hr. pose proof (run_conserve is s Hi Hl Hr) as Hc. rewrite He in Hc. split; [exact Hc|].
    apply Hbound. apply (run_outputs is s Hi Hl).
  Qed.
End Corollaries.

(* ================================================================= bounds on the abstraction, trivial legality *)
Section Bounds.
  Context {M : Type}.
  Lemma c_bound n (s : cstate M) : c_inv n s -> length (c_abs n s) <= n.
  Proof. intros (_ & H & _). now rewrite c_abs_length. Qed.
  Lemma o_bound (s : ostate M) : True -> length (o_abs s) <= 1.
  Proof. intros _. destruct s as [[] e]; cbn; lia. Qed.
  Lemma v_bound n (s : vstate M) : v_inv n s -> length (v_abs n s) <= n.
  Proof.
    intros (Hd & He & Hf). rewrite v_abs_length. unfold v_count.
    destruct (v_full s); [lia|]. destruct (v_deq_ptr s <=? v_enq_ptr s) eqn:E; lia.
  Qed.
  Lemma legal_run_trivial {S} (step : S -> rin M -> S * fout M) is : forall s, legal_run step (fun _ _ => True) s is.
  Proof. induction is; cbn; auto. Qed.
End Bounds.

(* ================================================================= the stream acceptor is sound *)
Section Stream.
  Open Scope Z_scope.
  Lemma stream_step_sound cap q c q' : b_rst c = false -> stream_step cap q c = Some q' ->
    q ++ (if b_enq_fire c then [b_msg c] else []) = (if b_deq_fire c then [b_out c] else []) ++ q' /\ (length q' <= cap)%nat.
  Proof.
    intros Hr. unfold stream_step. rewrite Hr.
    destruct (b_enq_fire c), (b_deq_fire c); cbn [app].
    - destruct (q ++ [b_msg c]) as [|m t] eqn:E; [discriminate|].
      destruct (b_out c =? m) eqn:Em; cbn [andb]; [|discriminate].
      destruct (length t <=? cap)%nat eqn:El; [|discriminate]. intros H; inversion H; subst.
      apply Z.eqb_eq in Em. subst. split; [reflexivity|]. apply Nat.leb_le. assumption.
    - destruct (length (q ++ [b_msg c]) <=? cap)%nat eqn:El; [|discriminate]. intros H; inversion H; subst.
      split; [reflexivity|]. apply Nat.leb_le. assumption.
    - rewrite app_nil_r. destruct q as [|m t]; [discriminate|].
      destruct (b_out c =? m) eqn:Em; cbn [andb]; [|discriminate].
      destruct (length t <=? cap)%nat eqn:El; [|discriminate]. intros H; inversion H; subst.
      apply Z.eqb_eq in Em. subst. split; [reflexivity|]. apply Nat.leb_le. assumption.
    - rewrite app_nil_r. destruct (length q <=? cap)%nat eqn:El; [|discriminate]. intros H; inversion H; subst.
      split; [reflexivity|]. apply Nat.leb_le. assumption.
  Qed.

  (* accepted by the acceptor => the delivered stream is the accepted stream minus what is still outstanding:
     same values, same order, nothing lost, duplicated or invented; never more than cap outstanding *)
  Theorem stream_run_sound cap h : Forall (fun c => b_rst c = false) h -> forall q q', (length q <= cap)%nat ->
    stream_run cap q h = Some q' ->
    q ++ obs_accepted h = obs_delivered h ++ q' /\ (length q' <= cap)%nat.
  Proof.
    induction 1 as [|c r Hc Hr IH]; intros q q' Hq; cbn [stream_run].
    - intros E; inversion E; subst. unfold obs_accepted, obs_delivered. cbn. rewrite app_nil_r. auto.
    - destruct (stream_step cap q c) as [q1|] eqn:Es; [|discriminate]. intros Hrun.
      destruct (stream_step_sound cap q c q1 Hc Es) as [H1 H2].
      destruct (IH q1 q' H2 Hrun) as [H3 H4]. split; [|assumption].
      unfold obs_accepted, obs_delivered in *. cbn [flat_map].
      rewrite app_assoc, H1, <- !app_assoc, H3. reflexivity.
  Qed.

  Corollary stream_drained_sound cap h : Forall (fun c => b_rst c = false) h ->
    stream_run cap [] h = Some [] -> obs_delivered h = obs_accepted h.
  Proof.
    intros Hr E. destruct (stream_run_sound cap h Hr [] [] (Nat.le_0_l cap) E) as [H _].
    cbn in H. rewrite app_nil_r in H. auto.
  Qed.

  Lemma stream_first_bad_none cap h : forall q i, stream_first_bad cap q i h = None -> stream_run cap q h = Some [].
  Proof.
    induction h as [|c r IH]; intros q i; cbn.
    - destruct q; [reflexivity|discriminate].
    - destruct (stream_step cap q c); [apply IH|discriminate].
  Qed.
End Stream.

(* ================================================================= peek-like data outputs *)
Section Head.
  Context {M : Type}.
  (* when the dequeue fires, the delivered message is the head that was on show *)
  Lemma fifo_head_delivered k n (q : list M) o :
    f_deq_fire (snd (fifo_step k n q o)) = true ->
    f_msg (snd (fifo_step k n q o)) = fifo_head q o (snd (fifo_step k n q o)).
  Proof.
    unfold fifo_step, fifo_head. destruct (fifo_rdys k n q o) as [er dr]. cbn [snd f_deq_fire f_deq_rdy f_enq_fire f_msg].
    destruct dr; [|rewrite andb_false_r; discriminate]. intros H. rewrite H. reflexivity.
  Qed.
  (* it is the oldest queued message whenever the queue is not empty *)
  Lemma fifo_head_oldest k n (a : M) q o : fifo_head (a :: q) o (snd (fifo_step k n (a :: q) o)) = Some a.
  Proof.
    unfold fifo_step, fifo_head, fifo_rdys. destruct k; cbn [q_empty negb orb fst snd f_deq_rdy f_enq_fire];
      match goal with |- context [if ?b then (a :: q) ++ _ else _] => destruct b end; reflexivity.
  Qed.
  (* CL peek: read-only view of exactly what deq would return; ready exactly when deq is *)
  Lemma cl_peek_is_deq (q : list M) : cl_peek q = snd (cl_deq q) /\ cl_peek_rdy q = cl_deq_rdy q.
  Proof. split; reflexivity. Qed.
  (* the consumer of a CL queue that peeks and then dequeues in the same block gets the peeked message *)
  Lemma cl_peek_then_deq k n enq_first (q : list M) o : 0 < n -> length q <= n ->
    f_deq_fire (snd (cl_step k n enq_first q o)) = true ->
    (k = Pipe -> enq_first = false) -> (k = Bypass -> enq_first = true) ->
    f_msg (snd (cl_step k n enq_first q o)) = cl_peek (cl_at_consumer enq_first q o (snd (cl_step k n enq_first q o))).
  Proof.
    intros Hn Hq Hf Hp Hb.
    destruct k.
    - destruct enq_first; unfold cl_step, cl_at_consumer, cl_peek, cl_deq, cl_enq in *; cbv zeta in *;
        cbn [snd fst f_deq_fire f_enq_fire f_msg andb] in *; rewrite Hf;
        destruct (o_enq o && cl_enq_rdy n q); reflexivity.
    - rewrite (Hp eq_refl) in *. unfold cl_step, cl_at_consumer, cl_peek, cl_deq, cl_enq in *; cbv zeta in *;
        cbn [snd fst f_deq_fire f_enq_fire f_msg andb] in *. rewrite Hf. reflexivity.
    - rewrite (Hb eq_refl) in *. unfold cl_step, cl_at_consumer, cl_peek, cl_deq, cl_enq in *; cbv zeta in *;
        cbn [snd fst f_deq_fire f_enq_fire f_msg andb] in *. rewrite Hf.
        destruct (o_enq o && cl_enq_rdy n q); reflexivity.
  Qed.
End Head.
