(* Lib/QueueGenProofs_3.v — the 3-entry instances of Lib/QueueGenProofs.v: generated Normal / Pipe / Bypass queue = crtl_step,
   for every head, tail < 3, count <= 3, register-file words over [1; 2], messages over 0..3, reset, enq.en, deq.en. *)
From PV Require Import Base.Prelude RTL.Design Lib.Fifo Lib.QueueRTL Gen.QueueGen Lib.QueueGenProofs.
(* -- *)
Open Scope Z_scope.
Theorem nq_gen_eq_model_entries3 : qm_spec nq3 P_nq3 R_nq3 Normal 3 [1; 2].
Proof. apply qm_all_sound. vm_cast_no_check (eq_refl true). Qed.
Theorem pq_gen_eq_model_entries3 : qm_spec pq3 P_pq3 R_pq3 Pipe 3 [1; 2].
Proof. apply qm_all_sound. vm_cast_no_check (eq_refl true). Qed.
Theorem bq_gen_eq_model_entries3 : qm_spec bq3 P_bq3 R_bq3 Bypass 3 [1; 2].
Proof. apply qm_all_sound. vm_cast_no_check (eq_refl true). Qed.
