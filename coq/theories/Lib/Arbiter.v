(* Lib/Arbiter.v — executable model of pymtl3/stdlib/basic_rtl/arbiters.py
   (RoundRobinArbiter, RoundRobinArbiterEn) and of the RegEnRst priority register
   (pymtl3/stdlib/basic_rtl/registers.py), parametric in nreqs.

   The model follows the code's own algorithm, update block by update block (the doubled
   request vector and the kill chain), NOT the intended behaviour.  The intended behaviour
   is the short abstract specification at the end (first requester at or after the priority
   pointer, cyclically).  Lib/ArbiterProofs.v proves model = specification for every nreqs.

   Bit vectors are functions nat -> bool (bit i of a Bits value); the register content is a
   list of bool of length nreqs so that the state is a normal form after every cycle.
   No proofs in this file. *)
From PV Require Import Base.Prelude.
(* (comment line kept directly after the Require line: harness/common.py closure() parses up to it) *)
Local Open Scope nat_scope.

Definition bv := nat -> bool.

Definition of_list (l : list bool) : bv := fun i => nth i l false.
Definition to_list (n : nat) (f : bv) : list bool := map f (seq 0 n).
Definition bv_of_Z (z : Z) : bv := fun i => Z.testbit z (Z.of_nat i).
Definition Z_of_list (l : list bool) : Z := fold_right (fun b acc => (b2z b + 2 * acc)%Z) 0%Z l.

(* ------------------------------------------------------------------ combinational blocks *)

(* comb_reqs_int:  reqs_int[0:nreqs] @= reqs ; reqs_int[nreqs:2*nreqs] @= reqs *)
Definition comb_reqs_int (n : nat) (reqs : bv) : bv :=
  fun i => if i <? n then reqs i else if i <? 2 * n then reqs (i - n) else false.

(* comb_priority_int:  priority_int[0:nreqs] @= priority_reg.out ; priority_int[nreqs:2*nreqs] @= 0 *)
Definition comb_priority_int (n : nat) (prio_out : bv) : bv :=
  fun i => if i <? n then prio_out i else false.

(* comb_kills:  kills[0] @= 1
                for i in range(2*nreqs):
                  if priority_int[i]: kills[i+1] @= reqs_int[i]
                  else:               kills[i+1] @= kills[i] | (~kills[i] & reqs_int[i])      *)
Fixpoint comb_kills (priority_int reqs_int : bv) (i : nat) : bool :=
  match i with
  | O => true
  | S j => if priority_int j then reqs_int j
           else let k := comb_kills priority_int reqs_int j in k || (negb k && reqs_int j)
  end.

(* comb_grants_int:  for i in range(2*nreqs):
                       if priority_int[i]: grants_int[i] @= reqs_int[i]
                       else:               grants_int[i] @= ~kills[i] & reqs_int[i]           *)
Definition comb_grants_int (n : nat) (priority_int reqs_int kills : bv) : bv :=
  fun i => if i <? 2 * n
           then (if priority_int i then reqs_int i else negb (kills i) && reqs_int i)
           else false.

(* comb_grants:  for i in range(nreqs): grants[i] @= grants_int[i] | grants_int[nreqs+i] *)
Definition comb_grants (n : nat) (grants_int : bv) : bv :=
  fun i => if i <? n then grants_int i || grants_int (n + i) else false.

(* `s.grants != 0` on an nreqs-bit value *)
Definition nonzero (n : nat) (v : bv) : bool := existsb v (seq 0 n).

(* comb_priority_en:  RoundRobinArbiter:   priority_en @= grants != 0
                      RoundRobinArbiterEn: priority_en @= (grants != 0) & en *)
Definition comb_priority_en (n : nat) (grants : bv) : bool := nonzero n grants.
Definition comb_priority_en_En (n : nat) (grants : bv) (en : bool) : bool := nonzero n grants && en.

(* connect( m.in_[1:nreqs], s.grants[0:nreqs-1] ) ; connect( m.in_[0], s.grants[nreqs-1] ) *)
Definition reg_in (n : nat) (grants : bv) : bv :=
  fun i => if i =? 0 then grants (n - 1) else if i <? n then grants (i - 1) else false.

(* RegEnRst.up_regenrst:  if reset: out <<= reset_value   elif en: out <<= in_ *)
Definition reg_next (n : nat) (reset en : bool) (in_ : bv) (out reset_value : list bool) : list bool :=
  if reset then reset_value else if en then to_list n in_ else out.

(* the whole combinational path reqs, priority_reg.out |-> grants *)
Definition grants_of (n : nat) (reqs : bv) (prio_out : list bool) : bv :=
  let reqs_int := comb_reqs_int n reqs in
  let priority_int := comb_priority_int n (of_list prio_out) in
  let kills := comb_kills priority_int reqs_int in
  comb_grants n (comb_grants_int n priority_int reqs_int kills).

(* ------------------------------------------------------------------ the sequential machine *)

(* the register holding a 1 in position p and 0 elsewhere *)
Definition ptr_state (n p : nat) : list bool := to_list n (fun i => i =? p).
(* RegEnRst( Type, reset_value = 1 ): bit 0 set *)
Definition reset_state (n : nat) : list bool := ptr_state n 0.
(* a freshly elaborated simulator before any reset: all registers 0 *)
Definition cold_state (n : nat) : list bool := to_list n (fun _ => false).

(* one cycle: inputs (reset, en, reqs); en is ignored by RoundRobinArbiter (isEn = false) *)
Definition cyc : Type := bool * bool * bv.
Definition c_rst (c : cyc) : bool := fst (fst c).
Definition c_en  (c : cyc) : bool := snd (fst c).
Definition c_reqs (c : cyc) : bv := snd c.

(* returns (grants seen during the cycle, register content after the clock edge) *)
Definition step (n : nat) (isEn : bool) (st : list bool) (c : cyc) : list bool * list bool :=
  let g := to_list n (grants_of n (c_reqs c) st) in
  let pen := if isEn then comb_priority_en_En n (of_list g) (c_en c) else comb_priority_en n (of_list g) in
  (g, reg_next n (c_rst c) pen (reg_in n (of_list g)) st (reset_state n)).

Fixpoint run (n : nat) (isEn : bool) (st : list bool) (h : list cyc) : list (list bool) :=
  match h with
  | [] => []
  | c :: h' => let r := step n isEn st c in fst r :: run n isEn (snd r) h'
  end.

Fixpoint final_state (n : nat) (isEn : bool) (st : list bool) (h : list cyc) : list bool :=
  match h with
  | [] => st
  | c :: h' => final_state n isEn (snd (step n isEn st c)) h'
  end.

(* ------------------------------------------------------------------ abstract specification *)

(* least k < m with f k, if any *)
Fixpoint find_first (f : nat -> bool) (m : nat) : option nat :=
  match m with
  | O => None
  | S m' => match find_first f m' with
            | Some k => Some k
            | None => if f m' then Some m' else None
            end
  end.

(* the input that wins: the first requester at or after pointer p, cyclically *)
Definition spec_grant_index (n : nat) (reqs : bv) (p : nat) : option nat :=
  option_map (fun k => (p + k) mod n) (find_first (fun k => reqs ((p + k) mod n)) n).

Definition spec_grants (n : nat) (reqs : bv) (p : nat) : bv :=
  fun i => match spec_grant_index n reqs p with None => false | Some g => i =? g end.

(* does the priority move in this cycle (given that something is granted)? *)
Definition advances (isEn : bool) (c : cyc) : bool := negb isEn || c_en c.

Definition spec_next_ptr (n : nat) (isEn : bool) (p : nat) (c : cyc) : nat :=
  if c_rst c then 0
  else match spec_grant_index n (c_reqs c) p with
       | Some g => if advances isEn c then (g + 1) mod n else p
       | None => p
       end.

Fixpoint spec_run (n : nat) (isEn : bool) (p : nat) (h : list cyc) : list (list bool) :=
  match h with
  | [] => []
  | c :: h' => to_list n (spec_grants n (c_reqs c) p) :: spec_run n isEn (spec_next_ptr n isEn p c) h'
  end.

(* rotate left by one inside n bits: bit i of the result is bit i-1 of v (bit n-1 wraps to bit 0) *)
Definition rotl (n : nat) (v : bv) : bv := fun i => if i <? n then v ((i + n - 1) mod n) else false.

(* cyclic distance from the pointer p forward to input i *)
Definition dist (n p i : nat) : nat := (i + n - p) mod n.

Fixpoint count_adv (isEn : bool) (h : list cyc) : nat :=
  match h with [] => 0 | c :: h' => (if advances isEn c then 1 else 0) + count_adv isEn h' end.

(* ------------------------------------------------------------------ vocabulary of the theorems *)

(* the invariant: the priority register has width n and exactly one bit set *)
Definition onehot (n : nat) (st : list bool) : Prop :=
  length st = n /\ exists p, p < n /\ forall i, i < n -> nth i st false = (i =? p).

(* input i requests in every cycle of h and there is no reset *)
Definition keeps_requesting (i : nat) (h : list cyc) : Prop :=
  forall c, In c h -> c_rst c = false /\ c_reqs c i = true.

(* i is granted in cycle t of the run, a cycle in which the priority advances, and at most `bound`
   advancing cycles have happened up to and including t *)
Definition granted_within (n : nat) (isEn : bool) (st : list bool) (h : list cyc) (i bound : nat) : Prop :=
  exists t c g, nth_error h t = Some c /\ nth_error (run n isEn st h) t = Some g /\
                advances isEn c = true /\ nth i g false = true /\
                count_adv isEn (firstn (S t) h) <= bound.

(* ------------------------------------------------------------------ harness interface *)

Definition zcyc : Type := bool * bool * Z.      (* reset, en, reqs as an unsigned integer *)
Definition cyc_of_z (c : zcyc) : cyc := (fst (fst c), snd (fst c), bv_of_Z (snd c)).

(* grants per cycle, as integers, of the model started cold (all-zero register) or just after reset *)
Definition replay (n : nat) (isEn cold : bool) (h : list zcyc) : list Z :=
  map Z_of_list (run n isEn (if cold then cold_state n else reset_state n) (map cyc_of_z h)).

Fixpoint zlist_eqb (a b : list Z) : bool :=
  match a, b with
  | [], [] => true
  | x :: a', y :: b' => (x =? y)%Z && zlist_eqb a' b'
  | _, _ => false
  end.

(* case = (isEn, cold, nreqs, history, grants observed on the real component) *)
Definition replay_ok (c : bool * bool * nat * list zcyc * list Z) : bool :=
  let '(isEn, cold, n, h, obs) := c in zlist_eqb (replay n isEn cold h) obs.
