(* Lib/Mem.v — byte-addressed memory, the MemMsg request/response records and the functional
   behaviour of MagicMemoryFL + the request decoding done in MagicMemoryCL.up_mem /
   stream/magic_memory.py MagicMemoryRTL.up_mem.  Definitions only (no proofs): this file must
   keep building (and running inside the correspondence) when a proof breaks.

   Mirrors:
     pymtl3/extra/pypy/fast_bytearray_funcs.py   read_bytearray_bits / write_bytearray_bits
     pymtl3/stdlib/mem/MagicMemoryFL.py           read / write / amo, AMO_FUNS
     pymtl3/stdlib/mem/MemMsg.py                  MemMsgType codes, req = (type_,opaque,addr,len,data),
                                                  resp = (type_,opaque,test,len,data)
     MagicMemoryCL.up_mem                         len_==0 means the full data width, write data is
                                                  req.data[0:len_<<3], write/inv/flush responses carry len 0 *)
From PV Require Import Base.Prelude.
Open Scope Z_scope.

(* ------------------------------------------------------------------ memory *)
Definition mem := Z -> Z.                       (* address -> byte (0..255) *)
Definition mem0 : mem := fun _ => 0.            (* bytearray(n) is all zero *)
Definition upd (m : mem) (a v : Z) : mem := fun x => if x =? a then v else m x.

(* write_mem(addr, bytes) of the harness: preload *)
Fixpoint mem_of_list (l : list (Z * Z)) (m : mem) : mem :=
  match l with [] => m | (a, b) :: t => mem_of_list t (upd m a b) end.

(* read_bytearray_bits: ret = sum arr[addr+i] << 8i  (little endian) *)
Fixpoint read_n (m : mem) (a : Z) (n : nat) : Z :=
  match n with O => 0 | S k => m a + 256 * read_n m (a + 1) k end.

(* write_bytearray_bits: while addr < end: arr[addr] = data & 255; data >>= 8; addr += 1 *)
Fixpoint write_n (m : mem) (a : Z) (n : nat) (d : Z) : mem :=
  match n with O => m | S k => write_n (upd m a (d mod 256)) (a + 1) k (d / 256) end.

Definition read (m : mem) (a len : Z) : Z := read_n m a (Z.to_nat len).
Definition write (m : mem) (a len d : Z) : mem := write_n m a (Z.to_nat len) d.

(* ------------------------------------------------------------------ AMOs *)
Inductive amo_op := AAdd | AAnd | AOr | ASwap | AMin | AMinu | AMax | AMaxu | AXor.

(* Bits.int(): two's complement reading of a w-bit pattern *)
Definition sint (w u : Z) : Z := if u <? 2 ^ (w - 1) then u else u - 2 ^ w.

(* AMO_FUNS on w-bit operands m (memory) and a (argument) *)
Definition amo_fun (op : amo_op) (w m a : Z) : Z :=
  match op with
  | AAdd  => (m + a) mod 2 ^ w                        (* Bits + wraps *)
  | AAnd  => Z.land m a
  | AOr   => Z.lor m a
  | ASwap => a
  | AMin  => if sint w m <? sint w a then m else a    (* m if m.int() < a.int() else a *)
  | AMinu => if a <? m then a else m                  (* builtin min(m, a) *)
  | AMax  => if sint w m >? sint w a then m else a
  | AMaxu => if a >? m then a else m                  (* builtin max(m, a) *)
  | AXor  => Z.lxor m a
  end.

(* MagicMemoryFL.amo on an n-byte location; the argument is taken on the access width *)
Definition amo_n (op : amo_op) (m : mem) (a : Z) (n : nat) (d : Z) : Z * mem :=
  let w := 8 * Z.of_nat n in
  let old := read_n m a n in
  (old, write_n m a n (amo_fun op w old (d mod 2 ^ w))).
Definition amo (op : amo_op) (m : mem) (a len d : Z) : Z * mem := amo_n op m a (Z.to_nat len) d.

(* ------------------------------------------------------------------ messages *)
Inductive mtype := TRead | TWrite | TAmo (op : amo_op) | TInv | TFlush.

Definition amo_code (op : amo_op) : Z :=
  match op with AAdd => 3 | AAnd => 4 | AOr => 5 | ASwap => 6 | AMin => 7 | AMinu => 8
              | AMax => 9 | AMaxu => 10 | AXor => 11 end.
Definition type_code (t : mtype) : Z :=
  match t with TRead => 0 | TWrite => 1 | TAmo op => amo_code op | TInv => 14 | TFlush => 15 end.
Definition type_of_code (c : Z) : option mtype :=
  if c =? 0 then Some TRead else if c =? 1 then Some TWrite else
  if c =? 3 then Some (TAmo AAdd) else if c =? 4 then Some (TAmo AAnd) else
  if c =? 5 then Some (TAmo AOr) else if c =? 6 then Some (TAmo ASwap) else
  if c =? 7 then Some (TAmo AMin) else if c =? 8 then Some (TAmo AMinu) else
  if c =? 9 then Some (TAmo AMax) else if c =? 10 then Some (TAmo AMaxu) else
  if c =? 11 then Some (TAmo AXor) else if c =? 14 then Some TInv else
  if c =? 15 then Some TFlush else None.

Record req  := mkReq  { q_type : mtype; q_opq : Z; q_addr : Z; q_len : Z; q_data : Z }.
Record resp := mkResp { p_type : mtype; p_opq : Z; p_test : Z; p_len : Z; p_data : Z }.

(* request from the integer fields the harness reads off the real message; unknown type codes are
   not requests of this model (the implementation asserts on them) *)
Definition req_of (c o a l d : Z) : req :=
  mkReq (match type_of_code c with Some t => t | None => TInv end) o a l d.

(* W = data width of the message in bytes (data_nbits >> 3); len_ = W when the len field is 0 *)
Definition eff_len (W : Z) (r : req) : nat := Z.to_nat (if q_len r =? 0 then W else q_len r).

Definition apply (W : Z) (r : req) (m : mem) : resp * mem :=
  let n := eff_len W r in
  match q_type r with
  | TRead   => (mkResp TRead (q_opq r) 0 (q_len r) (read_n m (q_addr r) n), m)
  | TWrite  => (mkResp TWrite (q_opq r) 0 0 0,
                write_n m (q_addr r) n (q_data r mod 2 ^ (8 * Z.of_nat n)))
  | TAmo op => let '(old, m') := amo_n op m (q_addr r) n (q_data r) in
               (mkResp (TAmo op) (q_opq r) 0 (q_len r) old, m')
  | TInv    => (mkResp TInv (q_opq r) 0 0 0, m)
  | TFlush  => (mkResp TFlush (q_opq r) 0 0 0, m)
  end.

Definition resp_of (W : Z) (r : req) (m : mem) : resp := fst (apply W r m).
Definition mem_step (W : Z) (r : req) (m : mem) : mem := snd (apply W r m).

(* ------------------------------------------------------------------ sequential specification *)
(* A processed request comes with the data width (in bytes) of the port it arrived on: ports of one memory
   may carry message types of different data widths, and len = 0 means the width of THAT port. *)
Definition wreq := (Z * req)%type.
Fixpoint mem_after (rs : list wreq) (m : mem) : mem :=
  match rs with [] => m | (W, r) :: t => mem_after t (mem_step W r m) end.
Fixpoint resps (rs : list wreq) (m : mem) : list resp :=
  match rs with [] => [] | (W, r) :: t => resp_of W r m :: resps t (mem_step W r m) end.
Definition run (rs : list wreq) (m : mem) : list resp * mem := (resps rs m, mem_after rs m).
(* all requests on one width *)
Definition uniform (W : Z) (rs : list req) : list wreq := map (pair W) rs.

(* logs tagged with the port that was serviced *)
Definition tlog := list (nat * req).
Definition untag {A} (l : list (nat * A)) : list A := map snd l.
Definition on_port {A} (p : nat) (l : list (nat * A)) : list A :=
  map snd (filter (fun x => Nat.eqb (fst x) p) l).
(* Wp p = data width in bytes of port p *)
Definition widths (Wp : nat -> Z) (l : tlog) : list wreq := map (fun x => (Wp (fst x), snd x)) l.
Fixpoint tresps (Wp : nat -> Z) (l : tlog) (m : mem) : list (nat * resp) :=
  match l with [] => [] | (p, r) :: t => (p, resp_of (Wp p) r m) :: tresps Wp t (mem_step (Wp p) r m) end.
Definition tmem_after (Wp : nat -> Z) (l : tlog) (m : mem) : mem := mem_after (widths Wp l) m.

(* which bytes a request stores, and what it stores there (given the memory it is applied to) *)
Definition stored_value (W : Z) (r : req) (m : mem) : option Z :=
  let n := eff_len W r in
  match q_type r with
  | TWrite  => Some (q_data r mod 2 ^ (8 * Z.of_nat n))
  | TAmo op => Some (amo_fun op (8 * Z.of_nat n) (read_n m (q_addr r) n) (q_data r mod 2 ^ (8 * Z.of_nat n)))
  | _ => None
  end.
Definition writes_at (W : Z) (r : req) (x : Z) : bool :=
  match q_type r with
  | TWrite | TAmo _ => (q_addr r <=? x) && (x <? q_addr r + Z.of_nat (eff_len W r))
  | _ => false
  end.
Definition byte_k (v k : Z) : Z := (v / 256 ^ k) mod 256.
Definition stores (W : Z) (r : req) (m : mem) (x : Z) : option Z :=
  if writes_at W r x then
    match stored_value W r m with Some v => Some (byte_k v (x - q_addr r)) | None => None end
  else None.

(* ------------------------------------------------------------------ what the implementation is seen doing *)
(* the MagicMemoryFL method call made for a request (observed by wrapping read/write/amo; the data
   argument is compared on the access width only, the bytes above it never reach the memory);
   INV/FLUSH make no call *)
Inductive call := CRead (a n : Z) | CWrite (a n d : Z) | CAmo (code a n d : Z).
Definition call_of (W : Z) (r : req) : option call :=
  let n := Z.of_nat (eff_len W r) in
  match q_type r with
  | TRead   => Some (CRead (q_addr r) n)
  | TWrite  => Some (CWrite (q_addr r) n (q_data r mod 2 ^ (8 * n)))
  | TAmo op => Some (CAmo (amo_code op) (q_addr r) n (q_data r mod 2 ^ (8 * n)))
  | _ => None
  end.

(* ------------------------------------------------------------------ decidable equalities *)
Definition amo_eqb (a b : amo_op) : bool := amo_code a =? amo_code b.
Definition mtype_eqb (a b : mtype) : bool := type_code a =? type_code b.
Definition req_eqb (a b : req) : bool :=
  mtype_eqb (q_type a) (q_type b) && (q_opq a =? q_opq b) && (q_addr a =? q_addr b) &&
  (q_len a =? q_len b) && (q_data a =? q_data b).
Definition resp_eqb (a b : resp) : bool :=
  mtype_eqb (p_type a) (p_type b) && (p_opq a =? p_opq b) && (p_test a =? p_test b) &&
  (p_len a =? p_len b) && (p_data a =? p_data b).
Definition call_eqb (a b : call) : bool :=
  match a, b with
  | CRead a1 n1, CRead a2 n2 => (a1 =? a2) && (n1 =? n2)
  | CWrite a1 n1 d1, CWrite a2 n2 d2 => (a1 =? a2) && (n1 =? n2) && (d1 =? d2)
  | CAmo c1 a1 n1 d1, CAmo c2 a2 n2 d2 => (c1 =? c2) && (a1 =? a2) && (n1 =? n2) && (d1 =? d2)
  | _, _ => false
  end.

Fixpoint list_eqb {A} (eqb : A -> A -> bool) (l1 l2 : list A) : bool :=
  match l1, l2 with
  | [], [] => true
  | x :: t1, y :: t2 => eqb x y && list_eqb eqb t1 t2
  | _, _ => false
  end.
Fixpoint prefixb {A} (eqb : A -> A -> bool) (l1 l2 : list A) : bool :=   (* l1 is a prefix of l2 *)
  match l1, l2 with
  | [], _ => true
  | x :: t1, y :: t2 => eqb x y && prefixb eqb t1 t2
  | _ :: _, [] => false
  end.

(* ------------------------------------------------------------------ history acceptor (T-acc) *)
(* What the harness observed on the real memory:
     reqs   : the request stream given to each port
     order  : the MagicMemoryFL calls in the order they happened, tagged with the servicing port
     out    : the responses that came out of each port, in arrival order
     img    : (address, byte) pairs of read_mem() at the end
   plus a proposed log (port, request) computed by the (untrusted) harness.  The acceptor checks that
   the log explains everything that was observed. *)
Definition calls_of_log (Wp : nat -> Z) (l : tlog) : list (nat * call) :=
  flat_map (fun x => match call_of (Wp (fst x)) (snd x) with Some c => [(fst x, c)] | None => [] end) l.
Definition tcall_eqb (a b : nat * call) : bool := Nat.eqb (fst a) (fst b) && call_eqb (snd a) (snd b).

Fixpoint ports_ok {A} (f : nat -> list A -> bool) (p : nat) (ls : list (list A)) : bool :=
  match ls with [] => true | l :: t => f p l && ports_ok f (S p) t end.

Definition log_in_ports (nports : nat) (l : tlog) : bool := forallb (fun x => Nat.ltb (fst x) nports) l.

Definition port_width (Ws : list Z) (p : nat) : Z := nth p Ws 0.

Definition check_history (Ws : list Z) (init : list (Z * Z)) (reqs : list (list req)) (order : list (nat * call))
           (out : list (list resp)) (img : list (Z * Z)) (complete : bool) (l : tlog) : bool :=
  let m0 := mem_of_list init mem0 in
  let W := port_width Ws in          (* Ws = data width in bytes of each port's message type *)
  let sp := tresps W l m0 in
  let mf := tmem_after W l m0 in
  log_in_ports (length reqs) l &&
  Nat.eqb (length Ws) (length reqs) &&
  Nat.eqb (length out) (length reqs) &&
  (* each port is serviced in request order: the log restricted to a port is a prefix of its stream *)
  ports_ok (fun p rs => (if complete then list_eqb else prefixb) req_eqb (on_port p l) rs) 0 reqs &&
  (* the log is what the memory was seen doing, in that order *)
  list_eqb tcall_eqb (calls_of_log W l) order &&
  (* the responses of a port are the sequential-spec responses of its serviced requests, in order *)
  ports_ok (fun p rs => (if complete then list_eqb else prefixb) resp_eqb rs (on_port p sp)) 0 out &&
  (* final image = applying the serviced requests one after another *)
  forallb (fun ab => mf (fst ab) =? snd ab) img.
