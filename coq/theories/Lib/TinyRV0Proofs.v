(* Lib/TinyRV0Proofs.v — facts about the TinyRV0 ISA model of Lib/TinyRV0.v.  No axioms.

   PROVED here:  decode (encode i) = Some i for every instruction form and every field value (so the
   encoder that harness/c20.py compares with the repo's assembler, and the decoder `step` uses, agree);
   encodings are 32-bit words and the encoder is injective; x0 reads as zero in every reachable state;
   registers stay 32-bit; little-endian load/store laws; `step` is a function so every execution has one
   final state (determinism); the proc2mngr output only ever grows by appending (prefix property of run).

   NOT proved (stated honestly): that ProcCL.py or the five-stage ProcRTL.py (ProcCtrlRTL/ProcDpathRTL:
   bypassing, stalling, squashing, the val/rdy queues around them) refine `step`.  A Burch–Dill style
   flushing proof of that pipeline is out of reach of this effort; that half of property C20 rests on the
   differential runs of harness/c20.py against `run`, evaluated inside Coq. *)
From PV Require Import Base.Prelude Lib.TinyRV0.
From Coq Require Import FSets.FMapPositive.
Open Scope Z_scope.

Ltac pows :=
  change (2 ^ 7) with 128 in *; change (2 ^ 8) with 256 in *; change (2 ^ 12) with 4096 in *;
  change (2 ^ 15) with 32768 in *; change (2 ^ 20) with 1048576 in *; change (2 ^ 25) with 33554432 in *;
  change (2 ^ 31) with 2147483648 in *.

Ltac fld := unfold bits;
  repeat match goal with |- context [2 ^ ?k] => let v := eval vm_compute in (2 ^ k) in change (2 ^ k) with v end.

Ltac sx := match goal with |- context [if ?c then _ else _] => destruct c eqn:? end; lia.

(* ------------------------------------------------------------------ field extraction, R-type *)
Section RType.
  Variables f7 rs2 rs1 f3 rd opc : Z.
  Hypothesis H7 : 0 <= f7 < 128.
  Hypothesis H2 : 0 <= rs2 < 32.
  Hypothesis H1 : 0 <= rs1 < 32.
  Hypothesis H3 : 0 <= f3 < 8.
  Hypothesis Hd : 0 <= rd < 32.
  Hypothesis Ho : 0 <= opc < 128.
  Let w := enc_r f7 rs2 rs1 f3 rd opc.
  Lemma r_range : 0 <= w < XLEN. Proof. subst w; unfold enc_r, XLEN. pows. lia. Qed.
  Lemma r_opc : bits w 0 6 = opc. Proof. subst w; unfold enc_r. fld. lia. Qed.
  Lemma r_rd : bits w 7 11 = rd. Proof. subst w; unfold enc_r. fld. lia. Qed.
  Lemma r_f3 : bits w 12 14 = f3. Proof. subst w; unfold enc_r. fld. lia. Qed.
  Lemma r_rs1 : bits w 15 19 = rs1. Proof. subst w; unfold enc_r. fld. lia. Qed.
  Lemma r_rs2 : bits w 20 24 = rs2. Proof. subst w; unfold enc_r. fld. lia. Qed.
  Lemma r_f7 : bits w 25 31 = f7. Proof. subst w; unfold enc_r. fld. lia. Qed.
End RType.

(* ------------------------------------------------------------------ I-type *)
Section IType.
  Variables imm rs1 f3 rd opc : Z.
  Hypothesis H1 : 0 <= rs1 < 32.
  Hypothesis H3 : 0 <= f3 < 8.
  Hypothesis Hd : 0 <= rd < 32.
  Hypothesis Ho : 0 <= opc < 128.
  Let w := enc_i imm rs1 f3 rd opc.
  Lemma i_range : 0 <= w < XLEN. Proof. subst w; unfold enc_i, XLEN. pows. lia. Qed.
  Lemma i_opc : bits w 0 6 = opc. Proof. subst w; unfold enc_i. fld. lia. Qed.
  Lemma i_rd : bits w 7 11 = rd. Proof. subst w; unfold enc_i. fld. lia. Qed.
  Lemma i_f3 : bits w 12 14 = f3. Proof. subst w; unfold enc_i. fld. lia. Qed.
  Lemma i_rs1 : bits w 15 19 = rs1. Proof. subst w; unfold enc_i. fld. lia. Qed.
  Lemma i_field : bits w 20 31 = imm mod 4096. Proof. subst w; unfold enc_i. fld. lia. Qed.
  Lemma i_imm : -2048 <= imm < 2048 -> imm_i w = imm.
  Proof. intros Hi. unfold imm_i. rewrite i_field. unfold sext. fld. sx. Qed.
  Lemma i_csr : 0 <= imm < 4096 -> bits w 20 31 = imm.
  Proof. intros Hi. rewrite i_field. lia. Qed.
End IType.

(* ------------------------------------------------------------------ S-type with S-immediate *)
Section SType.
  Variables imm rs2 rs1 f3 opc : Z.
  Hypothesis H2 : 0 <= rs2 < 32.
  Hypothesis H1 : 0 <= rs1 < 32.
  Hypothesis H3 : 0 <= f3 < 8.
  Hypothesis Ho : 0 <= opc < 128.
  Let w := enc_s imm rs2 rs1 f3 opc.
  Lemma s_range : 0 <= w < XLEN. Proof. subst w; unfold enc_s, XLEN. fld. lia. Qed.
  Lemma s_opc : bits w 0 6 = opc. Proof. subst w; unfold enc_s. fld. lia. Qed.
  Lemma s_f3 : bits w 12 14 = f3. Proof. subst w; unfold enc_s. fld. lia. Qed.
  Lemma s_rs1 : bits w 15 19 = rs1. Proof. subst w; unfold enc_s. fld. lia. Qed.
  Lemma s_rs2 : bits w 20 24 = rs2. Proof. subst w; unfold enc_s. fld. lia. Qed.
  Lemma s_lo : bits w 7 11 = (imm mod 4096) mod 32. Proof. subst w; unfold enc_s. fld. lia. Qed.
  Lemma s_hi : bits w 25 31 = (imm mod 4096) / 32. Proof. subst w; unfold enc_s. fld. lia. Qed.
  Lemma s_imm : -2048 <= imm < 2048 -> imm_s w = imm.
  Proof. intros Hi. unfold imm_s. rewrite s_lo, s_hi. unfold sext. fld. sx. Qed.
End SType.

(* ------------------------------------------------------------------ S-type with B-immediate *)
Section BType.
  Variables imm rs2 rs1 f3 opc : Z.
  Hypothesis H2 : 0 <= rs2 < 32.
  Hypothesis H1 : 0 <= rs1 < 32.
  Hypothesis H3 : 0 <= f3 < 8.
  Hypothesis Ho : 0 <= opc < 128.
  Let w := enc_b imm rs2 rs1 f3 opc.
  Let u := imm mod 8192.
  Lemma b_range : 0 <= w < XLEN. Proof. subst w; unfold enc_b, XLEN. fld. lia. Qed.
  Lemma b_opc : bits w 0 6 = opc. Proof. subst w; unfold enc_b. fld. lia. Qed.
  Lemma b_f3 : bits w 12 14 = f3. Proof. subst w; unfold enc_b. fld. lia. Qed.
  Lemma b_rs1 : bits w 15 19 = rs1. Proof. subst w; unfold enc_b. fld. lia. Qed.
  Lemma b_rs2 : bits w 20 24 = rs2. Proof. subst w; unfold enc_b. fld. lia. Qed.
  Lemma b_31 : bits w 31 31 = u / 4096. Proof. subst w u; unfold enc_b. fld. lia. Qed.
  Lemma b_7 : bits w 7 7 = (u / 2048) mod 2. Proof. subst w u; unfold enc_b. fld. lia. Qed.
  Lemma b_30_25 : bits w 25 30 = (u / 32) mod 64. Proof. subst w u; unfold enc_b. fld. lia. Qed.
  Lemma b_11_8 : bits w 8 11 = (u / 2) mod 16. Proof. subst w u; unfold enc_b. fld. lia. Qed.
  Lemma b_imm : -4096 <= imm < 4096 -> imm mod 2 = 0 -> imm_b w = imm.
  Proof.
    intros Hi He. unfold imm_b. rewrite b_31, b_7, b_30_25, b_11_8. subst u; unfold sext. fld. sx.
  Qed.
End BType.

(* ------------------------------------------------------------------ decode after encode *)
Lemma range_guard w : 0 <= w < XLEN -> negb ((0 <=? w) && (w <? XLEN)) = false.
Proof. intros. lia. Qed.

Theorem encode_range i : wf_instr i -> 0 <= encode i < XLEN.
Proof.
  destruct i; cbn [wf_instr encode]; unfold is_reg, is_csr, is_imm12, is_immb; intros H;
    match goal with
    | |- context [enc_r _ _ _ _ _ _] => apply r_range
    | |- context [enc_i _ _ _ _ _] => apply i_range
    | |- context [enc_s _ _ _ _ _] => apply s_range
    | |- context [enc_b _ _ _ _ _] => apply b_range
    end;
    unfold OPC_SYSTEM, OPC_OP, OPC_OPIMM, OPC_LOAD, OPC_STORE, OPC_BRANCH; lia.
Qed.

Ltac ops := unfold OPC_SYSTEM, OPC_OP, OPC_OPIMM, OPC_LOAD, OPC_STORE, OPC_BRANCH in *.

Theorem decode_encode i : wf_instr i -> decode (encode i) = Some i.
Proof.
  intros H. pose proof (encode_range i H) as R.
  unfold decode. rewrite (range_guard _ R). cbv iota. clear R.
  destruct i; cbn [wf_instr encode] in *; unfold is_reg, is_csr, is_imm12, is_immb in H; cbv zeta.
  - (* csrr *) rewrite i_opc, i_f3, i_rs1, i_rd, i_csr by (ops; lia). reflexivity.
  - (* csrw *) rewrite i_opc, i_f3, i_rs1, i_rd, i_csr by (ops; lia). reflexivity.
  - (* add *) rewrite r_opc, r_f3, r_f7, r_rd, r_rs1, r_rs2 by (ops; lia). reflexivity.
  - (* and *) rewrite r_opc, r_f3, r_f7, r_rd, r_rs1, r_rs2 by (ops; lia). reflexivity.
  - (* sll *) rewrite r_opc, r_f3, r_f7, r_rd, r_rs1, r_rs2 by (ops; lia). reflexivity.
  - (* srl *) rewrite r_opc, r_f3, r_f7, r_rd, r_rs1, r_rs2 by (ops; lia). reflexivity.
  - (* addi *) rewrite i_opc, i_f3, i_rs1, i_rd, i_imm by (ops; lia). reflexivity.
  - (* lw *) rewrite i_opc, i_f3, i_rs1, i_rd, i_imm by (ops; lia). reflexivity.
  - (* sw *) rewrite s_opc, s_f3, s_rs1, s_rs2, s_imm by (ops; lia). reflexivity.
  - (* bne *) rewrite b_opc, b_f3, b_rs1, b_rs2, b_imm by (ops; lia). reflexivity.
Qed.

Theorem encode_injective i j : wf_instr i -> wf_instr j -> encode i = encode j -> i = j.
Proof.
  intros Hi Hj E. pose proof (decode_encode i Hi) as A. pose proof (decode_encode j Hj) as B.
  rewrite E in A. rewrite A in B. injection B. auto.
Qed.

Lemma wf_instrb_sound i : wf_instrb i = true -> wf_instr i.
Proof.
  destruct i; cbn [wf_instrb wf_instr]; unfold regb, is_reg, is_csr, is_imm12, is_immb; intros H; lia.
Qed.

(* the assembler's `nop` *)
Example nop_encoding : encode nop = 19 /\ decode 19 = Some nop.
Proof. split; reflexivity. Qed.

(* the all-zero word is not an instruction: `run` stops when it falls off the end of a program *)
Example zero_word_undefined : decode 0 = None.
Proof. reflexivity. Qed.

(* ------------------------------------------------------------------ registers: x0, widths *)
Lemma nth_upd_other n v l k : n <> k -> nth k (upd n v l) 0 = nth k l 0.
Proof.
  revert n k. induction l as [|h t IH]; intros n k Hne; [destruct n; reflexivity|].
  destruct n, k; cbn [upd nth]; try reflexivity; [congruence|]. apply IH. congruence.
Qed.

Lemma nth_upd_same n v l : (n < length l)%nat -> nth n (upd n v l) 0 = v.
Proof.
  revert n. induction l as [|h t IH]; intros n Hn; cbn [length] in Hn; [lia|].
  destruct n; cbn [upd nth]; [reflexivity|]. apply IH. lia.
Qed.

Lemma length_upd n v l : length (upd n v l) = length l.
Proof. revert n. induction l as [|h t IH]; intros n; destruct n; cbn [upd length]; auto. Qed.

Lemma Forall_upd (P : Z -> Prop) n v l : P v -> Forall P l -> Forall P (upd n v l).
Proof.
  intros Hv. revert n. induction l as [|h t IH]; intros n Hl; destruct n; cbn [upd]; auto;
    inversion Hl; subst; constructor; auto.
Qed.

Lemma rget_rset_x0 rf i v : rget (rset rf i v) 0 = rget rf 0.
Proof.
  unfold rget, rset. destruct (Z.leb_spec i 0); [reflexivity|].
  change (Z.to_nat 0) with 0%nat. apply nth_upd_other. lia.
Qed.

Lemma rget_rset_same rf i v : 0 < i -> (Z.to_nat i < length rf)%nat -> rget (rset rf i v) i = wrap32 v.
Proof.
  intros Hi Hl. unfold rget, rset. destruct (Z.leb_spec i 0); [lia|]. apply nth_upd_same. exact Hl.
Qed.

Lemma rget_rset_other rf i j v : 0 <= j -> i <> j -> rget (rset rf i v) j = rget rf j.
Proof.
  intros Hj Hne. unfold rget, rset. destruct (Z.leb_spec i 0); [reflexivity|].
  apply nth_upd_other. lia.
Qed.

Definition x0_zero (s : state) : Prop := rget (regs s) 0 = 0.
Definition regs_wf (s : state) : Prop := length (regs s) = 32%nat /\ Forall (fun v => 0 <= v < XLEN) (regs s).

Lemma rset_wf rf i v : length rf = 32%nat /\ Forall (fun v => 0 <= v < XLEN) rf ->
  length (rset rf i v) = 32%nat /\ Forall (fun v => 0 <= v < XLEN) (rset rf i v).
Proof.
  intros [L F]. unfold rset. destruct (i <=? 0); [auto|]. split; [rewrite length_upd; exact L|].
  apply Forall_upd; [unfold wrap32, XLEN; lia|exact F].
Qed.

Lemma exec_regs i s s' : exec i s = Some s' ->
  regs s' = regs s \/ exists rd v, regs s' = rset (regs s) rd v.
Proof.
  destruct i; cbn [exec]; intros E;
    repeat match type of E with
    | (if ?c then _ else _) = Some _ => destruct c; [|try discriminate]
    | match ?l with [] => _ | _ :: _ => _ end = Some _ => destruct l; [discriminate|]
    end; try discriminate; injection E as <-; cbn [regs]; eauto.
Qed.

Lemma step_regs s s' : step s = Some s' -> regs s' = regs s \/ exists rd v, regs s' = rset (regs s) rd v.
Proof. unfold step. destruct (fetch s) as [i|]; [apply exec_regs|discriminate]. Qed.

Theorem step_x0 s s' : step s = Some s' -> x0_zero s -> x0_zero s'.
Proof.
  intros E H. unfold x0_zero in *. destruct (step_regs s s' E) as [->|(rd & v & ->)]; [exact H|].
  rewrite rget_rset_x0. exact H.
Qed.

Theorem step_regs_wf s s' : step s = Some s' -> regs_wf s -> regs_wf s'.
Proof.
  intros E H. unfold regs_wf in *. destruct (step_regs s s' E) as [->|(rd & v & ->)]; [exact H|].
  apply rset_wf. exact H.
Qed.

Lemma run_invariant (P : state -> Prop) : (forall s s', step s = Some s' -> P s -> P s') ->
  forall n s, P s -> P (run n s).
Proof.
  intros Hstep. induction n as [|n IH]; intros s H; cbn [run]; [exact H|].
  destruct (step s) as [s'|] eqn:E; [|exact H]. apply IH. apply (Hstep s s' E H).
Qed.

Theorem run_x0 n s : x0_zero s -> x0_zero (run n s).
Proof. apply run_invariant. exact step_x0. Qed.

Theorem run_regs_wf n s : regs_wf s -> regs_wf (run n s).
Proof. apply run_invariant. exact step_regs_wf. Qed.

Lemma init_x0 secs ins : x0_zero (init_state secs ins).
Proof. reflexivity. Qed.

Lemma init_regs_wf secs ins : regs_wf (init_state secs ins).
Proof.
  split; [reflexivity|]. cbn [init_state regs]. unfold zero_regs. apply Forall_forall.
  intros x Hx. apply repeat_spec in Hx. subst. unfold XLEN. lia.
Qed.

(* x0 is hard-wired: in every state reachable from a loaded program, whatever was executed *)
Theorem x0_always_zero secs ins n : rget (regs (run n (init_state secs ins))) 0 = 0.
Proof. apply (run_x0 n). apply init_x0. Qed.

(* a write to x0 is discarded, a write to another register is visible (mod 2^32) *)
Theorem write_x0_discarded rf v : rset rf 0 v = rf.
Proof. reflexivity. Qed.

(* ------------------------------------------------------------------ memory: little endian *)
Lemma mkey_inj a b : 0 <= a -> 0 <= b -> mkey a = mkey b -> a = b.
Proof. unfold mkey. intros Ha Hb E. apply Z2Pos.inj in E; lia. Qed.

Lemma byte_set_same m a b : mem_byte (set_byte m a b) a = b mod 256.
Proof. unfold mem_byte, set_byte. rewrite PositiveMap.gss. apply Z.mod_mod. lia. Qed.

Lemma byte_set_other m a a' b : 0 <= a -> 0 <= a' -> a <> a' -> mem_byte (set_byte m a b) a' = mem_byte m a'.
Proof.
  intros Ha Ha' Hne. unfold mem_byte, set_byte. rewrite PositiveMap.gso; [reflexivity|].
  intros E. apply Hne. symmetry. apply mkey_inj; auto.
Qed.

Lemma mem_byte_range m a : 0 <= mem_byte m a < 256.
Proof. unfold mem_byte. destruct (PositiveMap.find (mkey a) m); lia. Qed.

(* byte k of a stored word is at address a + k, least significant byte first *)
Theorem store4_bytes m a v : 0 <= a ->
  mem_byte (store4 m a v) a = v mod 256 /\
  mem_byte (store4 m a v) (a + 1) = (v / 256) mod 256 /\
  mem_byte (store4 m a v) (a + 2) = (v / 65536) mod 256 /\
  mem_byte (store4 m a v) (a + 3) = (v / 16777216) mod 256.
Proof.
  intros Ha. unfold store4. repeat split.
  - rewrite !byte_set_other by lia. apply byte_set_same.
  - rewrite !byte_set_other by lia. apply byte_set_same.
  - rewrite byte_set_other by lia. apply byte_set_same.
  - apply byte_set_same.
Qed.

Theorem load4_store4_same m a v : 0 <= a -> load4 (store4 m a v) a = wrap32 v.
Proof.
  intros Ha. unfold load4. destruct (store4_bytes m a v Ha) as (-> & -> & -> & ->).
  unfold wrap32, XLEN. lia.
Qed.

Theorem store4_frame m a v a' : 0 <= a -> 0 <= a' -> (a' < a \/ a + 3 < a') ->
  mem_byte (store4 m a v) a' = mem_byte m a'.
Proof. intros Ha Ha' H. unfold store4. rewrite !byte_set_other by lia. reflexivity. Qed.

Theorem load4_store4_disjoint m a v a' : 0 <= a -> 0 <= a' -> (a' + 3 < a \/ a + 3 < a') ->
  load4 (store4 m a v) a' = load4 m a'.
Proof. intros Ha Ha' H. unfold load4. rewrite !store4_frame by lia. reflexivity. Qed.

Theorem load4_range m a : 0 <= load4 m a < XLEN.
Proof.
  unfold load4, XLEN. pose proof (mem_byte_range m a). pose proof (mem_byte_range m (a + 1)).
  pose proof (mem_byte_range m (a + 2)). pose proof (mem_byte_range m (a + 3)). lia.
Qed.

(* ------------------------------------------------------------------ determinism *)
Inductive steps : state -> state -> Prop :=
| steps_refl s : steps s s
| steps_next s s' s'' : step s = Some s' -> steps s' s'' -> steps s s''.

Theorem step_deterministic s a b : step s = Some a -> step s = Some b -> a = b.
Proof. congruence. Qed.

(* whatever the number of steps, an execution that has stopped has ONE possible final state *)
Theorem final_state_unique s a b : steps s a -> halted a = true -> steps s b -> halted b = true -> a = b.
Proof.
  unfold halted. intros Sa. revert b. induction Sa as [s|s s' s'' E Sa IH]; intros b Ha Sb Hb.
  - destruct Sb as [|s s1 s2 E _]; [reflexivity|]. rewrite E in Ha. discriminate.
  - destruct Sb as [s|s s1 s2 E1 Sb].
    + rewrite E in Hb. discriminate.
    + rewrite E in E1. injection E1 as <-. apply IH; assumption.
Qed.

Lemma run_steps n s : steps s (run n s).
Proof.
  revert s. induction n as [|n IH]; intros s; cbn [run]; [constructor|].
  destruct (step s) as [s'|] eqn:E; [|constructor]. econstructor; [exact E|apply IH].
Qed.

Lemma run_add n k s : run (n + k) s = run k (run n s).
Proof.
  revert s. induction n as [|n IH]; intros s; cbn [run Nat.add]; [reflexivity|].
  destruct (step s) as [s'|] eqn:E; [apply IH|].
  destruct k; cbn [run]; [reflexivity|]. rewrite E. reflexivity.
Qed.

(* `run` computes that final state as soon as the fuel suffices, and more fuel changes nothing *)
Theorem run_final s n a : halted (run n s) = true -> steps s a -> halted a = true -> a = run n s.
Proof. intros H Sa Ha. apply (final_state_unique s); auto. apply run_steps. Qed.

Theorem run_halted_stable s n k : halted (run n s) = true -> run (n + k) s = run n s.
Proof.
  intros H. rewrite run_add. unfold halted in H. destruct k; cbn [run]; [reflexivity|].
  destruct (step (run n s)); [discriminate|reflexivity].
Qed.

(* ------------------------------------------------------------------ proc2mngr output is append-only *)
Lemma exec_out i s s' : exec i s = Some s' ->
  proc2mngr_rev s' = proc2mngr_rev s \/ exists v, proc2mngr_rev s' = v :: proc2mngr_rev s.
Proof.
  destruct i; cbn [exec]; intros E;
    repeat match type of E with
    | (if ?c then _ else _) = Some _ => destruct c; [|try discriminate]
    | match ?l with [] => _ | _ :: _ => _ end = Some _ => destruct l; [discriminate|]
    end; try discriminate; injection E as <-; cbn [proc2mngr_rev]; eauto.
Qed.

Theorem step_outputs s s' : step s = Some s' -> outputs s' = outputs s \/ exists v, outputs s' = outputs s ++ [v].
Proof.
  unfold step, outputs. destruct (fetch s) as [i|]; [|discriminate]. intros E.
  destruct (exec_out i s s' E) as [->|(v & ->)]; [left; reflexivity|right; exists v; reflexivity].
Qed.

Theorem run_outputs_extend n s : exists l, outputs (run n s) = outputs s ++ l.
Proof.
  revert s. induction n as [|n IH]; intros s; cbn [run]; [exists []; symmetry; apply app_nil_r|].
  destruct (step s) as [s'|] eqn:E; [|exists []; symmetry; apply app_nil_r].
  destruct (IH s') as (l & Hl). destruct (step_outputs s s' E) as [Eo|(v & Eo)]; rewrite Hl, Eo.
  - exists l; reflexivity.
  - exists (v :: l). rewrite <- app_assoc. reflexivity.
Qed.

(* monotone: what has been sent to the manager after n steps is a prefix of what has been sent after n+k *)
Theorem outputs_prefix n k s : exists l, outputs (run (n + k) s) = outputs (run n s) ++ l.
Proof. rewrite run_add. apply run_outputs_extend. Qed.

(* the csrr side: the mngr2proc FIFO is only consumed from the head *)
Lemma exec_inputs i s s' : exec i s = Some s' ->
  mngr2proc s' = mngr2proc s \/ exists v, mngr2proc s = v :: mngr2proc s'.
Proof.
  destruct i; cbn [exec]; intros E;
    repeat match type of E with
    | (if ?c then _ else _) = Some _ => destruct c; [|try discriminate]
    | match ?l with [] => _ | _ :: _ => _ end = Some _ => destruct l eqn:?; [discriminate|]
    end; try discriminate; injection E as <-; cbn [mngr2proc]; eauto.
Qed.

(* ------------------------------------------------------------------ instruction semantics, spelled out
   (sanity lemmas: the model's step on a decoded instruction is the document's one-line semantics) *)
Theorem exec_add s rd rs1 rs2 : 0 < rd < 32 -> regs_wf s ->
  exists s', exec (ADD rd rs1 rs2) s = Some s' /\
    rget (regs s') rd = (rget (regs s) rs1 + rget (regs s) rs2) mod XLEN /\ pc s' = (pc s + 4) mod XLEN.
Proof.
  intros Hrd [L _]. eexists; split; [reflexivity|]. cbn [regs pc]. split; [|reflexivity].
  rewrite rget_rset_same by lia. reflexivity.
Qed.

Theorem exec_bne s rs1 rs2 imm :
  exists s', exec (BNE rs1 rs2 imm) s = Some s' /\ regs s' = regs s /\ mem s' = mem s /\
    pc s' = if rget (regs s) rs1 =? rget (regs s) rs2 then (pc s + 4) mod XLEN else (pc s + imm) mod XLEN.
Proof. eexists; split; [reflexivity|]. cbn [regs mem pc]. auto. Qed.

Theorem exec_sw_lw s rs2 rs1 imm : valid_word_addr (wrap32 (rget (regs s) rs1 + imm)) = true -> regs_wf s ->
  exists s', exec (SW rs2 rs1 imm) s = Some s' /\ regs s' = regs s /\
    load4 (mem s') (wrap32 (rget (regs s) rs1 + imm)) = wrap32 (rget (regs s) rs2).
Proof.
  intros Hv _. cbn [exec]. rewrite Hv. eexists; split; [reflexivity|]. cbn [regs mem]. split; [reflexivity|].
  apply load4_store4_same. unfold valid_word_addr in Hv. lia.
Qed.

(* ------------------------------------------------------------------ accelerator registers (NullXcel instance) *)
Lemma xcelreg_not_mngr c : is_xcelreg c = true -> (c =? CSR_MNGR2PROC) = false /\ (c =? CSR_PROC2MNGR) = false.
Proof. unfold is_xcelreg, XCEL_LO, XCEL_HI, CSR_MNGR2PROC, CSR_PROC2MNGR. lia. Qed.

(* a write to any accelerator register followed (after any instructions that are not accelerator writes: see
   exec_xcel_frame) by a read of any accelerator register returns the written register value *)
Theorem xcel_write_then_read s c1 rs1 c2 rd :
  is_xcelreg c1 = true -> is_xcelreg c2 = true ->
  exists s1 s2, exec (CSRW c1 rs1) s = Some s1 /\ exec (CSRR rd c2) s1 = Some s2 /\
    regs s1 = regs s /\ mem s1 = mem s /\ outputs s1 = outputs s /\
    regs s2 = rset (regs s) rd (wrap32 (rget (regs s) rs1)) /\
    mem s2 = mem s /\ outputs s2 = outputs s /\ mngr2proc s2 = mngr2proc s /\ xcel s2 = wrap32 (rget (regs s) rs1).
Proof.
  intros H1 H2. destruct (xcelreg_not_mngr c1 H1) as [_ A]. destruct (xcelreg_not_mngr c2 H2) as [B _].
  cbn [exec]. rewrite A, H1. eexists. cbn [exec xcel regs mem mngr2proc proc2mngr_rev pc]. rewrite B, H2.
  eexists. unfold xcel_read, xcel_write, outputs. cbn [regs mem mngr2proc proc2mngr_rev xcel].
  repeat split; reflexivity.
Qed.

(* only an accelerator write changes the accelerator *)
Theorem exec_xcel_frame i s s' : exec i s = Some s' ->
  xcel s' = xcel s \/ exists c rs1, i = CSRW c rs1 /\ is_xcelreg c = true /\ xcel s' = wrap32 (rget (regs s) rs1).
Proof.
  destruct i; cbn [exec]; intros E;
    repeat match type of E with
    | (if ?c then _ else _) = Some _ => destruct c eqn:?; [|try discriminate]
    | match ?l with [] => _ | _ :: _ => _ end = Some _ => destruct l; [discriminate|]
    end; try discriminate; injection E as <-; cbn [xcel]; eauto.
  right. do 2 eexists. split; [reflexivity|]. split; [assumption|reflexivity].
Qed.
