(* Lib/QueueGenProofs.v — T-gen tie of C17: the designs in Gen/QueueGen.v (the REAL NormalQueueRTL / PipeQueueRTL /
   BypassQueueRTL of /repo with a Bits2 entry type, translated block by block on every run: control, datapath, register
   file, bypass mux, `//= lambda` blocks, net blocks) compute in one simulated cycle (RTL/Design.v) what the register-level
   models of Lib/QueueRTL.v compute: crtl_step (head / tail / count / register file) for 2 and 3 entries, e1_step
   (full bit / entry) for the one-entry classes — the models the refinement theorems of Props/C17.v are about.

   Checked by exhaustive evaluation (vm_compute), then lifted with forallb_forall:
     all register contents with head, tail < n and count <= n, all words of the register file and messages over the
     full 2-bit alphabet (3-entry instances: words over {0, 3}, messages over all four values), reset, enq.en, deq.en;
     the other signals 0 before the cycle — and, by the determinism certificate of RTL/DesignProofs.v, for ANY content
     of the other signals (q*_det lemmas).
   Observed after sim_eval_combinational: enq.rdy, deq.rdy, count, deq.ret; after sim_tick: every register. *)
From PV Require Import Base.Prelude Bits.BitsSpec RTL.Syntax RTL.Eval Sched.Accept RTL.Footprint RTL.Design Lib.Fifo Lib.QueueRTL Gen.QueueGen.
(* -- *)
Open Scope Z_scope.

Record q_ports : Set := mkQP { q_reset : nat; q_enq_en : nat; q_enq_rdy : nat; q_enq_msg : nat;
                               q_deq_en : nat; q_deq_rdy : nat; q_deq_ret : nat; q_count : nat }.
Record qm_regs : Set := mkQM { r_head : nat; r_tail : nat; r_cnt : nat; r_words : list nat }.
Record q1_regs : Set := mkQ1 { r_full : nat; r_entry : nat }.

Definition zeros (D : rdesign) : senv := map (fun _ => 0) (rd_shapes D).
Fixpoint set_many (ids : list nat) (vs : list Z) (e : senv) : senv :=
  match ids, vs with
  | k :: ids', v :: vs' => set_many ids' vs' (set_nth k v e)
  | _, _ => e
  end.
Definition q_inputs (P : q_ports) (rst enq : bool) (msg : Z) (deq : bool) (e : senv) : senv :=
  set_nth (q_reset P) (b2z rst) (set_nth (q_enq_en P) (b2z enq) (set_nth (q_enq_msg P) msg (set_nth (q_deq_en P) (b2z deq) e))).

(* ---- 2 / 3 entries ---- *)
Definition qm_env (D : rdesign) (P : q_ports) (R : qm_regs) (hd tl ct : nat) (ws : list Z) rst enq msg deq : senv :=
  q_inputs P rst enq msg deq
    (set_nth (r_head R) (Z.of_nat hd) (set_nth (r_tail R) (Z.of_nat tl) (set_nth (r_cnt R) (Z.of_nat ct)
       (set_many (r_words R) ws (zeros D))))).

Definition qm_case (D : rdesign) (P : q_ports) (R : qm_regs) (k : qkind) (n : nat)
           (hd tl ct : nat) (ws : list Z) (rst enq : bool) (msg : Z) (deq : bool) : bool :=
  let s := mkC hd tl ct (fun a => nth a ws 0) in
  let i := mkIn rst enq msg deq in
  let r := crtl_step k n true s i in
  match sim_tick_obs D (qm_env D P R hd tl ct ws rst enq msg deq) with
  | Ok (e1, e3) =>
      (nth (q_enq_rdy P) e1 0 =? b2z (f_enq_rdy (snd r))) && (nth (q_deq_rdy P) e1 0 =? b2z (f_deq_rdy (snd r))) &&
      (nth (q_count P) e1 0 =? Z.of_nat (f_count (snd r))) && (nth (q_deq_ret P) e1 0 =? c_ret k s i) &&
      (nth (r_head R) e3 0 =? Z.of_nat (c_head (fst r))) && (nth (r_tail R) e3 0 =? Z.of_nat (c_tail (fst r))) &&
      (nth (r_cnt R) e3 0 =? Z.of_nat (c_count (fst r))) &&
      forallb (fun a => nth (nth a (r_words R) 0%nat) e3 0 =? c_regs (fst r) a) (seq 0 n)
  | Err _ => false
  end.

(* all lists of length n over the alphabet A *)
Fixpoint words (A : list Z) (n : nat) : list (list Z) :=
  match n with O => [[]] | S m => flat_map (fun w => map (cons w) (words A m)) A end.
Definition bools := [false; true].

Definition qm_all (D : rdesign) (P : q_ports) (R : qm_regs) (k : qkind) (n : nat) (A : list Z) : bool :=
  forallb (fun hd => forallb (fun tl => forallb (fun ct => forallb (fun ws =>
  forallb (fun rst => forallb (fun enq => forallb (fun msg => forallb (fun deq =>
    qm_case D P R k n hd tl ct ws rst enq msg deq) bools) [0; 1; 2; 3]) bools) bools)
  (words A n)) (seq 0 (S n))) (seq 0 n)) (seq 0 n).

Definition qm_spec (D : rdesign) (P : q_ports) (R : qm_regs) (k : qkind) (n : nat) (A : list Z) : Prop :=
  forall hd tl ct ws rst enq msg deq, (hd < n)%nat -> (tl < n)%nat -> (ct <= n)%nat -> In ws (words A n) -> 0 <= msg < 4 ->
  exists e1 e3,
    sim_tick_obs D (qm_env D P R hd tl ct ws rst enq msg deq) = Ok (e1, e3) /\
    let s := mkC hd tl ct (fun a => nth a ws 0) in
    let i := mkIn rst enq msg deq in
    let r := crtl_step k n true s i in
    nth (q_enq_rdy P) e1 0 = b2z (f_enq_rdy (snd r)) /\ nth (q_deq_rdy P) e1 0 = b2z (f_deq_rdy (snd r)) /\
    nth (q_count P) e1 0 = Z.of_nat (f_count (snd r)) /\ nth (q_deq_ret P) e1 0 = c_ret k s i /\
    nth (r_head R) e3 0 = Z.of_nat (c_head (fst r)) /\ nth (r_tail R) e3 0 = Z.of_nat (c_tail (fst r)) /\
    nth (r_cnt R) e3 0 = Z.of_nat (c_count (fst r)) /\
    forall a, (a < n)%nat -> nth (nth a (r_words R) 0%nat) e3 0 = c_regs (fst r) a.

Lemma bools_in (b : bool) : In b bools.
Proof. destruct b; cbn; auto. Qed.
Lemma msg_in z : 0 <= z < 4 -> In z [0; 1; 2; 3].
Proof. intros H. assert (z = 0 \/ z = 1 \/ z = 2 \/ z = 3) as [->|[->|[->| ->]]] by lia; cbn; auto. Qed.

Lemma qm_all_sound D P R k n A : qm_all D P R k n A = true -> qm_spec D P R k n A.
Proof.
  unfold qm_all. intros H hd tl ct ws rst enq msg deq Hh Ht Hc Hw Hm.
  rewrite forallb_forall in H. specialize (H hd ltac:(apply in_seq; lia)).
  rewrite forallb_forall in H. specialize (H tl ltac:(apply in_seq; lia)).
  rewrite forallb_forall in H. specialize (H ct ltac:(apply in_seq; lia)).
  rewrite forallb_forall in H. specialize (H ws Hw).
  rewrite forallb_forall in H. specialize (H rst (bools_in rst)).
  rewrite forallb_forall in H. specialize (H enq (bools_in enq)).
  rewrite forallb_forall in H. specialize (H msg (msg_in msg Hm)).
  rewrite forallb_forall in H. specialize (H deq (bools_in deq)).
  unfold qm_case in H. destruct (sim_tick_obs D _) as [[e1 e3]|]; [|discriminate].
  exists e1, e3. split; [reflexivity|]. cbv zeta.
  repeat (apply andb_prop in H; destruct H as [H ?]).
  rewrite forallb_forall in H0.
  repeat split; try lia. intros a Ha. specialize (H0 a ltac:(apply in_seq; lia)). lia.
Qed.

(* ---- one entry ---- *)
Definition q1_env (D : rdesign) (P : q_ports) (R : q1_regs) (full : bool) (entry : Z) rst enq msg deq : senv :=
  q_inputs P rst enq msg deq (set_nth (r_full R) (b2z full) (set_nth (r_entry R) entry (zeros D))).

Definition q1_case (D : rdesign) (P : q_ports) (R : q1_regs) (k : qkind)
           (full : bool) (entry : Z) (rst enq : bool) (msg : Z) (deq : bool) : bool :=
  let r := e1_step k (mkO full entry) (mkIn rst enq msg deq) in
  match sim_tick_obs D (q1_env D P R full entry rst enq msg deq) with
  | Ok (e1, e3) =>
      (nth (q_enq_rdy P) e1 0 =? b2z (f_enq_rdy (snd r))) && (nth (q_deq_rdy P) e1 0 =? b2z (f_deq_rdy (snd r))) &&
      (nth (q_count P) e1 0 =? Z.of_nat (f_count (snd r))) &&
      (match f_msg (snd r) with Some m => nth (q_deq_ret P) e1 0 =? m | None => true end) &&
      (nth (r_full R) e3 0 =? b2z (o_full (fst r))) && (nth (r_entry R) e3 0 =? o_entry (fst r))
  | Err _ => false
  end.

Definition q1_all (D : rdesign) (P : q_ports) (R : q1_regs) (k : qkind) : bool :=
  forallb (fun full => forallb (fun entry => forallb (fun rst => forallb (fun enq => forallb (fun msg => forallb (fun deq =>
    q1_case D P R k full entry rst enq msg deq) bools) [0; 1; 2; 3]) bools) bools) [0; 1; 2; 3]) bools.

Definition q1_spec (D : rdesign) (P : q_ports) (R : q1_regs) (k : qkind) : Prop :=
  forall full entry rst enq msg deq, 0 <= entry < 4 -> 0 <= msg < 4 ->
  exists e1 e3,
    sim_tick_obs D (q1_env D P R full entry rst enq msg deq) = Ok (e1, e3) /\
    let r := e1_step k (mkO full entry) (mkIn rst enq msg deq) in
    nth (q_enq_rdy P) e1 0 = b2z (f_enq_rdy (snd r)) /\ nth (q_deq_rdy P) e1 0 = b2z (f_deq_rdy (snd r)) /\
    nth (q_count P) e1 0 = Z.of_nat (f_count (snd r)) /\
    (forall m, f_msg (snd r) = Some m -> nth (q_deq_ret P) e1 0 = m) /\
    nth (r_full R) e3 0 = b2z (o_full (fst r)) /\ nth (r_entry R) e3 0 = o_entry (fst r).

Lemma q1_all_sound D P R k : q1_all D P R k = true -> q1_spec D P R k.
Proof.
  unfold q1_all. intros H full entry rst enq msg deq He Hm.
  rewrite forallb_forall in H. specialize (H full (bools_in full)).
  rewrite forallb_forall in H. specialize (H entry (msg_in entry He)).
  rewrite forallb_forall in H. specialize (H rst (bools_in rst)).
  rewrite forallb_forall in H. specialize (H enq (bools_in enq)).
  rewrite forallb_forall in H. specialize (H msg (msg_in msg Hm)).
  rewrite forallb_forall in H. specialize (H deq (bools_in deq)).
  unfold q1_case in H. destruct (sim_tick_obs D _) as [[e1 e3]|]; [|discriminate].
  exists e1, e3. split; [reflexivity|]. cbv zeta.
  repeat (apply andb_prop in H; destruct H as [H ?]).
  repeat split; try lia. intros m Em. rewrite Em in *. lia.
Qed.

(* ---- the instances ---- *)
Definition QP (reset enq_en enq_rdy enq_msg deq_en deq_rdy deq_ret count : nat) := mkQP reset enq_en enq_rdy enq_msg deq_en deq_rdy deq_ret count.
Definition P_nq1 := QP nq1_reset nq1_enq_en nq1_enq_rdy nq1_enq_msg nq1_deq_en nq1_deq_rdy nq1_deq_ret nq1_count.
Definition P_pq1 := QP pq1_reset pq1_enq_en pq1_enq_rdy pq1_enq_msg pq1_deq_en pq1_deq_rdy pq1_deq_ret pq1_count.
Definition P_bq1 := QP bq1_reset bq1_enq_en bq1_enq_rdy bq1_enq_msg bq1_deq_en bq1_deq_rdy bq1_deq_ret bq1_count.
Definition P_nq2 := QP nq2_reset nq2_enq_en nq2_enq_rdy nq2_enq_msg nq2_deq_en nq2_deq_rdy nq2_deq_ret nq2_count.
Definition P_pq2 := QP pq2_reset pq2_enq_en pq2_enq_rdy pq2_enq_msg pq2_deq_en pq2_deq_rdy pq2_deq_ret pq2_count.
Definition P_bq2 := QP bq2_reset bq2_enq_en bq2_enq_rdy bq2_enq_msg bq2_deq_en bq2_deq_rdy bq2_deq_ret bq2_count.
Definition P_nq3 := QP nq3_reset nq3_enq_en nq3_enq_rdy nq3_enq_msg nq3_deq_en nq3_deq_rdy nq3_deq_ret nq3_count.
Definition P_pq3 := QP pq3_reset pq3_enq_en pq3_enq_rdy pq3_enq_msg pq3_deq_en pq3_deq_rdy pq3_deq_ret pq3_count.
Definition P_bq3 := QP bq3_reset bq3_enq_en bq3_enq_rdy bq3_enq_msg bq3_deq_en bq3_deq_rdy bq3_deq_ret bq3_count.
Definition R_nq1 := mkQ1 nq1_st_full nq1_st_entry.
Definition R_pq1 := mkQ1 pq1_st_full pq1_st_entry.
Definition R_bq1 := mkQ1 bq1_st_full bq1_st_entry.
Definition R_nq2 := mkQM nq2_st_head nq2_st_tail nq2_st_count nq2_st_words.
Definition R_pq2 := mkQM pq2_st_head pq2_st_tail pq2_st_count pq2_st_words.
Definition R_bq2 := mkQM bq2_st_head bq2_st_tail bq2_st_count bq2_st_words.
Definition R_nq3 := mkQM nq3_st_head nq3_st_tail nq3_st_count nq3_st_words.
Definition R_pq3 := mkQM pq3_st_head pq3_st_tail pq3_st_count pq3_st_words.
Definition R_bq3 := mkQM bq3_st_head bq3_st_tail bq3_st_count bq3_st_words.

(* legal designs; the emitted combinational order is accepted by sched_ok on the proved footprints *)
Lemma gen_queues_ok : forallb rd_ok [nq1; nq2; nq3; pq1; pq2; pq3; bq1; bq2; bq3] = true.
Proof. vm_cast_no_check (eq_refl true). Qed.

Theorem nq_gen_eq_model_entries1 : q1_spec nq1 P_nq1 R_nq1 Normal.
Proof. apply q1_all_sound. vm_cast_no_check (eq_refl true). Qed.
Theorem pq_gen_eq_model_entries1 : q1_spec pq1 P_pq1 R_pq1 Pipe.
Proof. apply q1_all_sound. vm_cast_no_check (eq_refl true). Qed.
Theorem bq_gen_eq_model_entries1 : q1_spec bq1 P_bq1 R_bq1 Bypass.
Proof. apply q1_all_sound. vm_cast_no_check (eq_refl true). Qed.

(* (the 2- and 3-entry instances are proved in Lib/QueueGenProofs_2.v and Lib/QueueGenProofs_3.v, built in parallel) *)

(* ---- determinism certificates: what is observed is a function of the inputs and registers only ---- *)
From PV Require Import RTL.FootprintSound RTL.DesignProofs.
Definition sig_whole (D : rdesign) (k : nat) : ivl := (k, 0, swidth (nth k (rd_shapes D) (ShBits 0))).
Definition obs_det_ok (D : rdesign) (ins regs outs : list nat) : bool :=
  wf_shapes (rd_shapes D) &&
  match det_tick D (map (sig_whole D) (ins ++ regs)) with
  | Some (Q1, Q2) => covers Q1 (map (sig_whole D) outs) && covers Q2 (map (sig_whole D) regs)
  | None => false
  end.

(* two environments that carry the same inputs and registers — whatever else they hold — raise the same exception or
   show the same outputs after sim_eval_combinational and hold the same registers after sim_tick *)
Theorem obs_det_sound D ins regs outs : obs_det_ok D ins regs outs = true ->
  forall e1 e2, eagree (mem_fp (map (sig_whole D) (ins ++ regs))) e1 e2 ->
  match sim_tick_obs D e1, sim_tick_obs D e2 with
  | Ok (a1, a3), Ok (c1, c3) => eagree (mem_fp (map (sig_whole D) outs)) a1 c1 /\ eagree (mem_fp (map (sig_whole D) regs)) a3 c3
  | Err x, Err y => x = y
  | _, _ => False
  end.
Proof.
  unfold obs_det_ok. intros H e1 e2 A. apply andb_prop in H. destruct H as [Ws H].
  destruct (det_tick D (map (sig_whole D) (ins ++ regs))) as [[Q1 Q2]|] eqn:Dt; [|discriminate].
  apply andb_prop in H. destruct H as [C1 C2].
  pose proof (sim_tick_obs_det D _ Q1 Q2 e1 e2 Ws Dt A) as O.
  destruct (sim_tick_obs D e1) as [[a1 a3]|x]; destruct (sim_tick_obs D e2) as [[c1 c3]|y]; try exact O.
  destruct O as [O1 O3]. split.
  - eapply eagree_weaken; [|exact O1]. apply covers_sound. exact C1.
  - eapply eagree_weaken; [|exact O3]. apply covers_sound. exact C2.
Qed.

Definition q_ins (P : q_ports) : list nat := [q_reset P; q_enq_en P; q_enq_msg P; q_deq_en P].
Definition q_outs (P : q_ports) : list nat := [q_enq_rdy P; q_deq_rdy P; q_count P; q_deq_ret P].
Definition qm_reglist (R : qm_regs) : list nat := r_head R :: r_tail R :: r_cnt R :: r_words R.
Definition q1_reglist (R : q1_regs) : list nat := [r_full R; r_entry R].

Lemma gen_queues_det :
  obs_det_ok nq1 (q_ins P_nq1) (q1_reglist R_nq1) (q_outs P_nq1) && obs_det_ok pq1 (q_ins P_pq1) (q1_reglist R_pq1) (q_outs P_pq1) &&
  obs_det_ok bq1 (q_ins P_bq1) (q1_reglist R_bq1) (q_outs P_bq1) &&
  obs_det_ok nq2 (q_ins P_nq2) (qm_reglist R_nq2) (q_outs P_nq2) && obs_det_ok pq2 (q_ins P_pq2) (qm_reglist R_pq2) (q_outs P_pq2) &&
  obs_det_ok bq2 (q_ins P_bq2) (qm_reglist R_bq2) (q_outs P_bq2) &&
  obs_det_ok nq3 (q_ins P_nq3) (qm_reglist R_nq3) (q_outs P_nq3) && obs_det_ok pq3 (q_ins P_pq3) (qm_reglist R_pq3) (q_outs P_pq3) &&
  obs_det_ok bq3 (q_ins P_bq3) (qm_reglist R_bq3) (q_outs P_bq3) = true.
Proof. vm_cast_no_check (eq_refl true). Qed.
