(* Lib/MemPipe.v — the timing side of the magic memories: per port
        request stream -> (stall) -> request delay pipe -> SERVICE on the one shared memory
                       -> response delay pipe -> (sink back-pressure) -> delivered responses
   Definitions only.

   Mirrors pymtl3/stdlib/delays/DelayPipeCL.py (DelayPipeDeqCL / DelayPipeSendCL: a deque whose slot 0 is
   the entry slot, slot -1 the exit slot, `rotate()` when the exit slot is empty), StallCL.py (a random
   decision whether a request is accepted this cycle), MagicMemoryCL.up_mem (ports visited in index order,
   a port is serviced when its request pipe has an exit entry and its response pipe has a free entry slot)
   and stream/magic_memory.py (InelasticDelayPipe, RandomStall).

   Every timing parameter — latency (= pipe lengths, per port), stall probability and seed (= which cycles
   accept), sink readiness, the order in which ports are visited — only decides WHICH of five atomic
   actions happens WHEN.  The model therefore takes an arbitrary list of actions as its oracle; one clock
   cycle of MagicMemoryCL is one particular action list (`cycle_actions`).  Theorems quantified over all
   action lists cover all port counts, latencies, stall probabilities, seeds and arbitration orders. *)
From PV Require Import Base.Prelude Lib.Mem.
Open Scope Z_scope.

(* ------------------------------------------------------------------ delay pipe (deque model) *)
Section Pipe.
  Context {A : Type}.
  Definition pipe := list (option A).            (* index 0 = entry slot, last = exit slot *)

  Definition pipe_empty (n : nat) : pipe := repeat None n.
  Definition head_free (l : pipe) : bool := match l with None :: _ => true | _ => false end.
  Definition pipe_enq (x : A) (l : pipe) : pipe := match l with None :: t => Some x :: t | _ => l end.
  Definition pipe_exit (l : pipe) : option A := last l None.
  (* deque.rotate(): the exit slot comes round to the entry slot; only done when it is empty *)
  Definition pipe_rotate (l : pipe) : pipe :=
    match l with
    | [] => []
    | _ => match pipe_exit l with None => None :: removelast l | Some _ => l end
    end.
  (* pipeline[-1] = None *)
  Definition pipe_clear_exit (l : pipe) : pipe :=
    match l with [] => [] | _ => removelast l ++ [None] end.

  Definition o2l (o : option A) : list A := match o with Some x => [x] | None => [] end.
  (* occupants, oldest first *)
  Definition inflight (l : pipe) : list A := rev (flat_map o2l l).
End Pipe.
Arguments pipe A : clear implicits.

(* ------------------------------------------------------------------ state *)
Record pstate := mkP {
  pending : list req;           (* not yet accepted from the source *)
  qpipe   : pipe req;           (* request delay pipe *)
  rpipe   : pipe resp;          (* response delay pipe *)
  outp    : list resp           (* delivered to the sink, oldest first *)
}.
Record state := mkS {
  ports : nat -> pstate;        (* any number of ports: ports beyond the configured ones stay idle *)
  smem  : mem;
  slog  : tlog                  (* ghost: (port, request) in the order of service *)
}.

Definition set_port (f : nat -> pstate) (p : nat) (v : pstate) : nat -> pstate :=
  fun q => if Nat.eqb q p then v else f q.

(* ------------------------------------------------------------------ atomic actions (the oracle alphabet) *)
Inductive action :=
| Accept   (p : nat)     (* source -> stall -> request pipe entry slot (StallCL.recv / req_q.enq) *)
| TickReq  (p : nat)     (* DelayPipeDeqCL.up_delay *)
| Service  (p : nat)     (* one iteration of the loop body of up_mem *)
| TickResp (p : nat)     (* DelayPipeSendCL.up_delay, rotate branch *)
| Deliver  (p : nat).    (* DelayPipeSendCL.up_delay, send branch (sink ready) *)

(* W p = data width in bytes of port p's message type (ports may differ) *)
Definition step (W : nat -> Z) (s : state) (a : action) : state :=
  match a with
  | Accept p =>
      let ps := ports s p in
      match pending ps with
      | r :: rest =>
          if head_free (qpipe ps)
          then mkS (set_port (ports s) p (mkP rest (pipe_enq r (qpipe ps)) (rpipe ps) (outp ps))) (smem s) (slog s)
          else s
      | [] => s
      end
  | TickReq p =>
      let ps := ports s p in
      mkS (set_port (ports s) p (mkP (pending ps) (pipe_rotate (qpipe ps)) (rpipe ps) (outp ps))) (smem s) (slog s)
  | Service p =>
      let ps := ports s p in
      match pipe_exit (qpipe ps) with
      | Some r =>
          if head_free (rpipe ps)
          then let '(x, m') := apply (W p) r (smem s) in
               mkS (set_port (ports s) p (mkP (pending ps) (pipe_clear_exit (qpipe ps)) (pipe_enq x (rpipe ps)) (outp ps)))
                   m' (slog s ++ [(p, r)])
          else s
      | None => s
      end
  | TickResp p =>
      let ps := ports s p in
      mkS (set_port (ports s) p (mkP (pending ps) (qpipe ps) (pipe_rotate (rpipe ps)) (outp ps))) (smem s) (slog s)
  | Deliver p =>
      let ps := ports s p in
      match pipe_exit (rpipe ps) with
      | Some x =>
          mkS (set_port (ports s) p (mkP (pending ps) (qpipe ps) (pipe_clear_exit (rpipe ps)) (outp ps ++ [x]))) (smem s) (slog s)
      | None => s
      end
  end.

Definition exec (W : nat -> Z) (s : state) (sched : list action) : state := fold_left (step W) sched s.

(* ------------------------------------------------------------------ configuration *)
(* reqs p = the request stream of port p; qlat p / rlat p = number of slots of its two pipes
   (DelayPipeDeqCL(d) has d+1 slots, DelayPipeSendCL(d) has d slots, the bypass/combinational d=0
   variants behave as one slot that is filled and emptied within the same cycle). *)
Definition init (reqs : nat -> list req) (qlat rlat : nat -> nat) (m0 : mem) : state :=
  mkS (fun p => mkP (reqs p) (pipe_empty (qlat p)) (pipe_empty (rlat p)) []) m0 [].

(* ------------------------------------------------------------------ one clock cycle of MagicMemoryCL *)
(* oracle of a cycle: acc p = the stall RNG lets port p accept (and the source offers),
   snk p = the sink of port p is ready. Order inside the cycle as scheduled by the constraints in
   DelayPipeCL.py: both up_delay blocks first, then up_mem (ports in index order), then the enq of new
   requests. *)
Record cyc := mkCyc { acc : nat -> bool; snk : nat -> bool }.
Definition port_pre (c : cyc) (p : nat) : list action :=
  [TickReq p] ++ (if snk c p then [Deliver p] else []) ++ [TickResp p].
Definition cycle_actions (nports : nat) (c : cyc) : list action :=
  flat_map (port_pre c) (seq 0 nports) ++
  map Service (seq 0 nports) ++
  flat_map (fun p => if acc c p then [Accept p] else []) (seq 0 nports).
Definition run_cycles (W : nat -> Z) (nports : nat) (s : state) (cs : list cyc) : state :=
  exec W s (flat_map (cycle_actions nports) cs).

(* observables *)
Definition delivered (s : state) (p : nat) : list resp := outp (ports s p).
Definition resp_inflight (s : state) (p : nat) : list resp := inflight (rpipe (ports s p)).
Definition req_inflight (s : state) (p : nat) : list req := inflight (qpipe (ports s p)).
Definition drained (s : state) (p : nat) : Prop :=
  pending (ports s p) = [] /\ req_inflight s p = [] /\ resp_inflight s p = [].
