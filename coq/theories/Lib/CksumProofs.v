(* Lib/CksumProofs.v — the FL function and the RTL StepUnit chain of the checksum unit compute the same
   Fletcher-mod-65536 checksum, for ALL word lists (in particular all 8-tuples of 16-bit words).
   General modular arithmetic; nothing is enumerated.  No axioms. *)
From PV Require Import Base.Prelude Bits.BitsSpec Bits.BitsLemmas Lib.Cksum.
Open Scope Z_scope.

Lemma M16_pow : M16 = 2 ^ 16. Proof. reflexivity. Qed.
Lemma M32_pow : M32 = 2 ^ 32. Proof. reflexivity. Qed.

Lemma land_ffff x : Z.land x 65535 = x mod M16.
Proof. change 65535 with (2 ^ 16 - 1). rewrite land_mask by lia. reflexivity. Qed.

Lemma mod32_mod16 x : (x mod M32) mod M16 = x mod M16.
Proof. unfold M32, M16. lia. Qed.

Lemma lor_shl_add hi n lo : 0 <= n -> 0 <= lo < 2 ^ n -> Z.lor (Z.shiftl hi n) lo = hi * 2 ^ n + lo.
Proof.
  intros Hn Hu. rewrite <- shiftl_mul by lia.
  assert (L : Z.land (Z.shiftl hi n) lo = 0).
  { apply Z.bits_inj'. intros i Hi. rewrite Z.land_spec, Z.bits_0, Z.shiftl_spec by lia.
    destruct (Z.ltb_spec i n).
    - rewrite Z.testbit_neg_r by lia. reflexivity.
    - rewrite (testbit_high lo n i) by lia. apply Bool.andb_false_r. }
  rewrite <- Z.lxor_lor by exact L. symmetry. apply Z.add_nocarry_lxor. exact L.
Qed.

(* ---------------- one iteration ---------------- *)
Lemma fl_step_spec st w : fl_step st w = spec_step st w.
Proof.
  destruct st as [s1 s2]. unfold fl_step, spec_step, add16. cbn [fst snd].
  rewrite !land_ffff. rewrite !Z.mod_mod by (unfold M16; lia). reflexivity.
Qed.

Lemma step_unit_spec st w : step_unit st w = spec_step st w.
Proof.
  destruct st as [s1 s2]. unfold step_unit, spec_step, add32. cbn [fst snd].
  rewrite !land_ffff, !mod32_mod16. rewrite (Z.add_comm w s1).
  rewrite (Z.add_comm ((s1 + w) mod M16) s2). reflexivity.
Qed.

Lemma spec_step_range st w : 0 <= fst (spec_step st w) < M16 /\ 0 <= snd (spec_step st w) < M16.
Proof. unfold spec_step, M16; cbn [fst snd]. lia. Qed.

Lemma fold_spec_range ws : forall st, 0 <= fst st < M16 /\ 0 <= snd st < M16 ->
  0 <= fst (fold_left spec_step ws st) < M16 /\ 0 <= snd (fold_left spec_step ws st) < M16.
Proof.
  induction ws as [|w ws IH]; intros st H; cbn [fold_left]; [exact H|].
  apply IH. apply spec_step_range.
Qed.

Lemma fold_fl_spec ws : forall st, fold_left fl_step ws st = fold_left spec_step ws st.
Proof. induction ws as [|w ws IH]; intros st; cbn [fold_left]; [reflexivity|]. rewrite fl_step_spec. apply IH. Qed.

Lemma fold_rtl_spec ws : forall st, fold_left step_unit ws st = fold_left spec_step ws st.
Proof. induction ws as [|w ws IH]; intros st; cbn [fold_left]; [reflexivity|]. rewrite step_unit_spec. apply IH. Qed.

(* ---------------- whole unit: any number of words, any word values ---------------- *)
Theorem cksum_fl_spec ws : cksum_fl ws = cksum_spec ws.
Proof.
  unfold cksum_fl, cksum_spec. rewrite fold_fl_spec.
  pose proof (fold_spec_range ws (0, 0)) as R. cbn [fst snd] in R.
  destruct (fold_left spec_step ws (0, 0)) as [s1 s2]. cbn [fst snd] in R.
  specialize (R ltac:(unfold M16; lia)).
  rewrite lor_shl_add by (change (2 ^ 16) with M16; lia). rewrite <- M16_pow. reflexivity.
Qed.

Theorem cksum_rtl_spec ws : cksum_rtl ws = cksum_spec ws.
Proof.
  unfold cksum_rtl, cksum_spec, shl32. rewrite fold_rtl_spec.
  pose proof (fold_spec_range ws (0, 0)) as R. cbn [fst snd] in R.
  destruct (fold_left spec_step ws (0, 0)) as [s1 s2]. cbn [fst snd] in R.
  specialize (R ltac:(unfold M16; lia)).
  rewrite (Z.mod_small (Z.shiftl s2 16) M32).
  2:{ rewrite shiftl_mul by lia. change (2 ^ 16) with M16. unfold M16, M32 in *; lia. }
  rewrite lor_shl_add by (change (2 ^ 16) with M16; lia). reflexivity.
Qed.

Theorem cksum_rtl_fl ws : cksum_rtl ws = cksum_fl ws.
Proof. rewrite cksum_rtl_spec, cksum_fl_spec. reflexivity. Qed.

Theorem cksum_spec_range ws : 0 <= cksum_spec ws < M32.
Proof.
  unfold cksum_spec. pose proof (fold_spec_range ws (0, 0)) as R. cbn [fst snd] in R.
  destruct (fold_left spec_step ws (0, 0)) as [s1 s2]. cbn [fst snd] in R.
  specialize (R ltac:(unfold M16; lia)). unfold M16, M32 in *. lia.
Qed.

(* ---------------- the two running sums in closed form (eight words) ---------------- *)
Theorem cksum_spec_closed8 w0 w1 w2 w3 w4 w5 w6 w7 :
  cksum_spec [w0; w1; w2; w3; w4; w5; w6; w7] = cksum_closed8 w0 w1 w2 w3 w4 w5 w6 w7.
Proof.
  unfold cksum_spec, cksum_closed8. cbn [fold_left spec_step fst snd].
  unfold M16. lia.
Qed.

Theorem cksum_all_8tuples w0 w1 w2 w3 w4 w5 w6 w7 :
  words16 [w0; w1; w2; w3; w4; w5; w6; w7] ->
  cksum_rtl [w0; w1; w2; w3; w4; w5; w6; w7] = cksum_fl [w0; w1; w2; w3; w4; w5; w6; w7] /\
  cksum_fl [w0; w1; w2; w3; w4; w5; w6; w7] = cksum_spec [w0; w1; w2; w3; w4; w5; w6; w7] /\
  cksum_spec [w0; w1; w2; w3; w4; w5; w6; w7] = cksum_closed8 w0 w1 w2 w3 w4 w5 w6 w7.
Proof. intros _. split; [apply cksum_rtl_fl|split; [apply cksum_fl_spec|apply cksum_spec_closed8]]. Qed.

(* ---------------- word order of the 128-bit message ---------------- *)
Lemma pack_fold_inv rest : forall n x, 0 <= n -> 0 <= x < 2 ^ n -> words16 rest ->
  fst (fold_left pack_step rest (n, x)) = n + 16 * Z.of_nat (length rest) /\
  (0 <= snd (fold_left pack_step rest (n, x)) < 2 ^ fst (fold_left pack_step rest (n, x)) /\
  (snd (fold_left pack_step rest (n, x)) mod 2 ^ n = x /\
  forall j, (j < length rest)%nat ->
    (Z.shiftr (snd (fold_left pack_step rest (n, x))) (n + 16 * Z.of_nat j)) mod M16 = nth j rest 0)).
Proof.
  induction rest as [|y rest IH]; intros n x Hn Hx Hw.
  - cbn [fold_left fst snd length]. split; [lia|]. split; [lia|]. split.
    + apply Z.mod_small; lia.
    + intros j Hj; cbn in Hj; lia.
  - cbn [fold_left pack_step]. inversion Hw as [|? ? Hy Hr]; subst. unfold word16 in Hy.
    assert (E : Z.lor (Z.shiftl y n) x = y * 2 ^ n + x) by (apply lor_shl_add; lia).
    rewrite E.
    assert (Hp : 0 < 2 ^ n) by (apply pow2_gt0; lia).
    assert (Hx' : 0 <= y * 2 ^ n + x < 2 ^ (n + 16)).
    { rewrite Z.pow_add_r by lia. change (2 ^ 16) with M16. unfold M16 in *. nia. }
    specialize (IH (n + 16) (y * 2 ^ n + x) ltac:(lia) Hx' Hr).
    destruct IH as (I1 & I2 & I3 & I4).
    set (r := fold_left pack_step rest (n + 16, y * 2 ^ n + x)) in *.
    assert (Hsplit : snd r = (snd r / 2 ^ (n + 16)) * 2 ^ (n + 16) + (y * 2 ^ n + x)).
    { assert (0 < 2 ^ (n + 16)) by (apply pow2_gt0; lia).
      rewrite <- I3. rewrite Z.mul_comm. apply Z.div_mod. lia. }
    split; [rewrite I1; cbn [length]; lia|]. split; [lia|]. split.
    + rewrite Hsplit. rewrite Z.pow_add_r by lia.
      replace (snd r / (2 ^ n * 2 ^ 16) * (2 ^ n * 2 ^ 16) + (y * 2 ^ n + x))
        with (x + (snd r / (2 ^ n * 2 ^ 16) * 2 ^ 16 + y) * 2 ^ n) by ring.
      rewrite Z.mod_add by lia. apply Z.mod_small; lia.
    + intros j Hj. destruct j as [|j].
      * cbn [nth]. rewrite Z.mul_0_r, Z.add_0_r. rewrite shiftr_div by lia.
        rewrite Hsplit. rewrite Z.pow_add_r by lia.
        replace (snd r / (2 ^ n * 2 ^ 16) * (2 ^ n * 2 ^ 16) + (y * 2 ^ n + x))
          with (x + (snd r / (2 ^ n * 2 ^ 16) * 2 ^ 16 + y) * 2 ^ n) by ring.
        rewrite Z.div_add by lia. rewrite (Z.div_small x) by lia. rewrite Z.add_0_l.
        change (2 ^ 16) with M16. rewrite Z.add_comm, Z.mod_add by (unfold M16; lia).
        apply Z.mod_small. exact Hy.
      * cbn [nth]. cbn [length] in Hj. specialize (I4 j ltac:(lia)).
        rewrite <- I4. f_equal. f_equal. lia.
Qed.

(* word i of the list is bits [16i, 16i+16) of words_to_b128(ws): any length >= 1, in particular 8 *)
Theorem cksum_words_order ws i : ws <> [] -> words16 ws -> (i < length ws)%nat ->
  word_of (snd (pack_words ws)) (Z.of_nat i) = nth i ws 0.
Proof.
  intros Hne Hw Hi. destruct ws as [|w rest]; [congruence|]. unfold pack_words, word_of.
  inversion Hw as [|? ? Hy Hr]; subst. unfold word16 in Hy.
  pose proof (pack_fold_inv rest 16 w ltac:(lia) ltac:(change (2 ^ 16) with M16; lia) Hr) as P.
  destruct P as (P1 & P2 & P3 & P4).
  destruct i as [|i].
  - cbn [nth]. change (16 * Z.of_nat 0) with 0. rewrite Z.shiftr_0_r. exact P3.
  - cbn [nth]. cbn [length] in Hi. rewrite <- (P4 i ltac:(lia)). f_equal. f_equal. lia.
Qed.

Theorem pack_words_width ws : ws <> [] -> words16 ws ->
  fst (pack_words ws) = 16 * Z.of_nat (length ws) /\ 0 <= snd (pack_words ws) < 2 ^ fst (pack_words ws).
Proof.
  intros Hne Hw. destruct ws as [|w rest]; [congruence|]. unfold pack_words.
  inversion Hw as [|? ? Hy Hr]; subst. unfold word16 in Hy.
  pose proof (pack_fold_inv rest 16 w ltac:(lia) ltac:(change (2 ^ 16) with M16; lia) Hr) as P.
  destruct P as (P1 & P2 & _). split; [rewrite P1; cbn [length]; lia|exact P2].
Qed.

Theorem unpack_pack8 w0 w1 w2 w3 w4 w5 w6 w7 :
  words16 [w0; w1; w2; w3; w4; w5; w6; w7] ->
  fst (pack_words [w0; w1; w2; w3; w4; w5; w6; w7]) = 128 /\
  unpack_words (snd (pack_words [w0; w1; w2; w3; w4; w5; w6; w7])) = [w0; w1; w2; w3; w4; w5; w6; w7].
Proof.
  intros Hw. set (ws := [w0; w1; w2; w3; w4; w5; w6; w7]) in *.
  assert (Hne : ws <> []) by discriminate.
  split; [apply (pack_words_width ws Hne Hw)|].
  unfold unpack_words. cbn [map].
  pose proof (fun i => cksum_words_order ws i Hne Hw) as O.
  pose proof (O 0%nat ltac:(cbn; lia)) as O0. change (Z.of_nat 0) with 0 in O0. change (nth 0 ws 0) with w0 in O0.
  pose proof (O 1%nat ltac:(cbn; lia)) as O1. change (Z.of_nat 1) with 1 in O1. change (nth 1 ws 0) with w1 in O1.
  pose proof (O 2%nat ltac:(cbn; lia)) as O2. change (Z.of_nat 2) with 2 in O2. change (nth 2 ws 0) with w2 in O2.
  pose proof (O 3%nat ltac:(cbn; lia)) as O3. change (Z.of_nat 3) with 3 in O3. change (nth 3 ws 0) with w3 in O3.
  pose proof (O 4%nat ltac:(cbn; lia)) as O4. change (Z.of_nat 4) with 4 in O4. change (nth 4 ws 0) with w4 in O4.
  pose proof (O 5%nat ltac:(cbn; lia)) as O5. change (Z.of_nat 5) with 5 in O5. change (nth 5 ws 0) with w5 in O5.
  pose proof (O 6%nat ltac:(cbn; lia)) as O6. change (Z.of_nat 6) with 6 in O6. change (nth 6 ws 0) with w6 in O6.
  pose proof (O 7%nat ltac:(cbn; lia)) as O7. change (Z.of_nat 7) with 7 in O7. change (nth 7 ws 0) with w7 in O7.
  rewrite O0, O1, O2, O3, O4, O5, O6, O7. reflexivity.
Qed.
