(* Lib/TinyRV0.v — the TinyRV0 instruction set architecture, written from the DOCUMENT
   examples/ex03_proc/tinyrv0-isa.md (sections "Architectural State", "Instruction and Immediate
   Encoding", "Instruction Details", "Privileged ISA"), NOT from ProcFL.py / ProcCL.py / ProcRTL.py.
   Definitions only (computable; evaluated with vm_compute by harness/c20.py); proofs are in TinyRV0Proofs.v.

   Accelerator registers (xcelregXX): the document makes them transactions with "an accelerator" whose semantics it
   does not fix; the model is instantiated with the NullXcel the ex03 harness attaches (see `xcel_read/xcel_write`).
   Where the document says "undefined" (unaligned lw/sw, addresses above 0x000fffff, writing mngr2proc,
   reading proc2mngr), for CSR numbers it does not list, and where it says "stall"
   (csrr mngr2proc on an empty FIFO), `step` returns None: the model does not choose a behaviour.
   A word that is not one of the ten instructions (e.g. the all-zero word after the program) also gives None;
   `run` stops there, which is how the differential harness detects the end of a program. *)
From PV Require Import Base.Prelude.
From Coq Require Import FSets.FMapPositive.
Open Scope Z_scope.

(* ------------------------------------------------------------------ data formats *)
Definition XLEN : Z := 4294967296.                 (* 2^32 : "Each register is 32 bits wide" *)
Definition wrap32 (x : Z) : Z := x mod XLEN.
Definition MEM_TOP : Z := 1048575.                  (* 0x000fffff, last byte of the 1MB address space *)
Definition RESET_VECTOR : Z := 512.                 (* 0x00000200 *)
Definition CSR_PROC2MNGR : Z := 1984.               (* 0x7C0 *)
Definition CSR_MNGR2PROC : Z := 4032.               (* 0xFC0 *)

(* inst[hi:lo] in the document's notation *)
Definition bits (w lo hi : Z) : Z := (w / 2 ^ lo) mod 2 ^ (hi - lo + 1).
(* signed value of an n-bit field ("all immediates are always sign extended") *)
Definition sext (n v : Z) : Z := if v <? 2 ^ (n - 1) then v else v - 2 ^ n.

(* ------------------------------------------------------------------ instructions *)
(* register specifiers are 0..31, csr numbers 0..4095, imm is the SIGNED immediate value
   (I/S-immediate: -2048..2047;  B-immediate: even, -4096..4094) *)
Inductive instr : Set :=
| CSRR (rd csr : Z)            (* csrr rd, csr      R[rd] = CSR[csr]                       I-type *)
| CSRW (csr rs1 : Z)           (* csrw csr, rs1     CSR[csr] = R[rs1]                      I-type *)
| ADD  (rd rs1 rs2 : Z)        (* R[rd] = R[rs1] + R[rs2]                                  R-type *)
| AND  (rd rs1 rs2 : Z)        (* R[rd] = R[rs1] & R[rs2]                                  R-type *)
| SLL  (rd rs1 rs2 : Z)        (* R[rd] = R[rs1] << R[rs2][4:0]                            R-type *)
| SRL  (rd rs1 rs2 : Z)        (* R[rd] = R[rs1] >> R[rs2][4:0]                            R-type *)
| ADDI (rd rs1 imm : Z)        (* R[rd] = R[rs1] + sext(imm)                               I-type *)
| LW   (rd rs1 imm : Z)        (* R[rd] = M_4B[ R[rs1] + sext(imm) ]                       I-type *)
| SW   (rs2 rs1 imm : Z)       (* M_4B[ R[rs1] + sext(imm) ] = R[rs2]                      S-type, S-imm *)
| BNE  (rs1 rs2 imm : Z).      (* PC = ( R[rs1] != R[rs2] ) ? PC + sext(imm) : PC + 4      S-type, B-imm *)

Definition is_reg (r : Z) : Prop := 0 <= r < 32.
Definition is_imm12 (i : Z) : Prop := -2048 <= i < 2048.
Definition is_immb (i : Z) : Prop := -4096 <= i < 4096 /\ i mod 2 = 0.
Definition is_csr (c : Z) : Prop := 0 <= c < 4096.

Definition wf_instr (i : instr) : Prop :=
  match i with
  | CSRR rd csr => is_reg rd /\ is_csr csr
  | CSRW csr rs1 => is_csr csr /\ is_reg rs1
  | ADD rd rs1 rs2 | AND rd rs1 rs2 | SLL rd rs1 rs2 | SRL rd rs1 rs2 => is_reg rd /\ is_reg rs1 /\ is_reg rs2
  | ADDI rd rs1 imm | LW rd rs1 imm => is_reg rd /\ is_reg rs1 /\ is_imm12 imm
  | SW rs2 rs1 imm => is_reg rs2 /\ is_reg rs1 /\ is_imm12 imm
  | BNE rs1 rs2 imm => is_reg rs1 /\ is_reg rs2 /\ is_immb imm
  end.

Definition regb (r : Z) : bool := (0 <=? r) && (r <? 32).
Definition wf_instrb (i : instr) : bool :=
  match i with
  | CSRR rd csr => regb rd && (0 <=? csr) && (csr <? 4096)
  | CSRW csr rs1 => (0 <=? csr) && (csr <? 4096) && regb rs1
  | ADD rd rs1 rs2 | AND rd rs1 rs2 | SLL rd rs1 rs2 | SRL rd rs1 rs2 => regb rd && regb rs1 && regb rs2
  | ADDI rd rs1 imm | LW rd rs1 imm => regb rd && regb rs1 && (-2048 <=? imm) && (imm <? 2048)
  | SW rs2 rs1 imm => regb rs2 && regb rs1 && (-2048 <=? imm) && (imm <? 2048)
  | BNE rs1 rs2 imm => regb rs1 && regb rs2 && (-4096 <=? imm) && (imm <? 4096) && (imm mod 2 =? 0)
  end.

(* ------------------------------------------------------------------ encoding (the document's tables)
     31        25 24     20 19     15 14  12 11      7 6           0
    | funct7     | rs2     | rs1     |funct3| rd      | opcode      |   R-type
    | imm                  | rs1     |funct3| rd      | opcode      |   I-type
    | imm        | rs2     | rs1     |funct3| imm     | opcode      |   S-type                         *)
Definition OPC_SYSTEM : Z := 115.  (* 1110011 *)
Definition OPC_OP     : Z := 51.   (* 0110011 *)
Definition OPC_OPIMM  : Z := 19.   (* 0010011 *)
Definition OPC_LOAD   : Z := 3.    (* 0000011 *)
Definition OPC_STORE  : Z := 35.   (* 0100011 *)
Definition OPC_BRANCH : Z := 99.   (* 1100011 *)

Definition enc_r (funct7 rs2 rs1 funct3 rd opcode : Z) : Z :=
  funct7 * 2 ^ 25 + rs2 * 2 ^ 20 + rs1 * 2 ^ 15 + funct3 * 2 ^ 12 + rd * 2 ^ 7 + opcode.
(* I-immediate: inst[31:20] = imm[11:0] *)
Definition enc_i (imm rs1 funct3 rd opcode : Z) : Z :=
  (imm mod 4096) * 2 ^ 20 + rs1 * 2 ^ 15 + funct3 * 2 ^ 12 + rd * 2 ^ 7 + opcode.
(* S-immediate: inst[31:25] = imm[11:5], inst[11:7] = imm[4:0] *)
Definition enc_s (imm rs2 rs1 funct3 opcode : Z) : Z :=
  let u := imm mod 4096 in
  bits u 5 11 * 2 ^ 25 + rs2 * 2 ^ 20 + rs1 * 2 ^ 15 + funct3 * 2 ^ 12 + bits u 0 4 * 2 ^ 7 + opcode.
(* B-immediate: inst[31] = imm[12], inst[30:25] = imm[10:5], inst[11:8] = imm[4:1], inst[7] = imm[11] *)
Definition enc_b (imm rs2 rs1 funct3 opcode : Z) : Z :=
  let u := imm mod 8192 in
  bits u 12 12 * 2 ^ 31 + bits u 5 10 * 2 ^ 25 + rs2 * 2 ^ 20 + rs1 * 2 ^ 15 + funct3 * 2 ^ 12
  + bits u 1 4 * 2 ^ 8 + bits u 11 11 * 2 ^ 7 + opcode.

Definition encode (i : instr) : Z :=
  match i with
  | CSRR rd csr     => enc_i csr 0 2 rd OPC_SYSTEM        (* csrrs rd, csr, x0 : funct3 010 *)
  | CSRW csr rs1    => enc_i csr rs1 1 0 OPC_SYSTEM       (* csrrw x0, csr, rs1 : funct3 001 *)
  | ADD rd rs1 rs2  => enc_r 0 rs2 rs1 0 rd OPC_OP        (* 0000000 .. 000 *)
  | AND rd rs1 rs2  => enc_r 0 rs2 rs1 7 rd OPC_OP        (* 0000000 .. 111 *)
  | SLL rd rs1 rs2  => enc_r 0 rs2 rs1 1 rd OPC_OP        (* 0000000 .. 001 *)
  | SRL rd rs1 rs2  => enc_r 0 rs2 rs1 5 rd OPC_OP        (* 0000000 .. 101 *)
  | ADDI rd rs1 imm => enc_i imm rs1 0 rd OPC_OPIMM       (* 000 *)
  | LW rd rs1 imm   => enc_i imm rs1 2 rd OPC_LOAD        (* 010 *)
  | SW rs2 rs1 imm  => enc_s imm rs2 rs1 2 OPC_STORE      (* 010 *)
  | BNE rs1 rs2 imm => enc_b imm rs2 rs1 1 OPC_BRANCH     (* 001 *)
  end.

(* immediates out of an instruction word (the document's immediate diagrams) *)
Definition imm_i (w : Z) : Z := sext 12 (bits w 20 31).
Definition imm_s (w : Z) : Z := sext 12 (bits w 25 31 * 32 + bits w 7 11).
Definition imm_b (w : Z) : Z :=
  sext 13 (bits w 31 31 * 4096 + bits w 7 7 * 2048 + bits w 25 30 * 32 + bits w 8 11 * 2).

Definition decode (w : Z) : option instr :=
  if negb ((0 <=? w) && (w <? XLEN)) then None else
  let opcode := bits w 0 6 in
  let rd := bits w 7 11 in
  let funct3 := bits w 12 14 in
  let rs1 := bits w 15 19 in
  let rs2 := bits w 20 24 in
  let funct7 := bits w 25 31 in
  if opcode =? OPC_SYSTEM then
    if funct3 =? 2 then (if rs1 =? 0 then Some (CSRR rd (bits w 20 31)) else None)
    else if funct3 =? 1 then (if rd =? 0 then Some (CSRW (bits w 20 31) rs1) else None)
    else None
  else if opcode =? OPC_OP then
    if funct7 =? 0 then
      if funct3 =? 0 then Some (ADD rd rs1 rs2)
      else if funct3 =? 7 then Some (AND rd rs1 rs2)
      else if funct3 =? 1 then Some (SLL rd rs1 rs2)
      else if funct3 =? 5 then Some (SRL rd rs1 rs2)
      else None
    else None
  else if opcode =? OPC_OPIMM then (if funct3 =? 0 then Some (ADDI rd rs1 (imm_i w)) else None)
  else if opcode =? OPC_LOAD then (if funct3 =? 2 then Some (LW rd rs1 (imm_i w)) else None)
  else if opcode =? OPC_STORE then (if funct3 =? 2 then Some (SW rs2 rs1 (imm_s w)) else None)
  else if opcode =? OPC_BRANCH then (if funct3 =? 1 then Some (BNE rs1 rs2 (imm_b w)) else None)
  else None.

(* `nop` of the assembler is addi x0, x0, 0 *)
Definition nop : instr := ADDI 0 0 0.

(* ------------------------------------------------------------------ architectural state *)
(* memory: byte address -> byte (absent = 0), little endian *)
Definition memory := PositiveMap.t Z.
Definition mkey (a : Z) : positive := Z.to_pos (a + 1).
Definition mem_byte (m : memory) (a : Z) : Z :=
  match PositiveMap.find (mkey a) m with Some b => b mod 256 | None => 0 end.
Definition set_byte (m : memory) (a b : Z) : memory := PositiveMap.add (mkey a) (b mod 256) m.

(* M_4B[a]: the byte at the lowest address is the least significant one *)
Definition load4 (m : memory) (a : Z) : Z :=
  mem_byte m a + mem_byte m (a + 1) * 256 + mem_byte m (a + 2) * 65536 + mem_byte m (a + 3) * 16777216.
Definition store4 (m : memory) (a v : Z) : memory :=
  set_byte (set_byte (set_byte (set_byte m a v) (a + 1) (v / 256)) (a + 2) (v / 65536)) (a + 3) (v / 16777216).

(* 32 registers; x0 is hard-wired to zero: writes to it are discarded *)
Definition regfile := list Z.
Definition rget (rf : regfile) (i : Z) : Z := nth (Z.to_nat i) rf 0.
Fixpoint upd (n : nat) (v : Z) (l : list Z) : list Z :=
  match l, n with
  | [], _ => []
  | _ :: t, O => v :: t
  | h :: t, S k => h :: upd k v t
  end.
Definition rset (rf : regfile) (i v : Z) : regfile :=
  if i <=? 0 then rf else upd (Z.to_nat i) (wrap32 v) rf.

(* ---- the accelerator.  The document: "xcelregXX (0x7e0-0x7ff): Used to communicate data to/from the processor
   and an accelerator.  The exact semantics of each register is specific to each accelerator."  So csrw/csrr on
   these numbers are a write/read transaction with the accelerator, in program order, and what a read returns is
   the accelerator's business.  The ex03 test harness composes every processor with NullXcelRTL
   (examples/ex03_proc/NullXcel.py); THIS PART is modelled from that component, not from the ISA document:
   one 32-bit register xr0 (0 before the first write); a write to ANY xcelreg stores the data into xr0,
   a read of ANY xcelreg returns xr0 and changes nothing. *)
Definition XCEL_LO : Z := 2016.   (* 0x7E0 *)
Definition XCEL_HI : Z := 2047.   (* 0x7FF *)
Definition is_xcelreg (csr : Z) : bool := (XCEL_LO <=? csr) && (csr <=? XCEL_HI).
Definition xcel_state := Z.
Definition xcel_reset : xcel_state := 0.
Definition xcel_write (x : xcel_state) (addr v : Z) : xcel_state := wrap32 v.
Definition xcel_read (x : xcel_state) (addr : Z) : Z * xcel_state := (x, x).

Record state : Type := mkState {
  pc : Z;
  regs : regfile;
  mem : memory;
  mngr2proc : list Z;        (* FIFO from the manager, head first *)
  proc2mngr_rev : list Z;    (* values enqueued for the manager, newest first *)
  xcel : xcel_state          (* state of the accelerator the processor is composed with *)
}.

Definition outputs (s : state) : list Z := rev (proc2mngr_rev s).

(* a 4-byte access is defined only if aligned and inside the 1MB space *)
Definition valid_word_addr (a : Z) : bool := (0 <=? a) && (a + 3 <=? MEM_TOP) && (a mod 4 =? 0).

Definition next_pc (s : state) : Z := wrap32 (pc s + 4).

Definition exec (i : instr) (s : state) : option state :=
  let R := rget (regs s) in
  match i with
  | CSRR rd csr =>
      if csr =? CSR_MNGR2PROC then
        match mngr2proc s with
        | [] => None                                              (* "will stall if the FIFO has no valid data" *)
        | v :: q => Some (mkState (next_pc s) (rset (regs s) rd v) (mem s) q (proc2mngr_rev s) (xcel s))
        end
      else if is_xcelreg csr then                                 (* read transaction with the accelerator, register csr[4:0] *)
        let '(v, x') := xcel_read (xcel s) (csr mod 32) in
        Some (mkState (next_pc s) (rset (regs s) rd v) (mem s) (mngr2proc s) (proc2mngr_rev s) x')
      else None                                                   (* proc2mngr: "reading the register is undefined"; others: not in the ISA *)
  | CSRW csr rs1 =>
      if csr =? CSR_PROC2MNGR then
        Some (mkState (next_pc s) (regs s) (mem s) (mngr2proc s) (R rs1 :: proc2mngr_rev s) (xcel s))
      else if is_xcelreg csr then                                 (* write transaction with the accelerator *)
        Some (mkState (next_pc s) (regs s) (mem s) (mngr2proc s) (proc2mngr_rev s) (xcel_write (xcel s) (csr mod 32) (R rs1)))
      else None                                                   (* mngr2proc: "writing the register is undefined"; others: not in the ISA *)
  | ADD rd rs1 rs2 =>
      Some (mkState (next_pc s) (rset (regs s) rd (R rs1 + R rs2)) (mem s) (mngr2proc s) (proc2mngr_rev s) (xcel s))
  | AND rd rs1 rs2 =>
      Some (mkState (next_pc s) (rset (regs s) rd (Z.land (R rs1) (R rs2))) (mem s) (mngr2proc s) (proc2mngr_rev s) (xcel s))
  | SLL rd rs1 rs2 =>
      Some (mkState (next_pc s) (rset (regs s) rd (R rs1 * 2 ^ (R rs2 mod 32))) (mem s) (mngr2proc s) (proc2mngr_rev s) (xcel s))
  | SRL rd rs1 rs2 =>
      Some (mkState (next_pc s) (rset (regs s) rd (R rs1 / 2 ^ (R rs2 mod 32))) (mem s) (mngr2proc s) (proc2mngr_rev s) (xcel s))
  | ADDI rd rs1 imm =>
      Some (mkState (next_pc s) (rset (regs s) rd (R rs1 + imm)) (mem s) (mngr2proc s) (proc2mngr_rev s) (xcel s))
  | LW rd rs1 imm =>
      let a := wrap32 (R rs1 + imm) in
      if valid_word_addr a then
        Some (mkState (next_pc s) (rset (regs s) rd (load4 (mem s) a)) (mem s) (mngr2proc s) (proc2mngr_rev s) (xcel s))
      else None
  | SW rs2 rs1 imm =>
      let a := wrap32 (R rs1 + imm) in
      if valid_word_addr a then
        Some (mkState (next_pc s) (regs s) (store4 (mem s) a (R rs2)) (mngr2proc s) (proc2mngr_rev s) (xcel s))
      else None
  | BNE rs1 rs2 imm =>
      Some (mkState (if R rs1 =? R rs2 then next_pc s else wrap32 (pc s + imm))
                    (regs s) (mem s) (mngr2proc s) (proc2mngr_rev s) (xcel s))
  end.

Definition fetch (s : state) : option instr :=
  if valid_word_addr (pc s) then decode (load4 (mem s) (pc s)) else None.

Definition step (s : state) : option state :=
  match fetch s with
  | None => None
  | Some i => exec i s
  end.

Fixpoint run (fuel : nat) (s : state) : state :=
  match fuel with
  | O => s
  | S n => match step s with None => s | Some s' => run n s' end
  end.

Definition halted (s : state) : bool := match step s with None => true | Some _ => false end.

(* ------------------------------------------------------------------ helpers for the differential harness *)
Fixpoint store_words (m : memory) (a : Z) (ws : list Z) : memory :=
  match ws with
  | [] => m
  | w :: r => store_words (store4 m a w) (a + 4) r
  end.

Definition zero_regs : regfile := repeat 0 32.

(* sections: (base address, words) *)
Definition init_state (sections : list (Z * list Z)) (inputs : list Z) : state :=
  mkState RESET_VECTOR zero_regs
          (fold_left (fun m sec => store_words m (fst sec) (snd sec)) sections (PositiveMap.empty Z))
          inputs [] xcel_reset.

Fixpoint load_words (m : memory) (a : Z) (n : nat) : list Z :=
  match n with O => [] | S k => load4 m a :: load_words m (a + 4) k end.

Fixpoint list_eqb (a b : list Z) : bool :=
  match a, b with
  | [], [] => true
  | x :: a', y :: b' => (x =? y) && list_eqb a' b'
  | _, _ => false
  end.

(* every byte the model's memory holds lies inside one of the windows [lo, hi) *)
Definition mem_within (m : memory) (windows : list (Z * Z)) : bool :=
  forallb (fun kv => let a := Z.pos (fst kv) - 1 in
                     (snd kv mod 256 =? 0) || existsb (fun w => (fst w <=? a) && (a <? snd w)) windows)
          (PositiveMap.elements m).
