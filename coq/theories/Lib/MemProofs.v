(* Lib/MemProofs.v — proofs about Lib/Mem.v (byte memory, AMOs, sequential spec, history acceptor)
   and Lib/MemPipe.v (delay pipes, per-port pipelines under an arbitrary oracle). No axioms. *)
From PV Require Import Base.Prelude Bits.BitsLemmas Lib.Mem Lib.MemPipe.
Open Scope Z_scope.

(* ================================================================== A. bytes *)
Definition wf (m : mem) : Prop := forall a, 0 <= m a < 256.

Lemma wf_mem0 : wf mem0.
Proof. intro a; unfold mem0; lia. Qed.

Lemma upd_same m a v : upd m a v a = v.
Proof. unfold upd. rewrite Z.eqb_refl. reflexivity. Qed.
Lemma upd_other m a v x : x <> a -> upd m a v x = m x.
Proof. intros H. unfold upd. destruct (Z.eqb_spec x a); [contradiction|reflexivity]. Qed.
Lemma upd_wf m a v : wf m -> 0 <= v < 256 -> wf (upd m a v).
Proof. intros H Hv x. unfold upd. destruct (x =? a); auto. Qed.

Lemma mem_of_list_wf l m : wf m -> Forall (fun ab => 0 <= snd ab < 256) l -> wf (mem_of_list l m).
Proof.
  revert m; induction l as [|[a b] t IH]; intros m Hm Hl; cbn; [assumption|].
  inversion Hl; subst. apply IH; [apply upd_wf; assumption|assumption].
Qed.

Lemma pow256 z : 0 <= z -> 256 ^ z = 2 ^ (8 * z).
Proof. intros. rewrite Z.pow_mul_r by lia. reflexivity. Qed.
Lemma pow256_pos z : 0 <= z -> 0 < 256 ^ z.
Proof. intros. apply Z.pow_pos_nonneg; lia. Qed.
Lemma pow256_succ z : 0 <= z -> 256 ^ (z + 1) = 256 * 256 ^ z.
Proof. intros. rewrite Z.pow_add_r by lia. lia. Qed.

Lemma byte_k_0 v : byte_k v 0 = v mod 256.
Proof. unfold byte_k. rewrite Z.pow_0_r, Z.div_1_r. reflexivity. Qed.
Lemma byte_k_succ v k : 0 <= k -> byte_k v (k + 1) = byte_k (v / 256) k.
Proof.
  intros. unfold byte_k. rewrite pow256_succ by assumption.
  rewrite Z.div_div by (try apply pow256_pos; lia). reflexivity.
Qed.
Lemma byte_k_range v k : 0 <= byte_k v k < 256.
Proof. unfold byte_k. apply Z.mod_pos_bound. lia. Qed.

(* every byte of memory after a write: the k-th byte of the data inside the range, untouched outside *)
Lemma write_n_get n : forall m a d x,
  write_n m a n d x = if (a <=? x) && (x <? a + Z.of_nat n) then byte_k d (x - a) else m x.
Proof.
  induction n as [|k IH]; intros m a d x.
  - cbn [write_n]. destruct (a <=? x) eqn:E1, (x <? a + Z.of_nat 0) eqn:E2; cbn; try reflexivity. lia.
  - cbn [write_n]. rewrite IH.
    destruct (Z.eq_dec x a) as [->|Hne].
    + replace ((a + 1 <=? a) && (a <? a + 1 + Z.of_nat k)) with false by lia.
      replace ((a <=? a) && (a <? a + Z.of_nat (S k))) with true by lia.
      rewrite upd_same, Z.sub_diag, byte_k_0. reflexivity.
    + rewrite upd_other by assumption.
      destruct ((a + 1 <=? x) && (x <? a + 1 + Z.of_nat k)) eqn:E.
      * replace ((a <=? x) && (x <? a + Z.of_nat (S k))) with true by lia.
        replace (x - a) with ((x - (a + 1)) + 1) by lia.
        rewrite byte_k_succ by lia. reflexivity.
      * replace ((a <=? x) && (x <? a + Z.of_nat (S k))) with false by lia. reflexivity.
Qed.

Theorem write_frame m a n d x : x < a \/ a + Z.of_nat n <= x -> write_n m a n d x = m x.
Proof. intros H. rewrite write_n_get. replace ((a <=? x) && (x <? a + Z.of_nat n)) with false by lia. reflexivity. Qed.

Lemma write_n_inside m a n d x : a <= x < a + Z.of_nat n -> write_n m a n d x = byte_k d (x - a).
Proof. intros H. rewrite write_n_get. replace ((a <=? x) && (x <? a + Z.of_nat n)) with true by lia. reflexivity. Qed.

Lemma write_n_wf m a n d : wf m -> wf (write_n m a n d).
Proof.
  intros H x. rewrite write_n_get. destruct ((a <=? x) && (x <? a + Z.of_nat n)); [apply byte_k_range|apply H].
Qed.

Lemma read_n_range n : forall m a, wf m -> 0 <= read_n m a n < 256 ^ Z.of_nat n.
Proof.
  induction n as [|k IH]; intros m a H.
  - cbn. lia.
  - cbn [read_n]. replace (Z.of_nat (S k)) with (Z.of_nat k + 1) by lia.
    rewrite pow256_succ by lia. specialize (IH m (a + 1) H). specialize (H a). nia.
Qed.

Lemma read_n_ext n : forall m1 m2 a,
  (forall x, a <= x < a + Z.of_nat n -> m1 x = m2 x) -> read_n m1 a n = read_n m2 a n.
Proof.
  induction n as [|k IH]; intros m1 m2 a H; [reflexivity|].
  cbn [read_n]. rewrite (H a) by lia. rewrite (IH m1 m2 (a + 1)); [reflexivity|].
  intros x Hx. apply H. lia.
Qed.

(* little endian: byte k of the value read is the memory byte at a+k *)
Lemma read_n_byte n : forall m a k, wf m -> 0 <= k < Z.of_nat n -> byte_k (read_n m a n) k = m (a + k).
Proof.
  induction n as [|j IH]; intros m a k H Hk; [lia|].
  cbn [read_n]. destruct (Z.eq_dec k 0) as [->|Hk0].
  - rewrite byte_k_0, Z.add_0_r. specialize (H a).
    symmetry. apply Z.mod_unique_pos with (q := read_n m (a + 1) j); lia.
  - replace k with ((k - 1) + 1) at 1 by lia. rewrite byte_k_succ by lia.
    replace ((m a + 256 * read_n m (a + 1) j) / 256) with (read_n m (a + 1) j).
    + rewrite IH by (try assumption; lia). f_equal. lia.
    + specialize (H a). apply Z.div_unique_pos with (r := m a); lia.
Qed.

(* read after write, same location: the data (cut to the access width) *)
Theorem read_write_same n : forall m a d, read_n (write_n m a n d) a n = d mod 256 ^ Z.of_nat n.
Proof.
  induction n as [|k IH]; intros m a d.
  - cbn. rewrite Z.mod_1_r. reflexivity.
  - cbn [read_n write_n].
    rewrite write_frame by lia. rewrite upd_same. rewrite IH.
    replace (Z.of_nat (S k)) with (Z.of_nat k + 1) by lia. rewrite pow256_succ by lia.
    rewrite Z.rem_mul_r by (try apply pow256_pos; lia). reflexivity.
Qed.

(* read after write, disjoint location: unchanged *)
Theorem read_write_other m a n b k d :
  a + Z.of_nat n <= b \/ b + Z.of_nat k <= a -> read_n (write_n m b k d) a n = read_n m a n.
Proof. intros H. apply read_n_ext. intros x Hx. apply write_frame. lia. Qed.

(* byte-wise: after a write, a (possibly overlapping, differently sized) read returns for each of its
   bytes the written byte if the write covered it and the old byte otherwise *)
Theorem read_after_write_bytewise m a n b k d j :
  wf m -> 0 <= j < Z.of_nat n ->
  byte_k (read_n (write_n m b k d) a n) j =
    if (b <=? a + j) && (a + j <? b + Z.of_nat k) then byte_k d (a + j - b) else m (a + j).
Proof.
  intros H Hj. rewrite read_n_byte by (try apply write_n_wf; assumption). apply write_n_get.
Qed.

(* ================================================================== A'. AMOs *)
Lemma sint_range w u : 0 < w -> 0 <= u < 2 ^ w -> - 2 ^ (w - 1) <= sint w u < 2 ^ (w - 1).
Proof.
  intros Hw Hu. unfold sint.
  assert (E : 2 ^ w = 2 * 2 ^ (w - 1)) by (rewrite <- Z.pow_succ_r by lia; f_equal; lia).
  destruct (u <? 2 ^ (w - 1)) eqn:C; lia.
Qed.
Lemma sint_mod w u : 0 < w -> 0 <= u < 2 ^ w -> sint w u mod 2 ^ w = u.
Proof.
  intros Hw Hu. unfold sint. destruct (u <? 2 ^ (w - 1)).
  - apply Z.mod_small; assumption.
  - replace (u - 2 ^ w) with (u + (-1) * 2 ^ w) by lia. rewrite Z.mod_add by lia. apply Z.mod_small; assumption.
Qed.
Lemma sint_inj w u v : 0 < w -> 0 <= u < 2 ^ w -> 0 <= v < 2 ^ w -> sint w u = sint w v -> u = v.
Proof. intros Hw Hu Hv E. rewrite <- (sint_mod w u), <- (sint_mod w v) by assumption. rewrite E. reflexivity. Qed.

Lemma amo_fun_range op w m a : 0 <= w -> 0 <= m < 2 ^ w -> 0 <= a < 2 ^ w -> 0 <= amo_fun op w m a < 2 ^ w.
Proof.
  intros Hw Hm Ha. destruct op; cbn [amo_fun].
  - apply Z.mod_pos_bound. lia.
  - apply land_range; assumption.
  - apply lor_range; assumption.
  - assumption.
  - destruct (sint w m <? sint w a); assumption.
  - destruct (a <? m); assumption.
  - destruct (sint w m >? sint w a); assumption.
  - destruct (a >? m); assumption.
  - apply lxor_range; assumption.
Qed.

(* signed min/max are min/max of the two's complement readings; unsigned ones of the bit patterns *)
Theorem amo_min_signed w m a : sint w (amo_fun AMin w m a) = Z.min (sint w m) (sint w a).
Proof. cbn [amo_fun]. destruct (sint w m <? sint w a) eqn:E; lia. Qed.
Theorem amo_max_signed w m a : sint w (amo_fun AMax w m a) = Z.max (sint w m) (sint w a).
Proof. cbn [amo_fun]. destruct (sint w m >? sint w a) eqn:E; lia. Qed.
Theorem amo_minu_unsigned w m a : amo_fun AMinu w m a = Z.min m a.
Proof. cbn [amo_fun]. destruct (a <? m) eqn:E; lia. Qed.
Theorem amo_maxu_unsigned w m a : amo_fun AMaxu w m a = Z.max m a.
Proof. cbn [amo_fun]. destruct (a >? m) eqn:E; lia. Qed.
Theorem amo_add_wraps w m a : amo_fun AAdd w m a = (m + a) mod 2 ^ w.
Proof. reflexivity. Qed.

(* an AMO returns the old value and leaves op(old, arg) in memory; bytes outside are untouched *)
Theorem amo_returns_old_stores_result op m a n d :
  wf m ->
  let w := 8 * Z.of_nat n in
  let old := read_n m a n in
  let '(ret, m') := amo_n op m a n d in
  ret = old /\
  read_n m' a n = amo_fun op w old (d mod 2 ^ w) /\
  (forall x, x < a \/ a + Z.of_nat n <= x -> m' x = m x) /\
  wf m'.
Proof.
  intros H w old. unfold amo_n. fold w. fold old.
  split; [reflexivity|]. split; [|split].
  - rewrite read_write_same. rewrite pow256 by lia. fold w.
    apply Z.mod_small. apply amo_fun_range; [lia| |apply Z.mod_pos_bound; apply Z.pow_pos_nonneg; lia].
    unfold old, w. rewrite <- pow256 by lia. apply read_n_range. assumption.
  - intros x Hx. apply write_frame. assumption.
  - apply write_n_wf. assumption.
Qed.

(* ================================================================== B. one request, and sequences of requests *)
Lemma mem_step_wf W r m : wf m -> wf (mem_step W r m).
Proof.
  intros H. unfold mem_step, apply. destruct (q_type r); cbn; try assumption; apply write_n_wf; assumption.
Qed.

(* the bytes a request leaves behind: what it `stores` where it writes, the old byte elsewhere *)
Lemma mem_step_get W r m x :
  mem_step W r m x = match stores W r m x with Some b => b | None => m x end.
Proof.
  unfold mem_step, apply, stores, writes_at, stored_value.
  destruct (q_type r); cbn; try reflexivity; rewrite write_n_get;
    destruct ((q_addr r <=? x) && (x <? q_addr r + Z.of_nat (eff_len W r))); reflexivity.
Qed.

Lemma stores_none W r m x : writes_at W r x = false -> stores W r m x = None.
Proof. intros H. unfold stores. rewrite H. reflexivity. Qed.

Theorem request_frame W r m x : writes_at W r x = false -> mem_step W r m x = m x.
Proof. intros H. rewrite mem_step_get, stores_none by assumption. reflexivity. Qed.

(* responses carry the request's type and opaque field; test = 0; len echoed for reads and AMOs *)
Definition echo (x : resp) (r : req) : Prop :=
  p_type x = q_type r /\ p_opq x = q_opq r /\ p_test x = 0 /\
  match q_type r with TRead | TAmo _ => p_len x = q_len r | _ => p_len x = 0 /\ p_data x = 0 end.
Lemma resp_of_echo W r m : echo (resp_of W r m) r.
Proof. unfold echo, resp_of, apply. destruct (q_type r); cbn; auto. Qed.

Theorem read_resp_data W r m : q_type r = TRead -> p_data (resp_of W r m) = read_n m (q_addr r) (eff_len W r).
Proof. intros H. unfold resp_of, apply. rewrite H. reflexivity. Qed.
Theorem amo_resp_data W r m op : q_type r = TAmo op -> p_data (resp_of W r m) = read_n m (q_addr r) (eff_len W r).
Proof. intros H. unfold resp_of, apply. rewrite H. reflexivity. Qed.
Theorem read_does_not_write W r m : q_type r = TRead -> mem_step W r m = m.
Proof. intros H. unfold mem_step, apply. rewrite H. reflexivity. Qed.

(* an AMO request: returns the old value, stores op(old, data) on the access width *)
Theorem amo_request W r m op :
  wf m -> q_type r = TAmo op ->
  let n := eff_len W r in let w := 8 * Z.of_nat n in let old := read_n m (q_addr r) n in
  p_data (resp_of W r m) = old /\
  read_n (mem_step W r m) (q_addr r) n = amo_fun op w old (q_data r mod 2 ^ w).
Proof.
  intros H Ht n w old. split.
  - apply amo_resp_data with (op := op). assumption.
  - pose proof (amo_returns_old_stores_result op m (q_addr r) n (q_data r) H) as A.
    unfold mem_step, apply. rewrite Ht. fold n. destruct (amo_n op m (q_addr r) n (q_data r)) as [ret m'].
    cbn. apply A.
Qed.

(* a write request followed by a read of the same location *)
Theorem write_request W r m :
  q_type r = TWrite ->
  read_n (mem_step W r m) (q_addr r) (eff_len W r) = q_data r mod 256 ^ Z.of_nat (eff_len W r).
Proof.
  intros Ht. unfold mem_step, apply. rewrite Ht. cbn [snd]. rewrite read_write_same.
  rewrite <- pow256 by lia. rewrite Z.mod_mod by (apply Z.pow_nonzero; lia). reflexivity.
Qed.

Lemma mem_after_app l1 : forall l2 m, mem_after (l1 ++ l2) m = mem_after l2 (mem_after l1 m).
Proof. induction l1 as [|[W r] t IH]; intros; cbn; [reflexivity|apply IH]. Qed.
Lemma resps_app l1 : forall l2 m, resps (l1 ++ l2) m = resps l1 m ++ resps l2 (mem_after l1 m).
Proof. induction l1 as [|[W r] t IH]; intros; cbn; [reflexivity|rewrite IH; reflexivity]. Qed.
Lemma mem_after_wf l : forall m, wf m -> wf (mem_after l m).
Proof. induction l as [|[W r] t IH]; intros m H; cbn; [assumption|apply IH, mem_step_wf, H]. Qed.
Lemma resps_length l : forall m, length (resps l m) = length l.
Proof. induction l as [|[W r] t IH]; intros; cbn; [reflexivity|rewrite IH; reflexivity]. Qed.

Lemma untag_app {A} (l1 l2 : list (nat * A)) : untag (l1 ++ l2) = untag l1 ++ untag l2.
Proof. apply map_app. Qed.
Lemma widths_app Wp l1 l2 : widths Wp (l1 ++ l2) = widths Wp l1 ++ widths Wp l2.
Proof. apply map_app. Qed.
Lemma tmem_after_app Wp l1 l2 m : tmem_after Wp (l1 ++ l2) m = tmem_after Wp l2 (tmem_after Wp l1 m).
Proof. unfold tmem_after. rewrite widths_app. apply mem_after_app. Qed.
Lemma tresps_app Wp l1 : forall l2 m, tresps Wp (l1 ++ l2) m = tresps Wp l1 m ++ tresps Wp l2 (tmem_after Wp l1 m).
Proof.
  induction l1 as [|[p r] t IH]; intros; cbn; [reflexivity|]. rewrite IH. reflexivity.
Qed.
Lemma tresps_untag Wp l : forall m, untag (tresps Wp l m) = resps (widths Wp l) m.
Proof. induction l as [|[p r] t IH]; intros; cbn; [reflexivity|f_equal; apply IH]. Qed.
(* when every port has the same width the tagged log is the plain uniform sequence *)
Lemma widths_uniform W l : widths (fun _ => W) l = uniform W (untag l).
Proof. unfold widths, uniform, untag. rewrite map_map. reflexivity. Qed.

Lemma on_port_app {A} p (l1 l2 : list (nat * A)) : on_port p (l1 ++ l2) = on_port p l1 ++ on_port p l2.
Proof. unfold on_port. rewrite filter_app, map_app. reflexivity. Qed.
Lemma on_port_one_same {A} p (x : A) : on_port p [(p, x)] = [x].
Proof. unfold on_port. cbn. rewrite Nat.eqb_refl. reflexivity. Qed.
Lemma on_port_one_other {A} p q (x : A) : q <> p -> on_port p [(q, x)] = [].
Proof. intros H. unfold on_port. cbn. destruct (Nat.eqb_spec q p); [contradiction|reflexivity]. Qed.

(* "request wr (with its port's width) does not write byte x" *)
Definition no_write (x : Z) (wr : wreq) : Prop := writes_at (fst wr) (snd wr) x = false.

(* bytes that no request of a sequence writes keep their value *)
Lemma no_write_frame l x : forall m, Forall (no_write x) l -> mem_after l m x = m x.
Proof.
  induction l as [|[W r] t IH]; intros m H; cbn; [reflexivity|].
  inversion H; subst. rewrite IH by assumption. apply request_frame. assumption.
Qed.

(* most recent write wins, byte by byte; every request carries the data width of its own port *)
Theorem byte_is_most_recent_write l1 (w : wreq) l2 m0 x b :
  stores (fst w) (snd w) (mem_after l1 m0) x = Some b ->
  Forall (no_write x) l2 ->
  mem_after (l1 ++ w :: l2) m0 x = b.
Proof.
  intros Hs Hl2. destruct w as [Ww w]. rewrite mem_after_app. cbn [mem_after].
  rewrite no_write_frame by assumption. rewrite mem_step_get. cbn [fst snd] in Hs. rewrite Hs. reflexivity.
Qed.
Theorem byte_never_written l m0 x : Forall (no_write x) l -> mem_after l m0 x = m0 x.
Proof. apply no_write_frame. Qed.

(* a read (on a port of width W) processed after the sequence l1 ++ w :: l2 returns, for its byte k, what w stored
   at that address provided nothing later touched that byte — whatever else l1, l2 did around it *)
Theorem read_returns_most_recent_write W l1 (w : wreq) l2 rd m0 k b :
  wf m0 -> q_type rd = TRead -> 0 <= k < Z.of_nat (eff_len W rd) ->
  stores (fst w) (snd w) (mem_after l1 m0) (q_addr rd + k) = Some b ->
  Forall (no_write (q_addr rd + k)) l2 ->
  byte_k (p_data (resp_of W rd (mem_after (l1 ++ w :: l2) m0))) k = b.
Proof.
  intros Hwf Ht Hk Hs Hl2. rewrite read_resp_data by assumption.
  rewrite read_n_byte by (try apply mem_after_wf; assumption).
  apply byte_is_most_recent_write; assumption.
Qed.
Theorem read_returns_initial_if_never_written W l rd m0 k :
  wf m0 -> q_type rd = TRead -> 0 <= k < Z.of_nat (eff_len W rd) ->
  Forall (no_write (q_addr rd + k)) l ->
  byte_k (p_data (resp_of W rd (mem_after l m0))) k = m0 (q_addr rd + k).
Proof.
  intros Hwf Ht Hk Hl. rewrite read_resp_data by assumption.
  rewrite read_n_byte by (try apply mem_after_wf; assumption). apply no_write_frame. assumption.
Qed.
(* the same for the old value returned by an AMO *)
Theorem amo_returns_most_recent_write W l1 (w : wreq) l2 rd op m0 k b :
  wf m0 -> q_type rd = TAmo op -> 0 <= k < Z.of_nat (eff_len W rd) ->
  stores (fst w) (snd w) (mem_after l1 m0) (q_addr rd + k) = Some b ->
  Forall (no_write (q_addr rd + k)) l2 ->
  byte_k (p_data (resp_of W rd (mem_after (l1 ++ w :: l2) m0))) k = b.
Proof.
  intros Hwf Ht Hk Hs Hl2. rewrite amo_resp_data with (op := op) by assumption.
  rewrite read_n_byte by (try apply mem_after_wf; assumption).
  apply byte_is_most_recent_write; assumption.
Qed.

(* responses echo their requests, position by position *)
Lemma resps_echo l : forall m, Forall2 echo (resps l m) (map snd l).
Proof. induction l as [|[W r] t IH]; intros m; cbn; constructor; [apply resp_of_echo|apply IH]. Qed.
Lemma tresps_on_port_echo Wp p l : forall m, Forall2 echo (on_port p (tresps Wp l m)) (on_port p l).
Proof.
  induction l as [|[q r] t IH]; intros m; cbn; [constructor|].
  unfold on_port in *. cbn. destruct (Nat.eqb q p); cbn; [constructor; [apply resp_of_echo|apply IH]|apply IH].
Qed.

(* ================================================================== C. delay pipes (deque.rotate model) *)
Section PipeFacts.
  Context {A : Type}.
  Implicit Types l : pipe A.

  Lemma split_exit l : l <> [] -> l = removelast l ++ [pipe_exit l].
  Proof. intros H. apply app_removelast_last. assumption. Qed.

  Lemma inflight_empty n : inflight (@pipe_empty A n) = [].
  Proof.
    unfold inflight, pipe_empty. replace (flat_map o2l (repeat (@None A) n)) with (@nil A); [reflexivity|].
    induction n; cbn; auto.
  Qed.

  (* rotate keeps every occupant and their order *)
  Lemma inflight_rotate l : inflight (pipe_rotate l) = inflight l.
  Proof.
    destruct l as [|x t]; [reflexivity|]. unfold pipe_rotate.
    destruct (pipe_exit (x :: t)) eqn:E; [reflexivity|].
    unfold inflight. f_equal. rewrite (split_exit (x :: t)) at 2 by discriminate.
    rewrite flat_map_app, E. cbn. rewrite app_nil_r. reflexivity.
  Qed.
  Lemma length_rotate l : length (pipe_rotate l) = length l.
  Proof.
    destruct l as [|x t]; [reflexivity|]. unfold pipe_rotate.
    destruct (pipe_exit (x :: t)) eqn:E; [reflexivity|].
    rewrite (split_exit (x :: t)) at 2 by discriminate. rewrite app_length. cbn. lia.
  Qed.

  (* entering at slot 0 (only when free) puts the newcomer behind everybody *)
  Lemma inflight_enq x l : head_free l = true -> inflight (pipe_enq x l) = inflight l ++ [x].
  Proof.
    destruct l as [|[y|] t]; cbn; try discriminate. intros _. unfold inflight. cbn. reflexivity.
  Qed.
  Lemma length_enq x l : length (pipe_enq x l) = length l.
  Proof. destruct l as [|[y|] t]; reflexivity. Qed.

  (* leaving from the exit slot takes the oldest occupant *)
  Lemma inflight_exit x l : pipe_exit l = Some x -> inflight l = x :: inflight (pipe_clear_exit l).
  Proof.
    intros E. destruct l as [|y t]; [discriminate|].
    unfold pipe_clear_exit, inflight. rewrite (split_exit (y :: t)) at 1 by discriminate.
    rewrite !flat_map_app, E. cbn. rewrite app_nil_r, rev_app_distr. reflexivity.
  Qed.
  Lemma length_clear_exit l : length (pipe_clear_exit l) = length l.
  Proof.
    destruct l as [|y t]; [reflexivity|]. unfold pipe_clear_exit.
    rewrite (split_exit (y :: t)) at 2 by discriminate. rewrite !app_length. reflexivity.
  Qed.
  Lemma exit_none_inflight_head l : pipe_exit l = None -> inflight (pipe_clear_exit l) = inflight l.
  Proof.
    intros E. destruct l as [|y t]; [reflexivity|].
    unfold pipe_clear_exit, inflight. rewrite (split_exit (y :: t)) at 2 by discriminate.
    rewrite !flat_map_app, E. reflexivity.
  Qed.
End PipeFacts.

(* delay_pipe_order: any sequence of pipe operations delivers exactly what was put in, in order.
   ops: true = try to enqueue the next pending item, false = rotate; an exit is taken whenever present *)
Inductive pipe_op := PEnq | PRot | PDeq.
Definition pipe_step {A} (st : list A * pipe A * list A) (o : pipe_op) : list A * pipe A * list A :=
  let '(src, l, dst) := st in
  match o with
  | PEnq => match src with x :: rest => if head_free l then (rest, pipe_enq x l, dst) else st | [] => st end
  | PRot => (src, pipe_rotate l, dst)
  | PDeq => match pipe_exit l with Some x => (src, pipe_clear_exit l, dst ++ [x]) | None => st end
  end.
Theorem delay_pipe_order {A} (ops : list pipe_op) : forall (src : list A) l dst,
  let '(src', l', dst') := fold_left pipe_step ops (src, l, dst) in
  dst' ++ inflight l' ++ src' = dst ++ inflight l ++ src /\ length l' = length l.
Proof.
  induction ops as [|o t IH]; intros src l dst; [cbn; auto|].
  cbn [fold_left]. destruct o; cbn [pipe_step].
  - destruct src as [|x rest]; [apply IH|]. destruct (head_free l) eqn:F; [|apply IH].
    specialize (IH rest (pipe_enq x l) dst). destruct (fold_left pipe_step t (rest, pipe_enq x l, dst)) as [[s' l'] d'].
    destruct IH as [E L]. rewrite E, L, inflight_enq, length_enq by assumption. rewrite <- !app_assoc. auto.
  - specialize (IH src (pipe_rotate l) dst). destruct (fold_left pipe_step t (src, pipe_rotate l, dst)) as [[s' l'] d'].
    rewrite inflight_rotate, length_rotate in IH. assumption.
  - destruct (pipe_exit l) eqn:E; [|apply IH].
    specialize (IH src (pipe_clear_exit l) (dst ++ [a])).
    destruct (fold_left pipe_step t (src, pipe_clear_exit l, dst ++ [a])) as [[s' l'] d'].
    destruct IH as [E' L]. rewrite E', L, length_clear_exit, (inflight_exit a l) by assumption.
    rewrite <- !app_assoc. auto.
Qed.

(* ================================================================== D. the pipelines under an arbitrary oracle *)
Lemma set_port_same f p v : set_port f p v p = v.
Proof. unfold set_port. rewrite Nat.eqb_refl. reflexivity. Qed.
Lemma set_port_other f p v q : q <> p -> set_port f p v q = f q.
Proof. intros H. unfold set_port. destruct (Nat.eqb_spec q p); [contradiction|reflexivity]. Qed.

(* the invariant: nothing is lost, duplicated or reordered on any port; the memory is the fold of the log *)
Definition Inv (W : nat -> Z) (reqs : nat -> list req) (m0 : mem) (s : state) : Prop :=
  (forall p, reqs p = on_port p (slog s) ++ req_inflight s p ++ pending (ports s p)) /\
  (forall p, on_port p (tresps W (slog s) m0) = delivered s p ++ resp_inflight s p) /\
  smem s = tmem_after W (slog s) m0.

Lemma inv_init W reqs qlat rlat m0 : Inv W reqs m0 (init reqs qlat rlat m0).
Proof.
  unfold Inv, init, req_inflight, resp_inflight, delivered.
  cbn [ports pending qpipe rpipe outp slog smem tresps]. repeat split.
  - intros p. rewrite inflight_empty. reflexivity.
  - intros p. rewrite inflight_empty. reflexivity.
Qed.

Ltac port_cases q p :=
  destruct (Nat.eq_dec q p) as [->|?]; [rewrite ?set_port_same | rewrite ?set_port_other by assumption].

Lemma inv_step W reqs m0 s a : Inv W reqs m0 s -> Inv W reqs m0 (step W s a).
Proof.
  intros (I1 & I2 & I3). unfold Inv, req_inflight, resp_inflight, delivered in *.
  destruct a as [p|p|p|p|p]; unfold step.
  - (* Accept *)
    destruct (pending (ports s p)) as [|r rest] eqn:P; [auto|].
    destruct (head_free (qpipe (ports s p))) eqn:F; [|auto].
    cbn [ports smem slog]. repeat split; try assumption.
    + intros q. port_cases q p; [|apply I1]. cbn [pending qpipe].
      rewrite inflight_enq by assumption. rewrite (I1 p), P. rewrite <- !app_assoc. reflexivity.
    + intros q. port_cases q p; [|apply I2]. cbn [outp rpipe]. apply I2.
  - (* TickReq *)
    cbn [ports smem slog]. repeat split; try assumption.
    + intros q. port_cases q p; [|apply I1]. cbn [pending qpipe]. rewrite inflight_rotate. apply I1.
    + intros q. port_cases q p; [|apply I2]. cbn [outp rpipe]. apply I2.
  - (* Service *)
    destruct (pipe_exit (qpipe (ports s p))) as [r|] eqn:E; [|auto].
    destruct (head_free (rpipe (ports s p))) eqn:F; [|auto].
    destruct (apply (W p) r (smem s)) as [x m'] eqn:Ap.
    assert (Hx : x = resp_of (W p) r (tmem_after W (slog s) m0)) by (unfold resp_of; rewrite <- I3, Ap; reflexivity).
    assert (Hm : m' = mem_step (W p) r (tmem_after W (slog s) m0)) by (unfold mem_step; rewrite <- I3, Ap; reflexivity).
    cbn [ports smem slog]. repeat split.
    + intros q. rewrite on_port_app. port_cases q p.
      * cbn [pending qpipe]. rewrite on_port_one_same. rewrite (I1 p), (inflight_exit r _ E).
        rewrite <- !app_assoc. reflexivity.
      * rewrite on_port_one_other by auto. rewrite app_nil_r. apply I1.
    + intros q. rewrite tresps_app, on_port_app. cbn [tresps]. port_cases q p.
      * cbn [outp rpipe]. rewrite on_port_one_same, inflight_enq by assumption.
        rewrite (I2 p), Hx. rewrite <- !app_assoc. reflexivity.
      * rewrite on_port_one_other by auto. rewrite app_nil_r. apply I2.
    + rewrite tmem_after_app. rewrite Hm. reflexivity.
  - (* TickResp *)
    cbn [ports smem slog]. repeat split; try assumption.
    + intros q. port_cases q p; [|apply I1]. cbn [pending qpipe]. apply I1.
    + intros q. port_cases q p; [|apply I2]. cbn [outp rpipe]. rewrite inflight_rotate. apply I2.
  - (* Deliver *)
    destruct (pipe_exit (rpipe (ports s p))) as [x|] eqn:E; [|auto].
    cbn [ports smem slog]. repeat split; try assumption.
    + intros q. port_cases q p; [|apply I1]. cbn [pending qpipe]. apply I1.
    + intros q. port_cases q p; [|apply I2]. cbn [outp rpipe].
      rewrite (I2 p), (inflight_exit x _ E). rewrite <- !app_assoc. reflexivity.
Qed.

Lemma inv_exec W reqs m0 sched : forall s, Inv W reqs m0 s -> Inv W reqs m0 (exec W s sched).
Proof.
  induction sched as [|a t IH]; intros s H; [assumption|]. cbn. apply IH, inv_step, H.
Qed.

Theorem pipeline_invariant W reqs qlat rlat m0 sched :
  Inv W reqs m0 (exec W (init reqs qlat rlat m0) sched).
Proof. apply inv_exec, inv_init. Qed.

(* --- consequences, for every port count, latency assignment and oracle --- *)

(* each port is serviced in request order, nothing skipped: log|p is a prefix of the port's stream *)
Theorem service_in_request_order W reqs qlat rlat m0 sched p :
  let s := exec W (init reqs qlat rlat m0) sched in
  exists rest, reqs p = on_port p (slog s) ++ rest.
Proof.
  intros s. destruct (pipeline_invariant W reqs qlat rlat m0 sched) as (I1 & _ & _).
  eexists. apply I1.
Qed.

(* delivered responses are a prefix of the sequential-spec responses of the port's serviced requests *)
Theorem responses_are_spec_prefix W reqs qlat rlat m0 sched p :
  let s := exec W (init reqs qlat rlat m0) sched in
  exists rest, on_port p (tresps W (slog s) m0) = delivered s p ++ rest.
Proof.
  intros s. destruct (pipeline_invariant W reqs qlat rlat m0 sched) as (_ & I2 & _).
  eexists. apply I2.
Qed.

(* ... and pair up, in order, with an initial segment of the port's request stream,
   carrying the request's type and opaque field *)
Theorem responses_echo_requests W reqs qlat rlat m0 sched p :
  let s := exec W (init reqs qlat rlat m0) sched in
  exists rs rest, reqs p = rs ++ rest /\ Forall2 echo (delivered s p) rs.
Proof.
  intros s. destruct (pipeline_invariant W reqs qlat rlat m0 sched) as (I1 & I2 & _).
  pose proof (tresps_on_port_echo W p (slog s) m0) as F. fold s in I1, I2. rewrite (I2 p) in F.
  apply Forall2_app_inv_l in F. destruct F as (l1 & l2 & F1 & _ & E).
  exists l1, (l2 ++ req_inflight s p ++ pending (ports s p)). split; [|assumption].
  rewrite (I1 p), E, <- app_assoc. reflexivity.
Qed.

(* the memory image is that of applying the serviced requests one after another *)
Theorem memory_is_fold_of_log W reqs qlat rlat m0 sched :
  let s := exec W (init reqs qlat rlat m0) sched in
  smem s = mem_after (widths W (slog s)) m0.
Proof. intros s. destruct (pipeline_invariant W reqs qlat rlat m0 sched) as (_ & _ & I3). apply I3. Qed.

(* when a port has drained, all its requests were serviced and all their responses delivered *)
Theorem drained_port_complete W reqs qlat rlat m0 sched p :
  let s := exec W (init reqs qlat rlat m0) sched in
  drained s p -> on_port p (slog s) = reqs p /\ delivered s p = on_port p (tresps W (slog s) m0).
Proof.
  intros s (D1 & D2 & D3). destruct (pipeline_invariant W reqs qlat rlat m0 sched) as (I1 & I2 & _).
  fold s in I1, I2. split.
  - rewrite (I1 p), D1, D2, !app_nil_r. reflexivity.
  - rewrite (I2 p), D3, app_nil_r. reflexivity.
Qed.

(* timing parameters change only WHEN: two runs (different latencies, different oracles, even different
   not-yet-serviced request tails) whose service logs agree have the same memory image and the same
   response sequence on every port (delivered + still in the response pipe) *)
Theorem timing_irrelevant W m0 reqs1 ql1 rl1 sched1 reqs2 ql2 rl2 sched2 :
  let s1 := exec W (init reqs1 ql1 rl1 m0) sched1 in
  let s2 := exec W (init reqs2 ql2 rl2 m0) sched2 in
  slog s1 = slog s2 ->
  smem s1 = smem s2 /\
  forall p, delivered s1 p ++ resp_inflight s1 p = delivered s2 p ++ resp_inflight s2 p.
Proof.
  intros s1 s2 E.
  destruct (pipeline_invariant W reqs1 ql1 rl1 m0 sched1) as (_ & A2 & A3).
  destruct (pipeline_invariant W reqs2 ql2 rl2 m0 sched2) as (_ & B2 & B3).
  fold s1 in A2, A3. fold s2 in B2, B3. split.
  - rewrite A3, B3, E. reflexivity.
  - intros p. rewrite <- A2, <- B2, E. reflexivity.
Qed.
Corollary timing_irrelevant_drained W m0 reqs1 ql1 rl1 sched1 reqs2 ql2 rl2 sched2 p :
  let s1 := exec W (init reqs1 ql1 rl1 m0) sched1 in
  let s2 := exec W (init reqs2 ql2 rl2 m0) sched2 in
  slog s1 = slog s2 -> resp_inflight s1 p = [] -> resp_inflight s2 p = [] ->
  delivered s1 p = delivered s2 p.
Proof.
  intros s1 s2 E D1 D2.
  destruct (timing_irrelevant W m0 reqs1 ql1 rl1 sched1 reqs2 ql2 rl2 sched2 E) as (_ & H).
  specialize (H p). fold s1 s2 in H. rewrite D1, D2, !app_nil_r in H. assumption.
Qed.

(* the clocked instance: any number of cycles of MagicMemoryCL's schedule with arbitrary accept / sink-ready
   bits per cycle is one such oracle *)
Theorem cycles_invariant W nports reqs qlat rlat m0 cs :
  Inv W reqs m0 (run_cycles W nports (init reqs qlat rlat m0) cs).
Proof. unfold run_cycles. apply pipeline_invariant. Qed.

(* a single-ported memory is fully deterministic: whatever the timing, the delivered responses are an
   initial segment of the sequential-spec responses of the port's own stream *)
Lemma on_port_all {A} p (l : list (nat * A)) : Forall (fun x => fst x = p) l -> on_port p l = untag l.
Proof.
  induction l as [|[q x] t IH]; intros H; [reflexivity|]. inversion H; subst. cbn in *. subst.
  unfold on_port in *. cbn. rewrite Nat.eqb_refl. cbn. f_equal. apply IH. assumption.
Qed.
Lemma on_port_nil_all {A} (l : list (nat * A)) p :
  (forall q, q <> p -> on_port q l = []) -> Forall (fun x => fst x = p) l.
Proof.
  induction l as [|[q x] t IH]; intros H; [constructor|].
  assert (Hq : q = p).
  { destruct (Nat.eq_dec q p) as [|N]; [assumption|]. specialize (H q N). unfold on_port in H. cbn in H.
    rewrite Nat.eqb_refl in H. discriminate. }
  subst q. constructor; [reflexivity|]. apply IH. intros q N. specialize (H q N).
  unfold on_port in *. cbn in H. destruct (Nat.eqb_spec p q); [subst; contradiction|assumption].
Qed.
Lemma widths_all Wp p l : Forall (fun x => fst x = p) l -> widths Wp l = uniform (Wp p) (untag l).
Proof.
  induction l as [|[q x] t IH]; intros H; [reflexivity|]. inversion H; subst. cbn in *. subst.
  f_equal. apply IH. assumption.
Qed.
Lemma tresps_fst W l : forall m, map fst (tresps W l m) = map fst l.
Proof. induction l as [|[p r] t IH]; intros; cbn; [reflexivity|rewrite IH; reflexivity]. Qed.

Theorem single_port_deterministic W reqs qlat rlat m0 sched :
  (forall q, q <> 0%nat -> reqs q = []) ->
  let s := exec W (init reqs qlat rlat m0) sched in
  exists done rest more,
    reqs 0%nat = done ++ rest /\
    untag (slog s) = done /\
    resps (uniform (W 0%nat) done) m0 = delivered s 0%nat ++ more /\
    smem s = mem_after (uniform (W 0%nat) done) m0.
Proof.
  intros Hs s. destruct (pipeline_invariant W reqs qlat rlat m0 sched) as (I1 & I2 & I3). fold s in I1, I2, I3.
  assert (Hall : Forall (fun x => fst x = 0%nat) (slog s)).
  { apply on_port_nil_all. intros q N. specialize (I1 q). rewrite (Hs q N) in I1.
    symmetry in I1. apply app_eq_nil in I1. apply I1. }
  assert (Hall' : Forall (fun x => fst x = 0%nat) (tresps W (slog s) m0)).
  { rewrite Forall_forall in *. intros x Hx. apply (in_map fst) in Hx. rewrite tresps_fst in Hx.
    apply in_map_iff in Hx. destruct Hx as (y & Ey & Hy). rewrite <- Ey. apply Hall. assumption. }
  exists (untag (slog s)), (req_inflight s 0%nat ++ pending (ports s 0%nat)), (resp_inflight s 0%nat).
  repeat split.
  - rewrite (I1 0%nat), on_port_all by assumption. reflexivity.
  - rewrite <- (widths_all W 0%nat) by assumption.
    rewrite <- tresps_untag, <- on_port_all with (p := 0%nat) by assumption. apply I2.
  - rewrite <- (widths_all W 0%nat) by assumption. apply I3.
Qed.

(* ================================================================== E. the history acceptor is sound *)
Lemma amo_code_inj a b : amo_code a = amo_code b -> a = b.
Proof. destruct a, b; cbn; intros H; try reflexivity; discriminate. Qed.
Lemma type_code_inj a b : type_code a = type_code b -> a = b.
Proof.
  destruct a as [| |x| |], b as [| |y| |]; cbn; intros H; try reflexivity; try discriminate;
    try (destruct x; discriminate); try (destruct y; discriminate).
  f_equal. apply amo_code_inj. assumption.
Qed.
Lemma type_of_code_ok t : type_of_code (type_code t) = Some t.
Proof. destruct t as [| |x| |]; try reflexivity. destruct x; reflexivity. Qed.

Lemma req_eqb_eq a b : req_eqb a b = true -> a = b.
Proof.
  unfold req_eqb, mtype_eqb. destruct a as [t1 o1 a1 l1 d1], b as [t2 o2 a2 l2 d2]; cbn [q_type q_opq q_addr q_len q_data]. intros H.
  repeat (apply andb_prop in H; destruct H as [H ?]).
  apply Z.eqb_eq in H. apply type_code_inj in H. f_equal; try assumption; apply Z.eqb_eq; assumption.
Qed.
Lemma resp_eqb_eq a b : resp_eqb a b = true -> a = b.
Proof.
  unfold resp_eqb, mtype_eqb. destruct a as [t1 o1 a1 l1 d1], b as [t2 o2 a2 l2 d2]; cbn [p_type p_opq p_test p_len p_data]. intros H.
  repeat (apply andb_prop in H; destruct H as [H ?]).
  apply Z.eqb_eq in H. apply type_code_inj in H. f_equal; try assumption; apply Z.eqb_eq; assumption.
Qed.
Lemma call_eqb_eq a b : call_eqb a b = true -> a = b.
Proof.
  destruct a, b; cbn [call_eqb]; intros H; try discriminate;
    repeat (apply andb_prop in H; destruct H as [H ?]);
    repeat match goal with E : (_ =? _) = true |- _ => apply Z.eqb_eq in E end; subst; reflexivity.
Qed.
Lemma tcall_eqb_eq a b : tcall_eqb a b = true -> a = b.
Proof.
  destruct a, b. unfold tcall_eqb. cbn [fst snd]. intros H. apply andb_prop in H. destruct H as [H1 H2].
  apply Nat.eqb_eq in H1. apply call_eqb_eq in H2. subst. reflexivity.
Qed.

Lemma list_eqb_eq {A} (eqb : A -> A -> bool) :
  (forall a b, eqb a b = true -> a = b) -> forall l1 l2, list_eqb eqb l1 l2 = true -> l1 = l2.
Proof.
  intros Heq. induction l1 as [|x t IH]; destruct l2 as [|y u]; cbn; intros H; try reflexivity; try discriminate.
  apply andb_prop in H. destruct H as [H1 H2]. f_equal; [apply Heq|apply IH]; assumption.
Qed.
Lemma prefixb_prefix {A} (eqb : A -> A -> bool) :
  (forall a b, eqb a b = true -> a = b) -> forall l1 l2, prefixb eqb l1 l2 = true -> exists rest, l2 = l1 ++ rest.
Proof.
  intros Heq. induction l1 as [|x t IH]; destruct l2 as [|y u]; cbn; intros H; try discriminate.
  - exists []. reflexivity.
  - exists (y :: u). reflexivity.
  - apply andb_prop in H. destruct H as [H1 H2]. apply Heq in H1. subst y.
    destruct (IH u H2) as [rest E]. exists rest. rewrite E. reflexivity.
Qed.
Lemma ports_ok_nth {A} (f : nat -> list A -> bool) ls : forall p0,
  ports_ok f p0 ls = true -> forall i l, nth_error ls i = Some l -> f (p0 + i)%nat l = true.
Proof.
  induction ls as [|x t IH]; intros p0 H i l E; [destruct i; discriminate|].
  cbn in H. apply andb_prop in H. destruct H as [H1 H2]. destruct i as [|i]; cbn in E.
  - inversion E; subst. rewrite Nat.add_0_r. assumption.
  - replace (p0 + S i)%nat with (S p0 + i)%nat by lia. apply (IH (S p0)); assumption.
Qed.

(* What an accepted history means.  reqs, order, out, img are the OBSERVED quantities (request streams handed to
   the ports, MagicMemoryFL calls in the order they happened, responses that arrived, read_mem() at the end);
   l is the explanation.  complete=true additionally demands that every request was serviced and answered. *)
Definition history_ok (Ws : list Z) (init : list (Z * Z)) (reqs : list (list req)) (order : list (nat * call))
           (out : list (list resp)) (img : list (Z * Z)) (complete : bool) (l : tlog) : Prop :=
  let m0 := mem_of_list init mem0 in
  let W := port_width Ws in          (* data width in bytes of each port *)
  (* only configured ports are serviced; every port has a width *)
  (forall p r, In (p, r) l -> (p < length reqs)%nat) /\ length Ws = length reqs /\
  (* every port is serviced in its request order, without gaps *)
  (forall p rs, nth_error reqs p = Some rs ->
     exists rest, rs = on_port p l ++ rest /\ (complete = true -> rest = [])) /\
  (* the log is exactly what the memory was seen doing *)
  calls_of_log W l = order /\
  (* each port's responses, in arrival order, are the sequential-spec responses of its serviced requests *)
  (forall p rs, nth_error out p = Some rs ->
     exists rest, on_port p (tresps W l m0) = rs ++ rest /\ (complete = true -> rest = [])) /\
  (* the final image is the initial image with the serviced requests applied one after another *)
  (forall a b, In (a, b) img -> mem_after (widths W l) m0 a = b).

Theorem check_history_sound Ws init reqs order out img complete l :
  check_history Ws init reqs order out img complete l = true ->
  history_ok Ws init reqs order out img complete l.
Proof.
  unfold check_history, history_ok. intros H.
  apply andb_prop in H; destruct H as [H Himg]. apply andb_prop in H; destruct H as [H Hout].
  apply andb_prop in H; destruct H as [H Hcalls]. apply andb_prop in H; destruct H as [H Hreq].
  apply andb_prop in H; destruct H as [H Hlen]. apply andb_prop in H; destruct H as [Hports Hws].
  repeat split.
  - intros p r Hin. unfold log_in_ports in Hports. rewrite forallb_forall in Hports.
    specialize (Hports (p, r) Hin). cbn in Hports. apply Nat.ltb_lt in Hports. assumption.
  - apply Nat.eqb_eq in Hws. assumption.
  - intros p rs E. pose proof (ports_ok_nth _ _ _ Hreq p rs E) as F. cbn in F.
    destruct complete.
    + apply list_eqb_eq in F; [|apply req_eqb_eq]. exists []. rewrite app_nil_r. auto.
    + apply prefixb_prefix in F; [|apply req_eqb_eq]. destruct F as [rest F]. exists rest. split; [assumption|discriminate].
  - apply list_eqb_eq in Hcalls; [assumption|apply tcall_eqb_eq].
  - intros p rs E. pose proof (ports_ok_nth _ _ _ Hout p rs E) as F. cbn in F.
    destruct complete.
    + apply list_eqb_eq in F; [|apply resp_eqb_eq]. exists []. rewrite app_nil_r. auto.
    + apply prefixb_prefix in F; [|apply resp_eqb_eq]. destruct F as [rest F]. exists rest. split; [assumption|discriminate].
  - intros a b Hin. rewrite forallb_forall in Himg. specialize (Himg (a, b) Hin). cbn in Himg.
    apply Z.eqb_eq in Himg. assumption.
Qed.

(* an accepted history has responses that echo the port's requests in order *)
Corollary accepted_history_echo Ws init reqs order out img complete l p rs os :
  check_history Ws init reqs order out img complete l = true ->
  nth_error reqs p = Some rs -> nth_error out p = Some os ->
  exists rs1 rest, rs = rs1 ++ rest /\ Forall2 echo os rs1.
Proof.
  intros H Er Eo. apply check_history_sound in H. destruct H as (_ & _ & H1 & _ & H3 & _).
  destruct (H1 p rs Er) as (rest1 & E1 & _). destruct (H3 p os Eo) as (rest2 & E2 & _).
  pose proof (tresps_on_port_echo (port_width Ws) p l (mem_of_list init mem0)) as F. rewrite E2 in F.
  apply Forall2_app_inv_l in F. destruct F as (l1 & l2 & F1 & _ & E).
  exists l1, (l2 ++ rest1). split; [|assumption]. rewrite E1, E, <- app_assoc. reflexivity.
Qed.

(* the pipeline model produces histories that the acceptor's meaning describes: model and acceptor agree
   on what "acts as one in-order memory" means *)
Theorem model_history_ok W reqs qlat rlat m0 sched :
  let s := exec W (init reqs qlat rlat m0) sched in
  (forall p, exists rest, reqs p = on_port p (slog s) ++ rest) /\
  (forall p, exists rest, on_port p (tresps W (slog s) m0) = delivered s p ++ rest) /\
  smem s = mem_after (widths W (slog s)) m0.
Proof.
  intros s. repeat split.
  - intros p. apply service_in_request_order.
  - intros p. apply responses_are_spec_prefix.
  - apply memory_is_fold_of_log.
Qed.
