(* Lib/QueueCheck.v — executable glue for the C17 correspondence (no proofs, nothing here is used by a theorem).
   The harness writes every observed cycle of a real pymtl3 queue as one packed number (see cobs_of)
   and a case as (model id, kind id, capacity, history).  `case_first_bad` replays
     - the FIFO specification  (Lib/Fifo.v  fifo_step)            on the offers, and
     - the concrete model named by the model id (Lib/QueueRTL.v / Lib/QueueCL.v) on the raw port signals,
       comparing also the internal registers read out of the simulated component,
   and returns the first cycle at which the observation leaves either of them. *)
From PV Require Import Base.Prelude Lib.Fifo Lib.QueueRTL Lib.QueueCL.

Definition bit (f : Z) (i : Z) : bool := Z.testbit f i.

(* flags: b0 rst | b1 want_enq | b2 want_deq | b3 enq_rdy known | b4 enq_rdy | b5 deq_rdy known | b6 deq_rdy
          | b7 enq fired | b8 deq fired | b9 raw enq signal | b10 raw deq signal | b11 count known
          | b12 `out` is a peek-like data output (valid whenever deq_rdy/val is up) | b13 CL peek() called | b14 CL peek.rdy()
          | b15 CL peek observed at all *)
Definition obs_of (x : Z * Z * Z * Z) : obs :=
  let '(f, msg, out, cnt) := x in
  mkObs (bit f 0) (bit f 1) msg (bit f 2)
        (if bit f 3 then Some (bit f 4) else None) (if bit f 5 then Some (bit f 6) else None)
        (bit f 7) (bit f 8) out (if bit f 11 then Some cnt else None) (bit f 12).

(* one observed cycle packed into ONE number (parsed much faster than nested tuples):
   bits 0-15 flags | 16-23 msg | 24-31 out | 32-35 cnt | 36-39 a | 40-43 b | 44-47 c | 48-51 #regs | 52+8j.. regs[j]
   (CL queues: regs = [value returned by peek()]) *)
Definition ccode : Type := Z.
Definition fld (x lo w : Z) : Z := Z.land (Z.shiftr x lo) (Z.ones w).
Definition cobs_of (x : ccode) : cobs :=
  let f := fld x 0 16 in
  mkCObs (obs_of (f, fld x 16 8, fld x 24 8, fld x 32 4)) (bit f 9) (bit f 10)
         (fld x 36 4) (fld x 40 4) (fld x 44 4)
         (map (fun j => fld x (52 + 8 * Z.of_nat j) 8) (seq 0 (Z.to_nat (fld x 48 4)))).
Definition flags_of (x : ccode) : Z := fld x 0 16.

Definition kind_of (z : Z) : qkind := if z =? 1 then Pipe else if z =? 2 then Bypass else Normal.

(* the CL model replayed with the call order that was observed (enq_first); a peek() made at the start of the consumer's
   block must be ready iff the deque it finds is non-empty and must show its oldest element *)
Definition peek_ok (enq_first : bool) (q : list Z) (c : obs) (f : fout Z) (x : ccode) : bool :=
  let fl := flags_of x in
  let st := cl_at_consumer enq_first q (mkOffer (b_enq c) (b_msg c) (b_deq c)) f in
  Bool.eqb (bit fl 14) (cl_peek_rdy st) &&
  (if bit fl 13 then match cl_peek st with Some m => (fld x 52 8 =? m) | None => false end else true).
(* peek-only watcher block: regs = [consumer's peek value; watcher flags (b0 present | b1 peek.rdy() | b2 peek() called |
   b3 ran after the consumer's block); watcher's peek value] *)
Definition watch_ok (k : qkind) (q : list Z) (c : obs) (f : fout Z) (x : ccode) : bool :=
  let wf := fld x 60 8 in
  if bit wf 0 then
    let st := cl_at_watcher k (bit wf 3) q (mkOffer (b_enq c) (b_msg c) (b_deq c)) f in
    Bool.eqb (bit wf 1) (cl_peek_rdy st) &&
    (if bit wf 2 then match cl_peek st with Some m => (fld x 68 8 =? m) | None => false end else true)
  else true.
Fixpoint cl_first_bad (k : qkind) (n : nat) (enq_first : bool) (q : list Z) (i : nat) (h : list ccode) : option nat :=
  match h with
  | [] => None
  | x :: r =>
      let c := co (cobs_of x) in
      let '(q', f) := cl_step k n enq_first q (mkOffer (b_enq c) (b_msg c) (b_deq c)) in
      if obs_matches c f && (negb (bit (flags_of x) 15) || peek_ok enq_first q c f x) && watch_ok k q c f x
      then cl_first_bad k n enq_first q' (S i) r else Some i
  end.

(* the model replays start from the register state that was observed in the first cycle of the history
   (a history normally opens with a reset cycle, whose pre-state is whatever the previous history left) *)
Definition regs_fun (l : list Z) : nat -> Z := fun j => nth j l 0.
Definition c_first (h : list cobs) : cstate Z :=
  match h with [] => mkC 0 0 0 (fun _ => 0)
  | c :: _ => mkC (Z.to_nat (co_a c)) (Z.to_nat (co_b c)) (Z.to_nat (co_c c)) (regs_fun (co_regs c)) end.
Definition o_first (h : list cobs) : ostate Z :=
  match h with [] => mkO false 0 | c :: _ => mkO (negb (co_c c =? 0)) (nth 0 (co_regs c) 0) end.
Definition v_first (h : list cobs) : vstate Z :=
  match h with [] => mkV 0 0 false (fun _ => 0)
  | c :: _ => mkV (Z.to_nat (co_b c)) (Z.to_nat (co_a c)) (negb (co_c c =? 0)) (regs_fun (co_regs c)) end.

Definition min_opt (x y : option nat) : option nat :=
  match x, y with
  | None, _ => y
  | _, None => x
  | Some a, Some b => Some (Nat.min a b)
  end.

(* model ids: 0 spec only | 1 crtl gated (queues.py) | 2 crtl ungated (stream) | 3 e1 | 4 s1 | 5 p1 | 6 v1 | 7 vq
              | 8 cl, enq block scheduled first | 9 cl, deq block scheduled first | 10 stream acceptor (chains) *)
Definition case_first_bad (c : Z * Z * Z * list ccode) : option nat :=
  let '(mid, kz, nz, hc) := c in
  let k := kind_of kz in let n := Z.to_nat nz in
  let h := map cobs_of hc in
  let ho := map co h in
  let spec := fifo_first_bad k n [] 0%nat ho in
  let o0 := o_first h in
  let model :=
    if mid =? 1 then crtl_first_bad k n true (c_first h) 0%nat h
    else if mid =? 2 then crtl_first_bad k n false (c_first h) 0%nat h
    else if mid =? 3 then o1_first_bad (e1_step k) o0 0%nat h
    else if mid =? 4 then o1_first_bad (s1_step k) o0 0%nat h
    else if mid =? 5 then o1_first_bad (p1_step k) o0 0%nat h
    else if mid =? 6 then o1_first_bad (v1_step k) o0 0%nat h
    else if mid =? 7 then vq_first_bad n (v_first h) 0%nat h
    else if mid =? 8 then cl_first_bad k n true [] 0%nat hc
    else if mid =? 9 then cl_first_bad k n false [] 0%nat hc
    else None in
  if mid =? 10 then stream_first_bad n [] 0%nat ho      (* chain: end-to-end streams only, n = bound on outstanding messages *)
  else min_opt spec model.

Definition case_ok (c : Z * Z * Z * list ccode) : bool := none_nat (case_first_bad c).

(* (first bad cycle w.r.t. the specification, w.r.t. the concrete model) — for reports *)
Definition case_diagnosis (c : Z * Z * Z * list ccode) : option nat * option nat :=
  let '(mid, kz, nz, hc) := c in
  ((if mid =? 10 then stream_first_bad (Z.to_nat nz) [] 0%nat (map co (map cobs_of hc))
    else fifo_first_bad (kind_of kz) (Z.to_nat nz) [] 0%nat (map co (map cobs_of hc))),
   case_first_bad (mid, kz, nz, hc)).

(* what the specification expects in cycle i of a history (for reports) *)
Fixpoint spec_out_at (k : qkind) (n : nat) (q : list Z) (i : nat) (h : list obs) : option (fout Z * list Z) :=
  match h with
  | [] => None
  | c :: r =>
      if b_rst c then match i with O => None | S i' => spec_out_at k n [] i' r end
      else let '(q', f) := fifo_step k n q (mkOffer (b_enq c) (b_msg c) (b_deq c)) in
           match i with O => Some (f, q) | S i' => spec_out_at k n q' i' r end
  end.
Definition case_expect (c : Z * Z * Z * list ccode) (i : nat) :=
  let '(mid, kz, nz, hc) := c in
  match spec_out_at (kind_of kz) (Z.to_nat nz) [] i (map co (map cobs_of hc)) with
  | Some (f, q) => Some (f_enq_rdy f, f_deq_rdy f, f_enq_fire f, f_deq_fire f, f_msg f, Z.of_nat (f_count f), q)
  | None => None
  end.
