(* Lib/QueueCL.v — model of the cycle-level queues of pymtl3/stdlib/queues/cl_queues.py (model only).
   State = the deque, written oldest-first (Python: appendleft = enqueue at the young end, pop = take the oldest).
   The method-ordering constraints fix the order in which a cycle's calls reach the deque:
     PipeQueueCL    M(deq) < M(enq)  : the consumer's deq runs first, enq.rdy() is evaluated after it;
     BypassQueueCL  M(enq) < M(deq)  : the producer's enq runs first, deq.rdy() is evaluated after it;
     NormalQueueCL  up_pulse snapshots enq_rdy / deq_rdy before both; the two calls may come in either order
                    (enq_first says which one the scheduler picked).
   A caller invokes enq / deq only when the corresponding rdy() returned true (non_blocking method protocol). *)
From PV Require Import Base.Prelude Lib.Fifo.

Section QueueCL.
  Context {M : Type}.

  Definition cl_enq_rdy (n : nat) (q : list M) : bool := (length q <? n)%nat.       (* len(queue) < maxlen *)
  Definition cl_deq_rdy (q : list M) : bool := (0 <? length q)%nat.                 (* len(queue) > 0 *)
  Definition cl_enq (q : list M) (m : M) : list M := q ++ [m].                      (* appendleft *)
  Definition cl_deq (q : list M) : list M * option M := (tl q, hd_error q).         (* pop *)

  (* peek: read-only, ready iff the deque is non-empty, shows the element pop() would return *)
  Definition cl_peek_rdy (q : list M) : bool := (0 <? length q)%nat.                (* len(queue) > 0 *)
  Definition cl_peek (q : list M) : option M := hd_error q.                         (* queue[-1] *)
  (* the deque as the consumer's block finds it: untouched if it runs before the producer's block, else after the enq *)
  Definition cl_at_consumer (enq_first : bool) (q : list M) (o : offer M) (f : fout M) : list M :=
    if enq_first && f_enq_fire f then cl_enq q (o_msg o) else q.

  (* the deque as a peek-only WATCHER block must find it, by the ordering constraints each class declares for peek:
       NormalQueueCL  M(peek) < M(enq.rdy), M(peek) < M(deq.rdy) : before both other blocks -> the start-of-cycle deque
       PipeQueueCL    M(peek) < M(enq)                              : never sees a message enqueued in this cycle
       BypassQueueCL  M(enq) < M(peek)                              : always sees the message enqueued in this cycle
     peek and deq are unordered for Pipe/Bypass: after_deq says on which side of the consumer's block the watcher ran *)
  Definition cl_at_watcher (k : qkind) (after_deq : bool) (q : list M) (o : offer M) (f : fout M) : list M :=
    match k with
    | Normal => q
    | Pipe => if after_deq && f_deq_fire f then tl q else q
    | Bypass => let q1 := if f_enq_fire f then cl_enq q (o_msg o) else q in
                if after_deq && f_deq_fire f then tl q1 else q1
    end.

  Definition cl_step (k : qkind) (n : nat) (enq_first : bool) (q : list M) (o : offer M) : list M * fout M :=
    match k with
    | Pipe =>
        let dr := cl_deq_rdy q in let df := o_deq o && dr in
        let q1 := if df then fst (cl_deq q) else q in
        let er := cl_enq_rdy n q1 in let ef := o_enq o && er in
        (if ef then cl_enq q1 (o_msg o) else q1,
         mkOut er dr ef df (if df then snd (cl_deq q) else None) (length q))
    | Bypass =>
        let er := cl_enq_rdy n q in let ef := o_enq o && er in
        let q1 := if ef then cl_enq q (o_msg o) else q in
        let dr := cl_deq_rdy q1 in let df := o_deq o && dr in
        (if df then fst (cl_deq q1) else q1,
         mkOut er dr ef df (if df then snd (cl_deq q1) else None) (length q))
    | Normal =>
        let er := cl_enq_rdy n q in let dr := cl_deq_rdy q in        (* up_pulse *)
        let ef := o_enq o && er in let df := o_deq o && dr in
        if enq_first then
          let q1 := if ef then cl_enq q (o_msg o) else q in
          (if df then fst (cl_deq q1) else q1, mkOut er dr ef df (if df then snd (cl_deq q1) else None) (length q))
        else
          let q1 := if df then fst (cl_deq q) else q in
          (if ef then cl_enq q1 (o_msg o) else q1, mkOut er dr ef df (if df then snd (cl_deq q) else None) (length q))
    end.
End QueueCL.
