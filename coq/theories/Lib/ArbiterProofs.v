(* Lib/ArbiterProofs.v — the kill-chain arbiter of Lib/Arbiter.v meets its specification,
   for EVERY number of requesters n (the statements need 0 < n; the property says n >= 2),
   every pointer position and every request vector / request history.  No bound anywhere:
   the kill chain is handled by induction on the chain position, histories by induction. *)
From PV Require Import Base.Prelude Lib.Arbiter.
(* (comment line kept directly after the Require line: harness/common.py closure() parses up to it) *)
Local Open Scope nat_scope.

(* ------------------------------------------------------------------ arithmetic helpers *)

Lemma mod_wrap a n : 0 < n -> a < 2 * n -> a mod n = if a <? n then a else a - n.
Proof.
  intros Hn Ha. destruct (Nat.ltb_spec a n) as [H|H].
  - apply Nat.mod_small; exact H.
  - replace a with ((a - n) + 1 * n) at 1 by lia.
    rewrite Nat.mod_add by lia. apply Nat.mod_small; lia.
Qed.

Lemma mod_lt' a n : 0 < n -> a mod n < n.
Proof. intros; apply Nat.mod_upper_bound; lia. Qed.

Lemma mod_period a n : 0 < n -> (a + n) mod n = a mod n.
Proof.
  intros Hn. replace (a + n) with (a + 1 * n) by lia. apply Nat.mod_add; lia.
Qed.

(* ------------------------------------------------------------------ lists <-> bit functions *)

Lemma nth_map_seq (f : bv) a n i :
  nth i (map f (seq a n)) false = if i <? n then f (a + i) else false.
Proof.
  revert a i; induction n as [|n IH]; intros a i; cbn [seq map].
  - destruct i; reflexivity.
  - destruct i as [|i]; cbn [nth].
    + rewrite Nat.add_0_r; reflexivity.
    + rewrite IH. replace (S a + i) with (a + S i) by lia.
      change (S i <? S n) with (i <? n). reflexivity.
Qed.

Lemma of_list_to_list n f i : of_list (to_list n f) i = if i <? n then f i else false.
Proof. unfold of_list, to_list. rewrite nth_map_seq. reflexivity. Qed.

Lemma to_list_length n f : length (to_list n f) = n.
Proof. unfold to_list. rewrite map_length, seq_length. reflexivity. Qed.

Lemma to_list_ext n f g : (forall i, i < n -> f i = g i) -> to_list n f = to_list n g.
Proof.
  intros H. unfold to_list. apply map_ext_in. intros i Hi. apply in_seq in Hi. apply H; lia.
Qed.

Lemma to_list_of_list n l : length l = n -> to_list n (of_list l) = l.
Proof.
  intros Hl. apply nth_ext with (d := false) (d' := false).
  - rewrite to_list_length; auto.
  - intros i Hi. rewrite to_list_length in Hi.
    change (nth i (to_list n (of_list l)) false) with (of_list (to_list n (of_list l)) i).
    rewrite of_list_to_list. destruct (Nat.ltb_spec i n); [reflexivity|lia].
Qed.

Lemma nonzero_false n v : nonzero n v = false <-> forall i, i < n -> v i = false.
Proof.
  unfold nonzero. split.
  - intros H i Hi. destruct (v i) eqn:E; [|reflexivity].
    assert (existsb v (seq 0 n) = true) as X.
    { apply existsb_exists. exists i. split; [apply in_seq; lia|exact E]. }
    congruence.
  - intros H. destruct (existsb v (seq 0 n)) eqn:E; [|reflexivity].
    apply existsb_exists in E. destruct E as [i [Hi E]]. apply in_seq in Hi.
    rewrite H in E by lia. discriminate.
Qed.

Lemma nonzero_true n v : nonzero n v = true <-> exists i, i < n /\ v i = true.
Proof.
  unfold nonzero. rewrite existsb_exists. split; intros [i [Hi E]]; exists i.
  - apply in_seq in Hi. split; [lia|exact E].
  - split; [apply in_seq; lia|exact E].
Qed.

(* ------------------------------------------------------------------ one-hot register contents *)

Lemma ptr_state_nth n p i : nth i (ptr_state n p) false = (i <? n) && (i =? p).
Proof.
  change (nth i (ptr_state n p) false) with (of_list (to_list n (fun i => i =? p)) i).
  rewrite of_list_to_list. destruct (i <? n); reflexivity.
Qed.

Lemma onehot_ptr n st : onehot n st <-> exists p, p < n /\ st = ptr_state n p.
Proof.
  split.
  - intros [Hl [p [Hp H]]]. exists p. split; [exact Hp|].
    apply nth_ext with (d := false) (d' := false).
    + unfold ptr_state. rewrite to_list_length. exact Hl.
    + intros i Hi. rewrite ptr_state_nth, H by lia.
      destruct (Nat.ltb_spec i n); [reflexivity|lia].
  - intros [p [Hp ->]]. split; [apply to_list_length|].
    exists p. split; [exact Hp|]. intros i Hi. rewrite ptr_state_nth.
    destruct (Nat.ltb_spec i n); [reflexivity|lia].
Qed.

Lemma ptr_state_inj n p q : p < n -> q < n -> ptr_state n p = ptr_state n q -> p = q.
Proof.
  intros Hp Hq E. assert (nth p (ptr_state n p) false = nth p (ptr_state n q) false) as X by (rewrite E; reflexivity).
  rewrite !ptr_state_nth in X. rewrite Nat.eqb_refl in X.
  destruct (Nat.ltb_spec p n); [|lia]. cbn in X. symmetry in X. apply Nat.eqb_eq in X. exact X.
Qed.

(* ------------------------------------------------------------------ first-true index *)

Fixpoint anyb (f : nat -> bool) (m : nat) : bool :=
  match m with O => false | S m' => anyb f m' || f m' end.

Definition is_first (f : nat -> bool) (k : nat) : bool := f k && negb (anyb f k).

Lemma anyb_false f m : anyb f m = false <-> forall j, j < m -> f j = false.
Proof.
  induction m as [|m IH]; cbn [anyb].
  - split; [intros _ j Hj; lia|reflexivity].
  - rewrite orb_false_iff, IH. split.
    + intros [H1 H2] j Hj. destruct (Nat.eq_dec j m) as [->|]; [exact H2|apply H1; lia].
    + intros H. split; [intros j Hj; apply H; lia|apply H; lia].
Qed.

Lemma is_first_true f k : is_first f k = true <-> f k = true /\ forall j, j < k -> f j = false.
Proof.
  unfold is_first. rewrite andb_true_iff, negb_true_iff, anyb_false. reflexivity.
Qed.

Lemma is_first_ext f g k : (forall j, j <= k -> f j = g j) -> is_first f k = is_first g k.
Proof.
  intros H. unfold is_first. rewrite (H k) by lia. f_equal. f_equal.
  assert (forall m, m <= k -> anyb f m = anyb g m) as X.
  { induction m as [|m IH]; intros Hm; cbn [anyb]; [reflexivity|].
    rewrite IH by lia. rewrite (H m) by lia. reflexivity. }
  apply X; lia.
Qed.

Lemma find_first_spec f m :
  match find_first f m with
  | Some k => k < m /\ f k = true /\ forall j, j < k -> f j = false
  | None => forall j, j < m -> f j = false
  end.
Proof.
  induction m as [|m IH]; cbn [find_first].
  - intros j Hj; lia.
  - destruct (find_first f m) as [k|].
    + destruct IH as [H1 [H2 H3]]. split; [lia|]. split; assumption.
    + destruct (f m) eqn:E.
      * split; [lia|]. split; [exact E|exact IH].
      * intros j Hj. destruct (Nat.eq_dec j m) as [->|]; [exact E|apply IH; lia].
Qed.

Lemma first_unique f a b :
  f a = true -> (forall j, j < a -> f j = false) ->
  f b = true -> (forall j, j < b -> f j = false) -> a = b.
Proof.
  intros Ha Ha' Hb Hb'. destruct (Nat.lt_trichotomy a b) as [H|[H|H]]; [|exact H|].
  - rewrite Hb' in Ha by exact H. discriminate.
  - rewrite Ha' in Hb by exact H. discriminate.
Qed.

(* ------------------------------------------------------------------ the kill chain *)

(* before the priority position every kill bit is 1 *)
Lemma kills_before P R i : (forall j, j < i -> P j = false) -> comb_kills P R i = true.
Proof.
  induction i as [|i IH]; intros H; cbn [comb_kills]; [reflexivity|].
  rewrite H by lia. rewrite IH by (intros; apply H; lia). reflexivity.
Qed.

(* after it, kills[p+1+d] = "some request among positions p .. p+d" *)
Lemma kills_after P R p d :
  P p = true -> (forall j, p < j -> P j = false) ->
  comb_kills P R (p + 1 + d) = anyb (fun k => R (p + k)) (S d).
Proof.
  intros Hp Hn. induction d as [|d IH].
  - replace (p + 1 + 0) with (S p) by lia. cbn [comb_kills anyb]. rewrite Hp.
    rewrite Nat.add_0_r. reflexivity.
  - replace (p + 1 + S d) with (S (p + 1 + d)) by lia. cbn [comb_kills].
    rewrite Hn by lia. rewrite IH. cbn [anyb].
    replace (p + 1 + d) with (p + S d) by lia.
    destruct (anyb (fun k => R (p + k)) d || R (p + d)); reflexivity.
Qed.

Lemma prio_int_ptr n p j : p < n -> comb_priority_int n (of_list (ptr_state n p)) j = (j =? p).
Proof.
  intros Hp. unfold comb_priority_int, of_list. rewrite ptr_state_nth.
  destruct (Nat.ltb_spec j n); cbn; [reflexivity|].
  symmetry. apply Nat.eqb_neq. lia.
Qed.

Lemma reqs_int_mod n reqs j : 0 < n -> j < 2 * n -> comb_reqs_int n reqs j = reqs (j mod n).
Proof.
  intros Hn Hj. unfold comb_reqs_int. rewrite mod_wrap by lia.
  destruct (Nat.ltb_spec j n); [reflexivity|].
  destruct (Nat.ltb_spec j (2 * n)); [reflexivity|lia].
Qed.

(* grants_int is one-hot at the first requesting position at or after p in the doubled vector *)
Lemma grants_int_first n reqs p i :
  0 < n -> p < n -> i < 2 * n ->
  let P := comb_priority_int n (of_list (ptr_state n p)) in
  let R := comb_reqs_int n reqs in
  comb_grants_int n P R (comb_kills P R) i
  = (p <=? i) && is_first (fun k => reqs ((p + k) mod n)) (i - p).
Proof.
  intros Hn Hp Hi P R. unfold comb_grants_int.
  destruct (Nat.ltb_spec i (2 * n)); [|lia].
  assert (forall j, P j = (j =? p)) as HP by (intros; apply prio_int_ptr; exact Hp).
  rewrite HP.
  assert (is_first (fun k => reqs ((p + k) mod n)) (i - p) = is_first (fun k => R (p + k)) (i - p)) as ->.
  { apply is_first_ext. intros j Hj. unfold R.
    destruct (Nat.le_gt_cases p i).
    - rewrite reqs_int_mod by lia. reflexivity.
    - assert (j = 0) as -> by lia. rewrite reqs_int_mod by lia. reflexivity. }
  destruct (Nat.lt_trichotomy i p) as [Hlt|[->|Hgt]].
  - (* before the pointer: killed *)
    destruct (Nat.eqb_spec i p); [lia|]. destruct (Nat.leb_spec p i); [lia|].
    rewrite kills_before; [reflexivity|].
    intros j Hj. rewrite HP. apply Nat.eqb_neq. lia.
  - (* at the pointer *)
    rewrite Nat.eqb_refl, Nat.leb_refl, Nat.sub_diag. unfold is_first. cbn [anyb negb].
    rewrite Nat.add_0_r, andb_true_r. reflexivity.
  - (* after the pointer *)
    destruct (Nat.eqb_spec i p); [lia|]. destruct (Nat.leb_spec p i); [|lia].
    replace i with (p + 1 + (i - p - 1)) at 1 by lia.
    rewrite kills_after.
    + replace (S (i - p - 1)) with (i - p) by lia. unfold is_first.
      replace (p + (i - p)) with i by lia. cbn [andb]. apply andb_comm.
    + rewrite HP. apply Nat.eqb_refl.
    + intros j Hj. rewrite HP. apply Nat.eqb_neq. lia.
Qed.

(* ------------------------------------------------------------------ grants = specification *)

Lemma spec_grants_out n reqs p i : 0 < n -> n <= i -> spec_grants n reqs p i = false.
Proof.
  intros Hn Hi. unfold spec_grants, spec_grant_index.
  destruct (find_first _ n) as [k|]; cbn [option_map]; [|reflexivity].
  apply Nat.eqb_neq. pose proof (mod_lt' (p + k) n Hn). lia.
Qed.

(* THE combinational theorem: with a one-hot priority register pointing at p, the doubled-vector
   kill chain grants exactly the first requester at or after p, cyclically — for every n. *)
Theorem grants_spec n reqs p i :
  0 < n -> p < n -> grants_of n reqs (ptr_state n p) i = spec_grants n reqs p i.
Proof.
  intros Hn Hp. unfold grants_of, comb_grants.
  destruct (Nat.ltb_spec i n) as [Hi|Hi]; [|symmetry; apply spec_grants_out; assumption].
  rewrite !grants_int_first by lia.
  set (f := fun k => reqs ((p + k) mod n)).
  assert (forall k, f (k + n) = f k) as Hper.
  { intros k. unfold f. replace (p + (k + n)) with (p + k + n) by lia. rewrite mod_period by lia. reflexivity. }
  assert (forall k, n <= k -> is_first f k = false) as Hbig.
  { intros k Hk. destruct (is_first f k) eqn:E; [|reflexivity].
    apply is_first_true in E. destruct E as [E1 E2].
    replace k with (k - n + n) in E1 by lia. rewrite Hper in E1.
    rewrite E2 in E1 by lia. discriminate. }
  destruct (Nat.leb_spec p (n + i)); [|lia]. cbn [andb].
  unfold spec_grants, spec_grant_index. fold f.
  pose proof (find_first_spec f n) as FS.
  destruct (find_first f n) as [k0|]; cbn [option_map].
  - destruct FS as [Hk0 [Hf0 Hb0]].
    assert (forall k, is_first f k = true -> k = k0) as Huniq.
    { intros k E. destruct (Nat.le_gt_cases n k) as [Hk|Hk]; [rewrite Hbig in E by lia; discriminate|].
      apply is_first_true in E. destruct E as [E1 E2].
      eapply first_unique; eassumption. }
    assert (is_first f k0 = true) as Hk0first by (apply is_first_true; split; assumption).
    rewrite (mod_wrap (p + k0) n) by lia.
    destruct (Nat.eqb_spec i (if p + k0 <? n then p + k0 else p + k0 - n)) as [Heq|Hne].
    + destruct (Nat.ltb_spec (p + k0) n).
      * destruct (Nat.leb_spec p i); [|lia]. replace (i - p) with k0 by lia.
        rewrite Hk0first. reflexivity.
      * replace (n + i - p) with k0 by lia. rewrite Hk0first. apply orb_true_r.
    + apply orb_false_iff. split.
      * destruct (Nat.leb_spec p i); [|reflexivity]. cbn [andb].
        destruct (is_first f (i - p)) eqn:E; [|reflexivity].
        apply Huniq in E. destruct (Nat.ltb_spec (p + k0) n); lia.
      * destruct (is_first f (n + i - p)) eqn:E; [|reflexivity].
        apply Huniq in E. destruct (Nat.ltb_spec (p + k0) n); lia.
  - assert (forall k, is_first f k = false) as Hnone.
    { intros k. destruct (Nat.le_gt_cases n k) as [Hk|Hk]; [apply Hbig; exact Hk|].
      unfold is_first. rewrite FS by lia. reflexivity. }
    rewrite !Hnone. destruct (p <=? i); reflexivity.
Qed.

(* ------------------------------------------------------------------ facts about the specification *)

Lemma spec_index_some n reqs p g :
  0 < n -> p < n -> spec_grant_index n reqs p = Some g ->
  g < n /\ reqs g = true /\
  exists k, k < n /\ g = (p + k) mod n /\ forall j, j < k -> reqs ((p + j) mod n) = false.
Proof.
  intros Hn Hp. unfold spec_grant_index.
  pose proof (find_first_spec (fun k => reqs ((p + k) mod n)) n) as FS.
  destruct (find_first _ n) as [k|]; cbn [option_map]; [|discriminate].
  intros E; injection E as <-. destruct FS as [H1 [H2 H3]].
  split; [apply mod_lt'; exact Hn|]. split; [exact H2|].
  exists k. split; [exact H1|]. split; [reflexivity|exact H3].
Qed.

Lemma spec_index_none n reqs p :
  0 < n -> p < n -> spec_grant_index n reqs p = None -> forall i, i < n -> reqs i = false.
Proof.
  intros Hn Hp. unfold spec_grant_index.
  pose proof (find_first_spec (fun k => reqs ((p + k) mod n)) n) as FS.
  destruct (find_first _ n) as [k|]; cbn [option_map]; [discriminate|].
  intros _ i Hi. specialize (FS (dist n p i)). unfold dist in FS.
  rewrite (mod_wrap (i + n - p) n) in FS by lia.
  destruct (Nat.ltb_spec (i + n - p) n).
  - rewrite (mod_wrap (p + (i + n - p)) n) in FS by lia.
    destruct (Nat.ltb_spec (p + (i + n - p)) n); [lia|].
    replace (p + (i + n - p) - n) with i in FS by lia. apply FS; lia.
  - rewrite (mod_wrap (p + (i + n - p - n)) n) in FS by lia.
    destruct (Nat.ltb_spec (p + (i + n - p - n)) n); [|lia].
    replace (p + (i + n - p - n)) with i in FS by lia. apply FS; lia.
Qed.

(* grants is zero exactly when nothing is requested *)
Theorem grants_zero_iff n reqs p :
  0 < n -> p < n ->
  ((forall i, grants_of n reqs (ptr_state n p) i = false) <-> (forall i, i < n -> reqs i = false)).
Proof.
  intros Hn Hp. split.
  - intros H. destruct (spec_grant_index n reqs p) as [g|] eqn:E.
    + specialize (H g). rewrite grants_spec in H by assumption.
      unfold spec_grants in H. rewrite E, Nat.eqb_refl in H. discriminate.
    + apply spec_index_none with (p := p); assumption.
  - intros H i. rewrite grants_spec by assumption. unfold spec_grants.
    destruct (spec_grant_index n reqs p) as [g|] eqn:E; [|reflexivity].
    apply spec_index_some in E; try assumption. destruct E as [Hg [Hr _]].
    rewrite H in Hr by exact Hg. discriminate.
Qed.

(* otherwise exactly one bit is set, and it is a requesting bit *)
Theorem grants_one_hot n reqs p :
  0 < n -> p < n -> (exists i, i < n /\ reqs i = true) ->
  exists g, g < n /\ reqs g = true /\ spec_grant_index n reqs p = Some g /\
            forall i, grants_of n reqs (ptr_state n p) i = (i =? g).
Proof.
  intros Hn Hp [i0 [Hi0 Hr0]].
  destruct (spec_grant_index n reqs p) as [g|] eqn:E.
  - pose proof (spec_index_some n reqs p g Hn Hp E) as [Hg [Hr _]].
    exists g. split; [exact Hg|]. split; [exact Hr|]. split; [reflexivity|].
    intros i. rewrite grants_spec by assumption. unfold spec_grants. rewrite E. reflexivity.
  - rewrite (spec_index_none n reqs p Hn Hp E i0 Hi0) in Hr0. discriminate.
Qed.

(* at most one bit, always inside reqs, never outside the n-bit range (no hypothesis on reqs) *)
Theorem grants_subset_reqs n reqs p i :
  0 < n -> p < n -> grants_of n reqs (ptr_state n p) i = true -> i < n /\ reqs i = true.
Proof.
  intros Hn Hp H. rewrite grants_spec in H by assumption. unfold spec_grants in H.
  destruct (spec_grant_index n reqs p) as [g|] eqn:E; [|discriminate].
  apply Nat.eqb_eq in H. subst i.
  pose proof (spec_index_some n reqs p g Hn Hp E) as [Hg [Hr _]]. split; assumption.
Qed.

Theorem grants_at_most_one n reqs p i j :
  0 < n -> p < n ->
  grants_of n reqs (ptr_state n p) i = true -> grants_of n reqs (ptr_state n p) j = true -> i = j.
Proof.
  intros Hn Hp Hi Hj. rewrite grants_spec in Hi, Hj by assumption. unfold spec_grants in *.
  destruct (spec_grant_index n reqs p); [|discriminate].
  apply Nat.eqb_eq in Hi, Hj. congruence.
Qed.

(* ------------------------------------------------------------------ the register update *)

(* the connect() wiring of the register input is a rotate-left by one of grants *)
Lemma reg_in_rotl n v i : 0 < n -> i < n -> reg_in n v i = rotl n v i.
Proof.
  intros Hn Hi. unfold reg_in, rotl. destruct (Nat.ltb_spec i n); [|lia].
  rewrite mod_wrap by lia. destruct (Nat.eqb_spec i 0) as [->|].
  - destruct (Nat.ltb_spec (0 + n - 1) n); f_equal; lia.
  - destruct (Nat.ltb_spec (i + n - 1) n); [lia|]. f_equal; lia.
Qed.

Lemma rotl_onehot n g : 0 < n -> g < n ->
  to_list n (rotl n (fun i => i =? g)) = ptr_state n ((g + 1) mod n).
Proof.
  intros Hn Hg. unfold ptr_state. apply to_list_ext. intros i Hi. unfold rotl.
  destruct (Nat.ltb_spec i n); [|lia].
  rewrite (mod_wrap (i + n - 1) n), (mod_wrap (g + 1) n) by lia.
  destruct (Nat.ltb_spec (i + n - 1) n); destruct (Nat.ltb_spec (g + 1) n);
    destruct (Nat.eqb_spec i (g + 1)); destruct (Nat.eqb_spec i (g + 1 - n));
    try (apply Nat.eqb_eq; lia); try (apply Nat.eqb_neq; lia).
Qed.

Lemma grants_list_spec n reqs p :
  0 < n -> p < n ->
  to_list n (grants_of n reqs (ptr_state n p)) = to_list n (spec_grants n reqs p).
Proof. intros Hn Hp. apply to_list_ext. intros i _. apply grants_spec; assumption. Qed.

Lemma nonzero_spec n reqs p :
  0 < n -> p < n ->
  nonzero n (of_list (to_list n (spec_grants n reqs p)))
  = match spec_grant_index n reqs p with Some _ => true | None => false end.
Proof.
  intros Hn Hp. destruct (spec_grant_index n reqs p) as [g|] eqn:E.
  - apply nonzero_true. pose proof (spec_index_some n reqs p g Hn Hp E) as [Hg _].
    exists g. split; [exact Hg|]. rewrite of_list_to_list.
    destruct (Nat.ltb_spec g n); [|lia]. unfold spec_grants. rewrite E. apply Nat.eqb_refl.
  - apply nonzero_false. intros i Hi. rewrite of_list_to_list.
    destruct (Nat.ltb_spec i n); [|reflexivity]. unfold spec_grants. rewrite E. reflexivity.
Qed.

(* one cycle of the code's machine = one cycle of the pointer specification *)
Theorem step_refines n isEn p c :
  0 < n -> p < n ->
  step n isEn (ptr_state n p) c
  = (to_list n (spec_grants n (c_reqs c) p), ptr_state n (spec_next_ptr n isEn p c)).
Proof.
  intros Hn Hp. unfold step. rewrite grants_list_spec by assumption. f_equal.
  unfold reg_next, spec_next_ptr. destruct (c_rst c); [reflexivity|].
  unfold comb_priority_en_En, comb_priority_en. rewrite nonzero_spec by assumption.
  unfold advances.
  destruct (spec_grant_index n (c_reqs c) p) as [g|] eqn:E.
  - assert (to_list n (reg_in n (of_list (to_list n (spec_grants n (c_reqs c) p))))
            = ptr_state n ((g + 1) mod n)) as X.
    { pose proof (spec_index_some n (c_reqs c) p g Hn Hp E) as [Hg _].
      rewrite <- rotl_onehot by assumption. apply to_list_ext. intros i Hi.
      rewrite reg_in_rotl by assumption. unfold rotl.
      destruct (Nat.ltb_spec i n); [|lia]. rewrite of_list_to_list.
      pose proof (mod_lt' (i + n - 1) n Hn).
      destruct (Nat.ltb_spec ((i + n - 1) mod n) n); [|lia].
      unfold spec_grants. rewrite E. reflexivity. }
    destruct isEn; cbn [negb orb andb]; [destruct (c_en c)|]; cbn [andb]; try rewrite X; reflexivity.
  - destruct isEn; reflexivity.
Qed.

(* whole histories: the code's machine started with the pointer at p produces the specification's trace *)
Theorem run_refines n isEn h : forall p,
  0 < n -> p < n -> run n isEn (ptr_state n p) h = spec_run n isEn p h.
Proof.
  induction h as [|c h IH]; intros p Hn Hp; cbn [run spec_run]; [reflexivity|].
  rewrite step_refines by assumption. cbn [fst snd]. f_equal.
  apply IH; [exact Hn|]. unfold spec_next_ptr.
  destruct (c_rst c); [lia|]. destruct (spec_grant_index n (c_reqs c) p); [|exact Hp].
  destruct (advances isEn c); [apply mod_lt'; exact Hn|exact Hp].
Qed.

Lemma spec_next_ptr_lt n isEn p c : 0 < n -> p < n -> spec_next_ptr n isEn p c < n.
Proof.
  intros Hn Hp. unfold spec_next_ptr.
  destruct (c_rst c); [lia|]. destruct (spec_grant_index n (c_reqs c) p); [|exact Hp].
  destruct (advances isEn c); [apply mod_lt'; exact Hn|exact Hp].
Qed.

(* ------------------------------------------------------------------ the invariant *)

(* reset establishes it, from ANY register content (also from the all-zero content of a cold simulator) *)
Theorem reset_establishes n isEn st c :
  0 < n -> c_rst c = true ->
  snd (step n isEn st c) = reset_state n /\ onehot n (reset_state n) /\ reset_state n = ptr_state n 0.
Proof.
  intros Hn Hr. split; [|split; [|reflexivity]].
  - unfold step, reg_next. cbn [snd]. rewrite Hr. reflexivity.
  - apply onehot_ptr. exists 0. split; [exact Hn|reflexivity].
Qed.

(* every cycle preserves it *)
Theorem step_preserves_onehot n isEn st c :
  0 < n -> onehot n st -> onehot n (snd (step n isEn st c)).
Proof.
  intros Hn H. apply onehot_ptr in H. destruct H as [p [Hp ->]].
  rewrite step_refines by assumption. cbn [snd]. apply onehot_ptr.
  exists (spec_next_ptr n isEn p c). split; [apply spec_next_ptr_lt; assumption|reflexivity].
Qed.

Theorem run_preserves_onehot n isEn h : forall st,
  0 < n -> onehot n st -> onehot n (final_state n isEn st h).
Proof.
  induction h as [|c h IH]; intros st Hn H; cbn [final_state]; [exact H|].
  apply IH; [exact Hn|]. apply step_preserves_onehot; assumption.
Qed.

(* ------------------------------------------------------------------ priority update, stated on the code's step *)

(* next priority = rotate-left of grants when it advances, unchanged otherwise; En: advances only with en *)
Theorem next_priority n isEn st c :
  0 < n -> onehot n st -> c_rst c = false ->
  let g := fst (step n isEn st c) in
  let st' := snd (step n isEn st c) in
  if nonzero n (of_list g) && advances isEn c
  then st' = to_list n (rotl n (of_list g))
  else st' = st.
Proof.
  intros Hn H Hr. cbv zeta. unfold step. cbn [fst snd]. unfold reg_next. rewrite Hr.
  set (g := to_list n (grants_of n (c_reqs c) st)).
  unfold comb_priority_en_En, comb_priority_en, advances.
  destruct isEn; cbn [negb orb].
  - destruct (nonzero n (of_list g) && c_en c); [|reflexivity].
    apply to_list_ext. intros i Hi. apply reg_in_rotl; assumption.
  - rewrite andb_true_r. destruct (nonzero n (of_list g)); [|reflexivity].
    apply to_list_ext. intros i Hi. apply reg_in_rotl; assumption.
Qed.

(* the same at the level of the pointer: it moves to the position after the granted input *)
Theorem next_pointer n isEn p c g :
  0 < n -> p < n -> c_rst c = false -> spec_grant_index n (c_reqs c) p = Some g ->
  snd (step n isEn (ptr_state n p) c) = ptr_state n (if advances isEn c then (g + 1) mod n else p).
Proof.
  intros Hn Hp Hr E. rewrite step_refines by assumption. cbn [snd].
  unfold spec_next_ptr. rewrite Hr, E. destruct (advances isEn c); reflexivity.
Qed.

Theorem no_grant_keeps_priority n isEn st c :
  0 < n -> onehot n st -> c_rst c = false -> (forall i, i < n -> c_reqs c i = false) ->
  snd (step n isEn st c) = st.
Proof.
  intros Hn H Hr Hz. apply onehot_ptr in H. destruct H as [p [Hp ->]].
  rewrite step_refines by assumption. cbn [snd]. unfold spec_next_ptr. rewrite Hr.
  destruct (spec_grant_index n (c_reqs c) p) as [g|] eqn:E; [|reflexivity].
  pose proof (spec_index_some n (c_reqs c) p g Hn Hp E) as [Hg [Hrg _]].
  rewrite Hz in Hrg by exact Hg. discriminate.
Qed.

(* RoundRobinArbiterEn: with en low the priority register keeps its value (any content, any reqs) *)
Theorem en_low_keeps_priority n st c :
  c_rst c = false -> c_en c = false -> snd (step n true st c) = st.
Proof.
  intros Hr He. unfold step, reg_next, comb_priority_en_En. cbn [snd].
  rewrite Hr, He, andb_false_r. reflexivity.
Qed.

(* RoundRobinArbiter has no enable: it is RoundRobinArbiterEn with en tied high *)
Theorem plain_is_en_high n st rst en reqs :
  step n false st (rst, en, reqs) = step n true st (rst, true, reqs).
Proof.
  unfold step, comb_priority_en_En, comb_priority_en. cbn [c_rst c_en c_reqs fst snd].
  rewrite andb_true_r. reflexivity.
Qed.

(* ------------------------------------------------------------------ fairness *)

Lemma dist_lt n p i : 0 < n -> dist n p i < n.
Proof. intros; apply mod_lt'; assumption. Qed.

(* the decreasing measure: in a cycle (no reset) in which input i requests, either i is granted, or —
   when the priority advances — the cyclic distance from the pointer to i strictly decreases;
   when it does not advance the pointer stays *)
Lemma fair_measure n isEn p c i :
  0 < n -> p < n -> i < n -> c_rst c = false -> c_reqs c i = true ->
  let p' := spec_next_ptr n isEn p c in
  spec_grants n (c_reqs c) p i = true \/
  (spec_grants n (c_reqs c) p i = false /\
   if advances isEn c then dist n p' i < dist n p i else p' = p).
Proof.
  intros Hn Hp Hi Hr Hq. cbv zeta. unfold spec_next_ptr, spec_grants. rewrite Hr.
  destruct (spec_grant_index n (c_reqs c) p) as [g|] eqn:E.
  2:{ rewrite (spec_index_none n (c_reqs c) p Hn Hp E i Hi) in Hq. discriminate. }
  destruct (Nat.eqb_spec i g) as [->|Hne]; [left; reflexivity|right].
  split; [reflexivity|]. destruct (advances isEn c); [|reflexivity].
  pose proof (spec_index_some n (c_reqs c) p g Hn Hp E) as [Hg [_ [k [Hk [Hgk Hbefore]]]]].
  (* i is at distance d from p and requests, so the first requester is strictly closer *)
  assert (k < dist n p i) as Hlt.
  { destruct (Nat.lt_trichotomy k (dist n p i)) as [H|[H|H]]; [exact H| |].
    - exfalso. apply Hne. rewrite Hgk, H. unfold dist.
      rewrite (mod_wrap (i + n - p) n) by lia.
      destruct (Nat.ltb_spec (i + n - p) n).
      + rewrite mod_wrap by lia. destruct (Nat.ltb_spec (p + (i + n - p)) n); lia.
      + rewrite mod_wrap by lia. destruct (Nat.ltb_spec (p + (i + n - p - n)) n); lia.
    - exfalso. specialize (Hbefore (dist n p i) H). unfold dist in Hbefore.
      rewrite (mod_wrap (i + n - p) n) in Hbefore by lia.
      destruct (Nat.ltb_spec (i + n - p) n).
      + rewrite mod_wrap in Hbefore by lia.
        destruct (Nat.ltb_spec (p + (i + n - p)) n); [lia|].
        replace (p + (i + n - p) - n) with i in Hbefore by lia. congruence.
      + rewrite mod_wrap in Hbefore by lia.
        destruct (Nat.ltb_spec (p + (i + n - p - n)) n); [|lia].
        replace (p + (i + n - p - n)) with i in Hbefore by lia. congruence. }
  revert Hlt. unfold dist. subst g.
  rewrite (mod_wrap (p + k) n) by lia.
  rewrite (mod_wrap (i + n - p) n) by lia.
  destruct (Nat.ltb_spec (p + k) n); destruct (Nat.ltb_spec (i + n - p) n); intros Hlt.
  - rewrite (mod_wrap (p + k + 1) n) by lia. destruct (Nat.ltb_spec (p + k + 1) n).
    + rewrite mod_wrap by lia. destruct (Nat.ltb_spec (i + n - (p + k + 1)) n); lia.
    + rewrite mod_wrap by lia. destruct (Nat.ltb_spec (i + n - (p + k + 1 - n)) n); lia.
  - rewrite (mod_wrap (p + k + 1) n) by lia. destruct (Nat.ltb_spec (p + k + 1) n).
    + rewrite mod_wrap by lia. destruct (Nat.ltb_spec (i + n - (p + k + 1)) n); lia.
    + rewrite mod_wrap by lia. destruct (Nat.ltb_spec (i + n - (p + k + 1 - n)) n); lia.
  - rewrite (mod_wrap (p + k - n + 1) n) by lia. destruct (Nat.ltb_spec (p + k - n + 1) n).
    + rewrite mod_wrap by lia. destruct (Nat.ltb_spec (i + n - (p + k - n + 1)) n); lia.
    + rewrite mod_wrap by lia. destruct (Nat.ltb_spec (i + n - (p + k - n + 1 - n)) n); lia.
  - rewrite (mod_wrap (p + k - n + 1) n) by lia. destruct (Nat.ltb_spec (p + k - n + 1) n).
    + rewrite mod_wrap by lia. destruct (Nat.ltb_spec (i + n - (p + k - n + 1)) n); lia.
    + rewrite mod_wrap by lia. destruct (Nat.ltb_spec (i + n - (p + k - n + 1 - n)) n); lia.
Qed.

Lemma fairness_ptr n isEn i h : forall p,
  0 < n -> p < n -> i < n -> keeps_requesting i h ->
  dist n p i < count_adv isEn h ->
  granted_within n isEn (ptr_state n p) h i (dist n p i + 1).
Proof.
  induction h as [|c h IH]; intros p Hn Hp Hi Hk Hc; cbn [count_adv] in Hc; [lia|].
  assert (c_rst c = false /\ c_reqs c i = true) as [Hr Hq] by (apply Hk; left; reflexivity).
  assert (keeps_requesting i h) as Hk' by (intros c' Hc'; apply Hk; right; exact Hc').
  pose proof (fair_measure n isEn p c i Hn Hp Hi Hr Hq) as FM. cbv zeta in FM.
  pose proof (spec_next_ptr_lt n isEn p c Hn Hp) as Hp'.
  unfold granted_within. cbn [run]. rewrite step_refines by assumption. cbn [fst snd].
  destruct (advances isEn c) eqn:Ea.
  - destruct FM as [G|[G D]].
    + (* granted now, in an advancing cycle *)
      exists 0, c, (to_list n (spec_grants n (c_reqs c) p)). cbn [nth_error firstn count_adv].
      rewrite Ea. split; [reflexivity|]. split; [reflexivity|]. split; [reflexivity|].
      split; [|lia].
      change (of_list (to_list n (spec_grants n (c_reqs c) p)) i = true).
      rewrite of_list_to_list. destruct (Nat.ltb_spec i n); [exact G|lia].
    + (* not granted, the distance shrinks *)
      destruct (IH (spec_next_ptr n isEn p c) Hn Hp' Hi Hk') as [t [c' [g [H1 [H2 [H3 [H4 H5]]]]]]]; [lia|].
      exists (S t), c', g. cbn [nth_error]. split; [exact H1|]. split; [exact H2|].
      split; [exact H3|]. split; [exact H4|].
      change (firstn (S (S t)) (c :: h)) with (c :: firstn (S t) h). cbn [count_adv]. rewrite Ea. lia.
  - (* priority does not advance: same pointer, same distance, one cycle consumed *)
    assert (spec_next_ptr n isEn p c = p) as Hsame.
    { destruct FM as [G|[G D]]; [|exact D].
      unfold spec_next_ptr. rewrite Hr, Ea. destruct (spec_grant_index n (c_reqs c) p); reflexivity. }
    rewrite Hsame.
    destruct (IH p Hn Hp Hi Hk') as [t [c' [g [H1 [H2 [H3 [H4 H5]]]]]]]; [lia|].
    exists (S t), c', g. cbn [nth_error]. split; [exact H1|]. split; [exact H2|].
    split; [exact H3|]. split; [exact H4|].
    change (firstn (S (S t)) (c :: h)) with (c :: firstn (S t) h). cbn [count_adv]. rewrite Ea. lia.
Qed.

(* FAIRNESS, both variants: from any one-hot priority, an input that requests in every cycle of a
   reset-free history containing at least n priority-advancing ("granting") cycles is granted in one of
   the first n of them.  For RoundRobinArbiter every such cycle advances; for RoundRobinArbiterEn the
   advancing cycles are those with en high. *)
Theorem fairness n isEn st h i :
  0 < n -> onehot n st -> i < n -> keeps_requesting i h ->
  n <= count_adv isEn h ->
  granted_within n isEn st h i n.
Proof.
  intros Hn H Hi Hk Hc. apply onehot_ptr in H. destruct H as [p [Hp ->]].
  pose proof (dist_lt n p i Hn) as Hd.
  destruct (fairness_ptr n isEn i h p Hn Hp Hi Hk) as [t [c [g [H1 [H2 [H3 [H4 H5]]]]]]]; [lia|].
  exists t, c, g. repeat (split; [assumption|]). lia.
Qed.

Lemma count_adv_plain h : count_adv false h = length h.
Proof. induction h as [|c h IH]; cbn [count_adv length advances negb orb]; [reflexivity|]. rewrite IH. reflexivity. Qed.

(* RoundRobinArbiter: a continuously requesting input is granted within n cycles *)
Theorem fairness_plain n st h i :
  0 < n -> onehot n st -> i < n -> keeps_requesting i h -> n <= length h ->
  exists t g, t < n /\ nth_error (run n false st h) t = Some g /\ nth i g false = true.
Proof.
  intros Hn H Hi Hk Hl.
  destruct (fairness n false st h i Hn H Hi Hk) as [t [c [g [H1 [H2 [H3 [H4 H5]]]]]]].
  { rewrite count_adv_plain. exact Hl. }
  exists t, g. split; [|split; assumption].
  rewrite count_adv_plain in H5. rewrite firstn_length in H5.
  assert (t < length h) by (apply nth_error_Some; congruence). lia.
Qed.

(* ------------------------------------------------------------------ every cycle of every history *)

Lemma run_nth n isEn h : forall p t c,
  0 < n -> p < n -> nth_error h t = Some c ->
  exists q, q < n /\ final_state n isEn (ptr_state n p) (firstn t h) = ptr_state n q /\
            nth_error (run n isEn (ptr_state n p) h) t = Some (to_list n (grants_of n (c_reqs c) (ptr_state n q))).
Proof.
  induction h as [|c0 h IH]; intros p t c Hn Hp Ht; [destruct t; discriminate|].
  destruct t as [|t]; cbn [nth_error] in Ht.
  - injection Ht as ->. exists p. split; [exact Hp|]. split; [reflexivity|].
    cbn [run nth_error]. reflexivity.
  - cbn [firstn final_state run nth_error]. rewrite step_refines by assumption. cbn [snd].
    apply IH; [exact Hn|apply spec_next_ptr_lt; assumption|exact Ht].
Qed.

(* In every cycle t of every history (resets and enable toggling included) started from a one-hot
   priority: the grant vector has n bits; it is zero when nothing is requested; otherwise exactly one
   bit is set and it is a requesting input — namely the first requester at or after the current pointer. *)
Theorem every_cycle n isEn st h t c :
  0 < n -> onehot n st -> nth_error h t = Some c ->
  exists g q, nth_error (run n isEn st h) t = Some g /\ length g = n /\
    q < n /\ final_state n isEn st (firstn t h) = ptr_state n q /\
    g = to_list n (spec_grants n (c_reqs c) q) /\
    ((forall i, i < n -> c_reqs c i = false) -> forall i, nth i g false = false) /\
    ((exists i, i < n /\ c_reqs c i = true) ->
       exists w, w < n /\ c_reqs c w = true /\ spec_grant_index n (c_reqs c) q = Some w /\
                 forall i, nth i g false = (i =? w)).
Proof.
  intros Hn H Ht. apply onehot_ptr in H. destruct H as [p [Hp ->]].
  destruct (run_nth n isEn h p t c Hn Hp Ht) as [q [Hq [Hf Hg]]].
  exists (to_list n (grants_of n (c_reqs c) (ptr_state n q))), q.
  split; [exact Hg|]. split; [apply to_list_length|]. split; [exact Hq|]. split; [exact Hf|].
  split; [apply grants_list_spec; assumption|]. split.
  - intros Hz i.
    change (of_list (to_list n (grants_of n (c_reqs c) (ptr_state n q))) i = false).
    rewrite of_list_to_list. destruct (i <? n); [|reflexivity].
    apply (proj2 (grants_zero_iff n (c_reqs c) q Hn Hq)). exact Hz.
  - intros Hex. destruct (grants_one_hot n (c_reqs c) q Hn Hq Hex) as [w [Hw [Hr [Hs Hall]]]].
    exists w. split; [exact Hw|]. split; [exact Hr|]. split; [exact Hs|]. intros i.
    change (of_list (to_list n (grants_of n (c_reqs c) (ptr_state n q))) i = (i =? w)).
    rewrite of_list_to_list, Hall. destruct (Nat.ltb_spec i n); [reflexivity|].
    symmetry. apply Nat.eqb_neq. lia.
Qed.

(* ------------------------------------------------------------------ least priority after a grant *)

(* the input granted last has the LEAST priority afterwards: with the pointer just past input i, i is
   granted only when no other input requests *)
Lemma last_granted_least_priority n reqs i j :
  0 < n -> i < n -> j < n -> j <> i -> reqs j = true ->
  spec_grants n reqs ((i + 1) mod n) i = false.
Proof.
  intros Hn Hi Hj Hne Hr. unfold spec_grants.
  destruct (spec_grant_index n reqs ((i + 1) mod n)) as [g|] eqn:E; [|reflexivity].
  apply Nat.eqb_neq. intros <-.
  apply spec_index_some in E; [|exact Hn|apply mod_lt'; exact Hn].
  destruct E as [_ [_ [k [Hk [Hg Hno]]]]].
  set (p := (i + 1) mod n) in *.
  assert (Hp : p = if i + 1 <? n then i + 1 else 0).
  { unfold p. rewrite (mod_wrap (i + 1) n) by lia. destruct (Nat.ltb_spec (i + 1) n); lia. }
  assert (Hpn : p < n) by (destruct (Nat.ltb_spec (i + 1) n); lia).
  rewrite (mod_wrap (p + k) n) in Hg by lia.
  set (d := if p <=? j then j - p else j + n - p).
  assert (Hd : d < k /\ (p + d) mod n = j).
  { unfold d. destruct (Nat.leb_spec p j).
    - split.
      + destruct (Nat.ltb_spec (p + k) n), (Nat.ltb_spec (i + 1) n); lia.
      + rewrite (mod_wrap (p + (j - p)) n) by lia.
        destruct (Nat.ltb_spec (p + (j - p)) n); lia.
    - split.
      + destruct (Nat.ltb_spec (p + k) n), (Nat.ltb_spec (i + 1) n); lia.
      + rewrite (mod_wrap (p + (j + n - p)) n) by lia.
        destruct (Nat.ltb_spec (p + (j + n - p)) n); lia. }
  destruct Hd as [Hd1 Hd2]. specialize (Hno d Hd1). rewrite Hd2, Hr in Hno. discriminate.
Qed.

(* model level: right after an advancing cycle in which input g was granted, g is granted again in the
   next cycle only if it is the sole requester *)
Theorem no_back_to_back_grant n isEn p c c' g j :
  0 < n -> p < n -> c_rst c = false -> advances isEn c = true ->
  spec_grant_index n (c_reqs c) p = Some g ->
  j < n -> j <> g -> c_reqs c' j = true ->
  nth g (fst (step n isEn (snd (step n isEn (ptr_state n p) c)) c')) false = false.
Proof.
  intros Hn Hp Hr Ha E Hj Hne Hreq.
  pose proof (spec_index_some n (c_reqs c) p g Hn Hp E) as [Hg _].
  rewrite (next_pointer n isEn p c g Hn Hp Hr E), Ha.
  rewrite step_refines by (try apply mod_lt'; assumption). cbn [fst].
  unfold to_list. rewrite nth_map_seq. destruct (Nat.ltb_spec g n); [|reflexivity].
  cbn [Nat.add]. apply (last_granted_least_priority n (c_reqs c') g j); assumption.
Qed.

(* ------------------------------------------------------------------ harness interface facts *)

Lemma zlist_eqb_eq a : forall b, zlist_eqb a b = true <-> a = b.
Proof.
  induction a as [|x a IH]; intros [|y b]; cbn [zlist_eqb]; try (split; [discriminate|discriminate]).
  - split; reflexivity.
  - rewrite andb_true_iff, Z.eqb_eq, IH. split; [intros [-> ->]; reflexivity|intros E; injection E; auto].
Qed.

(* what a passing correspondence case means: the observed integers are the specification's trace *)
Theorem replay_ok_sound isEn n h obs :
  0 < n -> replay_ok (isEn, false, n, h, obs) = true ->
  obs = map Z_of_list (spec_run n isEn 0 (map cyc_of_z h)).
Proof.
  intros Hn H. unfold replay_ok, replay in H. apply zlist_eqb_eq in H. subst obs.
  unfold reset_state. rewrite run_refines by lia. reflexivity.
Qed.
