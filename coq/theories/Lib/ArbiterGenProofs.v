(* Lib/ArbiterGenProofs.v — T-gen tie of C19: the designs in Gen/ArbiterGen.v (the REAL RoundRobinArbiter /
   RoundRobinArbiterEn of /repo at nreqs 2, 3, 4, translated block by block from their source on every run) compute,
   in one simulated cycle of the generic design evaluator RTL/Design.v, exactly the grants and the next priority
   register of the hand-written model Lib.Arbiter.step — the model every theorem of Props/C19.v is about.

   Each instance theorem is a finite fact (bound in its name: nreqs = 2, 3 or 4) established by exhaustive evaluation
   (vm_compute) over EVERY priority-register content (all 2^n values, one-hot or not), every request vector, both
   values of en and of reset, and two fillings of all the other signals (all wires 0 / all wires 1 before the cycle),
   then lifted to a quantified statement with forallb_forall (arb_cycle_spec).
   The *_any theorems remove the restriction on the other signals: by the determinism certificate det_tick
   (RTL/DesignProofs.v: every exposed read of every block is an input, a register or a bit definitely written by an
   earlier block) the grants and the next register are the same for ANY content of the wires before the cycle
   (arb_cycle_spec_any) — which is what an induction over request histories needs.  No axioms. *)
From PV Require Import Base.Prelude Bits.BitsSpec RTL.Syntax RTL.Eval Sched.Accept RTL.Footprint RTL.FootprintSound RTL.Design RTL.DesignProofs Lib.Arbiter Gen.ArbiterGen.
(* -- *)
Open Scope Z_scope.

Definition zrange (k : nat) : list Z := map Z.of_nat (seq 0 k).
Lemma zrange_in k z : 0 <= z < Z.of_nat k -> In z (zrange k).
Proof.
  intros H. unfold zrange. apply in_map_iff. exists (Z.to_nat z). split; [lia|]. apply in_seq. lia.
Qed.
Lemma bools_in (b : bool) : In b [false; true].
Proof. destruct b; cbn; auto. Qed.

(* the ports of a generated arbiter *)
Record arb_ports : Set := mkPorts { p_reset : nat; p_reqs : nat; p_grants : nat; p_prio : nat; p_en : option nat }.

(* the environment before the cycle: the other signals all zero (fill = false) or all ones (fill = true) *)
Definition arb_env (D : rdesign) (P : arb_ports) (fill : bool) (vp vq : Z) (ve vr : bool) : senv :=
  let e0 := map (fun t => if fill then 2 ^ swidth t - 1 else 0) (rd_shapes D) in
  let e1 := set_nth (p_reset P) (b2z vr) (set_nth (p_reqs P) vq (set_nth (p_prio P) vp e0)) in
  match p_en P with Some k => set_nth k (b2z ve) e1 | None => e1 end.

Definition arb_case (D : rdesign) (P : arb_ports) (n : nat) (isEn : bool) (fill : bool) (vp vq : Z) (ve vr : bool) : bool :=
  match sim_tick_obs D (arb_env D P fill vp vq ve vr) with
  | Ok (e1, e3) =>
      let r := Arbiter.step n isEn (to_list n (bv_of_Z vp)) (vr, ve, bv_of_Z vq) in
      (nth (p_grants P) e1 0 =? Z_of_list (fst r)) && (nth (p_prio P) e3 0 =? Z_of_list (snd r))
  | Err _ => false
  end.

Definition arb_all (D : rdesign) (P : arb_ports) (n : nat) (isEn : bool) : bool :=
  forallb (fun fill => forallb (fun vp => forallb (fun vq => forallb (fun ve => forallb (fun vr =>
    arb_case D P n isEn fill vp vq ve vr) [false; true]) [false; true]) (zrange (2 ^ n))) (zrange (2 ^ n))) [false; true].

(* what a passing case says *)
Definition arb_cycle_spec (D : rdesign) (P : arb_ports) (n : nat) (isEn : bool) : Prop :=
  forall (fill : bool) (vp vq : Z) (ve vr : bool), 0 <= vp < 2 ^ Z.of_nat n -> 0 <= vq < 2 ^ Z.of_nat n ->
  exists e1 e3,
    sim_tick_obs D (arb_env D P fill vp vq ve vr) = Ok (e1, e3) /\
    (* grants seen after sim_eval_combinational *)
    nth (p_grants P) e1 0 = Z_of_list (fst (Arbiter.step n isEn (to_list n (bv_of_Z vp)) (vr, ve, bv_of_Z vq))) /\
    (* priority register after sim_tick *)
    nth (p_prio P) e3 0 = Z_of_list (snd (Arbiter.step n isEn (to_list n (bv_of_Z vp)) (vr, ve, bv_of_Z vq))).

Lemma arb_all_sound D P n isEn : arb_all D P n isEn = true -> arb_cycle_spec D P n isEn.
Proof.
  unfold arb_all. intros H fill vp vq ve vr Hp Hq.
  rewrite forallb_forall in H. specialize (H fill (bools_in fill)).
  assert (E : 2 ^ Z.of_nat n = Z.of_nat (2 ^ n)) by (rewrite Nat2Z.inj_pow; reflexivity).
  rewrite E in Hp, Hq.
  rewrite forallb_forall in H. specialize (H vp (zrange_in _ _ Hp)).
  rewrite forallb_forall in H. specialize (H vq (zrange_in _ _ Hq)).
  rewrite forallb_forall in H. specialize (H ve (bools_in ve)).
  rewrite forallb_forall in H. specialize (H vr (bools_in vr)).
  unfold arb_case in H. destruct (sim_tick_obs D (arb_env D P fill vp vq ve vr)) as [[e1 e3]|]; [|discriminate].
  apply andb_prop in H. destruct H as [H1 H2]. exists e1, e3. split; [reflexivity|]. split; lia.
Qed.

(* ---- from "the other signals are all 0" to ANY content of the other signals (stale wires) ----
   det_tick (RTL/Design.v, proved in RTL/DesignProofs.v) certifies that what is observed is a function of the
   ports and the priority register only. *)
Definition arb_ids (P : arb_ports) : list nat :=
  p_reset P :: p_reqs P :: p_prio P :: match p_en P with Some k => [k] | None => [] end.
Definition arb_Q0 (P : arb_ports) (n : nat) : fp :=
  [(p_reset P, 0, 1); (p_reqs P, 0, Z.of_nat n); (p_prio P, 0, Z.of_nat n)] ++
  match p_en P with Some k => [(k, 0, 1)] | None => [] end.
Definition arb_det_ok (D : rdesign) (P : arb_ports) (n : nat) : bool :=
  wf_shapes (rd_shapes D) && nodup_b (arb_ids P) && forallb (fun k => Nat.ltb k (rd_nsig D)) (arb_ids P) &&
  match det_tick D (arb_Q0 P n) with
  | Some (Q1, Q2) => covers Q1 [(p_grants P, 0, Z.of_nat n)] && covers Q2 [(p_prio P, 0, Z.of_nat n)]
  | None => false
  end.

(* the strong form: e is ANY environment of the right length that carries the inputs and the register *)
Definition arb_cycle_spec_any (D : rdesign) (P : arb_ports) (n : nat) (isEn : bool) : Prop :=
  forall (e : senv) (vp vq : Z) (ve vr : bool), 0 <= vp < 2 ^ Z.of_nat n -> 0 <= vq < 2 ^ Z.of_nat n ->
  length e = rd_nsig D ->
  nth (p_reset P) e 0 = b2z vr -> nth (p_reqs P) e 0 = vq -> nth (p_prio P) e 0 = vp ->
  match p_en P with Some k => nth k e 0 = b2z ve | None => True end ->
  exists e1 e3,
    sim_tick_obs D e = Ok (e1, e3) /\
    (forall j, 0 <= j < Z.of_nat n ->
       Z.testbit (nth (p_grants P) e1 0) j = Z.testbit (Z_of_list (fst (Arbiter.step n isEn (to_list n (bv_of_Z vp)) (vr, ve, bv_of_Z vq)))) j) /\
    (forall j, 0 <= j < Z.of_nat n ->
       Z.testbit (nth (p_prio P) e3 0) j = Z.testbit (Z_of_list (snd (Arbiter.step n isEn (to_list n (bv_of_Z vp)) (vr, ve, bv_of_Z vq)))) j).

Lemma set_nth_length k v e : length (set_nth k v e) = length e.
Proof. revert k. induction e as [|x e IH]; intros k; [destruct k; reflexivity|]. destruct k; cbn [set_nth length]; [reflexivity|]. rewrite IH. reflexivity. Qed.
Lemma nth_set_nth_eq k v e : (k < length e)%nat -> nth k (set_nth k v e) 0 = v.
Proof.
  revert k. induction e as [|x e IH]; intros k H; [cbn in H; lia|]. destruct k; cbn [set_nth nth]; [reflexivity|].
  apply IH. cbn [length] in H. lia.
Qed.
Lemma nth_set_nth_ne k s v e : s <> k -> nth s (set_nth k v e) 0 = nth s e 0.
Proof.
  revert k s. induction e as [|x e IH]; intros k s H; [destruct k; reflexivity|]. destruct k; destruct s; cbn [set_nth nth]; try reflexivity; try congruence.
  apply IH. congruence.
Qed.

Lemma arb_env_ports D P vp vq ve vr :
  nodup_b (arb_ids P) = true -> forallb (fun k => Nat.ltb k (rd_nsig D)) (arb_ids P) = true ->
  nth (p_reset P) (arb_env D P false vp vq ve vr) 0 = b2z vr /\
  nth (p_reqs P) (arb_env D P false vp vq ve vr) 0 = vq /\
  nth (p_prio P) (arb_env D P false vp vq ve vr) 0 = vp /\
  match p_en P with Some k => nth k (arb_env D P false vp vq ve vr) 0 = b2z ve | None => True end /\
  length (arb_env D P false vp vq ve vr) = rd_nsig D.
Proof.
  intros Hnd Hlt. apply nodup_b_spec in Hnd. rewrite forallb_forall in Hlt.
  unfold arb_env, arb_ids in *. set (e0 := map (fun t : sshape => if false then 2 ^ swidth t - 1 else 0) (rd_shapes D)).
  assert (L0 : length e0 = rd_nsig D) by (unfold e0, rd_nsig; apply map_length).
  destruct (p_en P) as [k|].
  - inversion Hnd as [|? ? N1 Hnd1]; subst. inversion Hnd1 as [|? ? N2 Hnd2]; subst. inversion Hnd2 as [|? ? N3 Hnd3]; subst.
    cbn [In] in N1, N2, N3.
    assert (B : forall x, In x [p_reset P; p_reqs P; p_prio P; k] -> (x < rd_nsig D)%nat) by (intros x Hx; apply Nat.ltb_lt; apply Hlt; exact Hx).
    repeat split.
    + rewrite nth_set_nth_ne by lia. apply nth_set_nth_eq. rewrite !set_nth_length, L0. apply B. cbn; auto.
    + rewrite nth_set_nth_ne by lia. rewrite nth_set_nth_ne by lia. apply nth_set_nth_eq. rewrite !set_nth_length, L0. apply B. cbn; auto.
    + rewrite nth_set_nth_ne by lia. rewrite nth_set_nth_ne by lia. rewrite nth_set_nth_ne by lia.
      apply nth_set_nth_eq. rewrite L0. apply B. cbn; auto.
    + apply nth_set_nth_eq. rewrite !set_nth_length, L0. apply B. cbn; auto.
    + rewrite !set_nth_length. exact L0.
  - inversion Hnd as [|? ? N1 Hnd1]; subst. inversion Hnd1 as [|? ? N2 Hnd2]; subst.
    cbn [In] in N1, N2.
    assert (B : forall x, In x [p_reset P; p_reqs P; p_prio P] -> (x < rd_nsig D)%nat) by (intros x Hx; apply Nat.ltb_lt; apply Hlt; exact Hx).
    repeat split.
    + apply nth_set_nth_eq. rewrite !set_nth_length, L0. apply B. cbn; auto.
    + rewrite nth_set_nth_ne by lia. apply nth_set_nth_eq. rewrite !set_nth_length, L0. apply B. cbn; auto.
    + rewrite nth_set_nth_ne by lia. rewrite nth_set_nth_ne by lia.
      apply nth_set_nth_eq. rewrite L0. apply B. cbn; auto.
    + rewrite !set_nth_length. exact L0.
Qed.

Lemma arb_any D P n isEn : arb_det_ok D P n = true -> arb_cycle_spec D P n isEn -> arb_cycle_spec_any D P n isEn.
Proof.
  unfold arb_det_ok. intros Hd Hs e vp vq ve vr Hp Hq Le Er Eq Ep Ee.
  apply andb_prop in Hd. destruct Hd as [Hd Hdet]. apply andb_prop in Hd. destruct Hd as [Hd Hlt].
  apply andb_prop in Hd. destruct Hd as [Ws Hnd].
  destruct (det_tick D (arb_Q0 P n)) as [[Q1 Q2]|] eqn:Dt; [|discriminate].
  apply andb_prop in Hdet. destruct Hdet as [C1 C2].
  destruct (arb_env_ports D P vp vq ve vr Hnd Hlt) as (Ar & Aq & Ap & Ae & Al).
  destruct (Hs false vp vq ve vr Hp Hq) as (c1 & c3 & Hc & Hg & Hpr).
  assert (A : eagree (mem_fp (arb_Q0 P n)) e (arb_env D P false vp vq ve vr)).
  { split; [rewrite Le, Al; reflexivity|]. intros s j Hm. unfold arb_Q0 in Hm. rewrite mem_fp_app in Hm.
    apply orb_prop in Hm. destruct Hm as [Hm|Hm].
    - unfold mem_fp in Hm. cbn [existsb] in Hm. unfold in_ivl in Hm. cbn [iroot ilo ihi fst snd] in Hm.
      destruct (Nat.eqb_spec s (p_reset P)) as [->|]; [rewrite Er, Ar; reflexivity|].
      destruct (Nat.eqb_spec s (p_reqs P)) as [->|]; [rewrite Eq, Aq; reflexivity|].
      destruct (Nat.eqb_spec s (p_prio P)) as [->|]; [rewrite Ep, Ap; reflexivity|].
      cbn in Hm. discriminate.
    - destruct (p_en P) as [k|]; [|discriminate]. rewrite mem_single in Hm.
      destruct (Nat.eqb_spec s k) as [->|]; [rewrite Ee, Ae; reflexivity|]. cbn in Hm. discriminate. }
  pose proof (sim_tick_obs_det D _ Q1 Q2 e _ Ws Dt A) as O. rewrite Hc in O.
  destruct (sim_tick_obs D e) as [[e1 e3]|x]; [|destruct O]. destruct O as [[_ O1] [_ O3]].
  exists e1, e3. split; [reflexivity|]. split; intros j Hj.
  - rewrite <- Hg. apply O1. apply (covers_sound _ _ C1). rewrite mem_single, Nat.eqb_refl. cbn [andb]. lia.
  - rewrite <- Hpr. apply O3. apply (covers_sound _ _ C2). rewrite mem_single, Nat.eqb_refl. cbn [andb]. lia.
Qed.

Definition P_rr2 := mkPorts rr2_reset rr2_reqs rr2_grants rr2_prio rr2_en.
Definition P_rr3 := mkPorts rr3_reset rr3_reqs rr3_grants rr3_prio rr3_en.
Definition P_rr4 := mkPorts rr4_reset rr4_reqs rr4_grants rr4_prio rr4_en.
Definition P_rren2 := mkPorts rren2_reset rren2_reqs rren2_grants rren2_prio rren2_en.
Definition P_rren3 := mkPorts rren3_reset rren3_reqs rren3_grants rren3_prio rren3_en.
Definition P_rren4 := mkPorts rren4_reset rren4_reqs rren4_grants rren4_prio rren4_en.

(* (the nreqs = 4 instances are proved in Lib/ArbiterGenProofs_rr4.v and Lib/ArbiterGenProofs_rren4.v) *)

(* the generated terms are legal designs and the order pymtl3 scheduled is accepted by the certified acceptor on the
   PROVED footprints (so, by C01_rtl_accepted_schedules_agree, every other accepted order computes the same) *)
Lemma gen_arbiters_ok : forallb rd_ok [rr2; rr3; rr4; rren2; rren3; rren4] = true.
Proof. vm_compute. reflexivity. Qed.
(* the variant without en really has no en port, the other one has *)
Lemma gen_arbiters_en_ports : (rr2_en, rr3_en, rr4_en) = (None, None, None) /\ rren2_en <> None /\ rren3_en <> None /\ rren4_en <> None.
Proof. repeat split; discriminate. Qed.

Theorem rr_gen_eq_model_nreqs2 : arb_cycle_spec rr2 P_rr2 2 false.
Proof. apply arb_all_sound. vm_cast_no_check (eq_refl true). Qed.
Theorem rr_gen_eq_model_nreqs3 : arb_cycle_spec rr3 P_rr3 3 false.
Proof. apply arb_all_sound. vm_cast_no_check (eq_refl true). Qed.
Theorem rren_gen_eq_model_nreqs2 : arb_cycle_spec rren2 P_rren2 2 true.
Proof. apply arb_all_sound. vm_cast_no_check (eq_refl true). Qed.
Theorem rren_gen_eq_model_nreqs3 : arb_cycle_spec rren3 P_rren3 3 true.
Proof. apply arb_all_sound. vm_cast_no_check (eq_refl true). Qed.

(* the determinism certificate holds for every generated instance *)
Lemma gen_arbiters_det : arb_det_ok rr2 P_rr2 2 && arb_det_ok rr3 P_rr3 3 && arb_det_ok rr4 P_rr4 4 &&
                         arb_det_ok rren2 P_rren2 2 && arb_det_ok rren3 P_rren3 3 && arb_det_ok rren4 P_rren4 4 = true.
Proof. vm_compute. reflexivity. Qed.

Theorem rr_gen_eq_model_any_nreqs2 : arb_cycle_spec_any rr2 P_rr2 2 false.
Proof. apply arb_any; [vm_compute; reflexivity|exact rr_gen_eq_model_nreqs2]. Qed.
Theorem rr_gen_eq_model_any_nreqs3 : arb_cycle_spec_any rr3 P_rr3 3 false.
Proof. apply arb_any; [vm_compute; reflexivity|exact rr_gen_eq_model_nreqs3]. Qed.
Theorem rren_gen_eq_model_any_nreqs2 : arb_cycle_spec_any rren2 P_rren2 2 true.
Proof. apply arb_any; [vm_compute; reflexivity|exact rren_gen_eq_model_nreqs2]. Qed.
Theorem rren_gen_eq_model_any_nreqs3 : arb_cycle_spec_any rren3 P_rren3 3 true.
Proof. apply arb_any; [vm_compute; reflexivity|exact rren_gen_eq_model_nreqs3]. Qed.
