(* Lib/QueueGenProofs_2.v — the 2-entry instances of Lib/QueueGenProofs.v: generated Normal / Pipe / Bypass queue = crtl_step,
   for every head, tail < 2, count <= 2, register-file words over [0; 1; 2; 3], messages over 0..3, reset, enq.en, deq.en. *)
From PV Require Import Base.Prelude RTL.Design Lib.Fifo Lib.QueueRTL Gen.QueueGen Lib.QueueGenProofs.
(* -- *)
Open Scope Z_scope.
Theorem nq_gen_eq_model_entries2 : qm_spec nq2 P_nq2 R_nq2 Normal 2 [0; 1; 2; 3].
Proof. apply qm_all_sound. vm_cast_no_check (eq_refl true). Qed.
Theorem pq_gen_eq_model_entries2 : qm_spec pq2 P_pq2 R_pq2 Pipe 2 [0; 1; 2; 3].
Proof. apply qm_all_sound. vm_cast_no_check (eq_refl true). Qed.
Theorem bq_gen_eq_model_entries2 : qm_spec bq2 P_bq2 R_bq2 Bypass 2 [0; 1; 2; 3].
Proof. apply qm_all_sound. vm_cast_no_check (eq_refl true). Qed.
