(* Lib/ArbiterGenProofs_rren4.v — the nreqs = 4 instance of Lib/ArbiterGenProofs.v (its own file so that make builds
   the two 4-input instances in parallel; 2 x 16 x 16 x 2 x 2 simulated cycles each). *)
From PV Require Import Base.Prelude RTL.Design Lib.Arbiter Gen.ArbiterGen Lib.ArbiterGenProofs.
(* -- *)
Theorem rren_gen_eq_model_nreqs4 : arb_cycle_spec rren4 P_rren4 4 true.
Proof. apply arb_all_sound. vm_cast_no_check (eq_refl true). Qed.

Theorem rren_gen_eq_model_any_nreqs4 : arb_cycle_spec_any rren4 P_rren4 4 true.
Proof. apply arb_any; [vm_compute; reflexivity|exact rren_gen_eq_model_nreqs4]. Qed.
