(* Lib/ArbiterGenProofs_rr4.v — the nreqs = 4 instance of Lib/ArbiterGenProofs.v (its own file so that make builds
   the two 4-input instances in parallel; 2 x 16 x 16 x 2 x 2 simulated cycles each). *)
From PV Require Import Base.Prelude RTL.Design Lib.Arbiter Gen.ArbiterGen Lib.ArbiterGenProofs.
(* -- *)
Theorem rr_gen_eq_model_nreqs4 : arb_cycle_spec rr4 P_rr4 4 false.
Proof. apply arb_all_sound. vm_cast_no_check (eq_refl true). Qed.

Theorem rr_gen_eq_model_any_nreqs4 : arb_cycle_spec_any rr4 P_rr4 4 false.
Proof. apply arb_any; [vm_compute; reflexivity|exact rr_gen_eq_model_nreqs4]. Qed.
