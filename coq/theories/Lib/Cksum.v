(* Lib/Cksum.v — models of the tutorial checksum unit (examples/ex02_cksum).  Definitions only, no proofs.

   cksum_fl   mirrors ChecksumFL.checksum : Bits16 accumulators, `( sum1 + word ) & 0xffff` where `+` is the
              Bits16 addition (exact mod 2^16, property C04) and `&` the mask; result concat( sum2, sum1 ).
   cksum_rtl  mirrors ChecksumRTL : a chain of StepUnits on Bits32 wires
                 temp1 = zext(word_in,32) + sum1_in ; sum1_out = temp1 & 0xffff
                 temp2 = sum1_out + sum2_in         ; sum2_out = temp2 & 0xffff
              first unit fed with 0/0, send.msg = ( sum2 << 16 ) | sum1 on Bits32.
   cksum_spec the specification: the two running sums modulo 65536, result = sum2 * 65536 + sum1.
   pack_words / unpack_words : utils.words_to_b128 (reduce( lambda x, y: concat( y, x ) )) and
              utils.b128_to_words / the RTL slices in_q.deq.ret[i*16:(i+1)*16]. *)
From PV Require Import Base.Prelude.
Open Scope Z_scope.

Definition M16 : Z := 65536.
Definition M32 : Z := 4294967296.

(* Bits arithmetic as pymtl3 computes it (C04): n-bit `+` wraps, `& k` is a bitwise and, `<<` drops high bits *)
Definition add16 (a b : Z) : Z := (a + b) mod M16.
Definition add32 (a b : Z) : Z := (a + b) mod M32.
Definition shl32 (a k : Z) : Z := (Z.shiftl a k) mod M32.

(* ---------------- ChecksumFL.checksum ---------------- *)
Definition fl_step (st : Z * Z) (w : Z) : Z * Z :=
  let '(sum1, sum2) := st in
  let sum1' := Z.land (add16 sum1 w) 65535 in
  let sum2' := Z.land (add16 sum2 sum1') 65535 in
  (sum1', sum2').

Definition cksum_fl (ws : list Z) : Z :=
  let '(sum1, sum2) := fold_left fl_step ws (0, 0) in
  (* concat( sum2, sum1 ) of two Bits16 *)
  Z.lor (Z.shiftl sum2 16) sum1.

(* ---------------- ChecksumRTL: StepUnit chain ---------------- *)
Definition step_unit (st : Z * Z) (word_in : Z) : Z * Z :=
  let '(sum1_in, sum2_in) := st in
  let temp1 := add32 word_in sum1_in in           (* zext(word_in,32) + sum1_in *)
  let sum1_out := Z.land temp1 65535 in
  let temp2 := add32 sum1_out sum2_in in
  let sum2_out := Z.land temp2 65535 in
  (sum1_out, sum2_out).

Definition cksum_rtl (ws : list Z) : Z :=
  let '(sum1, sum2) := fold_left step_unit ws (0, 0) in
  Z.lor (shl32 sum2 16) sum1.

(* ---------------- specification ---------------- *)
Definition spec_step (st : Z * Z) (w : Z) : Z * Z :=
  let s1 := (fst st + w) mod M16 in (s1, (snd st + s1) mod M16).

Definition cksum_spec (ws : list Z) : Z :=
  let '(s1, s2) := fold_left spec_step ws (0, 0) in s2 * M16 + s1.

(* closed form of the two sums for eight words *)
Definition cksum_closed8 (w0 w1 w2 w3 w4 w5 w6 w7 : Z) : Z :=
  ((8*w0 + 7*w1 + 6*w2 + 5*w3 + 4*w4 + 3*w5 + 2*w6 + w7) mod M16) * M16
  + (w0 + w1 + w2 + w3 + w4 + w5 + w6 + w7) mod M16.

Definition word16 (w : Z) : Prop := 0 <= w < M16.
Definition words16 (ws : list Z) : Prop := Forall word16 ws.

(* ---------------- message packing ---------------- *)
(* reduce( lambda x, y: concat( y, x ), words ): the accumulator x (nbits wide) becomes the LOW part *)
Definition pack_step (acc : Z * Z) (y : Z) : Z * Z :=
  let '(nbits, x) := acc in (nbits + 16, Z.lor (Z.shiftl y nbits) x).

Definition pack_words (ws : list Z) : Z * Z :=
  match ws with
  | [] => (0, 0)
  | w :: rest => fold_left pack_step rest (16, w)
  end.

(* bits[i*16:(i+1)*16] *)
Definition word_of (msg : Z) (i : Z) : Z := (Z.shiftr msg (16 * i)) mod M16.

Definition unpack_words (msg : Z) : list Z :=
  map (word_of msg) [0; 1; 2; 3; 4; 5; 6; 7].

(* boolean helpers used by the correspondence files *)
Definition words16b (ws : list Z) : bool := forallb (fun w => (0 <=? w) && (w <? M16)) ws.
