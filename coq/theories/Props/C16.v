(* Props/C16.v — property C16: waveform dumps replay the simulation exactly.
   ONLY statements, each closed by `exact`/`apply`, each followed by Print Assumptions.
   Model: Trace/Vcd.v (writer = VcdGenerationPass + Bits.to_vcd_str; reader = plain VCD semantics).
   The writer model is compared character-for-character with the real .vcd body on every run, and the
   reader (`decode`) is run on the real file against the values sampled in the simulator (harness/c16.py). *)
From PV Require Import Base.Prelude Trace.Vcd Trace.VcdProofs.
(* stdlib strings *)
From Coq Require Import Strings.Ascii Strings.String.
Open Scope Z_scope.

(* Bits.to_vcd_str read back gives the width and the value, for every width and value, whatever
   identifier code follows on the line *)
Theorem C16_vcd_str_roundtrip n u sym :
  0 < n -> 0 <= u < 2 ^ n -> nonempty sym = true ->
  parse_change (to_vcd_str n u ++ sym)%string = Some (n, u, sym).
Proof. exact (vcd_str_roundtrip n u sym). Qed.

(* 1-bit: a single 0/1 character, no `b`, no space; otherwise b + n zero-padded digits + space *)
Theorem C16_one_bit_form u : 0 <= u < 2 ->
  to_vcd_str 1 u = String (if u =? 1 then "1"%char else "0"%char) EmptyString.
Proof. exact (to_vcd_str_one_bit u). Qed.
Theorem C16_multi_bit_form n u : n <> 1 ->
  to_vcd_str n u = String "b"%char (bits_msb (Z.to_nat n) u ++ String " "%char EmptyString)%string
  /\ String.length (bits_msb (Z.to_nat n) u) = Z.to_nat n.
Proof. exact (to_vcd_str_multi_bit_form n u). Qed.

(* the identifier-code generator never gives two nets the same code *)
Theorem C16_symbol_inj n m : 0 <= n -> 0 <= m -> symbol_of n = symbol_of m -> n = m.
Proof. exact (symbol_inj n m). Qed.
Theorem C16_symbols_distinct n : NoDup (all_syms n).
Proof. exact (all_syms_NoDup n). Qed.

(* decode (encode tr) = tr: any number of nets, any widths, clock net anywhere, any number of cycles,
   any value sequence (revisited values, nets that never change, all-zero first rows are inside the
   quantifier); the encoder prints the defaults, then per cycle only the nets whose string differs from
   last_values (indexed as the code indexes it) *)
Theorem C16_encode_decode ws k tr : wf_widths ws k -> wf_trace ws k tr ->
  decode (vcd_clk ws k) (remove_nth k (all_syms (List.length ws))) (vcd_body ws k tr)
  = expected_rows (remove_nth k ws) tr.
Proof. exact (encode_decode ws k tr). Qed.
Theorem C16_encode_decode_values ws k tr : wf_widths ws k -> wf_trace ws k tr ->
  decode_values (vcd_clk ws k) (remove_nth k (all_syms (List.length ws))) (vcd_body ws k tr) = Some tr.
Proof. exact (encode_decode_values ws k tr). Qed.
(* ... and on the characters of the value-change lines *)
Theorem C16_encode_decode_lines ws k tr : wf_widths ws k -> wf_trace ws k tr ->
  decode_lines (vcd_clk ws k) (remove_nth k (all_syms (List.length ws))) (vcd_lines ws k tr)
  = Some (expected_rows (remove_nth k ws) tr).
Proof. exact (encode_decode_lines ws k tr). Qed.

(* the clock read back: low before #0, high at 100t and low at 100t+50 for each cycle t < N, high at 100N *)
Theorem C16_clock_toggles ws k tr : wf_widths ws k -> wf_trace ws k tr ->
  clock_wave (vcd_clk ws k) (vcd_body ws k tr) = expected_clock (List.length tr).
Proof. exact (clock_toggles ws k tr). Qed.

(* signals declared with one identifier code (one net) read back equal in every cycle *)
Theorem C16_net_share clk syms toks r i j :
  In r (decode clk syms toks) -> nth i syms EmptyString = nth j syms EmptyString ->
  (i < List.length syms)%nat -> (j < List.length syms)%nat ->
  nth i r None = nth j r None.
Proof. exact (net_share clk syms toks r i j). Qed.

(* the acceptor run on the real file: `true` means the reader gave exactly the sampled values *)
Theorem C16_acceptor_sound ws tr got : rows_match ws tr got = true -> Forall2 (Forall2 shows) tr got.
Proof. exact (rows_match_sound ws tr got). Qed.
Theorem C16_acceptor_complete ws tr :
  Forall (fun w => 0 < w) ws -> Forall (fun vals => List.length ws = List.length vals) tr ->
  rows_match ws tr (expected_rows ws tr) = true.
Proof. exact (rows_match_expected ws tr). Qed.

(* non-vacuity: a 3-net dump (clock in the middle) whose trace revisits a value, keeps a net constant
   and starts all-zero satisfies the hypotheses, and computes *)
Example C16_nonvacuous :
  wf_widths [4; 1; 3] 1 /\ wf_trace [4; 1; 3] 1 [[0; 0]; [5; 0]; [0; 0]; [5; 0]]
  /\ decode_lines (vcd_clk [4; 1; 3] 1) (remove_nth 1 (all_syms 3)) (vcd_lines [4; 1; 3] 1 [[0; 0]; [5; 0]; [0; 0]; [5; 0]])
     = Some [[Some (4, 0); Some (3, 0)]; [Some (4, 5); Some (3, 0)]; [Some (4, 0); Some (3, 0)]; [Some (4, 5); Some (3, 0)]].
Proof.
  split; [|split].
  - unfold wf_widths. cbn [List.length nth]. split; [lia|]. split; [reflexivity|]. repeat constructor.
  - unfold wf_trace. cbn [remove_nth]. repeat constructor; cbn; lia.
  - vm_compute. reflexivity.
Qed.
Example C16_nonvacuous_wide : parse_change (to_vcd_str 100 (2 ^ 100 - 1) ++ symbol_of 9000)%string
  = Some (100, 2 ^ 100 - 1, symbol_of 9000).
Proof. vm_compute. reflexivity. Qed.

Print Assumptions C16_vcd_str_roundtrip. Print Assumptions C16_one_bit_form. Print Assumptions C16_multi_bit_form.
Print Assumptions C16_symbol_inj. Print Assumptions C16_symbols_distinct.
Print Assumptions C16_encode_decode. Print Assumptions C16_encode_decode_values. Print Assumptions C16_encode_decode_lines.
Print Assumptions C16_clock_toggles. Print Assumptions C16_net_share.
Print Assumptions C16_acceptor_sound. Print Assumptions C16_acceptor_complete.
