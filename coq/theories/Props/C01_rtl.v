(* Props/C01_rtl.v — property C01 for update blocks inside the RTL language of RTL/Syntax.v:
   the frame / dep hypotheses of the scheduling theorems are THEOREMS about the syntactic footprints computed by
   RTL/Footprint.v, for the big-step semantics of RTL/Eval.v.   ONLY statements closed by exact/apply + Print Assumptions.

   Covered: every constructor of RTL/Syntax.v —
     expressions  ESig ELit ESized EFree ECast EBin ECmp EInv ESlice EIdx EConcat EZext ESext ETrunc ERed EIf ETmp ELoop
     targets      LSig (signal / struct field, @= and <<=)  LSlice  LIndex (constant, loop-variable or computed index)  LTmp
     statements   SAssign  SIf (any nesting)  SFor (constant bounds, any nesting; the loop variable ranges over the loop)
   including the error outcomes of the evaluator.
   (a)-(c) frame / dep and confluence (accepted_schedules_agree) with no footprint hypothesis;
   (d)-(e) strong dependence ("no latch") at block level and for the design evaluator RTL/Design.v;
   (f)     the fixed-point half: C01_rtl_accepted_schedule_fixed_point instantiates the fixed-point theorem of Sched with NO
           sdep hypothesis, for designs satisfying the boolean certificate rtl_fixed_ok, on every pass along which no
           block raises (a raising block returns the environment unchanged in rtl_run, so unconditional `sdep` is false;
           Sched/CondFixed.v is the conditional form of topo_fixed_point, also allowing declared writes larger than the
           real ones).
   Not covered: blocks outside the language (method calls, ...), for which the translator returns None; designs with a
   latch or with a block that reads back bits it writes itself fail the certificate of (f) (nsl_ok on the DECLARED reads). *)
From Coq Require Import ZArith List Bool Arith Lia Permutation.
Import ListNotations.
From PV Require Import Base.Prelude Bits.BitsSpec RTL.Syntax RTL.Eval Sched.Block Sched.Confluence Sched.Accept RTL.Footprint RTL.FootprintSound RTL.FlowSound RTL.Design RTL.DesignProofs Sched.CondFixed RTL.RtlFixed.
Open Scope Z_scope.

(* (a) frame: a block changes only bits inside its syntactic write footprint (now, and after the clock edge) *)
Theorem C01_rtl_exec_frame G b st st' : wf_declsb G = true -> st_ok st -> (forall s, nxtv st s = None) ->
  exec_block G b st = Ok st' ->
  forall s j, block_wr G b (s, j) = false ->
    Z.testbit (sigv st' s) j = Z.testbit (sigv st s) j /\ Z.testbit (final_sig st' s) j = Z.testbit (sigv st s) j.
Proof. exact (exec_frame G b st st'). Qed.

(* (b) dependence: the outcome (error class included) and every written bit depend only on the bits in the read
   footprint and on the previous values of the written bits *)
Theorem C01_rtl_exec_dep G b st1 st2 : wf_declsb G = true -> st_ok st1 ->
  rel (fun v => block_rd G b v || block_wr G b v) st1 st2 ->
  match exec_block G b st1, exec_block G b st2 with
  | Ok a, Ok c => forall s j, block_wr G b (s, j) = true ->
                    Z.testbit (sigv a s) j = Z.testbit (sigv c s) j /\
                    Z.testbit (final_sig a s) j = Z.testbit (final_sig c s) j
  | Err x, Err y => x = y
  | _, _ => False
  end.
Proof. exact (exec_dep G b st1 st2). Qed.

(* the same for the observable that the harness compares with the simulator (Eval.run_block on input vectors) *)
Theorem C01_rtl_run_block_dep G nsig b i1 i2 : wf_declsb G = true ->
  (forall s j, block_rd G b (s, j) || block_wr G b (s, j) = true -> Z.testbit (nth s i1 0) j = Z.testbit (nth s i2 0) j) ->
  match run_block G nsig b i1, run_block G nsig b i2 with
  | Ok (o1, _), Ok (o2, _) =>
      forall s j, (s < nsig)%nat -> block_wr G b (s, j) = true -> Z.testbit (nth s o1 0) j = Z.testbit (nth s o2 0) j
  | Err x, Err y => x = y
  | _, _ => False
  end.
Proof. exact (run_block_dep G nsig b i1 i2). Qed.

(* (c) a block of the language, as a Sched.Block.blk over single bits, satisfies frame and dep for its computed
   footprints ... *)
Theorem C01_rtl_frame G b : wf_declsb G = true -> frame (rtl_blk G b).
Proof. intros W. exact (rtl_frame G W b). Qed.
Theorem C01_rtl_dep G b : wf_declsb G = true -> dep (rtl_blk G b).
Proof. intros W. exact (rtl_dep G W b). Qed.

(* ... and for any DECLARED footprints (pymtl3's) that cover the computed ones *)
Theorem C01_rtl_blk_footprints G b (rdD wrD : fp) : wf_declsb G = true ->
  covers rdD (reads_d G b) = true -> covers wrD (writes_d G b) = true ->
  frame (mkBlk (mem_fp rdD) (mem_fp wrD) (rtl_run G b)) /\ dep (mkBlk (mem_fp rdD) (mem_fp wrD) (rtl_run G b)).
Proof. exact (rtl_blk_footprints G b rdD wrD). Qed.

Theorem C01_rtl_covers_sound D C : covers D C = true -> forall v, mem_fp C v = true -> mem_fp D v = true.
Proof. exact (covers_sound D C). Qed.

(* end-to-end: Sched.Accept.accepted_schedules_agree with NO footprint hypothesis — for a design all of whose blocks
   are in the language (progs i = translated body of block i; d = observed design with pymtl3's declared footprints),
   two observed schedules accepted by sched_ok compute the same value for every bit *)
Theorem C01_rtl_accepted_schedules_agree (G : decls) (progs : nat -> list stmt) (d : design) :
  wf_declsb G = true -> wf_design d = true -> sw_ok d = true -> rtl_cover_ok G progs d = true ->
  forall o1 o2, sched_ok d o1 = true -> sched_ok d o2 = true ->
  forall e, eqe (run_list (Bd d (fun i => rtl_run G (progs i))) o1 e)
                (run_list (Bd d (fun i => rtl_run G (progs i))) o2 e).
Proof. exact (rtl_accepted_schedules_agree G progs d). Qed.

(* the same when only some blocks are in the language (inl i): footprint hypotheses remain only for the others *)
Theorem C01_rtl_mixed_schedules_agree (G : decls) (progs : nat -> list stmt) (inl : nat -> bool)
        (R0 : nat -> env bit bool -> env bit bool) (d : design) :
  wf_declsb G = true -> wf_design d = true -> sw_ok d = true -> mixed_cover_ok G progs inl d = true ->
  (forall i, In i (ids d) -> inl i = false -> frame (Bd d R0 i) /\ dep (Bd d R0 i)) ->
  forall o1 o2, sched_ok d o1 = true -> sched_ok d o2 = true ->
  forall e, eqe (run_list (Bd d (mixed_run G progs inl R0)) o1 e) (run_list (Bd d (mixed_run G progs inl R0)) o2 e).
Proof. exact (rtl_mixed_schedules_agree G progs inl R0 d). Qed.

(* (d) no latch / strong dependence: two states that agree on the EXPOSED reads of a block (reads of bits the block has
   not itself definitely written before, on every path) give the same outcome and the same value for every definitely
   written bit (must_d), whatever those bits held before.  Whole language, flow-sensitive through if / for. *)
Theorem C01_rtl_exec_sdep G b (P : bit -> bool) st1 st2 : wf_declsb G = true -> st_ok st1 ->
  xsub (xreads_d G b) P -> rel2 P [] st1 st2 ->
  out_rel2 P (must_d G b) (exec_block G b st1) (exec_block G b st2).
Proof. exact (exec_sdep G b P st1 st2). Qed.

(* (e) whole designs (RTL/Design.v): if the certificate det_pass / det_tick accepts, the values after
   sim_eval_combinational / sim_tick are a function of the bits in Q (inputs and registers) only — stale values of the
   wires do not matter, and an exception is raised for both environments or for neither *)
Theorem C01_rtl_sim_eval_comb_det (D : rdesign) Q Q1 e1 e2 : wf_shapes (rd_shapes D) = true ->
  det_pass (rd_decls D) (rd_comb D) Q = Some Q1 -> eagree (mem_fp Q) e1 e2 ->
  match sim_eval_comb D e1, sim_eval_comb D e2 with
  | Ok a, Ok c => eagree (mem_fp Q1) a c
  | Err x, Err y => x = y
  | _, _ => False
  end.
Proof. exact (sim_eval_comb_det D Q Q1 e1 e2). Qed.

Theorem C01_rtl_sim_tick_det (D : rdesign) Q Q1 Q2 e1 e2 : wf_shapes (rd_shapes D) = true ->
  det_tick D Q = Some (Q1, Q2) -> eagree (mem_fp Q) e1 e2 ->
  match sim_tick_obs D e1, sim_tick_obs D e2 with
  | Ok (a1, a3), Ok (c1, c3) => eagree (mem_fp Q1) a1 c1 /\ eagree (mem_fp Q2) a3 c3
  | Err x, Err y => x = y
  | _, _ => False
  end.
Proof. exact (sim_tick_obs_det D Q Q1 Q2 e1 e2). Qed.

(* (f) the fixed-point half of C01 with NO sdep hypothesis.  d carries the declared footprints, progs the translated
   bodies; the certificate rtl_fixed_ok (boolean) says: declared footprints cover the proved ones, every block assigns
   signals with @= only, has no latch (everything it may write it definitely writes) and its exposed reads are declared
   reads.  Then for every accepted schedule o and every environment e on which no block raises along the pass:
   afterwards every block is at its fixed point, running the whole pass again changes no bit, and every other
   accepted schedule computes the same environment.  (Sched/CondFixed.v: conditional form of topo_fixed_point; a
   raising block stops the simulation, nothing is claimed for such passes.) *)
Theorem C01_rtl_accepted_schedule_fixed_point (G : decls) (progs : nat -> list stmt) (d : design) :
  wf_declsb G = true -> wf_design d = true -> sw_ok d = true -> nsl_ok d = true -> noinv_ok d = true ->
  rtl_fixed_ok G progs d = true ->
  forall o, sched_ok d o = true -> forall e, rtl_no_raise G progs d o e ->
    (forall i, In i (ids d) -> fixed_under (Bd d (rtl_R G progs)) i (run_list (Bd d (rtl_R G progs)) o e)) /\
    eqe (run_list (Bd d (rtl_R G progs)) o (run_list (Bd d (rtl_R G progs)) o e)) (run_list (Bd d (rtl_R G progs)) o e) /\
    (forall o2, sched_ok d o2 = true -> eqe (run_list (Bd d (rtl_R G progs)) o2 e) (run_list (Bd d (rtl_R G progs)) o e)).
Proof. exact (rtl_accepted_schedule_fixed_point G progs d). Qed.

(* the table computed from signal shapes (first field most significant) is a legal declaration table *)
Theorem C01_rtl_decls_of_wf T : wf_shapes T = true -> wf_declsb (decls_of T) = true.
Proof. exact (decls_of_wf T). Qed.

(* non-vacuity: a three-block design over a struct signal and two vectors —
     b0:  s1[0:4] @= s0.a[2:6]                  (s0 : struct { a : Bits8 ; b : Bits4 })
     b1:  for i in range(4): s1[4+i] @= s0.b[3-i] ^ s2[i]
     b2:  if s1[0]: s3 @= zext(s1, 12) else: s3 @= s0                       (reads what b0 and b1 write)
   the declared footprints are the whole-signal ones pymtl3 gives for the loop block; both orders b0 b1 b2 / b1 b0 b2
   are accepted and therefore agree *)
Definition exT : sigshapes := [ShStruct [ShBits 8; ShBits 4]; ShBits 8; ShBits 4; ShBits 12].
Definition exProgs (i : nat) : list stmt :=
  match i with
  | 0%nat => [SAssign 0%nat (LSlice 1%nat [] (ELit 0) (ELit 4)) (ESlice (ESig 0%nat [0%nat]) (ELit 2) (ELit 6)) true]
  | 1%nat => [SFor 0%nat 0 4 1
               [SAssign 1%nat (LIndex 1%nat [] (EBin Add (ELit 4) (ELoop 0%nat)))
                        (EBin Xor (EIdx (ESig 0%nat [1%nat]) (EBin Sub (ELit 3) (ELoop 0%nat))) (EIdx (ESig 2%nat []) (ELoop 0%nat))) true]]
  | 2%nat => [SIf 2%nat (EIdx (ESig 1%nat []) (ELit 0))
                [SAssign 3%nat (LSig 3%nat []) (EZext 12 (ESig 1%nat [])) true]
                [SAssign 4%nat (LSig 3%nat []) (ESig 0%nat []) true]]
  | _ => []
  end.
Definition exD : design :=
  mkDesign 3
    (fun i => match i with 0%nat => [(0%nat, 6, 10)] | 1%nat => [(0%nat, 0, 4); (2%nat, 0, 4)] | 2%nat => [(1%nat, 0, 8); (0%nat, 0, 12)] | _ => [] end)
    (fun i => match i with 0%nat => [(1%nat, 0, 4)] | 1%nat => [(1%nat, 4, 8)] | 2%nat => [(3%nat, 0, 12)] | _ => [] end)
    [].

Example C01_rtl_nonvacuous :
  wf_shapes exT = true /\ wf_design exD = true /\ sw_ok exD = true /\ rtl_cover_ok (decls_of exT) exProgs exD = true /\
  sched_ok exD [0; 1; 2]%nat = true /\ sched_ok exD [1; 0; 2]%nat = true /\
  reads_of exT (exProgs 1%nat) = [(0%nat, 3, 4); (2%nat, 0, 1); (0%nat, 2, 3); (2%nat, 1, 2); (0%nat, 1, 2); (2%nat, 2, 3); (0%nat, 0, 1); (2%nat, 3, 4)] /\
  writes_of exT (exProgs 1%nat) = [(1%nat, 4, 5); (1%nat, 5, 6); (1%nat, 6, 7); (1%nat, 7, 8)].
Proof. vm_compute. repeat split; reflexivity. Qed.

(* non-vacuity of (f): the design exD above is latch-free, satisfies the whole certificate, its order 0 1 2 is accepted,
   and no block raises along that pass on the all-zero environment and on the all-one environment *)
Example C01_rtl_fixed_point_nonvacuous :
  wf_declsb (decls_of exT) = true /\ wf_design exD = true /\ sw_ok exD = true /\ nsl_ok exD = true /\ noinv_ok exD = true /\
  rtl_fixed_ok (decls_of exT) exProgs exD = true /\ sched_ok exD [0; 1; 2]%nat = true /\
  rtl_no_raise (decls_of exT) exProgs exD [0; 1; 2]%nat (fun _ => false) /\
  rtl_no_raise (decls_of exT) exProgs exD [0; 1; 2]%nat (fun _ => true).
Proof.
  assert (K : forall e, (forall i, (i < 3)%nat -> rtl_okb (decls_of exT) (exProgs i)
                              (run_list (Bd exD (rtl_R (decls_of exT) exProgs)) (firstn i [0; 1; 2]%nat) e) = true) ->
                        rtl_no_raise (decls_of exT) exProgs exD [0; 1; 2]%nat e).
  { intros e H s1 i s2 E. apply rtl_okb_sound.
    destruct s1 as [|a [|b [|c s1]]]; cbn [app] in E.
    - injection E as <- <-. exact (H 0%nat ltac:(lia)).
    - injection E as <- <- <-. exact (H 1%nat ltac:(lia)).
    - injection E as <- <- <- <-. exact (H 2%nat ltac:(lia)).
    - exfalso. injection E as _ _ _ E. destruct s1; discriminate. }
  split; [vm_compute; reflexivity|]. split; [vm_compute; reflexivity|]. split; [vm_compute; reflexivity|].
  split; [vm_compute; reflexivity|]. split; [vm_compute; reflexivity|]. split; [vm_compute; reflexivity|].
  split; [vm_compute; reflexivity|].
  split; apply K; intros i Hi; destruct i as [|[|[|i]]]; try lia; vm_compute; reflexivity.
Qed.

Print Assumptions C01_rtl_exec_frame.
Print Assumptions C01_rtl_exec_dep.
Print Assumptions C01_rtl_run_block_dep.
Print Assumptions C01_rtl_frame.
Print Assumptions C01_rtl_dep.
Print Assumptions C01_rtl_blk_footprints.
Print Assumptions C01_rtl_covers_sound.
Print Assumptions C01_rtl_accepted_schedules_agree.
Print Assumptions C01_rtl_mixed_schedules_agree.
Print Assumptions C01_rtl_exec_sdep.
Print Assumptions C01_rtl_sim_eval_comb_det.
Print Assumptions C01_rtl_sim_tick_det.
Print Assumptions C01_rtl_accepted_schedule_fixed_point.
Print Assumptions C01_rtl_fixed_point_nonvacuous.
Print Assumptions C01_rtl_decls_of_wf.
Print Assumptions C01_rtl_nonvacuous.
