(* Props/C11.v — property C11: combinational cycles settle on a fixed point or are reported. Statements only. *)
From Coq Require Import ZArith List Bool Arith Lia Permutation.
Import ListNotations.
From PV Require Import Sched.Block Sched.Confluence Sched.SccIter Sched.GroupSched Sched.Accept Sched.GroupAccept Sched.FalseLoop.

Section C11.
Context {var val : Type}.
Variable B : nat -> blk var val.

(* one cyclic group iterated until its watched variables are stable: the returned state is fixed under every block *)
Theorem C11_scc_returns_fixed_point (group : list nat) (watched : var -> bool)
  (stable : env var val -> env var val -> bool) :
  (forall e e', stable e e' = true -> forall v, watched v = true -> e v = e' v) ->
  NoDup group -> (forall i, In i group -> frame (B i)) -> (forall i, In i group -> sdep (B i)) ->
  (forall i, In i group -> nsl (B i)) -> single_writer B group ->
  (forall i j v, In i group -> In j group -> i <> j -> wr (B i) v = true -> rd (B j) v = true -> watched v = true) ->
  forall fuel e r, scc_iter B group stable fuel e = Some r -> forall i, In i group -> fixed_under B i r.
Proof. intros Hst Hnd Hf Hd Hn Hs Hc. exact (scc_fixed_point B group watched stable Hst Hnd Hf Hd Hn Hs Hc). Qed.

(* false loops: when the bit-level dependency relation of the group is in fact acyclic (E orders every feeding pair and
   some order s of the same blocks is a linear extension of E), whatever the iteration returns IS the state one pass of the
   acyclic reference order s computes — for every run order of the group, every bound, every start state *)
Theorem C11_false_loop_equals_acyclic_reference (group : list nat) (watched : var -> bool)
  (stable : env var val -> env var val -> bool) (E : nat -> nat -> bool) :
  (forall e e', stable e e' = true -> forall v, watched v = true -> e v = e' v) ->
  NoDup group -> (forall i, In i group -> frame (B i)) -> (forall i, In i group -> sdep (B i)) ->
  (forall i, In i group -> nsl (B i)) -> single_writer B group ->
  (forall i j v, In i group -> In j group -> i <> j -> wr (B i) v = true -> rd (B j) v = true -> watched v = true) ->
  (forall i j, In i group -> In j group -> i <> j -> feeds B i j -> E i j = true) ->
  forall s fuel e r, Permutation group s -> lin_ext E s ->
  scc_iter B group stable fuel e = Some r -> eqe r (run_list B s e).
Proof. intros Hst Hnd Hf Hd Hn Hs Hc He. exact (false_loop_equals_acyclic_reference B group watched stable Hst Hnd Hf Hd Hn Hs Hc E He). Qed.

(* no stable round within the bound => error (None), never a normal-looking state *)
Theorem C11_divergent_is_error (group : list nat) (stable : env var val -> env var val -> bool) fuel e :
  (forall k, (k < fuel)%nat ->
     let ek := Nat.iter k (run_list B group) e in stable ek (run_list B group ek) = false) ->
  scc_iter B group stable fuel e = None.
Proof. exact (divergent_error B group stable fuel e). Qed.

(* evaluation never hangs: the iteration is total for every bound *)
Theorem C11_never_hangs (group : list nat) (stable : env var val -> env var val -> bool) fuel e :
  (exists r, scc_iter B group stable fuel e = Some r) \/ scc_iter B group stable fuel e = None.
Proof. exact (scc_iter_total B group stable fuel e). Qed.

Theorem C11_group_error_propagates (stable : list nat -> env var val -> env var val -> bool) fuel pre g post e e' :
  run_groups B stable fuel pre e = Some e' -> run_group B stable fuel g e' = None ->
  run_groups B stable fuel (pre ++ g :: post) e = None.
Proof. exact (grouped_error_propagates B stable fuel pre g post e e'). Qed.
End C11.

(* end-to-end: the real scheduler's groups + watched objects, accepted by groups_ok, for ANY block semantics
   respecting the footprints and ANY iteration bound: on return no block of the design changes anything *)
Theorem C11_accepted_grouped_schedule_returns_fixed_point {val : Type} (d : design)
  (R : nat -> env bit val -> env bit val) (gs : list (list nat)) (wfp : list nat -> fp)
  (stable : list nat -> env bit val -> env bit val -> bool) (fuel : nat) :
  (forall g e e', stable g e e' = true -> forall v, mem_fp (wfp g) v = true -> e v = e' v) ->
  (forall i, In i (ids d) -> frame (Bd d R i)) -> (forall i, In i (ids d) -> sdep (Bd d R i)) ->
  groups_ok d gs wfp = true ->
  forall e r, run_groups (Bd d R) stable fuel gs e = Some r -> forall i, In i (ids d) -> fixed_under (Bd d R) i r.
Proof. exact (accepted_groups_fixed_point d R gs wfp stable fuel). Qed.

(* non-vacuity of the false-loop theorem (FalseLoop.flB: x1 := x0 + 1 ; x2 := x1 * 2, group run in the wrong order [1;0]):
   every hypothesis holds, the iteration returns after two rounds with the reference values, and errors with bound 1 *)
Open Scope nat_scope.
Example C11_false_loop_nonvacuous :
  (forall e e', flStable e e' = true -> forall v, (v =? 1) = true -> e v = e' v) /\
  NoDup [1; 0] /\
  (forall i, In i [1; 0] -> frame (flB i)) /\ (forall i, In i [1; 0] -> sdep (flB i)) /\
  (forall i, In i [1; 0] -> nsl (flB i)) /\ single_writer flB [1; 0] /\
  (forall i j v, In i [1; 0] -> In j [1; 0] -> i <> j -> wr (flB i) v = true -> rd (flB j) v = true -> (v =? 1) = true) /\
  (forall i j, In i [1; 0] -> In j [1; 0] -> i <> j -> feeds flB i j -> flE i j = true) /\
  Permutation [1; 0] [0; 1] /\ lin_ext flE [0; 1] /\
  exists r, scc_iter flB [1; 0] flStable 3 (fun _ => 0) = Some r /\ r 1 = 1 /\ r 2 = 2 /\
            run_list flB [0; 1] (fun _ => 0) 1 = 1 /\ run_list flB [0; 1] (fun _ => 0) 2 = 2 /\
            scc_iter flB [1; 0] flStable 1 (fun _ => 0) = None.
Proof. exact false_loop_nonvacuous. Qed.
Close Scope nat_scope.

(* non-vacuity: P writes a (sig 1) and d (sig 3), reads i (sig 0) and b (sig 2); Q writes b, reads a: one group {P,Q}
   watched a and b is accepted; watching only a is rejected; the wrong group order is rejected *)
Definition loopd : design :=
  mkDesign 3 (fun i => match i with 0%nat => [(0%nat,0%Z,8%Z); (2%nat,0%Z,8%Z)] | 1%nat => [(1%nat,0%Z,8%Z)] | _ => [(3%nat,0%Z,8%Z)] end)
             (fun i => match i with 0%nat => [(1%nat,0%Z,8%Z); (3%nat,0%Z,8%Z)] | 1%nat => [(2%nat,0%Z,8%Z)] | _ => [(4%nat,0%Z,8%Z)] end) [].
Example C11_nonvacuous :
  groups_ok loopd [[0;1];[2]]%nat (fun _ => [(1%nat,0%Z,8%Z); (2%nat,0%Z,8%Z)]) = true /\
  groups_ok loopd [[0;1];[2]]%nat (fun _ => [(1%nat,0%Z,8%Z)]) = false /\
  groups_ok loopd [[2];[0;1]]%nat (fun _ => [(1%nat,0%Z,8%Z); (2%nat,0%Z,8%Z)]) = false.
Proof. vm_compute. repeat split. Qed.

Print Assumptions C11_scc_returns_fixed_point. Print Assumptions C11_divergent_is_error. Print Assumptions C11_never_hangs.
Print Assumptions C11_group_error_propagates. Print Assumptions C11_accepted_grouped_schedule_returns_fixed_point.
Print Assumptions C11_false_loop_equals_acyclic_reference. Print Assumptions C11_false_loop_nonvacuous.
