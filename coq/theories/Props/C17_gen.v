(* Props/C17_gen.v — T-gen tie of property C17: the REAL en/rdy queues of /repo (pymtl3/stdlib/queues/queues.py:
   NormalQueueRTL, PipeQueueRTL, BypassQueueRTL with a Bits2 entry type, 1 / 2 / 3 entries), elaborated and translated block by
   block from their source on every run (Gen/QueueGen.v, translators/stdlib2coq.py), compute in one simulated cycle exactly
   what the register-level models of Lib/QueueRTL.v compute (e1_step for the one-entry classes, crtl_step otherwise) — the
   models that Props/C17.v proves to refine the FIFO specification.   ONLY statements + Print Assumptions.
   Finite facts; the bound (entries, payload alphabet) is in each name / statement. *)
From PV Require Import Base.Prelude RTL.Design RTL.DesignProofs Sched.Accept Lib.Fifo Lib.QueueRTL Gen.QueueGen Lib.QueueGenProofs Lib.QueueGenProofs_2 Lib.QueueGenProofs_3.
(* -- *)
Open Scope Z_scope.

(* legal designs; the emitted order of the combinational blocks is accepted by sched_ok on the PROVED footprints *)
Theorem C17_gen_designs_legal : forallb rd_ok [nq1; nq2; nq3; pq1; pq2; pq3; bq1; bq2; bq3] = true.
Proof. exact gen_queues_ok. Qed.

(* one entry: every (full, entry), reset, enq.en, enq.msg, deq.en *)
Theorem C17_gen_normal_entries1 : q1_spec nq1 P_nq1 R_nq1 Normal.
Proof. exact nq_gen_eq_model_entries1. Qed.
Theorem C17_gen_pipe_entries1 : q1_spec pq1 P_pq1 R_pq1 Pipe.
Proof. exact pq_gen_eq_model_entries1. Qed.
Theorem C17_gen_bypass_entries1 : q1_spec bq1 P_bq1 R_bq1 Bypass.
Proof. exact bq_gen_eq_model_entries1. Qed.

(* two entries: every head, tail < 2, count <= 2, both words and the message over 0..3 *)
Theorem C17_gen_normal_entries2 : qm_spec nq2 P_nq2 R_nq2 Normal 2 [0; 1; 2; 3].
Proof. exact nq_gen_eq_model_entries2. Qed.
Theorem C17_gen_pipe_entries2 : qm_spec pq2 P_pq2 R_pq2 Pipe 2 [0; 1; 2; 3].
Proof. exact pq_gen_eq_model_entries2. Qed.
Theorem C17_gen_bypass_entries2 : qm_spec bq2 P_bq2 R_bq2 Bypass 2 [0; 1; 2; 3].
Proof. exact bq_gen_eq_model_entries2. Qed.

(* three entries: every head, tail < 3, count <= 3, the three words over {1, 2}, the message over 0..3 *)
Theorem C17_gen_normal_entries3 : qm_spec nq3 P_nq3 R_nq3 Normal 3 [1; 2].
Proof. exact nq_gen_eq_model_entries3. Qed.
Theorem C17_gen_pipe_entries3 : qm_spec pq3 P_pq3 R_pq3 Pipe 3 [1; 2].
Proof. exact pq_gen_eq_model_entries3. Qed.
Theorem C17_gen_bypass_entries3 : qm_spec bq3 P_bq3 R_bq3 Bypass 3 [1; 2].
Proof. exact bq_gen_eq_model_entries3. Qed.

(* the other signals do not matter: two environments with the same inputs and registers show the same outputs after
   sim_eval_combinational and hold the same registers after sim_tick (certificate accepted for all nine instances) *)
Theorem C17_gen_obs_det D ins regs outs : obs_det_ok D ins regs outs = true ->
  forall e1 e2, eagree (mem_fp (map (sig_whole D) (ins ++ regs))) e1 e2 ->
  match sim_tick_obs D e1, sim_tick_obs D e2 with
  | Ok (a1, a3), Ok (c1, c3) => eagree (mem_fp (map (sig_whole D) outs)) a1 c1 /\ eagree (mem_fp (map (sig_whole D) regs)) a3 c3
  | Err x, Err y => x = y
  | _, _ => False
  end.
Proof. exact (obs_det_sound D ins regs outs). Qed.
Theorem C17_gen_queues_det :
  obs_det_ok nq1 (q_ins P_nq1) (q1_reglist R_nq1) (q_outs P_nq1) && obs_det_ok pq1 (q_ins P_pq1) (q1_reglist R_pq1) (q_outs P_pq1) &&
  obs_det_ok bq1 (q_ins P_bq1) (q1_reglist R_bq1) (q_outs P_bq1) &&
  obs_det_ok nq2 (q_ins P_nq2) (qm_reglist R_nq2) (q_outs P_nq2) && obs_det_ok pq2 (q_ins P_pq2) (qm_reglist R_pq2) (q_outs P_pq2) &&
  obs_det_ok bq2 (q_ins P_bq2) (qm_reglist R_bq2) (q_outs P_bq2) &&
  obs_det_ok nq3 (q_ins P_nq3) (qm_reglist R_nq3) (q_outs P_nq3) && obs_det_ok pq3 (q_ins P_pq3) (qm_reglist R_pq3) (q_outs P_pq3) &&
  obs_det_ok bq3 (q_ins P_bq3) (qm_reglist R_bq3) (q_outs P_bq3) = true.
Proof. exact gen_queues_det. Qed.

Print Assumptions C17_gen_designs_legal.
Print Assumptions C17_gen_normal_entries1.
Print Assumptions C17_gen_pipe_entries1.
Print Assumptions C17_gen_bypass_entries1.
Print Assumptions C17_gen_normal_entries2.
Print Assumptions C17_gen_pipe_entries2.
Print Assumptions C17_gen_bypass_entries2.
Print Assumptions C17_gen_normal_entries3.
Print Assumptions C17_gen_pipe_entries3.
Print Assumptions C17_gen_bypass_entries3.
Print Assumptions C17_gen_obs_det.
Print Assumptions C17_gen_queues_det.
