(* Props/C06.v — property C06: bitstruct packing is a lossless, order-preserving bijection.
   ONLY statements, each closed by `exact`/`apply`, each followed by Print Assumptions.

   shape  = SBits n | SStruct fields | SList len elt      (Struct/Shape.v)
   pack   = the integer of to_bits(), unpack = the value built by from_bits()   (Struct/Layout.v)
   The correspondence run (harness/c06.py) checks on every run that the text pymtl3 GENERATES for
   to_bits / from_bits of each shape passes check_to_bits / check_from_bits, and the theorems
   C06_to_bits_text / C06_from_bits_text turn such a pass into "for ALL values of that shape". *)
From PV Require Import Base.Prelude Struct.Shape Struct.Layout Struct.LayoutProofs.
(* -- *)
Open Scope Z_scope.

(* ---- total width = sum of the leaf widths; the packed value fits in it ---- *)
Theorem C06_width_is_sum_of_leaf_widths T : width T = sumz (leaf_widths T).
Proof. exact (width_sum T). Qed.
Theorem C06_pack_in_range T v : wf T = true -> typed T v = true -> 0 <= pack T v < 2 ^ (width T).
Proof. exact (pack_range T v). Qed.

(* ---- lossless both ways ---- *)
Theorem C06_from_bits_to_bits T v : wf T = true -> typed T v = true -> unpack T (pack T v) = v.
Proof. exact (unpack_pack T v). Qed.
Theorem C06_to_bits_from_bits T b : wf T = true -> 0 <= b < 2 ^ (width T) -> pack T (unpack T b) = b.
Proof. exact (pack_unpack T b). Qed.
Theorem C06_from_bits_well_typed T b : wf T = true -> typed T (unpack T b) = true.
Proof. exact (unpack_typed T b). Qed.

(* ---- the layout: first field most significant, list element 0 least significant ---- *)
Theorem C06_first_field_most_significant f fr x xr :
  pack (SStruct (f :: fr)) (VStruct (x :: xr)) = pack f x * 2 ^ (width (SStruct fr)) + pack (SStruct fr) (VStruct xr).
Proof. exact (pack_struct_cons f fr x xr). Qed.
Theorem C06_element0_least_significant k e x xr :
  pack (SList (S k) e) (VList (x :: xr)) = pack e x + 2 ^ (width e) * pack (SList k e) (VList xr).
Proof. exact (pack_list_cons k e x xr). Qed.
(* leaf_ranges T lists the leaves from bit width-1 down to bit 0 without gap or overlap *)
Theorem C06_ranges_chain T : wf T = true -> chain (width T) (leaf_ranges T) 0.
Proof. exact (leaf_ranges_chain T). Qed.
Theorem C06_ranges_within T r : wf T = true -> In r (leaf_ranges T) -> 0 <= rlo r /\ rlo r < rhi r /\ rhi r <= width T.
Proof. exact (leaf_ranges_bounds T r). Qed.
Theorem C06_ranges_cover T i : wf T = true -> 0 <= i < width T -> exists r, In r (leaf_ranges T) /\ rlo r <= i < rhi r.
Proof. exact (leaf_ranges_cover T i). Qed.
Theorem C06_ranges_disjoint T r1 r2 i : wf T = true -> In r1 (leaf_ranges T) -> In r2 (leaf_ranges T) ->
  rlo r1 <= i < rhi r1 -> rlo r2 <= i < rhi r2 -> r1 = r2.
Proof. exact (leaf_ranges_disjoint T r1 r2 i). Qed.
(* order at any depth: at the first step where two leaf paths differ, the earlier field / the later list element is above *)
Theorem C06_ranges_order T r1 r2 : wf T = true -> In r1 (leaf_ranges T) -> In r2 (leaf_ranges T) ->
  above (rpath r1) (rpath r2) -> rhi r2 <= rlo r1.
Proof. exact (leaf_ranges_order T r1 r2). Qed.
(* to_bits places every leaf exactly on its range, bit for bit, and nothing above the width *)
Theorem C06_pack_places_leaf T v r : wf T = true -> typed T v = true -> In r (leaf_ranges T) ->
  exists u, leaf_at v (rpath r) = Some u /\ 0 <= u < 2 ^ (rhi r - rlo r) /\
            forall i, rlo r <= i < rhi r -> Z.testbit (pack T v) i = Z.testbit u (i - rlo r).
Proof. exact (pack_testbit T v r). Qed.
Theorem C06_leaf_is_bits_of_range_width T v r : wf T = true -> typed T v = true -> In r (leaf_ranges T) ->
  shape_at T (rpath r) = Some (SBits (rhi r - rlo r)) /\ leaf_at v (rpath r) = Some (slice (pack T v) (rlo r) (rhi r)).
Proof. exact (pack_places_leaf T v r). Qed.
Theorem C06_pack_high_zero T v i : wf T = true -> typed T v = true -> width T <= i -> Z.testbit (pack T v) i = false.
Proof. exact (pack_high_zero T v i). Qed.

(* ---- the generated method texts (checked per shape on every run) compute pack / unpack for ALL values ---- *)
Theorem C06_to_bits_text T ps v : wf T = true -> typed T v = true -> check_to_bits T ps = true ->
  concat_model (concat_args T v ps) = (width T, pack T v).
Proof. exact (to_bits_text_correct T ps v). Qed.
Theorem C06_from_bits_text T t b : wf T = true -> check_from_bits T t = true -> eval_rtree t b = unpack T b.
Proof. exact (from_bits_text_correct T t b). Qed.
Theorem C06_slice_tree_is_leaf_ranges T : rtree_ranges (range_tree T 0) = leaf_ranges T.
Proof. exact (rtree_ranges_range_tree T 0). Qed.

(* ---- equality and hashing agree with the packed value ---- *)
Theorem C06_eq_iff_pack T v w : wf T = true -> typed T v = true -> typed T w = true -> (v = w <-> pack T v = pack T w).
Proof. exact (eq_iff_pack T v w). Qed.
Theorem C06_fieldwise_eq_is_packed_eq T v w : wf T = true -> typed T v = true -> typed T w = true ->
  veqb v w = (pack T v =? pack T w).
Proof. exact (veqb_pack T v w). Qed.
Theorem C06_hash_respects_eq hleaf htuple T v w : wf T = true -> typed T v = true -> typed T w = true ->
  pack T v = pack T w -> vhash hleaf htuple T v = vhash hleaf htuple T w.
Proof. exact (hash_respects_eq hleaf htuple T v w). Qed.
Theorem C06_hash_is_function_of_packed hleaf htuple T : wf T = true ->
  exists H : Z -> Z, forall v, typed T v = true -> vhash hleaf htuple T v = H (pack T v).
Proof. exact (hash_of_packed hleaf htuple T). Qed.

(* ---- clone / deepcopy: equal value, entirely new cells and interior objects, independent afterwards ---- *)
Theorem C06_clone_eq_fresh o st : owned st o ->
  let c := fst (clone o st) in let st' := snd (clone o st) in
  read st' c = read st o /\ read st' o = read st o /\
  (forall k, In k (locs c) -> ~ In k (locs o)) /\ NoDup (locs c) /\ owned st' c /\ owned st' o /\
  (forall o', owned st o' -> read st' o' = read st o').
Proof. exact (clone_spec o st). Qed.
Theorem C06_clone_independent o st p u : owned st o ->
  let c := fst (clone o st) in let st' := snd (clone o st) in
  read (poke c p u st') o = read st o /\ read (poke o p u st') c = read st o.
Proof. exact (clone_independent o st p u). Qed.

(* ---- @= copies leaf by leaf, visible immediately, shares nothing with the source ---- *)
Theorem C06_imatmul_copies dst src st : osame dst src = true -> NoDup (leaves dst) -> disjoint (leaves dst) (leaves src) ->
  let st' := imatmul dst src st in
  read st' dst = read st src /\ read st' src = read st src /\
  (forall o, disjoint (leaves dst) (leaves o) -> read st' o = read st o) /\
  (forall p u, read (poke src p u st') dst = read st' dst) /\
  (forall p u, read (poke dst p u st') src = read st' src).
Proof. exact (imatmul_copies dst src st). Qed.

(* ---- <<= is invisible until _flip; the flip delivers the value the source had at the time of <<= ---- *)
Theorem C06_ilshift_defers dst src st : osame dst src = true -> NoDup (leaves dst) ->
  let st1 := ilshift dst src st in
  (forall o, read st1 o = read st o) /\
  (forall st2, (forall k, nxtv st2 k = nxtv st1 k) -> read (flip dst st2) dst = read st src) /\
  (forall o, disjoint (leaves dst) (leaves o) -> read (flip dst st1) o = read st o).
Proof. exact (ilshift_defers dst src st). Qed.
Theorem C06_ilshift_flip dst src st : osame dst src = true -> NoDup (leaves dst) ->
  read (flip dst (ilshift dst src st)) dst = read st src.
Proof. exact (ilshift_flip dst src st). Qed.
Theorem C06_ilshift_snapshot dst src st p u : osame dst src = true -> NoDup (leaves dst) ->
  read (flip dst (poke src p u (ilshift dst src st))) dst = read st src.
Proof. exact (ilshift_snapshot dst src st p u). Qed.
(* the hypotheses above hold for any two objects built (constructor / from_bits) for values of one type *)
Theorem C06_built_objects_are_separate T va vb st : typed T va = true -> typed T vb = true ->
  let a := fst (alloc va st) in let st1 := snd (alloc va st) in
  let b := fst (alloc vb st1) in let st2 := snd (alloc vb st1) in
  osame a b = true /\ NoDup (leaves a) /\ NoDup (leaves b) /\ disjoint (leaves a) (leaves b) /\
  read st2 a = va /\ read st2 b = vb.
Proof. exact (alloc_pair_separate T va vb st). Qed.

(* ---- non-vacuity: a nested shape with a 3x2 list, a reused nested struct, a list of structs ---- *)
Definition ex_in : shape := SStruct [SBits 4; SBits 4].
Definition ex_T : shape := SStruct [SBits 8; SList 3 (SList 2 (SBits 4)); ex_in; SList 2 ex_in; SBits 1].
Definition ex_v : value :=
  VStruct [VBits 0xAB; VList [VList [VBits 1; VBits 2]; VList [VBits 3; VBits 4]; VList [VBits 5; VBits 6]];
           VStruct [VBits 7; VBits 8]; VList [VStruct [VBits 9; VBits 10]; VStruct [VBits 11; VBits 12]]; VBits 1].
Example C06_nonvacuous :
  wf ex_T = true /\ typed ex_T ex_v = true /\ width ex_T = 57 /\ pack ex_T ex_v = 0x156ca8642f17935 /\
  check_to_bits ex_T (map rpath (leaf_ranges ex_T)) = true /\ check_from_bits ex_T (range_tree ex_T 0) = true /\
  existsb (rng_eqb ([Fld 1; Idx 0; Idx 0], 25, 29)) (leaf_ranges ex_T) = true /\
  existsb (rng_eqb ([Fld 1; Idx 2; Idx 1], 45, 49)) (leaf_ranges ex_T) = true /\
  above [Fld 1; Idx 2; Idx 1] [Fld 1; Idx 0; Idx 0] /\ above [Fld 0] [Fld 4].
Proof. repeat split; try (vm_compute; reflexivity); cbn; lia. Qed.
Example C06_nonvacuous_1023 : wf (SStruct [SBits 1000; SList 23 (SBits 1)]) = true /\ width (SStruct [SBits 1000; SList 23 (SBits 1)]) = 1023.
Proof. vm_compute. split; reflexivity. Qed.
Example C06_nonvacuous_store :
  let '(a, st1) := alloc ex_v empty_store in owned st1 a /\
  (let '(b, a') := run_scenario ScIlshiftPokeFlip (unpack ex_T 0) ex_v true [Fld 0] 1 in (pack ex_T b, pack ex_T a'))
  = (0x2ca8642f17935, 0x156ca8642f17935).
Proof. vm_compute. split; [intros k Hk; lia|reflexivity]. Qed.

Print Assumptions C06_width_is_sum_of_leaf_widths. Print Assumptions C06_pack_in_range.
Print Assumptions C06_from_bits_to_bits. Print Assumptions C06_to_bits_from_bits. Print Assumptions C06_from_bits_well_typed.
Print Assumptions C06_first_field_most_significant. Print Assumptions C06_element0_least_significant.
Print Assumptions C06_ranges_chain. Print Assumptions C06_ranges_within. Print Assumptions C06_ranges_cover.
Print Assumptions C06_ranges_disjoint. Print Assumptions C06_ranges_order.
Print Assumptions C06_pack_places_leaf. Print Assumptions C06_leaf_is_bits_of_range_width. Print Assumptions C06_pack_high_zero.
Print Assumptions C06_to_bits_text. Print Assumptions C06_from_bits_text. Print Assumptions C06_slice_tree_is_leaf_ranges.
Print Assumptions C06_eq_iff_pack. Print Assumptions C06_fieldwise_eq_is_packed_eq.
Print Assumptions C06_hash_respects_eq. Print Assumptions C06_hash_is_function_of_packed.
Print Assumptions C06_clone_eq_fresh. Print Assumptions C06_clone_independent.
Print Assumptions C06_imatmul_copies. Print Assumptions C06_ilshift_defers. Print Assumptions C06_ilshift_flip.
Print Assumptions C06_ilshift_snapshot. Print Assumptions C06_built_objects_are_separate.
