(* Props/C02.v — property C02: within a cycle every reader runs after its writer, in every scheduler.
   ONLY statements closed by exact + Print Assumptions. *)
From Coq Require Import ZArith List Bool Arith Lia Permutation.
Import ListNotations.
From PV Require Import Sched.Block Sched.Confluence Sched.Accept Sched.DagAccept Sched.AcceptComplete.

(* two packed bit ranges intersect iff some bit lies in both (whole signals, fields, nested fields, slices are all ranges) *)
Theorem C02_overlap_iff_shared_bit a b : wf_ivl a = true -> wf_ivl b = true ->
  (ivl_overlap a b = true <-> exists v, in_ivl v a = true /\ in_ivl v b = true).
Proof. exact (ivl_overlap_spec a b). Qed.
Theorem C02_footprints_overlap_iff f g : wf_fp f = true -> wf_fp g = true ->
  (fp_overlap f g = true <-> exists v, mem_fp f v = true /\ mem_fp g v = true).
Proof. exact (fp_overlap_spec f g). Qed.

(* the acceptor run on the observed execution order of an evaluation pass *)
Theorem C02_accepted_pass_orders_readers_after_writers d order : sched_ok d order = true ->
  NoDup order /\ Permutation order (ids d) /\
  (forall a b v, In a (ids d) -> In b (ids d) -> a <> b -> writes_bit d a v -> reads_bit d b v ->
                 pair_in (expl d) b a = false -> (pos order a < pos order b)%nat) /\
  (forall x y, pair_in (expl d) x y = true -> (pos order x < pos order y)%nat).
Proof. exact (sched_ok_sound d order). Qed.

(* and conversely: a pass that meets the property's ordering conditions IS accepted — on well-formed observed footprints the
   acceptor decides the property exactly, so it raises no alarm on a schedule where the property holds *)
Theorem C02_acceptor_decides_the_ordering_conditions d order : wf_design d = true ->
  (sched_ok d order = true <->
   NoDup order /\ Permutation order (ids d) /\
   (forall a b v, In a (ids d) -> In b (ids d) -> a <> b -> writes_bit d a v -> reads_bit d b v ->
                  pair_in (expl d) b a = false -> (pos order a < pos order b)%nat) /\
   (forall x y, pair_in (expl d) x y = true -> (pos order x < pos order y)%nat)).
Proof. exact (sched_ok_iff d order). Qed.

(* the acceptor run on pymtl3's CONSTRAINT GRAPH G: in every schedule the graph allows (every linear extension of G, whatever
   the tie-break), readers run after writers unless an explicit constraint inverts the pair, and explicit constraints hold *)
Theorem C02_accepted_graph_orders_readers_after_writers_in_every_schedule d G paths : dag_ok d G paths = true ->
  forall o, perm_b d o = true -> lin_ext_b (Gb G) o = true ->
  (forall a b v, In a (ids d) -> In b (ids d) -> a <> b -> writes_bit d a v -> reads_bit d b v ->
                 pair_in (expl d) b a = false -> (pos o a < pos o b)%nat) /\
  (forall x y, pair_in (expl d) x y = true -> (pos o x < pos o y)%nat).
Proof. exact (dag_orders_readers_after_writers d G paths). Qed.

Theorem C02_lin_ext_checker E l : lin_ext_b E l = true <-> lin_ext E l.
Proof. exact (lin_ext_b_spec E l). Qed.
Theorem C02_each_block_once d order : perm_b d order = true -> NoDup order /\ Permutation order (ids d).
Proof. exact (perm_b_spec d order). Qed.

(* non-vacuity: writer of bits [0,5) of signal 0, reader of bits [3,8): accepted only in writer-first order;
   with an explicit inversion only reader-first is accepted *)
Definition two (ex : list (nat * nat)) : design :=
  mkDesign 2 (fun i => match i with 1%nat => [(0%nat, 3%Z, 8%Z)] | _ => [] end)
             (fun i => match i with 0%nat => [(0%nat, 0%Z, 5%Z)] | _ => [(1%nat, 0%Z, 1%Z)] end) ex.
Example C02_nonvacuous : sched_ok (two []) [0;1]%nat = true /\ sched_ok (two []) [1;0]%nat = false /\
  sched_ok (two [(1,0)]%nat) [1;0]%nat = true /\ sched_ok (two [(1,0)]%nat) [0;1]%nat = false /\ sched_ok (two []) [0;0]%nat = false.
Proof. vm_compute. repeat split. Qed.

Print Assumptions C02_overlap_iff_shared_bit. Print Assumptions C02_footprints_overlap_iff.
Print Assumptions C02_accepted_pass_orders_readers_after_writers. Print Assumptions C02_lin_ext_checker.
Print Assumptions C02_each_block_once. Print Assumptions C02_accepted_graph_orders_readers_after_writers_in_every_schedule.
Print Assumptions C02_acceptor_decides_the_ordering_conditions.
