(* Props/C07.v — property C07: flip-flop updates are atomic at the clock edge.  Statements only. *)
From Coq Require Import List Bool Arith Lia Permutation.
Import ListNotations.
From PV Require Import Sched.Block Sched.Confluence Sched.FFEdge.
From PV Require Import Base.Prelude Bits.BitsSpec Gen.BitsGen Bits.BitsProofs.

Section C07.
Context {var val : Type}.
Variable B : nat -> blk var val.
Variable ffs : list nat.
Hypothesis Hframe : forall i, In i ffs -> frame (B i).
Hypothesis Hdep   : forall i, In i ffs -> dep (B i).
Hypothesis Hsw    : single_writer B ffs.
(* update_ff blocks write next-values only, and no update_ff block reads a next-value of another block *)
Hypothesis Hff : forall i j v, In i ffs -> In j ffs -> i <> j -> wr (B i) v = true -> rd (B j) v = false.

Theorem C07_any_ff_order s t : NoDup s -> Permutation s t -> incl s ffs ->
  forall e, eqe (run_list B s e) (run_list B t e).
Proof. exact (ff_perm_indep B ffs Hframe Hdep Hsw Hff s t). Qed.

Theorem C07_every_block_sees_preedge_state s : NoDup s -> incl s ffs ->
  forall e i v, In i s -> wr (B i) v = true -> run_list B s e v = run (B i) e v.
Proof. exact (ff_observes_preedge B ffs Hframe Hdep Hsw Hff s). Qed.

(* "a register not assigned in a cycle holds its value" *)
Theorem C07_unassigned_holds s : incl s ffs ->
  forall e v, (forall i, In i s -> wr (B i) v = false) -> run_list B s e v = e v.
Proof. exact (ff_hold B ffs Hframe s). Qed.

(* the edge is a function of the pre-edge state alone: each variable is what its one writer computes from the
   pre-edge state, or its pre-edge value when nothing writes it *)
Theorem C07_edge_is_function_of_preedge_state s : NoDup s -> incl s ffs ->
  forall e v,
    (exists i, In i s /\ wr (B i) v = true /\ run_list B s e v = run (B i) e v) \/
    ((forall i, In i s -> wr (B i) v = false) /\ run_list B s e v = e v).
Proof. exact (ff_edge_function B ffs Hframe Hdep Hsw Hff s). Qed.

(* state_{t+1} == F(state_t, in_t): pre-edge states agreeing on what the blocks read and write give, in any two
   orders, post-edge states agreeing on everything written *)
Theorem C07_edge_determined_by_preedge_state s t e1 e2 : NoDup s -> Permutation s t -> incl s ffs ->
  (forall i v, In i s -> rd (B i) v = true \/ wr (B i) v = true -> e1 v = e2 v) ->
  forall i v, In i s -> wr (B i) v = true -> run_list B s e1 v = run_list B t e2 v.
Proof. exact (ff_edge_determined B ffs Hframe Hdep Hsw Hff s t e1 e2). Qed.
(* "forall input sequences": any number of edges, each run in its own order of the blocks, from equal states: equal states *)
Theorem C07_any_number_of_edges_any_orders os1 os2 :
  Forall2 (fun s t => NoDup s /\ Permutation s t /\ incl s ffs) os1 os2 ->
  forall e1 e2, eqe e1 e2 ->
  eqe (fold_left (fun e s => run_list B s e) os1 e1) (fold_left (fun e s => run_list B s e) os2 e2).
Proof. exact (ff_many_edges B ffs Hframe Hdep Hsw Hff os1 os2). Qed.
End C07.

(* the section hypotheses are satisfiable and the theorems say something: the register swap  a <<= b ; b <<= a
   (FFEdge.swapB: 0 = a, 1 = b, 2 = next(a), 3 = next(b), 4 = another register) swaps in both block orders *)
Open Scope nat_scope.
Example C07_swap_nonvacuous :
  (forall i, In i [0; 1] -> frame (swapB i)) /\
  (forall i, In i [0; 1] -> dep (swapB i)) /\
  single_writer swapB [0; 1] /\
  (forall i j v, In i [0; 1] -> In j [0; 1] -> i <> j -> wr (swapB i) v = true -> rd (swapB j) v = false) /\
  forall e, run_list swapB [0; 1] e 2 = e 1 /\ run_list swapB [0; 1] e 3 = e 0 /\
            run_list swapB [1; 0] e 2 = e 1 /\ run_list swapB [1; 0] e 3 = e 0 /\
            run_list swapB [1; 0] e 4 = e 4.
Proof. exact swap_nonvacuous. Qed.

Open Scope Z_scope.
(* on the model generated from PythonBits.py *)
Theorem C07_ilshift_invisible n u nx v r : wfn n -> owf v -> bits_ilshift n u nx v = Ok r ->
  fst (fst r) = n /\ snd (fst r) = u.
Proof.
  intros Hn Hv. rewrite (ilshift_ok n u nx Hn v Hv). unfold spec_ilshift.
  destruct (spec_store n v); cbn [bind]; [|discriminate]. intros [= <-]. split; reflexivity.
Qed.
Theorem C07_last_wins n u nx nx' v : wfn n -> owf v -> bits_ilshift n u nx v = bits_ilshift n u nx' v.
Proof. intros Hn Hv. rewrite !(ilshift_ok n u _ Hn v Hv). reflexivity. Qed.
Theorem C07_flip n u nx : bits_flip n u nx = Ok (n, nx, nx).
Proof. exact (flip_ok n u nx). Qed.
Theorem C07_hold n u : bits_flip n u u = Ok (n, u, u).
Proof. exact (flip_ok n u u). Qed.

Example C07_nonvacuous : bits_ilshift 8 5 5 (OInt 9) = Ok (8, 5, 9) /\ bits_flip 8 5 9 = Ok (8, 9, 9).
Proof. vm_compute. split; reflexivity. Qed.

Print Assumptions C07_any_ff_order. Print Assumptions C07_every_block_sees_preedge_state.
Print Assumptions C07_ilshift_invisible. Print Assumptions C07_last_wins. Print Assumptions C07_flip. Print Assumptions C07_hold.
Print Assumptions C07_unassigned_holds. Print Assumptions C07_edge_is_function_of_preedge_state.
Print Assumptions C07_edge_determined_by_preedge_state. Print Assumptions C07_swap_nonvacuous. Print Assumptions C07_any_number_of_edges_any_orders.
