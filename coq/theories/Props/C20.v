(* Props/C20.v — property C20: FL, CL and RTL example processors (and checksum units) agree with the ISA.
   ONLY statements, each closed by `exact`/`apply`, each followed by Print Assumptions.

   Checksum half (full proof): cksum_fl mirrors ChecksumFL.checksum, cksum_rtl mirrors the ChecksumRTL StepUnit
   chain (Lib/Cksum.v); harness/c20.py checks on every run that the real FL function and the simulated CL and RTL
   components return what these functions return.
   Processor half (PARTIAL): TinyRV0.step/run is the ISA of tinyrv0-isa.md written from the document
   (Lib/TinyRV0.v).  Proved: encoder/decoder round trip, x0, determinism, append-only output.  NOT proved: that
   ProcCL / the 5-stage ProcRTL refine `step` — that rests on the differential runs of harness/c20.py, where
   `run` is evaluated inside Coq on the very words the processors executed and compared with what they did. *)
From PV Require Import Base.Prelude Lib.Cksum Lib.CksumProofs Lib.TinyRV0 Lib.TinyRV0Proofs.
(* (comment line kept directly after the Require line: harness/common.py closure() parses up to it) *)
Open Scope Z_scope.

(* ================= checksum: FL = RTL = specification, for ALL inputs ================= *)
(* every 8-tuple of 16-bit words: RTL chain (32-bit, & 0xffff) = FL (16-bit wrap-around) = the two running sums
   mod 65536 combined as sum2 * 65536 + sum1 = the closed form *)
Theorem C20_cksum_all_8tuples w0 w1 w2 w3 w4 w5 w6 w7 :
  words16 [w0; w1; w2; w3; w4; w5; w6; w7] ->
  cksum_rtl [w0; w1; w2; w3; w4; w5; w6; w7] = cksum_fl [w0; w1; w2; w3; w4; w5; w6; w7] /\
  cksum_fl [w0; w1; w2; w3; w4; w5; w6; w7] = cksum_spec [w0; w1; w2; w3; w4; w5; w6; w7] /\
  cksum_spec [w0; w1; w2; w3; w4; w5; w6; w7] = cksum_closed8 w0 w1 w2 w3 w4 w5 w6 w7.
Proof. exact (cksum_all_8tuples w0 w1 w2 w3 w4 w5 w6 w7). Qed.
Print Assumptions C20_cksum_all_8tuples.

(* in fact for any number of words and any integer word values *)
Theorem C20_cksum_rtl_eq_fl ws : cksum_rtl ws = cksum_fl ws.
Proof. exact (cksum_rtl_fl ws). Qed.
Print Assumptions C20_cksum_rtl_eq_fl.

Theorem C20_cksum_fl_eq_spec ws : cksum_fl ws = cksum_spec ws.
Proof. exact (cksum_fl_spec ws). Qed.
Print Assumptions C20_cksum_fl_eq_spec.

Theorem C20_cksum_is_32bit ws : 0 <= cksum_spec ws < 4294967296.
Proof. exact (cksum_spec_range ws). Qed.
Print Assumptions C20_cksum_is_32bit.

(* word i of the list is bits [16i, 16i+16) of the message words_to_b128 builds; b128_to_words / the RTL slices
   recover exactly the list *)
Theorem C20_cksum_words_order ws i : ws <> [] -> words16 ws -> (i < length ws)%nat ->
  word_of (snd (pack_words ws)) (Z.of_nat i) = nth i ws 0.
Proof. exact (cksum_words_order ws i). Qed.
Print Assumptions C20_cksum_words_order.

Theorem C20_cksum_unpack_pack w0 w1 w2 w3 w4 w5 w6 w7 :
  words16 [w0; w1; w2; w3; w4; w5; w6; w7] ->
  fst (pack_words [w0; w1; w2; w3; w4; w5; w6; w7]) = 128 /\
  unpack_words (snd (pack_words [w0; w1; w2; w3; w4; w5; w6; w7])) = [w0; w1; w2; w3; w4; w5; w6; w7].
Proof. exact (unpack_pack8 w0 w1 w2 w3 w4 w5 w6 w7). Qed.
Print Assumptions C20_cksum_unpack_pack.

(* non-vacuity: the tutorial's own vector, and the hypothesis words16 is satisfiable *)
Example C20_cksum_example :
  words16 [1; 2; 3; 4; 5; 6; 7; 8] /\ cksum_fl [1; 2; 3; 4; 5; 6; 7; 8] = 7864356 (* 0x00780024 *) /\
  cksum_rtl [65535; 65535; 65535; 65535; 65535; 65535; 65535; 65535] = 4292673528 (* 0xffdcfff8 *).
Proof.
  split; [|split; reflexivity].
  unfold words16. repeat (apply Forall_cons; [unfold word16, M16; lia|]). apply Forall_nil.
Qed.

(* ================= TinyRV0 ISA model ================= *)
(* the encoder (compared with the repo's assembler on every generated program) and the decoder `step` uses
   are inverse on every instruction form and every field value *)
Theorem C20_decode_encode i : wf_instr i -> decode (encode i) = Some i.
Proof. exact (decode_encode i). Qed.
Print Assumptions C20_decode_encode.

Theorem C20_encode_is_32bit i : wf_instr i -> 0 <= encode i < 4294967296.
Proof. exact (encode_range i). Qed.
Print Assumptions C20_encode_is_32bit.

Theorem C20_encode_injective i j : wf_instr i -> wf_instr j -> encode i = encode j -> i = j.
Proof. exact (encode_injective i j). Qed.
Print Assumptions C20_encode_injective.

(* x0 is hard-wired to zero in every state reachable from any loaded program with any inputs *)
Theorem C20_x0_always_zero sections inputs n : rget (regs (run n (init_state sections inputs))) 0 = 0.
Proof. exact (x0_always_zero sections inputs n). Qed.
Print Assumptions C20_x0_always_zero.

Theorem C20_x0_invariant s s' : step s = Some s' -> rget (regs s) 0 = 0 -> rget (regs s') 0 = 0.
Proof. exact (step_x0 s s'). Qed.
Print Assumptions C20_x0_invariant.

Theorem C20_registers_stay_32bit n s : regs_wf s -> regs_wf (run n s).
Proof. exact (run_regs_wf n s). Qed.
Print Assumptions C20_registers_stay_32bit.

(* little-endian memory: byte k of a stored word sits at address a+k; a load returns what was stored;
   other words are untouched *)
Theorem C20_little_endian m a v : 0 <= a ->
  mem_byte (store4 m a v) a = v mod 256 /\
  mem_byte (store4 m a v) (a + 1) = (v / 256) mod 256 /\
  mem_byte (store4 m a v) (a + 2) = (v / 65536) mod 256 /\
  mem_byte (store4 m a v) (a + 3) = (v / 16777216) mod 256.
Proof. exact (store4_bytes m a v). Qed.
Print Assumptions C20_little_endian.

Theorem C20_load_after_store m a v : 0 <= a -> load4 (store4 m a v) a = v mod 4294967296.
Proof. exact (load4_store4_same m a v). Qed.
Print Assumptions C20_load_after_store.

Theorem C20_store_frame m a v a' : 0 <= a -> 0 <= a' -> (a' + 3 < a \/ a + 3 < a') ->
  load4 (store4 m a v) a' = load4 m a'.
Proof. exact (load4_store4_disjoint m a v a'). Qed.
Print Assumptions C20_store_frame.

(* determinism: an execution that has stopped has exactly one possible final state, `run` computes it once
   the fuel suffices, and more fuel changes nothing *)
Theorem C20_final_state_unique s a b : steps s a -> halted a = true -> steps s b -> halted b = true -> a = b.
Proof. exact (final_state_unique s a b). Qed.
Print Assumptions C20_final_state_unique.

Theorem C20_run_computes_final_state s n a : halted (run n s) = true -> steps s a -> halted a = true -> a = run n s.
Proof. exact (run_final s n a). Qed.
Print Assumptions C20_run_computes_final_state.

Theorem C20_run_fuel_irrelevant s n k : halted (run n s) = true -> run (n + k) s = run n s.
Proof. exact (run_halted_stable s n k). Qed.
Print Assumptions C20_run_fuel_irrelevant.

(* the sequence delivered to the manager only grows by appending: what is observed after n steps is a prefix
   of what is observed after n+k steps; one step appends at most one value *)
Theorem C20_outputs_prefix n k s : exists l, outputs (run (n + k) s) = outputs (run n s) ++ l.
Proof. exact (outputs_prefix n k s). Qed.
Print Assumptions C20_outputs_prefix.

Theorem C20_step_appends_at_most_one s s' : step s = Some s' ->
  outputs s' = outputs s \/ exists v, outputs s' = outputs s ++ [v].
Proof. exact (step_outputs s s'). Qed.
Print Assumptions C20_step_appends_at_most_one.

(* accelerator registers 0x7E0-0x7FF (instance: the NullXcel the ex03 harness attaches; modelled from NullXcel.py):
   a write followed by a read returns the written value, whatever the two register numbers; nothing else changes;
   only accelerator writes change the accelerator *)
Theorem C20_xcel_write_then_read s c1 rs1 c2 rd :
  is_xcelreg c1 = true -> is_xcelreg c2 = true ->
  exists s1 s2, exec (CSRW c1 rs1) s = Some s1 /\ exec (CSRR rd c2) s1 = Some s2 /\
    regs s1 = regs s /\ mem s1 = mem s /\ outputs s1 = outputs s /\
    regs s2 = rset (regs s) rd (wrap32 (rget (regs s) rs1)) /\
    mem s2 = mem s /\ outputs s2 = outputs s /\ mngr2proc s2 = mngr2proc s /\ xcel s2 = wrap32 (rget (regs s) rs1).
Proof. exact (xcel_write_then_read s c1 rs1 c2 rd). Qed.
Print Assumptions C20_xcel_write_then_read.

Theorem C20_xcel_frame i s s' : exec i s = Some s' ->
  xcel s' = xcel s \/ exists c rs1, i = CSRW c rs1 /\ is_xcelreg c = true /\ xcel s' = wrap32 (rget (regs s) rs1).
Proof. exact (exec_xcel_frame i s s'). Qed.
Print Assumptions C20_xcel_frame.

Example C20_xcel_example :
  is_xcelreg 2016 = true /\ is_xcelreg 2047 = true /\
  let prog := map encode [CSRR 1 CSR_MNGR2PROC; CSRW 2025 1; CSRR 2 2047; ADD 3 1 2; CSRW CSR_PROC2MNGR 3] in
  outputs (run 100 (init_state [(512, prog)] [17])) = [34].
Proof. split; [reflexivity|]. split; [reflexivity|]. vm_compute. reflexivity. Qed.

(* non-vacuity: a well-formed instruction of every format, a program that runs to completion, outputs and memory *)
Example C20_isa_example :
  wf_instr (BNE 3 4 (-8)) /\ wf_instr (SW 2 3 2047) /\ wf_instr (CSRR 31 CSR_MNGR2PROC) /\
  let prog := map encode [CSRR 1 CSR_MNGR2PROC; ADDI 2 1 5; CSRW CSR_PROC2MNGR 2; ADDI 3 0 1; ADDI 4 0 13;
                          SLL 3 3 4; SW 2 3 4; LW 5 3 4; CSRW CSR_PROC2MNGR 5] in
  let s := run 100 (init_state [(512, prog)] [7]) in
  halted s = true /\ pc s = 548 /\ outputs s = [12; 12] /\ load4 (mem s) 8196 = 12 /\ regs_wf s.
Proof.
  split; [cbn [wf_instr]; unfold is_reg, is_immb; lia|]. split; [cbn [wf_instr]; unfold is_reg, is_imm12; lia|].
  split; [cbn [wf_instr]; unfold is_reg, is_csr, CSR_MNGR2PROC; lia|].
  cbv zeta. split; [vm_compute; reflexivity|]. split; [vm_compute; reflexivity|].
  split; [vm_compute; reflexivity|]. split; [vm_compute; reflexivity|].
  apply run_regs_wf. apply init_regs_wf.
Qed.
