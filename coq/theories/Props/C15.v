(* Props/C15.v — property C15: replacing a component yields the same design as building it directly.
   ONLY statements closed by exact + Print Assumptions. *)
From Coq Require Import List Bool Arith Ascii String Lia.
Import ListNotations.
From PV Require Import Base.Prelude Elab.Replace Elab.ReplaceProofs.

(* metadata = disjoint union over components of local contributions keyed by names *)
Theorem C15_metadata_is_union_of_local_contributions H g :
  In g (meta H) <-> exists loc, In (fst g, loc) H /\ In (snd g) loc.
Proof. exact (meta_In H g). Qed.

(* delete + add at a slot (any depth / list position) = metadata of the design built with the replacement in place *)
Theorem C15_delete_add_eq_build H c H' : set_eq (replace (meta H) c H') (meta (subst H c H')).
Proof. exact (delete_add_eq_build H c H'). Qed.
(* ... and the operation succeeds (no saved name fails to re-evaluate) when the replacement exposes the same interface names *)
Theorem C15_delete_add_eq_build_checked H c H' : exposes c H' (saved (meta H) c) = true ->
  exists M', replace_checked (meta H) c H' = Some M' /\ set_eq M' (meta (subst H c H')).
Proof. exact (delete_add_eq_build_checked H c H'). Qed.

(* any sequence of replacements, once or repeatedly, equals the scratch build *)
Theorem C15_replace_seq rs H M : set_eq M (meta H) -> set_eq (replace_seq_meta M rs) (meta (replace_seq_hier H rs)).
Proof. exact (replace_seq rs H M). Qed.
Theorem C15_replace_twice H c H1 H2 : set_eq (meta (subst (subst H c H1) c H2)) (meta (subst H c H2)).
Proof. exact (replace_twice H c H1 H2). Qed.

(* nothing keyed by an object of the removed subtree remains *)
Theorem C15_no_residue_after_delete M c g : In g (delete M c) ->
  under c (owner g) = false /\ forall r, In r (abs_refs g) -> under c r = false.
Proof. exact (no_residue_after_delete M c g). Qed.
Theorem C15_no_residue M c H' g : In g (replace M c H') ->
  (under c (owner g) = true -> In g (meta (rebase c H'))) /\
  (forall r, In r (abs_refs g) -> under c r = true -> In g (meta (rebase c H')) \/ In g (saved M c)).
Proof. exact (no_residue M c H' g). Qed.
Theorem C15_saved_refs_resolve M c H' g r : exposes c H' (saved M c) = true -> In g (saved M c) -> In r (abs_refs g) ->
  under c r = true -> resolves (declared (meta (rebase c H'))) r = true.
Proof. exact (saved_refs_resolve M c H' g r). Qed.
Theorem C15_outside_untouched H c H' g : under c (owner g) = false -> (In g (meta (subst H c H')) <-> In g (meta H)).
Proof. exact (outside_untouched H c H' g). Qed.

(* the comparison evaluated by the harness *)
Theorem C15_case_ok_sound H rs obs both : case_ok (H, rs, obs, both) = true -> set_eq obs (views (meta (replace_seq_hier H rs))).
Proof. exact (case_ok_sound H rs obs both). Qed.
Theorem C15_views_replace_seq H rs : set_eq (views (replace_seq_meta (meta H) rs)) (views (meta (replace_seq_hier H rs))).
Proof. exact (views_replace_seq H rs). Qed.

(* non-vacuity: top with child a (WR-constraint on its wire, an update block) connected to top.out; parent block reads a.out;
   replace a by a component with another block; the stale-entry scenario is exactly what delete must remove *)
Local Open Scope string_scope.
Definition exH : hier :=
  [ ([], [FComp; FSig ["in_"]; FSig ["out"]; FBlk "up_t" "up"; FRead "up_t" ["a"; "out"]; FWrite "up_t" ["out"];
          FEdge (ESig ["a"; "in_"]) (ESig ["in_"])]);
    (["a"], [FComp; FSig ["in_"]; FSig ["out"]; FSig ["w"]; FBlk "up_a" "up"; FRead "up_a" ["in_"]; FWrite "up_a" ["w"];
             FWRU ["w"] "<" "up_b"; FBlk "up_b" "up"; FRead "up_b" ["w"]; FWrite "up_b" ["out"]]) ].
Definition exB : hier :=
  [ ([], [FComp; FSig ["in_"]; FSig ["out"]; FBlk "up_x" "up"; FRead "up_x" ["in_"]; FWrite "up_x" ["out"]]) ].
Example C15_nonvacuous :
  exposes ["a"] exB (saved (meta exH) ["a"]) = true /\
  List.length (saved (meta exH) ["a"]) = 2%nat /\
  rows_eq (views (replace (meta exH) ["a"] exB)) (views (meta (subst exH ["a"] exB))) = true /\
  row_mem ["WRU"; "s.a.w"; "<"; "s.a"; "up_b"] (views (meta exH)) = true /\
  row_mem ["WRU"; "s.a.w"; "<"; "s.a"; "up_b"] (views (replace (meta exH) ["a"] exB)) = false /\
  row_mem ["rd"; "s"; "up_t"; "s.a.out"] (views (replace (meta exH) ["a"] exB)) = true /\
  exposes ["a"] [([], [FComp; FSig ["in_"]])] (saved (meta exH) ["a"]) = false.
Proof. vm_compute. repeat split. Qed.

Print Assumptions C15_metadata_is_union_of_local_contributions. Print Assumptions C15_delete_add_eq_build.
Print Assumptions C15_delete_add_eq_build_checked. Print Assumptions C15_replace_seq. Print Assumptions C15_replace_twice.
Print Assumptions C15_no_residue_after_delete. Print Assumptions C15_no_residue. Print Assumptions C15_saved_refs_resolve.
Print Assumptions C15_outside_untouched. Print Assumptions C15_case_ok_sound. Print Assumptions C15_views_replace_seq.
