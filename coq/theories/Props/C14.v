(* Props/C14.v — property C14: hierarchical names are unique and evaluate back to their objects.
   ONLY statements closed by exact + Print Assumptions. *)
From Coq Require Import List Bool Arith Ascii String Lia.
Import ListNotations.
From PV Require Import Base.Prelude Elab.Names Elab.NamesProofs.
Local Open Scope nat_scope.

(* eval(repr(o)) is o : for every object (component, interface, method port, declared / field / list-element / slice signal) *)
Theorem C14_eval_repr_is_object t p : wf t = true -> is_object t p = true ->
  parse_name (full_name t p) = Some (name_of t p) /\ resolve t (name_of t p) = Some p.
Proof. exact (full_name_roundtrip t p). Qed.

(* distinct objects have distinct names (token lists and printed strings); sibling names distinct + identifiers well-formed = wf *)
Theorem C14_names_injective t p q : wf t = true -> is_object t p = true -> is_object t q = true ->
  name_of t p = name_of t q -> p = q.
Proof. exact (name_inj t p q). Qed.
Theorem C14_printed_names_injective t p q : wf t = true -> is_object t p = true -> is_object t q = true ->
  full_name t p = full_name t q -> p = q.
Proof. exact (full_name_inj t p q). Qed.
Theorem C14_enumerated_objects_distinct t p q : wf t = true -> In p (objects t) -> In q (objects t) ->
  full_name t p = full_name t q -> p = q.
Proof. exact (objects_names_distinct t p q). Qed.
Theorem C14_objects_enumeration t p : In p (objects t) <-> is_object t p = true.
Proof. exact (objects_spec t p). Qed.

(* whatever a name evaluates to is an object, and the canonical name of that object evaluates to it again *)
Theorem C14_eval_sound t ts p : wf t = true -> resolve t ts = Some p -> is_object t p = true.
Proof. exact (resolve_sound t ts p). Qed.
Theorem C14_eval_canonical t ts p : wf t = true -> resolve t ts = Some p -> resolve t (name_of t p) = Some p.
Proof. exact (resolve_canonical t ts p). Qed.

(* printing a token list and tokenising the characters is the identity *)
Theorem C14_print_tokenize ts : forallb tok_ok ts = true -> tokenize (print_tokens ts) = Some ts.
Proof. exact (print_tokenize ts). Qed.

(* slices of slices are normalised: x[a:b][c:d] is the object named x[a+c:a+d];  x[i] is x[i:i+1] *)
Theorem C14_slice_of_slice t ts rest n rp a b c d :
  run t [] ts = Some (NBits n, rp) -> a < b <= n -> c < d <= b - a ->
  resolve t (ts ++ TSlice a b :: TSlice c d :: rest) = resolve t (ts ++ TSlice (a + c) (a + d) :: rest).
Proof. exact (slice_of_slice_norm t ts rest n rp a b c d). Qed.
Theorem C14_slice_of_slice_name t p n a b c d : wf t = true -> node_at t p = Some (NBits n) -> a < b <= n -> c < d <= b - a ->
  resolve t (name_of t p ++ [TSlice a b; TSlice c d]) = Some (p ++ [PSlice (a + c) (a + d)]) /\
  name_of t (p ++ [PSlice (a + c) (a + d)]) = name_of t p ++ [TSlice (a + c) (a + d)].
Proof. exact (slice_of_slice_name t p n a b c d). Qed.
Theorem C14_index_is_unit_slice t ts rest n rp i : run t [] ts = Some (NBits n, rp) ->
  resolve t (ts ++ TIdx i :: rest) = resolve t (ts ++ TSlice i (S i) :: rest).
Proof. exact (index_is_unit_slice t ts rest n rp i). Qed.

(* parent metadata: the parent's path / name is a proper prefix and the parent is an object *)
Theorem C14_parent_prefix p : p <> [] -> exists suffix, p = parent p ++ suffix /\ suffix <> [].
Proof. exact (parent_prefix p). Qed.
Theorem C14_parent_is_object t p : is_list t = false -> is_object t p = true -> is_object t (parent p) = true.
Proof. exact (parent_is_object t p). Qed.
Theorem C14_parent_name_prefix t p : is_list t = false -> is_object t p = true ->
  exists rest, name_of t p = name_of t (parent p) ++ rest.
Proof. exact (parent_name_prefix t p). Qed.

(* level = number of attribute hops = number of ".id" tokens = parent's level + 1 *)
Theorem C14_level_is_dot_count p t ts n : walk t p = Some (ts, n) -> count_dots ts = level p.
Proof. exact (level_dots p t ts n). Qed.
Theorem C14_level_parent t p : is_list t = false -> is_object t p = true -> p <> [] ->
  (forall lo hi, last p (PChild 0) <> PSlice lo hi) -> level p = S (level (parent p)).
Proof. exact (level_parent t p). Qed.

(* host component: a component, a prefix of the path, the nearest one along the parent chain *)
Theorem C14_host t p : is_comp t = true ->
  (exists suf, p = host t p ++ suf) /\ is_comp_at t (host t p) = true /\
  (is_comp_at t p = true -> host t p = p) /\ (is_comp_at t p = false -> host t p = host t (parent p)).
Proof. exact (host_spec t p). Qed.

(* top-level signal: the outermost signal on the path (a declared signal), a prefix; exists for every signal object *)
Theorem C14_top_level_signal t p q : top_level_signal t p = Some q ->
  (exists r, p = q ++ r) /\ is_sig_at t q = true /\ (forall q1 q2, q = q1 ++ q2 -> q2 <> [] -> is_sig_at t q1 = false).
Proof. exact (tls_spec t p q). Qed.
Theorem C14_top_level_signal_exists t p : is_sig_at t p = true -> exists q, top_level_signal t p = Some q.
Proof. exact (tls_exists t p). Qed.

(* the acceptor run by the harness on what pymtl3 reported *)
Theorem C14_observation_checker_sound t o : wf t = true -> obs_ok t o = true ->
  exists p, is_object t p = true /\ full_name t p = o_name o /\
            parse_name (o_name o) = Some (name_of t p) /\ resolve t (name_of t p) = Some p.
Proof. exact (obs_ok_sound t o). Qed.
Theorem C14_eager_are_objects t p : In p (eager t) -> is_object t p = true.
Proof. exact (eager_is_object t p). Qed.

(* non-vacuity: a hierarchy with a list of components, a struct signal with a list field and a nested struct, a method port *)
Definition ex_tree : node :=
  NComp [("clk"%string, NBits 1);
         ("a"%string, NList [NList [NComp [("x"%string, NBits 8)]]; NList [NComp [("x"%string, NBits 8)]]]);
         ("q"%string, NStruct [("v"%string, NList [NBits 4; NBits 4]); ("p"%string, NStruct [("a"%string, NBits 8)])]);
         ("ifc"%string, NList [NIfc [("msg"%string, NBits 16); ("m"%string, NMeth)]])].
Example C14_nonvacuous :
  wf ex_tree = true /\ is_comp ex_tree = true /\
  option_map (resolve ex_tree) (parse_name "s.a[1][0].x[2:7][1:3]") = Some (Some [PChild 1; PElem 1; PElem 0; PChild 0; PSlice 3 5]) /\
  full_name ex_tree [PChild 2; PChild 0; PElem 1; PSlice 0 2] = "s.q.v[1][0:2]"%string /\
  parent [PChild 1; PElem 1; PElem 0] = [] /\ level [PChild 1; PElem 1; PElem 0; PChild 0] = 2 /\
  host ex_tree [PChild 3; PElem 0; PChild 0; PSlice 0 4] = [] /\
  host ex_tree [PChild 1; PElem 0; PElem 0; PChild 0] = [PChild 1; PElem 0; PElem 0] /\
  top_level_signal ex_tree [PChild 2; PChild 1; PChild 0; PSlice 1 2] = Some [PChild 2] /\
  resolve ex_tree [TDot "a"; TIdx 1] = None /\ resolve ex_tree [TDot "q"; TSlice 0 1] = None /\
  List.length (objects ex_tree) = 279.
Proof. vm_compute. repeat split. Qed.

Print Assumptions C14_eval_repr_is_object. Print Assumptions C14_names_injective. Print Assumptions C14_printed_names_injective.
Print Assumptions C14_enumerated_objects_distinct. Print Assumptions C14_objects_enumeration.
Print Assumptions C14_eval_sound. Print Assumptions C14_eval_canonical. Print Assumptions C14_print_tokenize.
Print Assumptions C14_slice_of_slice. Print Assumptions C14_slice_of_slice_name. Print Assumptions C14_index_is_unit_slice.
Print Assumptions C14_parent_prefix. Print Assumptions C14_parent_is_object. Print Assumptions C14_parent_name_prefix.
Print Assumptions C14_level_is_dot_count. Print Assumptions C14_level_parent. Print Assumptions C14_host.
Print Assumptions C14_top_level_signal. Print Assumptions C14_top_level_signal_exists.
Print Assumptions C14_observation_checker_sound. Print Assumptions C14_eager_are_objects.
