(* Props/C13.v — property C13: translation is deterministic and module names never alias different hardware.
   ONLY statements closed by exact/apply + non-vacuity examples + Print Assumptions.
   NOT proved here (differential only, see harness/c13.py): byte-identical output across processes / hash seeds. *)
From Coq Require Import Ascii String Permutation.
From PV Require Import Base.Prelude SV.Modules SV.ModulesProofs.

(* ---- the module-name function ---- *)
(* components that differ in class name or parameters get different names, PROVIDED class and parameter names have
   no "__" and no trailing "_", and rendered values are non-empty and contain no "_" *)
Theorem C13_full_name_injective c1 p1 c2 p2 :
  name_ok c1 = true -> name_ok c2 = true -> forallb param_ok p1 = true -> forallb param_ok p2 = true ->
  full_name c1 p1 = full_name c2 p2 -> c1 = c2 /\ p1 = p2.
Proof. exact (full_name_inj c1 p1 c2 p2). Qed.

(* one class (same parameter names): different values give different names as soon as no value contains "__" or
   ends with "_" *)
Theorem C13_same_class_different_parameters c p1 p2 : map fst p1 = map fst p2 ->
  forallb (fun p => value_weak_ok (snd p)) p1 = true -> forallb (fun p => value_weak_ok (snd p)) p2 = true ->
  full_name c p1 = full_name c p2 -> p1 = p2.
Proof. exact (full_name_inj_same_keys c p1 p2). Qed.

(* the provisos are needed: collisions exist without them *)
Theorem C13_full_name_collision_refuted : exists c p1 p2, p1 <> p2 /\ full_name c p1 = full_name c p2.
Proof. exact full_name_collision_refuted. Qed.
Theorem C13_full_name_collision_weak_proviso : exists c p1 p2, p1 <> p2 /\
  forallb (fun p => name_ok (fst p) && clean (snd p) && nonempty (snd p)) (p1 ++ p2) = true /\ name_ok c = true /\
  full_name c p1 = full_name c p2.
Proof. exact full_name_collision_weak_proviso. Qed.
Theorem C13_full_name_collision_same_class : exists c p1 p2, map fst p1 = map fst p2 /\ p1 <> p2 /\
  full_name c p1 = full_name c p2.
Proof. exact full_name_collision_same_keys. Qed.

(* the name after the hashing branch, for ANY digest oracle that is injective on the parameter strings hashed in the
   run and whose digests contain no "_" (hex digits) *)
Theorem C13_unique_name_injective (hash : str -> str) (observed : list str) :
  (forall x y, In x observed -> In y observed -> hash x = hash y -> x = y) ->
  (forall x, In x observed -> no_us (hash x) = true) ->
  forall c1 p1 c2 p2,
  name_ok c1 = true -> name_ok c2 = true -> forallb param_ok p1 = true -> forallb param_ok p2 = true ->
  (needs_hash (full_name c1 p1) = true -> In (params_str p1) observed) ->
  (needs_hash (full_name c2 p2) = true -> In (params_str p2) observed) ->
  unique_name hash c1 p1 = unique_name hash c2 p2 -> c1 = c2 /\ p1 = p2.
Proof. exact (unique_name_inj hash observed). Qed.

Theorem C13_observed_digest_table_injective t : inj_table_b t = true ->
  forall x y, In x (map fst t) -> In y (map fst t) -> assoc t x = assoc t y -> x = y.
Proof. exact (assoc_inj_on_keys t). Qed.

(* ---- the acceptor run on the module table parsed from the emitted file ---- *)
Theorem C13_accepted_output_is_well_formed t : modules_ok t = true ->
  NoDup (mod_names t) /\
  (forall m i, In m (t_mods t) -> In i (m_insts m) -> exists m', In m' (t_mods t) /\ m_name m' = i) /\
  (forall sc x, scope_of t sc -> In x sc -> legal x) /\
  (forall sc, scope_of t sc -> NoDup sc).
Proof. exact (modules_ok_sound t). Qed.

(* instances that are given the same module name have identical bodies, namely the body that is emitted *)
Theorem C13_shared_definition_only_if_same_body t l : sharing_ok t l = true ->
  (forall a b, In a l -> In b l -> fst a = fst b -> snd a = snd b) /\
  (forall a, In a l -> exists m, In m (t_mods t) /\ m_name m = fst a /\ m_body m = snd a).
Proof. exact (sharing_ok_sound t l). Qed.

(* ---- the components[name] dictionary: first writer wins ---- *)
Theorem C13_first_wins_lookup l n : dlookup n (first_wins l) = dlookup n l.
Proof. exact (first_wins_lookup l n). Qed.
Theorem C13_first_wins_order_independent_iff_functional l :
  (forall l', Permutation l l' -> same_map (first_wins l) (first_wins l')) <-> functional l.
Proof. exact (first_wins_ok l). Qed.
Theorem C13_functional_checker l : functional_b l = true <-> functional l.
Proof. exact (functional_b_spec l). Qed.

(* ---- canonical order ---- *)
Theorem C13_order_canonical {A B : Type} (key : A -> str) (ra : A -> str) (rb : B -> str) (n1 n2 : list A) (o : list B) :
  Permutation n1 n2 -> NoDup (map key n1) -> layout key ra rb n1 o = layout key ra rb n2 o.
Proof. exact (order_canonical key ra rb n1 n2 o). Qed.

(* ---- non-vacuity ---- *)
Definition ex_leaf := mkMod (lit "Leaf__n_8") 1 [] [[lit "clk"; lit "in_"; lit "out"; lit "reset"; lit "up"]].
Definition ex_top (extra : list str) (insts : list str) :=
  mkMod (lit "Top_noparam") 2 insts [[lit "clk"; lit "reset"; lit "a"; lit "a__out"; lit "b"] ++ extra].
Example C13_nonvacuous :
  (* a well-formed table is accepted; each conjunct can fail on its own *)
  modules_ok (mkTable [(lit "Pt__a_8", [lit "a"])] [ex_leaf; ex_top [] [lit "Leaf__n_8"; lit "Leaf__n_8"]]) = true /\
  modules_ok (mkTable [] [ex_leaf; ex_leaf]) = false /\                                              (* defined twice *)
  modules_ok (mkTable [] [ex_top [] [lit "Leaf__n_8"]]) = false /\                                   (* undefined module *)
  modules_ok (mkTable [] [ex_leaf; ex_top [lit "a__out"] []]) = false /\                             (* duplicate in scope *)
  modules_ok (mkTable [] [ex_leaf; ex_top [lit "reg"] []]) = false /\                                (* reserved word *)
  modules_ok (mkTable [] [ex_leaf; ex_top [lit "P__x_-1"] []]) = false /\                            (* illegal character *)
  sharing_ok (mkTable [] [ex_leaf]) [(lit "Leaf__n_8", 1); (lit "Leaf__n_8", 1)] = true /\
  sharing_ok (mkTable [] [ex_leaf]) [(lit "Leaf__n_8", 1); (lit "Leaf__n_8", 7)] = false /\
  (* the name function and its provisos *)
  full_name (lit "Leaf") [(lit "n", lit "8")] = lit "Leaf__n_8" /\ full_name (lit "Top") [] = lit "Top_noparam" /\
  name_ok (lit "Leaf") = true /\ param_ok (lit "num_entries", lit "8") = true /\ param_ok (lit "x", lit "1__y_2") = false /\
  needs_hash (lit "P__T_Bits8__name_hello world") = true /\ needs_hash (lit "Leaf__n_8") = false /\
  unique_name (assoc [(lit "__name_a.b", lit "00ff")]) (lit "P") [(lit "name", lit "a.b")] = lit "P__00ff" /\
  (* first wins, and sorting *)
  first_wins [(lit "M", 1); (lit "N", 2); (lit "M", 3)] = [(lit "M", 1); (lit "N", 2)] /\
  functional_b [(lit "M", 1); (lit "N", 2); (lit "M", 3)] = false /\
  sort_by (fun x => x) [lit "reset"; lit "in_"; lit "clk"; lit "out"] = [lit "clk"; lit "in_"; lit "out"; lit "reset"].
Proof. vm_compute. repeat split. Qed.

Print Assumptions C13_full_name_injective. Print Assumptions C13_same_class_different_parameters.
Print Assumptions C13_full_name_collision_refuted. Print Assumptions C13_full_name_collision_weak_proviso.
Print Assumptions C13_full_name_collision_same_class. Print Assumptions C13_unique_name_injective.
Print Assumptions C13_observed_digest_table_injective. Print Assumptions C13_accepted_output_is_well_formed.
Print Assumptions C13_shared_definition_only_if_same_body. Print Assumptions C13_first_wins_lookup.
Print Assumptions C13_first_wins_order_independent_iff_functional. Print Assumptions C13_functional_checker.
Print Assumptions C13_order_canonical. Print Assumptions C13_nonvacuous.
