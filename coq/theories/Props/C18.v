(* Props/C18.v — property C18: magic memories act as one in-order memory whatever the timing parameters.
   ONLY statements at full strength, each closed by `exact`/`apply`, non-vacuity examples, Print Assumptions.

   Model: Lib/Mem.v (bytes, little-endian read/write, nine AMOs, MemMsg request decoding as in up_mem,
   sequential spec, history acceptor) and Lib/MemPipe.v (per-port stall -> request pipe -> service ->
   response pipe under an ARBITRARY oracle = list of atomic actions; one clock cycle of MagicMemoryCL is
   one such list).  Data widths are PER PORT: `W : nat -> Z` gives the message data width in bytes of each port
   (ports of one memory may carry different message types); a processed request carries its port's width
   (`wreq = Z * req`), and len = 0 means the width of the port the request arrived on. *)
From PV Require Import Base.Prelude Lib.Mem Lib.MemPipe Lib.MemProofs.
Open Scope Z_scope.

(* ---------------------------------------------------------------- bytes: most recent write wins *)
Theorem C18_read_write_same n m a d : read_n (write_n m a n d) a n = d mod 256 ^ Z.of_nat n.
Proof. exact (read_write_same n m a d). Qed.

Theorem C18_read_write_other m a n b k d :
  a + Z.of_nat n <= b \/ b + Z.of_nat k <= a -> read_n (write_n m b k d) a n = read_n m a n.
Proof. exact (read_write_other m a n b k d). Qed.

Theorem C18_write_frame m a n d x : x < a \/ a + Z.of_nat n <= x -> write_n m a n d x = m x.
Proof. exact (write_frame m a n d x). Qed.

(* overlapping, differently sized accesses: byte j of a read after a write *)
Theorem C18_read_after_write_bytewise m a n b k d j :
  wf m -> 0 <= j < Z.of_nat n ->
  byte_k (read_n (write_n m b k d) a n) j =
    if (b <=? a + j) && (a + j <? b + Z.of_nat k) then byte_k d (a + j - b) else m (a + j).
Proof. exact (read_after_write_bytewise m a n b k d j). Qed.

(* over a whole processed sequence: a read returns, per byte, what the most recent earlier-processed
   write/AMO covering that byte stored there (or the initial byte when none did) *)
Theorem C18_read_returns_most_recent_write W l1 (w : wreq) l2 rd m0 k b :
  wf m0 -> q_type rd = TRead -> 0 <= k < Z.of_nat (eff_len W rd) ->
  stores (fst w) (snd w) (mem_after l1 m0) (q_addr rd + k) = Some b ->
  Forall (no_write (q_addr rd + k)) l2 ->
  byte_k (p_data (resp_of W rd (mem_after (l1 ++ w :: l2) m0))) k = b.
Proof. exact (read_returns_most_recent_write W l1 w l2 rd m0 k b). Qed.

Theorem C18_read_returns_initial_if_never_written W l rd m0 k :
  wf m0 -> q_type rd = TRead -> 0 <= k < Z.of_nat (eff_len W rd) ->
  Forall (no_write (q_addr rd + k)) l ->
  byte_k (p_data (resp_of W rd (mem_after l m0))) k = m0 (q_addr rd + k).
Proof. exact (read_returns_initial_if_never_written W l rd m0 k). Qed.

Theorem C18_amo_returns_most_recent_write W l1 (w : wreq) l2 rd op m0 k b :
  wf m0 -> q_type rd = TAmo op -> 0 <= k < Z.of_nat (eff_len W rd) ->
  stores (fst w) (snd w) (mem_after l1 m0) (q_addr rd + k) = Some b ->
  Forall (no_write (q_addr rd + k)) l2 ->
  byte_k (p_data (resp_of W rd (mem_after (l1 ++ w :: l2) m0))) k = b.
Proof. exact (amo_returns_most_recent_write W l1 w l2 rd op m0 k b). Qed.

Theorem C18_final_byte_is_most_recent_write l1 (w : wreq) l2 m0 x b :
  stores (fst w) (snd w) (mem_after l1 m0) x = Some b ->
  Forall (no_write x) l2 ->
  mem_after (l1 ++ w :: l2) m0 x = b.
Proof. exact (byte_is_most_recent_write l1 w l2 m0 x b). Qed.

(* ---------------------------------------------------------------- AMOs *)
Theorem C18_amo_returns_old_stores_result op m a n d :
  wf m ->
  let w := 8 * Z.of_nat n in
  let old := read_n m a n in
  let '(ret, m') := amo_n op m a n d in
  ret = old /\
  read_n m' a n = amo_fun op w old (d mod 2 ^ w) /\
  (forall x, x < a \/ a + Z.of_nat n <= x -> m' x = m x) /\
  wf m'.
Proof. exact (amo_returns_old_stores_result op m a n d). Qed.

Theorem C18_amo_request W r m op :
  wf m -> q_type r = TAmo op ->
  let n := eff_len W r in let w := 8 * Z.of_nat n in let old := read_n m (q_addr r) n in
  p_data (resp_of W r m) = old /\
  read_n (mem_step W r m) (q_addr r) n = amo_fun op w old (q_data r mod 2 ^ w).
Proof. exact (amo_request W r m op). Qed.

Theorem C18_amo_min_signed w m a : sint w (amo_fun AMin w m a) = Z.min (sint w m) (sint w a).
Proof. exact (amo_min_signed w m a). Qed.
Theorem C18_amo_max_signed w m a : sint w (amo_fun AMax w m a) = Z.max (sint w m) (sint w a).
Proof. exact (amo_max_signed w m a). Qed.
Theorem C18_amo_minu_unsigned w m a : amo_fun AMinu w m a = Z.min m a.
Proof. exact (amo_minu_unsigned w m a). Qed.
Theorem C18_amo_maxu_unsigned w m a : amo_fun AMaxu w m a = Z.max m a.
Proof. exact (amo_maxu_unsigned w m a). Qed.
Theorem C18_sint_twos_complement w u :
  0 < w -> 0 <= u < 2 ^ w -> - 2 ^ (w - 1) <= sint w u < 2 ^ (w - 1) /\ sint w u mod 2 ^ w = u.
Proof. intros; split; [apply sint_range|apply sint_mod]; assumption. Qed.
Theorem C18_amo_result_fits op w m a :
  0 <= w -> 0 <= m < 2 ^ w -> 0 <= a < 2 ^ w -> 0 <= amo_fun op w m a < 2 ^ w.
Proof. exact (amo_fun_range op w m a). Qed.

(* ---------------------------------------------------------------- requests / responses *)
Theorem C18_response_echoes_request W r m : echo (resp_of W r m) r.
Proof. exact (resp_of_echo W r m). Qed.
Theorem C18_write_request W r m :
  q_type r = TWrite ->
  read_n (mem_step W r m) (q_addr r) (eff_len W r) = q_data r mod 256 ^ Z.of_nat (eff_len W r).
Proof. exact (write_request W r m). Qed.
Theorem C18_request_frame W r m x : writes_at W r x = false -> mem_step W r m x = m x.
Proof. exact (request_frame W r m x). Qed.

(* ---------------------------------------------------------------- delay pipes *)
Theorem C18_delay_pipe_order {A} (ops : list pipe_op) (src : list A) l dst :
  let '(src', l', dst') := fold_left pipe_step ops (src, l, dst) in
  dst' ++ inflight l' ++ src' = dst ++ inflight l ++ src /\ length l' = length l.
Proof. exact (delay_pipe_order ops src l dst). Qed.

(* ---------------------------------------------------------------- the pipelines, for ALL port counts
   (ports : nat -> ...), ALL latencies (qlat, rlat : nat -> nat), ALL oracles (sched : list action) *)
Theorem C18_service_in_request_order W reqs qlat rlat m0 sched p :
  let s := exec W (init reqs qlat rlat m0) sched in
  exists rest, reqs p = on_port p (slog s) ++ rest.
Proof. exact (service_in_request_order W reqs qlat rlat m0 sched p). Qed.

Theorem C18_responses_are_spec_prefix W reqs qlat rlat m0 sched p :
  let s := exec W (init reqs qlat rlat m0) sched in
  exists rest, on_port p (tresps W (slog s) m0) = delivered s p ++ rest.
Proof. exact (responses_are_spec_prefix W reqs qlat rlat m0 sched p). Qed.

Theorem C18_responses_echo_requests W reqs qlat rlat m0 sched p :
  let s := exec W (init reqs qlat rlat m0) sched in
  exists rs rest, reqs p = rs ++ rest /\ Forall2 echo (delivered s p) rs.
Proof. exact (responses_echo_requests W reqs qlat rlat m0 sched p). Qed.

Theorem C18_memory_is_fold_of_log W reqs qlat rlat m0 sched :
  let s := exec W (init reqs qlat rlat m0) sched in
  smem s = mem_after (widths W (slog s)) m0.
Proof. exact (memory_is_fold_of_log W reqs qlat rlat m0 sched). Qed.

Theorem C18_drained_port_complete W reqs qlat rlat m0 sched p :
  let s := exec W (init reqs qlat rlat m0) sched in
  drained s p -> on_port p (slog s) = reqs p /\ delivered s p = on_port p (tresps W (slog s) m0).
Proof. exact (drained_port_complete W reqs qlat rlat m0 sched p). Qed.

Theorem C18_timing_irrelevant W m0 reqs1 ql1 rl1 sched1 reqs2 ql2 rl2 sched2 :
  let s1 := exec W (init reqs1 ql1 rl1 m0) sched1 in
  let s2 := exec W (init reqs2 ql2 rl2 m0) sched2 in
  slog s1 = slog s2 ->
  smem s1 = smem s2 /\
  forall p, delivered s1 p ++ resp_inflight s1 p = delivered s2 p ++ resp_inflight s2 p.
Proof. exact (timing_irrelevant W m0 reqs1 ql1 rl1 sched1 reqs2 ql2 rl2 sched2). Qed.

Theorem C18_timing_irrelevant_drained W m0 reqs1 ql1 rl1 sched1 reqs2 ql2 rl2 sched2 p :
  let s1 := exec W (init reqs1 ql1 rl1 m0) sched1 in
  let s2 := exec W (init reqs2 ql2 rl2 m0) sched2 in
  slog s1 = slog s2 -> resp_inflight s1 p = [] -> resp_inflight s2 p = [] ->
  delivered s1 p = delivered s2 p.
Proof. exact (timing_irrelevant_drained W m0 reqs1 ql1 rl1 sched1 reqs2 ql2 rl2 sched2 p). Qed.

(* by cycles: any number of MagicMemoryCL clock cycles with arbitrary accept / sink-ready bits *)
Theorem C18_cycles_invariant W nports reqs qlat rlat m0 cs :
  let s := run_cycles W nports (init reqs qlat rlat m0) cs in
  (forall p, reqs p = on_port p (slog s) ++ req_inflight s p ++ pending (ports s p)) /\
  (forall p, on_port p (tresps W (slog s) m0) = delivered s p ++ resp_inflight s p) /\
  smem s = tmem_after W (slog s) m0.
Proof. exact (cycles_invariant W nports reqs qlat rlat m0 cs). Qed.

(* one port: the timing cannot change anything at all *)
Theorem C18_single_port_deterministic W reqs qlat rlat m0 sched :
  (forall q, q <> 0%nat -> reqs q = []) ->
  let s := exec W (init reqs qlat rlat m0) sched in
  exists done rest more,
    reqs 0%nat = done ++ rest /\
    untag (slog s) = done /\
    resps (uniform (W 0%nat) done) m0 = delivered s 0%nat ++ more /\
    smem s = mem_after (uniform (W 0%nat) done) m0.
Proof. exact (single_port_deterministic W reqs qlat rlat m0 sched). Qed.

(* ---------------------------------------------------------------- the acceptor run on the real memory's histories *)
Theorem C18_check_history_sound Ws init reqs order out img complete l :
  check_history Ws init reqs order out img complete l = true ->
  history_ok Ws init reqs order out img complete l.
Proof. exact (check_history_sound Ws init reqs order out img complete l). Qed.

Theorem C18_accepted_history_echo Ws init reqs order out img complete l p rs os :
  check_history Ws init reqs order out img complete l = true ->
  nth_error reqs p = Some rs -> nth_error out p = Some os ->
  exists rs1 rest, rs = rs1 ++ rest /\ Forall2 echo os rs1.
Proof. exact (accepted_history_echo Ws init reqs order out img complete l p rs os). Qed.

(* ---------------------------------------------------------------- non-vacuity *)
(* two ports hammering one word with AMO add / a straddling sub-word write, latency 2 and 3, an
   interleaved oracle: everything is serviced, the log interleaves the ports, the image is the fold *)
Definition ex_reqs (p : nat) : list req :=
  match p with
  | 0%nat => [mkReq TWrite 1 16 0 0x01020304; mkReq (TAmo AAdd) 2 16 0 0xff; mkReq TRead 3 17 2 0]
  | 1%nat => [mkReq TWrite 7 18 3 0xaabbcc; mkReq (TAmo AMinu) 8 16 0 5; mkReq TRead 9 20 0 0]
  | _ => []
  end.
Definition ex_cyc : cyc := mkCyc (fun _ => true) (fun _ => true).
(* port 0 carries 32-bit data, port 1 64-bit data: its full-width AMO covers 8 bytes *)
Definition ex_W (p : nat) : Z := match p with 0%nat => 4 | _ => 8 end.
Definition ex_final := run_cycles ex_W 2 (init ex_reqs (fun _ => 2%nat) (fun p => S p) mem0) (repeat ex_cyc 14).
Example C18_nonvacuous_run :
  map fst (slog ex_final) = [0; 1; 0; 1; 0; 1]%nat /\
  drained ex_final 0 /\ drained ex_final 1 /\
  map p_data (delivered ex_final 0) = [0; 0xbbcc0304; 0] /\
  map p_data (delivered ex_final 1) = [0; 0xaabbcc0403; 0] /\
  read_n (smem ex_final) 16 9 = 5.
Proof. vm_compute. repeat split; reflexivity. Qed.

Example C18_nonvacuous_acceptor :
  check_history [4; 2] [(20, 9)]
    [[mkReq TWrite 1 16 2 0xdead1234; mkReq TRead 2 16 0 0]; [mkReq (TAmo AMaxu) 5 16 0 0x77]]
    [(0%nat, CWrite 16 2 0x1234); (1%nat, CAmo 10 16 2 0x77); (0%nat, CRead 16 4)]
    [[mkResp TWrite 1 0 0 0; mkResp TRead 2 0 0 0x1234]; [mkResp (TAmo AMaxu) 5 0 0 0x1234]]
    [(16, 0x34); (17, 0x12); (18, 0); (20, 9)] true
    [(0%nat, mkReq TWrite 1 16 2 0xdead1234); (1%nat, mkReq (TAmo AMaxu) 5 16 0 0x77); (0%nat, mkReq TRead 2 16 0 0)]
  = true.
Proof. vm_compute. reflexivity. Qed.

(* signed minimum really is signed: 0xff (= -1 on 8 bits) beats 0x01 *)
Example C18_nonvacuous_signed : amo_fun AMin 8 0xff 0x01 = 0xff /\ amo_fun AMinu 8 0xff 0x01 = 0x01.
Proof. vm_compute. split; reflexivity. Qed.

Print Assumptions C18_read_write_same. Print Assumptions C18_read_write_other. Print Assumptions C18_write_frame.
Print Assumptions C18_read_after_write_bytewise. Print Assumptions C18_read_returns_most_recent_write.
Print Assumptions C18_read_returns_initial_if_never_written. Print Assumptions C18_amo_returns_most_recent_write.
Print Assumptions C18_final_byte_is_most_recent_write.
Print Assumptions C18_amo_returns_old_stores_result. Print Assumptions C18_amo_request.
Print Assumptions C18_amo_min_signed. Print Assumptions C18_amo_max_signed.
Print Assumptions C18_amo_minu_unsigned. Print Assumptions C18_amo_maxu_unsigned.
Print Assumptions C18_sint_twos_complement. Print Assumptions C18_amo_result_fits.
Print Assumptions C18_response_echoes_request. Print Assumptions C18_write_request. Print Assumptions C18_request_frame.
Print Assumptions C18_delay_pipe_order.
Print Assumptions C18_service_in_request_order. Print Assumptions C18_responses_are_spec_prefix.
Print Assumptions C18_responses_echo_requests. Print Assumptions C18_memory_is_fold_of_log.
Print Assumptions C18_drained_port_complete. Print Assumptions C18_timing_irrelevant.
Print Assumptions C18_timing_irrelevant_drained. Print Assumptions C18_cycles_invariant.
Print Assumptions C18_single_port_deterministic.
Print Assumptions C18_check_history_sound. Print Assumptions C18_accepted_history_echo.
Print Assumptions C18_nonvacuous_run. Print Assumptions C18_nonvacuous_acceptor.
