(* Props/C17.v — property C17: library queues are FIFOs with their advertised same-cycle behaviour.
   ONLY statements, each closed by `exact`/`apply`, each followed by Print Assumptions.

   Specification          : Lib/Fifo.v      fifo_step k n   (k = Normal | Pipe | Bypass, any capacity n >= 1)
   Concrete models        : Lib/QueueRTL.v  crtl_step (head/tail/count + register file; queues.py and stream/queues.py),
                            e1_step / s1_step / p1_step / v1_step (the four families of one-entry queues),
                            vq_step (valrdy NormalQueueRTL: enq_ptr/deq_ptr/full),  Lib/QueueCL.v cl_step (CL deque queues)
   Every theorem below is for ALL n >= 1 (one-entry models: n = 1), ALL kinds, ALL input sequences that respect the
   interface protocol, an abstract message type M. *)
From PV Require Import Base.Prelude Lib.Fifo Lib.QueueRTL Lib.QueueCL Lib.QueueProofs.
(* generated-from-source instances proved equal to the hand model at small parameters *)
From PV Require Import Props.C17_gen.
Open Scope nat_scope.

(* ------------------------------------------------------------------ the specification itself says what the property says *)
(* enqueue ready iff not full, plus (pipe only) when a dequeue happens in the same cycle *)
Theorem C17_spec_enq_rdy {M} k n (q : list M) o :
  f_enq_rdy (snd (fifo_step k n q o)) = true <->
  (length q < n \/ (k = Pipe /\ f_deq_fire (snd (fifo_step k n q o)) = true)).
Proof. exact (fifo_enq_rdy_rule k n q o). Qed.
(* dequeue ready iff not empty, plus (bypass only) when an enqueue happens in the same cycle *)
Theorem C17_spec_deq_rdy {M} k n (q : list M) o :
  f_deq_rdy (snd (fifo_step k n q o)) = true <->
  (0 < length q \/ (k = Bypass /\ f_enq_fire (snd (fifo_step k n q o)) = true)).
Proof. exact (fifo_deq_rdy_rule k n q o). Qed.
Theorem C17_spec_pipe_when_full {M} n (q : list M) o : length q = n -> 0 < n ->
  f_enq_rdy (snd (fifo_step Pipe n q o)) = f_deq_fire (snd (fifo_step Pipe n q o)).
Proof. exact (fifo_pipe_full n q o). Qed.
Theorem C17_spec_bypass_when_empty {M} n (o : offer M) : 0 < n ->
  f_deq_rdy (snd (fifo_step Bypass n [] o)) = f_enq_fire (snd (fifo_step Bypass n [] o)) /\
  (f_deq_fire (snd (fifo_step Bypass n [] o)) = true -> f_msg (snd (fifo_step Bypass n [] o)) = Some (o_msg o)).
Proof. exact (fifo_bypass_empty n o). Qed.
(* a transfer happens iff it is offered and the queue is ready; count exact; capacity never exceeded *)
Theorem C17_spec_fire {M} k n (q : list M) o :
  f_enq_fire (snd (fifo_step k n q o)) = (o_enq o && f_enq_rdy (snd (fifo_step k n q o)))%bool /\
  f_deq_fire (snd (fifo_step k n q o)) = (o_deq o && f_deq_rdy (snd (fifo_step k n q o)))%bool.
Proof. exact (fifo_fire_rule k n q o). Qed.
Theorem C17_spec_count {M} k n (q : list M) o : f_count (snd (fifo_step k n q o)) = length q.
Proof. exact (fifo_step_count k n q o). Qed.
Theorem C17_spec_capacity {M} k n (os : list (bool * offer M)) q : 0 < n -> length q <= n ->
  length (fst (fifo_run k n q os)) <= n.
Proof. intros Hn. exact (fifo_run_bound k n os Hn q). Qed.
(* messages: what was queued ++ what is accepted = what is delivered ++ what stays queued (order preserved,
   nothing lost, duplicated or invented), over any reset-free offer sequence *)
Theorem C17_spec_fifo_order {M} k n (os : list (bool * offer M)) q : no_reset os ->
  q ++ accepted os (snd (fifo_run k n q os)) = delivered (snd (fifo_run k n q os)) ++ fst (fifo_run k n q os).
Proof. intros H. exact (fifo_run_conserve k n os H q). Qed.
Theorem C17_spec_reset {M} k n (q : list M) o : fifo_step_r k n q true o = ([], None).
Proof. exact (fifo_reset k n q o). Qed.

(* ------------------------------------------------------------------ one clock cycle of every concrete model = one cycle of the spec *)
(* multi-entry RTL queues (queues.py: gated = true, stream/queues.py: gated = false); NO protocol assumption needed *)
Theorem C17_ctrl_cycle {M} k n gated (s : cstate M) i : 0 < n -> c_inv n s ->
  c_inv n (fst (crtl_step k n gated s i)) /\
  c_abs n (fst (crtl_step k n gated s i)) = fst (fifo_step_r k n (c_abs n s) (i_rst i) (offer_of i)) /\
  (i_rst i = false -> snd (crtl_step k n gated s i) = snd (fifo_step k n (c_abs n s) (offer_of i))).
Proof. intros Hn Hi. exact (crtl_sim k n gated Hn s i Hi I). Qed.
(* queues.py one-entry queues, en/rdy protocol (en only when rdy) *)
Theorem C17_e1_cycle {M} k (s : ostate M) i : e1_legal k s i ->
  o_abs (fst (e1_step k s i)) = fst (fifo_step_r k 1 (o_abs s) (i_rst i) (offer_of i)) /\
  (i_rst i = false -> snd (e1_step k s i) = snd (fifo_step k 1 (o_abs s) (offer_of i))).
Proof. intros Hl. exact (proj2 (e1_sim k s i I Hl)). Qed.
(* stream one-entry queues, any val/rdy inputs *)
Theorem C17_s1_cycle {M} k (s : ostate M) i :
  o_abs (fst (s1_step k s i)) = fst (fifo_step_r k 1 (o_abs s) (i_rst i) (offer_of i)) /\
  (i_rst i = false -> snd (s1_step k s i) = snd (fifo_step k 1 (o_abs s) (offer_of i))).
Proof. exact (proj2 (s1_sim k s i I I)). Qed.
(* enrdy_queues.py one-entry queues (push-style send side), enq.en only when enq.rdy, reset only for Bypass *)
Theorem C17_p1_cycle {M} k (s : ostate M) i : p1_legal k s i ->
  o_abs (fst (p1_step k s i)) = fst (fifo_step_r k 1 (o_abs s) (i_rst i) (offer_of i)) /\
  (i_rst i = false -> snd (p1_step k s i) = snd (fifo_step k 1 (o_abs s) (offer_of i))).
Proof. intros Hl. exact (proj2 (p1_sim k s i I Hl)). Qed.
(* valrdy_queues.py one-entry queues, any val/rdy inputs, no reset *)
Theorem C17_v1_cycle {M} k (s : ostate M) i : i_rst i = false ->
  o_abs (fst (v1_step k s i)) = fst (fifo_step k 1 (o_abs s) (offer_of i)) /\
  snd (v1_step k s i) = snd (fifo_step k 1 (o_abs s) (offer_of i)).
Proof.
  intros Hr. generalize (proj2 (v1_sim k s i I Hr)). unfold fifo_step_r. rewrite Hr.
  destruct (fifo_step k 1 (o_abs s) (offer_of i)). cbn. intros [A B]. exact (conj A (B eq_refl)).
Qed.
(* valrdy_queues.py NormalQueueRTL (pointer + full-bit representation) *)
Theorem C17_vq_cycle {M} n (s : vstate M) i : 0 < n -> v_inv n s ->
  v_inv n (fst (vq_step n s i)) /\
  v_abs n (fst (vq_step n s i)) = fst (fifo_step_r Normal n (v_abs n s) (i_rst i) (offer_of i)) /\
  (i_rst i = false -> snd (vq_step n s i) = snd (fifo_step Normal n (v_abs n s) (offer_of i))).
Proof. intros Hn Hi. exact (vq_sim n Hn s i Hi I). Qed.
(* CL queues: the deque driven in the call order forced by the method constraints (either order for Normal) *)
Theorem C17_cl_cycle {M} k n enq_first (q : list M) o : 0 < n -> length q <= n ->
  cl_step k n enq_first q o = fifo_step k n q o.
Proof. exact (cl_step_spec k n enq_first q o). Qed.

(* ------------------------------------------------------------------ consequences, for ANY machine whose cycle refines the spec's *)
Section Any.
  Context {M S : Type} (k : qkind) (n : nat) (step : S -> rin M -> S * fout M) (abs : S -> list M)
          (inv : S -> Prop) (legal : S -> rin M -> Prop).
  (* ready/valid exactly when the kind says, fire = offer && ready, delivered iff fire, count exact and <= n *)
  Theorem C17_rules : 0 < n -> sim1 k n step abs inv legal -> (forall s, inv s -> length (abs s) <= n) ->
    forall s i, inv s -> legal s i -> i_rst i = false ->
    let f := snd (step s i) in
    (f_enq_rdy f = true <-> (length (abs s) < n \/ (k = Pipe /\ f_deq_fire f = true))) /\
    (f_deq_rdy f = true <-> (0 < length (abs s) \/ (k = Bypass /\ f_enq_fire f = true))) /\
    f_enq_fire f = (i_enq i && f_enq_rdy f)%bool /\ f_deq_fire f = (i_deq i && f_deq_rdy f)%bool /\
    (f_msg f <> None <-> f_deq_fire f = true) /\
    f_count f = length (abs s) /\ f_count f <= n.
  Proof. intros Hn Hs Hb. exact (step_rules k n step abs inv legal Hn Hs Hb). Qed.
  (* over any protocol-legal run (resets allowed): every cycle's outputs are the spec's, so is the final content *)
  Theorem C17_run_outputs : sim1 k n step abs inv legal ->
    forall is s, inv s -> legal_run step legal s is ->
    snd (run step s is) = snd (fifo_run k n (abs s) (offers_of is)) /\
    abs (fst (run step s is)) = fst (fifo_run k n (abs s) (offers_of is)) /\
    inv (fst (run step s is)).
  Proof. intros Hs. exact (run_outputs k n step abs inv legal Hs). Qed.
  (* from an empty queue, over a reset-free legal run: accepted = delivered ++ still-queued, and at most n are queued *)
  Theorem C17_run_fifo : sim1 k n step abs inv legal -> (forall s, inv s -> length (abs s) <= n) ->
    forall is s, inv s -> abs s = [] -> legal_run step legal s is -> rst_free is ->
    accepted (offers_of is) (snd (run step s is)) = delivered (snd (run step s is)) ++ abs (fst (run step s is)) /\
    length (abs (fst (run step s is))) <= n.
  Proof. intros Hs Hb. exact (run_fifo k n step abs inv legal Hs Hb). Qed.
  (* reset returns to the empty queue *)
  Theorem C17_reset : sim1 k n step abs inv legal ->
    forall s i, inv s -> legal s i -> i_rst i = true -> abs (fst (step s i)) = [] /\ inv (fst (step s i)).
  Proof. intros Hs. exact (step_reset k n step abs inv legal Hs). Qed.
End Any.

(* ------------------------------------------------------------------ the same, spelled out for the models, from their initial state *)
Theorem C17_ctrl_fifo {M} k n gated (d : M) is : 0 < n -> rst_free is ->
  let r := run (crtl_step k n gated) (c_init d) is in
  accepted (offers_of is) (snd r) = delivered (snd r) ++ c_abs n (fst r) /\ c_count (fst r) = length (c_abs n (fst r)) /\
  length (c_abs n (fst r)) <= n.
Proof.
  intros Hn Hr. cbn zeta.
  destruct (run_fifo k n _ _ _ _ (crtl_sim k n gated Hn) (c_bound n) is (c_init d) (c_init_inv n d Hn) (c_init_abs n d)
              (legal_run_trivial _ is _) Hr) as [A B].
  split; [exact A|]. split; [symmetry; apply c_abs_length|exact B].
Qed.
Theorem C17_ctrl_outputs {M} k n gated (d : M) is : 0 < n ->
  snd (run (crtl_step k n gated) (c_init d) is) = snd (fifo_run k n [] (offers_of is)).
Proof.
  intros Hn. exact (proj1 (run_outputs k n _ _ _ _ (crtl_sim k n gated Hn) is (c_init d) (c_init_inv n d Hn) (legal_run_trivial _ is _))).
Qed.
Theorem C17_ctrl_reset {M} k n gated (s : cstate M) i : 0 < n -> c_inv n s -> i_rst i = true ->
  fst (crtl_step k n gated s i) = mkC 0 0 0 (c_regs (fst (crtl_step k n gated s i))) /\ c_abs n (fst (crtl_step k n gated s i)) = [].
Proof.
  intros Hn Hi Hr. split.
  - unfold crtl_step. rewrite Hr. reflexivity.
  - exact (proj1 (step_reset k n _ _ _ _ (crtl_sim k n gated Hn) s i Hi I Hr)).
Qed.
Theorem C17_e1_fifo {M} k (d : M) is : legal_run (e1_step k) (e1_legal k) (o_init d) is -> rst_free is ->
  let r := run (e1_step k) (o_init d) is in
  accepted (offers_of is) (snd r) = delivered (snd r) ++ o_abs (fst r) /\ length (o_abs (fst r)) <= 1.
Proof. intros Hl Hr. exact (run_fifo k 1 _ _ _ _ (e1_sim k) o_bound is (o_init d) I eq_refl Hl Hr). Qed.
Theorem C17_s1_fifo {M} k (d : M) is : rst_free is ->
  let r := run (s1_step k) (o_init d) is in
  accepted (offers_of is) (snd r) = delivered (snd r) ++ o_abs (fst r) /\ length (o_abs (fst r)) <= 1.
Proof. intros Hr. exact (run_fifo k 1 _ _ _ _ (s1_sim k) o_bound is (o_init d) I eq_refl (legal_run_trivial _ is _) Hr). Qed.
Theorem C17_p1_fifo {M} k (d : M) is : legal_run (p1_step k) (p1_legal k) (o_init d) is -> rst_free is ->
  let r := run (p1_step k) (o_init d) is in
  accepted (offers_of is) (snd r) = delivered (snd r) ++ o_abs (fst r) /\ length (o_abs (fst r)) <= 1.
Proof. intros Hl Hr. exact (run_fifo k 1 _ _ _ _ (p1_sim k) o_bound is (o_init d) I eq_refl Hl Hr). Qed.
Theorem C17_v1_fifo {M} k (d : M) is : legal_run (v1_step k) v1_legal (o_init d) is -> rst_free is ->
  let r := run (v1_step k) (o_init d) is in
  accepted (offers_of is) (snd r) = delivered (snd r) ++ o_abs (fst r) /\ length (o_abs (fst r)) <= 1.
Proof. intros Hl Hr. exact (run_fifo k 1 _ _ _ _ (v1_sim k) o_bound is (o_init d) I eq_refl Hl Hr). Qed.
Theorem C17_vq_fifo {M} n (d : M) is : 0 < n -> rst_free is ->
  let r := run (vq_step n) (v_init d) is in
  accepted (offers_of is) (snd r) = delivered (snd r) ++ v_abs n (fst r) /\ length (v_abs n (fst r)) <= n.
Proof.
  intros Hn Hr. exact (run_fifo Normal n _ _ _ _ (vq_sim n Hn) (v_bound n) is (v_init d) (v_init_inv n d Hn) eq_refl (legal_run_trivial _ is _) Hr).
Qed.
Theorem C17_cl_fifo {M} k n enq_first (is : list (rin M)) : 0 < n -> rst_free is ->
  let r := run (cl_mstep k n enq_first) [] is in
  accepted (offers_of is) (snd r) = delivered (snd r) ++ fst r /\ length (fst r) <= n.
Proof.
  intros Hn Hr.
  assert (Hl : legal_run (cl_mstep k n enq_first) (fun _ i => i_rst i = false) [] is).
  { clear Hn. generalize (@nil M). induction Hr as [|i r Hi _ IH]; intros q; cbn; auto. }
  exact (run_fifo k n _ (fun q => q) (fun q => length q <= n) _ (cl_sim k n enq_first Hn) (fun q H => H) is [] (Nat.le_0_l n) eq_refl Hl Hr).
Qed.

(* ------------------------------------------------------------------ read-only views: peek / data output while ready *)
Theorem C17_spec_head_is_delivered {M} k n (q : list M) o : f_deq_fire (snd (fifo_step k n q o)) = true ->
  f_msg (snd (fifo_step k n q o)) = fifo_head q o (snd (fifo_step k n q o)).
Proof. exact (fifo_head_delivered k n q o). Qed.
Theorem C17_spec_head_is_oldest {M} k n (a : M) q o : fifo_head (a :: q) o (snd (fifo_step k n (a :: q) o)) = Some a.
Proof. exact (fifo_head_oldest k n a q o). Qed.
Theorem C17_cl_peek {M} (q : list M) : cl_peek q = snd (cl_deq q) /\ cl_peek_rdy q = cl_deq_rdy q.
Proof. exact (cl_peek_is_deq q). Qed.
Theorem C17_cl_peek_then_deq {M} k n enq_first (q : list M) o : 0 < n -> length q <= n ->
  f_deq_fire (snd (cl_step k n enq_first q o)) = true ->
  (k = Pipe -> enq_first = false) -> (k = Bypass -> enq_first = true) ->
  f_msg (snd (cl_step k n enq_first q o)) = cl_peek (cl_at_consumer enq_first q o (snd (cl_step k n enq_first q o))).
Proof. exact (cl_peek_then_deq k n enq_first q o). Qed.

(* ------------------------------------------------------------------ chains through the interface adapters: certified stream acceptor *)
(* what the harness evaluates on the observed end-to-end streams (stream_first_bad = None) implies, for a reset-free
   history that starts and ends with nothing outstanding: delivered = accepted, as lists *)
Theorem C17_stream_acceptor cap (h : list obs) : Forall (fun c => b_rst c = false) h ->
  stream_first_bad cap [] 0 h = None -> obs_delivered h = obs_accepted h.
Proof. intros Hr E. exact (stream_drained_sound cap h Hr (stream_first_bad_none cap h [] 0 E)). Qed.
Theorem C17_stream_acceptor_prefix cap (h : list obs) q' : Forall (fun c => b_rst c = false) h ->
  stream_run cap [] h = Some q' -> obs_accepted h = obs_delivered h ++ q' /\ length q' <= cap.
Proof. intros Hr E. exact (stream_run_sound cap h Hr [] q' (Nat.le_0_l cap) E). Qed.

(* ------------------------------------------------------------------ non-vacuity: legal runs exist and exercise the same-cycle rules *)
Local Open Scope Z_scope.
(* capacity-3 pipe queue: fill, then enqueue-while-full together with a dequeue; wraps around index n-1 *)
Example C17_nonvacuous_pipe3 :
  let is := [mkIn false true 1 false; mkIn false true 2 false; mkIn false true 3 false;
             mkIn false true 4 true; mkIn false true 5 false; mkIn false false 0 true; mkIn false false 0 true] in
  let r := run (crtl_step Pipe 3 true) (c_init 0) is in
  rst_free is /\ delivered (snd r) = [1; 2; 3] /\ c_abs 3 (fst r) = [4] /\ accepted (offers_of is) (snd r) = [1; 2; 3; 4].
Proof. cbn zeta. split; [repeat constructor|]. vm_compute. repeat split. Qed.
(* one-entry bypass queue under the en/rdy protocol: a same-cycle enqueue+dequeue on an empty queue is legal *)
Example C17_nonvacuous_bypass1 :
  let is := [mkIn false true 7 true; mkIn false true 8 false; mkIn false false 0 true] in
  legal_run (e1_step Bypass) (e1_legal Bypass) (o_init 0) is /\ rst_free is /\
  delivered (snd (run (e1_step Bypass) (o_init 0) is)) = [7; 8].
Proof.
  cbn zeta. split; [|split; [repeat constructor|vm_compute; reflexivity]].
  cbn. unfold e1_legal. cbn. repeat split; intros; try reflexivity; discriminate.
Qed.

Print Assumptions C17_spec_enq_rdy. Print Assumptions C17_spec_deq_rdy. Print Assumptions C17_spec_pipe_when_full.
Print Assumptions C17_spec_bypass_when_empty. Print Assumptions C17_spec_fire. Print Assumptions C17_spec_count.
Print Assumptions C17_spec_capacity. Print Assumptions C17_spec_fifo_order. Print Assumptions C17_spec_reset.
Print Assumptions C17_ctrl_cycle. Print Assumptions C17_e1_cycle. Print Assumptions C17_s1_cycle.
Print Assumptions C17_p1_cycle. Print Assumptions C17_v1_cycle. Print Assumptions C17_vq_cycle. Print Assumptions C17_cl_cycle.
Print Assumptions C17_rules. Print Assumptions C17_run_outputs. Print Assumptions C17_run_fifo. Print Assumptions C17_reset.
Print Assumptions C17_ctrl_fifo. Print Assumptions C17_ctrl_outputs. Print Assumptions C17_ctrl_reset.
Print Assumptions C17_e1_fifo. Print Assumptions C17_s1_fifo. Print Assumptions C17_p1_fifo. Print Assumptions C17_v1_fifo.
Print Assumptions C17_vq_fifo. Print Assumptions C17_cl_fifo.
Print Assumptions C17_nonvacuous_pipe3. Print Assumptions C17_nonvacuous_bypass1.
Print Assumptions C17_stream_acceptor. Print Assumptions C17_stream_acceptor_prefix.
Print Assumptions C17_spec_head_is_delivered. Print Assumptions C17_spec_head_is_oldest. Print Assumptions C17_cl_peek. Print Assumptions C17_cl_peek_then_deq.
