(* Props/C03.v — property C03: translated SystemVerilog behaves exactly like the PyMTL simulation; the emitted text is
   syntactically valid and every variable has exactly one driver.
   ONLY statements closed by exact + Print Assumptions.  The semantics these theorems speak about (SV/SvSizing.v,
   SV/SvEval.v) is OUR formalisation of IEEE 1800-2017 for the emitted subset; harness/c03.py replays the real emitted
   text in this semantics against the pymtl3 simulation on every run. *)
From Coq Require Import FMapPositive.
From PV Require Import Base.Prelude Bits.BitsSpec SV.SvSyntax SV.SvSizing SV.SvEval SV.SvDrivers SV.SvProofs.
Open Scope Z_scope.

(* "the type checker forces equal widths and inserts casts, so context sizing cannot change results":
   if every context-sensitive operator of e (+ - * / % & | ^ ~ ?: comparison, widening cast) sees operands of one
   self-determined width and e sits in a context of exactly its own width w, then IEEE-1800 context-determined evaluation
   equals the width-strict bottom-up evaluation that PyMTL performs *)
Theorem C03_selfdet_eq_ctx te en e w : tenv_ok te -> uniform te e = true -> selfw te e = w ->
  eval_ctx te en w e = eval_sd te en e.
Proof. exact (sv_selfdet_eq_ctx te en e w). Qed.

(* ... in particular for every assignment `lhs = rhs` / `lhs <= rhs` whose target is as wide as its right-hand side *)
Theorem C03_assignment_stores_width_strict_value te en l r : tenv_ok te -> assign_uniform te l r = true ->
  lhs_dims te l = [] -> assign_value te en l r = VZ (eval_sd te en r).
Proof. exact (sv_assign_selfdet te en l r). Qed.

(* every evaluation result is a W-bit unsigned number *)
Theorem C03_eval_range te en e W : 0 <= W -> 0 <= eval te en W e < 2 ^ W.
Proof. exact (sv_eval_range te en e W). Qed.

(* non-blocking assignments never change what the block reads: all right-hand sides see pre-edge values ... *)
Theorem C03_nonblocking_defers te l r st :
  x_env (exec te (SNonBlocking l r) st) = x_env st /\
  x_pend (exec te (SNonBlocking l r) st) = x_pend st ++ [(resolve te (x_env st) l, assign_value te (x_env st) l r)].
Proof. exact (nonblocking_defers te l r st). Qed.
Theorem C03_ff_block_reads_pre_edge te body st : Forall (fun s => nb_only s = true) body ->
  x_env (exec_list te body st) = x_env st.
Proof. intros H. exact (nb_block_env te body H st). Qed.
(* ... a blocking assignment takes effect at once and queues nothing ... *)
Theorem C03_blocking_immediate te l r st :
  x_pend (exec te (SBlocking l r) st) = x_pend st /\
  x_env (exec te (SBlocking l r) st) = write_ref (resolve te (x_env st) l) (assign_value te (x_env st) l r) (x_env st).
Proof. exact (blocking_immediate te l r st). Qed.
(* ... and of several non-blocking writes to one register the last one is what it holds after the edge *)
Theorem C03_nonblocking_last_wins x w v u p en : 0 <= w -> PM.find x (commit p en) = Some (VZ u) ->
  read_bits (commit (p ++ [(scalar_ref x w, VZ v)]) en) (scalar_ref x w) = v mod 2 ^ w.
Proof. exact (nonblocking_last_wins x w v u p en). Qed.

(* the acceptor run on every module of every parsed emitted text: every bit of every declared variable is driven by exactly
   one of {input port, one continuous assign, one always block, one instance output port} *)
Theorem C03_single_driver F m : sv_single_driver F m = true ->
  forall dc, In dc (mod_vars m) -> forall b, 0 <= b < vbits (d_ty dc, d_dims dc) ->
  exists k d, nth_error (drivers F m) k = Some d /\ drives d (d_id dc) b = true /\
    forall k' d', nth_error (drivers F m) k' = Some d' -> drives d' (d_id dc) b = true -> k' = k.
Proof. exact (sv_single_driver_sound F m). Qed.
(* and a `false` from its first half exhibits two drivers whose footprints really overlap *)
Theorem C03_multi_driver_witness ds : pairwise_disjoint ds = false ->
  exists k1 k2 d1 d2 a c, (k1 < k2)%nat /\ nth_error ds k1 = Some d1 /\ nth_error ds k2 = Some d2 /\
    In a (snd d1) /\ In c (snd d2) /\ ivl_overlap a c = true.
Proof. exact (multi_driver_witness ds). Qed.

(* ---- non-vacuity ---- *)
(* module M ( input logic [3:0] a, input logic [3:0] b, output logic [3:0] y, output logic [0:0] z );
     logic [3:0] r;
     assign y = a + b;                        always_comb z = ( a + b ) < 4'd3  [as written: context 4 bits, carry lost]
     always_ff @(posedge clk) r <= a;  r <= b;      endmodule                                                   *)
Definition ex_te : tenv :=
  PM.add 5%positive (PBits 4, []) (PM.add 4%positive (PBits 1, []) (PM.add 3%positive (PBits 4, [])
    (PM.add 2%positive (PBits 4, []) (PM.add 1%positive (PBits 4, []) (PM.empty vtype))))).
Definition ex_mod : module :=
  mkmod 9%positive
    [(DIn, mkdecl 1%positive (PBits 4) []); (DIn, mkdecl 2%positive (PBits 4) []);
     (DOut, mkdecl 3%positive (PBits 4) []); (DOut, mkdecl 4%positive (PBits 1) [])]
    [] [mkdecl 5%positive (PBits 4) []]
    [IAssign (EId 3%positive) (EBin BAdd (EId 1%positive) (EId 2%positive));
     IComb 10%positive [SBlocking (EId 4%positive) (EBin BLt (EBin BAdd (EId 1%positive) (EId 2%positive)) (ELit 4 3))];
     IFF 11%positive [SNonBlocking (EId 5%positive) (EId 1%positive); SNonBlocking (EId 5%positive) (EId 2%positive)]].
Definition ex_file : file := mkfile [] [ex_mod].
Definition ex_trace : list cyc :=
  [([(1%positive, VZ 9); (2%positive, VZ 8)], [(3%positive, VZ 1); (4%positive, VZ 1); (5%positive, VZ 0)]);
   ([(1%positive, VZ 2); (2%positive, VZ 3)], [(3%positive, VZ 5); (4%positive, VZ 0); (5%positive, VZ 8)])].
Example C03_nonvacuous :
  sv_wellformed ex_file = true /\ sv_single_driver ex_file ex_mod = true /\
  simulate ex_file 9%positive ex_trace = Agree /\                       (* 9 + 8 = 1 mod 16; r holds b (last write) after the edge *)
  uniform ex_te (EBin BAdd (EId 1%positive) (EId 2%positive)) = true /\
  (* a duplicated assign is rejected; an unequal-width operand pair is not `uniform` *)
  sv_single_driver (mkfile [] [mkmod 9%positive (m_ports ex_mod) [] (m_decls ex_mod) (IAssign (EId 3%positive) (EId 1%positive) :: m_items ex_mod)])
                   (mkmod 9%positive (m_ports ex_mod) [] (m_decls ex_mod) (IAssign (EId 3%positive) (EId 1%positive) :: m_items ex_mod)) = false /\
  uniform ex_te (EBin BAdd (EId 1%positive) (EId 4%positive)) = false /\
  (* context sizing DOES matter without the hypothesis: (a + b) >> 1 in an 8-bit context keeps the carry *)
  eval_ctx ex_te (PM.add 2%positive (VZ 8) (PM.add 1%positive (VZ 9) (PM.empty value))) 8
           (EBin BShr (EBin BAdd (EId 1%positive) (EId 2%positive)) (ELit 1 1)) = 8 /\
  eval_sd ex_te (PM.add 2%positive (VZ 8) (PM.add 1%positive (VZ 9) (PM.empty value)))
           (EBin BShr (EBin BAdd (EId 1%positive) (EId 2%positive)) (ELit 1 1)) = 0.
Proof. vm_compute. repeat split. Qed.

Print Assumptions C03_selfdet_eq_ctx. Print Assumptions C03_assignment_stores_width_strict_value.
Print Assumptions C03_eval_range. Print Assumptions C03_nonblocking_defers. Print Assumptions C03_ff_block_reads_pre_edge.
Print Assumptions C03_blocking_immediate. Print Assumptions C03_nonblocking_last_wins.
Print Assumptions C03_single_driver. Print Assumptions C03_multi_driver_witness.
