(* Props/C01.v — property C01: simulation results do not depend on the schedule; the state is the unique fixed point.
   ONLY statements closed by exact/apply + Print Assumptions. *)
From Coq Require Import ZArith List Bool Arith Lia Permutation.
Import ListNotations.
From PV Require Import Sched.Block Sched.Confluence Sched.Accept Sched.DagAccept.
(* the same theorems with NO footprint hypothesis for blocks of the RTL language: see Props/C01_rtl.v *)
From PV Require Import Props.C01_rtl.

Section C01.
Context {var val : Type}.
Variable B : nat -> blk var val.
Variable ids : list nat.
Variable E : nat -> nat -> bool.

(* (1) every two linear extensions of the constraint relation — whatever pass, tie-break or shuffle produced
   them — compute the same value for every variable *)
Theorem C01_schedule_independent :
  (forall i, In i ids -> frame (B i)) -> (forall i, In i ids -> dep (B i)) -> single_writer B ids ->
  (forall i j, In i ids -> In j ids -> i <> j -> feeds B i j -> E i j = true \/ E j i = true) ->
  forall s t, NoDup s -> Permutation s t -> incl s ids -> lin_ext E s -> lin_ext E t ->
  forall e, eqe (run_list B s e) (run_list B t e).
Proof. intros Hf Hd Hs Hc. exact (topo_confluent B ids Hf Hd Hs E Hc). Qed.

(* (2) re-running any update block after evaluation changes nothing *)
Theorem C01_fixed_point :
  (forall i, In i ids -> frame (B i)) -> single_writer B ids ->
  (forall i, In i ids -> sdep (B i)) -> (forall i, In i ids -> nsl (B i)) ->
  (forall i j, In i ids -> In j ids -> i <> j -> feeds B i j -> E i j = true) ->
  forall s, NoDup s -> incl s ids -> lin_ext E s -> forall e i, In i s -> fixed_under B i (run_list B s e).
Proof. intros Hf Hs Hd Hn Hi. exact (topo_fixed_point B ids Hf Hs E Hd Hn Hi). Qed.

(* (3) the values are THE solution of the dataflow equations: fixed points agreeing on the inputs are equal *)
Theorem C01_unique_solution :
  (forall i, In i ids -> sdep (B i)) -> (forall i, In i ids -> nsl (B i)) ->
  (forall i j, In i ids -> In j ids -> i <> j -> feeds B i j -> E i j = true) ->
  forall s e1 e2, NoDup s -> incl s ids -> incl ids s -> lin_ext E s ->
  (forall v, (forall i, In i ids -> wr (B i) v = false) -> e1 v = e2 v) ->
  (forall i, In i ids -> fixed_under B i e1) -> (forall i, In i ids -> fixed_under B i e2) -> eqe e1 e2.
Proof. intros Hd Hn Hi. exact (fixed_point_unique B ids E Hd Hn Hi). Qed.

(* (4) every order of the flip-flop blocks gives the same state *)
Theorem C01_ff_order_independent :
  (forall i, In i ids -> frame (B i)) -> (forall i, In i ids -> dep (B i)) -> single_writer B ids ->
  (forall i j v, In i ids -> In j ids -> i <> j -> wr (B i) v = true -> rd (B j) v = false) ->
  forall s t, NoDup s -> Permutation s t -> incl s ids -> forall e, eqe (run_list B s e) (run_list B t e).
Proof. intros Hf Hd Hs Hff. exact (ff_perm_indep B ids Hf Hd Hs Hff). Qed.
End C01.

(* (5) end-to-end with the certified acceptor: for ANY block semantics R that respects the observed bit-level
   footprints, two observed schedules accepted by sched_ok compute the same state, and it is a fixed point *)
Theorem C01_accepted_schedules_agree {val : Type} (d : design) (R : nat -> env bit val -> env bit val) :
  wf_design d = true -> sw_ok d = true ->
  (forall i, In i (ids d) -> frame (Bd d R i)) -> (forall i, In i (ids d) -> dep (Bd d R i)) ->
  forall o1 o2, sched_ok d o1 = true -> sched_ok d o2 = true -> forall e, eqe (run_list (Bd d R) o1 e) (run_list (Bd d R) o2 e).
Proof. exact (accepted_schedules_agree d R). Qed.

Theorem C01_accepted_schedule_fixed_point {val : Type} (d : design) (R : nat -> env bit val -> env bit val) :
  wf_design d = true -> sw_ok d = true -> (forall i, In i (ids d) -> frame (Bd d R i)) ->
  (forall i, In i (ids d) -> sdep (Bd d R i)) -> nsl_ok d = true -> noinv_ok d = true ->
  forall o, sched_ok d o = true -> forall e i, In i (ids d) -> fixed_under (Bd d R) i (run_list (Bd d R) o e).
Proof. exact (accepted_schedule_fixed_point d R). Qed.

(* (6) ALL schedules at once: if pymtl3's constraint graph G (top._dag.all_constraints between the comb blocks) is accepted
   by dag_ok — every pair the bit-level footprints require is connected by a path of G, the paths being supplied by the
   harness and only checked here — then every two linear extensions of G, i.e. every two schedules that ANY tie-break
   of a topological-sort scheduler could produce, compute the same state *)
Theorem C01_all_schedules_of_accepted_graph_agree {val : Type} (d : design) (R : nat -> env bit val -> env bit val) :
  sw_ok d = true -> (forall i, In i (ids d) -> frame (Bd d R i)) -> (forall i, In i (ids d) -> dep (Bd d R i)) ->
  forall G paths, dag_ok d G paths = true ->
  forall o1 o2, perm_b d o1 = true -> lin_ext_b (Gb G) o1 = true -> perm_b d o2 = true -> lin_ext_b (Gb G) o2 = true ->
  forall e, eqe (run_list (Bd d R) o1 e) (run_list (Bd d R) o2 e).
Proof. exact (dag_all_schedules_agree d R). Qed.

Theorem C01_accepted_graph_accepts_every_linear_extension d G paths : dag_ok d G paths = true ->
  forall o, perm_b d o = true -> lin_ext_b (Gb G) o = true -> sched_ok d o = true.
Proof. exact (dag_ok_sound d G paths). Qed.

Example C01_graph_nonvacuous :
  dag_ok exD3 [(0, 1); (1, 2)]%nat [[0; 1; 2]%nat] = true /\
  dag_ok exD3 [(0, 1)]%nat [[0; 1; 2]%nat] = false /\
  perm_b exD3 [0; 1; 2]%nat = true /\ lin_ext_b (Gb [(0, 1); (1, 2)]%nat) [0; 1; 2]%nat = true.
Proof. exact dag_ok_example. Qed.

(* non-vacuity: a 4-block diamond (0 feeds 1 and 2, both feed 3) is accepted in both of its linear extensions *)
Definition diamond : design :=
  mkDesign 4 (fun i => match i with 1%nat | 2%nat => [(0%nat, 0%Z, 8%Z)] | 3%nat => [(1%nat, 0%Z, 8%Z); (2%nat, 0%Z, 4%Z)] | _ => [(9%nat, 0%Z, 1%Z)] end)
             (fun i => match i with 0%nat => [(0%nat, 0%Z, 8%Z)] | 1%nat => [(1%nat, 0%Z, 8%Z)] | 2%nat => [(2%nat, 0%Z, 8%Z)] | _ => [(3%nat, 0%Z, 8%Z)] end) [].
Example C01_nonvacuous : sched_ok diamond [0;1;2;3]%nat = true /\ sched_ok diamond [0;2;1;3]%nat = true /\
  sched_ok diamond [1;0;2;3]%nat = false /\ sw_ok diamond = true /\ nsl_ok diamond = true /\ noinv_ok diamond = true.
Proof. vm_compute. repeat split. Qed.

Print Assumptions C01_schedule_independent. Print Assumptions C01_fixed_point. Print Assumptions C01_unique_solution.
Print Assumptions C01_ff_order_independent. Print Assumptions C01_accepted_schedules_agree.
Print Assumptions C01_accepted_schedule_fixed_point.
Print Assumptions C01_all_schedules_of_accepted_graph_agree. Print Assumptions C01_accepted_graph_accepts_every_linear_extension.
