(* Props/C19.v — property C19: round-robin arbiters grant exactly one requester, fairly.
   ONLY statements, each closed by `exact`/`apply`, each followed by Print Assumptions.
   The functions step / run / grants_of are the model of pymtl3/stdlib/basic_rtl/arbiters.py in
   Lib/Arbiter.v (the doubled-vector kill chain and the RegEnRst priority register, block by block);
   harness/c19.py checks on every run that the real RoundRobinArbiter / RoundRobinArbiterEn produce the
   same grants as `run` on exhaustive single steps and on random histories.
   isEn = false : RoundRobinArbiter,  isEn = true : RoundRobinArbiterEn.  n = nreqs (any n >= 2). *)
From PV Require Import Base.Prelude Lib.Arbiter Lib.ArbiterProofs.
(* generated-from-source instances proved equal to the hand model at small parameters *)
From PV Require Import Props.C19_gen.
(* (comment line kept directly after the Require line: harness/common.py closure() parses up to it) *)
Local Open Scope nat_scope.

(* --- the invariant: the priority register is one-hot.  Reset establishes it from ANY register content
       (also from the all-zero content before the first reset) and gives priority to input 0 *)
Theorem C19_reset_restores_priority_0 n isEn st c :
  2 <= n -> c_rst c = true ->
  snd (step n isEn st c) = reset_state n /\ onehot n (reset_state n) /\ reset_state n = ptr_state n 0.
Proof. intros; apply reset_establishes; [lia|assumption]. Qed.

Theorem C19_onehot_preserved n isEn st c :
  2 <= n -> onehot n st -> onehot n (snd (step n isEn st c)).
Proof. intros; apply step_preserves_onehot; [lia|assumption]. Qed.

Theorem C19_onehot_preserved_history n isEn st h :
  2 <= n -> onehot n st -> onehot n (final_state n isEn st h).
Proof. intros; apply run_preserves_onehot; [lia|assumption]. Qed.

Theorem C19_onehot_is_pointer n st : onehot n st <-> exists p, p < n /\ st = ptr_state n p.
Proof. exact (onehot_ptr n st). Qed.

(* --- the kill chain computes the specification: first requester at or after the pointer, cyclically *)
Theorem C19_grants_are_spec n reqs p i :
  2 <= n -> p < n -> grants_of n reqs (ptr_state n p) i = spec_grants n reqs p i.
Proof. intros; apply grants_spec; lia. Qed.

Theorem C19_grants_zero_iff_no_request n reqs p :
  2 <= n -> p < n ->
  ((forall i, grants_of n reqs (ptr_state n p) i = false) <-> (forall i, i < n -> reqs i = false)).
Proof. intros; apply grants_zero_iff; lia. Qed.

Theorem C19_exactly_one_requesting_bit n reqs p :
  2 <= n -> p < n -> (exists i, i < n /\ reqs i = true) ->
  exists g, g < n /\ reqs g = true /\ spec_grant_index n reqs p = Some g /\
            forall i, grants_of n reqs (ptr_state n p) i = (i =? g).
Proof. intros; apply grants_one_hot; [lia|assumption|assumption]. Qed.

Theorem C19_grant_is_requesting n reqs p i :
  2 <= n -> p < n -> grants_of n reqs (ptr_state n p) i = true -> i < n /\ reqs i = true.
Proof. intros; apply (grants_subset_reqs n reqs p i); [lia|assumption|assumption]. Qed.

Theorem C19_at_most_one_grant n reqs p i j :
  2 <= n -> p < n ->
  grants_of n reqs (ptr_state n p) i = true -> grants_of n reqs (ptr_state n p) j = true -> i = j.
Proof. intros; apply (grants_at_most_one n reqs p i j); [lia|assumption|assumption|assumption]. Qed.

(* --- the same for every cycle of every request history (resets, enable toggling included) *)
Theorem C19_every_cycle_of_every_history n isEn st h t c :
  2 <= n -> onehot n st -> nth_error h t = Some c ->
  exists g q, nth_error (run n isEn st h) t = Some g /\ length g = n /\
    q < n /\ final_state n isEn st (firstn t h) = ptr_state n q /\
    g = to_list n (spec_grants n (c_reqs c) q) /\
    ((forall i, i < n -> c_reqs c i = false) -> forall i, nth i g false = false) /\
    ((exists i, i < n /\ c_reqs c i = true) ->
       exists w, w < n /\ c_reqs c w = true /\ spec_grant_index n (c_reqs c) q = Some w /\
                 forall i, nth i g false = (i =? w)).
Proof. intros; apply every_cycle; [lia|assumption|assumption]. Qed.

Theorem C19_history_refines_spec n isEn h p :
  2 <= n -> p < n -> run n isEn (ptr_state n p) h = spec_run n isEn p h.
Proof. intros; apply run_refines; [lia|assumption]. Qed.

(* --- priority rotates to the input after the granted one when it advances, else stays *)
Theorem C19_next_priority_is_rotl_of_grants n isEn st c :
  2 <= n -> onehot n st -> c_rst c = false ->
  let g := fst (step n isEn st c) in
  let st' := snd (step n isEn st c) in
  if nonzero n (of_list g) && advances isEn c
  then st' = to_list n (rotl n (of_list g))
  else st' = st.
Proof. intros H1 H2 H3; apply next_priority; [lia|assumption|assumption]. Qed.

Theorem C19_pointer_moves_past_granted n isEn p c g :
  2 <= n -> p < n -> c_rst c = false -> spec_grant_index n (c_reqs c) p = Some g ->
  snd (step n isEn (ptr_state n p) c) = ptr_state n (if advances isEn c then (g + 1) mod n else p).
Proof. intros; apply next_pointer; [lia|assumption|assumption|assumption]. Qed.

Theorem C19_no_request_keeps_priority n isEn st c :
  2 <= n -> onehot n st -> c_rst c = false -> (forall i, i < n -> c_reqs c i = false) ->
  snd (step n isEn st c) = st.
Proof. intros; apply no_grant_keeps_priority; [lia|assumption|assumption|assumption]. Qed.

(* --- enabled variant: priority advances only in cycles with enable high *)
Theorem C19_en_low_keeps_priority n st c :
  c_rst c = false -> c_en c = false -> snd (step n true st c) = st.
Proof. exact (en_low_keeps_priority n st c). Qed.

(* hence a cycle with the enable low is invisible to every later cycle: whatever it requested or granted *)
Theorem C19_en_low_cycle_is_invisible n st c h :
  c_rst c = false -> c_en c = false ->
  run n true (snd (step n true st c)) h = run n true st h.
Proof. intros Hr He. rewrite (en_low_keeps_priority n st c Hr He). reflexivity. Qed.

Theorem C19_plain_is_en_tied_high n st rst en reqs :
  step n false st (rst, en, reqs) = step n true st (rst, true, reqs).
Proof. exact (plain_is_en_high n st rst en reqs). Qed.

(* --- fairness: decreasing measure, then the bound *)
Theorem C19_fair_measure n isEn p c i :
  2 <= n -> p < n -> i < n -> c_rst c = false -> c_reqs c i = true ->
  let p' := spec_next_ptr n isEn p c in
  spec_grants n (c_reqs c) p i = true \/
  (spec_grants n (c_reqs c) p i = false /\
   if advances isEn c then dist n p' i < dist n p i else p' = p).
Proof. intros H1 H2 H3 H4 H5; apply fair_measure; [lia|assumption..]. Qed.

Theorem C19_fairness n isEn st h i :
  2 <= n -> onehot n st -> i < n -> keeps_requesting i h ->
  n <= count_adv isEn h ->
  granted_within n isEn st h i n.
Proof. intros; apply fairness; [lia|assumption..]. Qed.

Theorem C19_fairness_plain n st h i :
  2 <= n -> onehot n st -> i < n -> keeps_requesting i h -> n <= length h ->
  exists t g, t < n /\ nth_error (run n false st h) t = Some g /\ nth i g false = true.
Proof. intros; apply fairness_plain; [lia|assumption..]. Qed.

(* --- the input granted last has the least priority: pointer just past i => i wins only when alone;
       and on the code's machine, no input is granted in two consecutive advancing cycles while another requests *)
Theorem C19_last_granted_has_least_priority n reqs i j :
  2 <= n -> i < n -> j < n -> j <> i -> reqs j = true ->
  spec_grants n reqs ((i + 1) mod n) i = false.
Proof. intros; apply (last_granted_least_priority n reqs i j); [lia|assumption..]. Qed.

Theorem C19_no_back_to_back_grant n isEn p c c' g j :
  2 <= n -> p < n -> c_rst c = false -> advances isEn c = true ->
  spec_grant_index n (c_reqs c) p = Some g ->
  j < n -> j <> g -> c_reqs c' j = true ->
  nth g (fst (step n isEn (snd (step n isEn (ptr_state n p) c)) c')) false = false.
Proof. intros; apply (no_back_to_back_grant n isEn p c c' g j); [lia|assumption..]. Qed.

Example no_back_to_back_nonvacuous :
  (* nreqs = 3, pointer at 1, inputs 1 and 2 request: 1 wins; next cycle 1 and 0 request: 0 wins, not 1 *)
  let c  : cyc := (false, true, bv_of_Z 6) in
  let c' : cyc := (false, true, bv_of_Z 3) in
  spec_grant_index 3 (c_reqs c) 1 = Some 1 /\
  fst (step 3 true (snd (step 3 true (ptr_state 3 1) c)) c') = [true; false; false].
Proof. vm_compute. split; reflexivity. Qed.


(* --- what a passing correspondence case of harness/c19.py establishes *)
Theorem C19_replay_ok_sound isEn n h obs :
  2 <= n -> replay_ok (isEn, false, n, h, obs) = true ->
  obs = map Z_of_list (spec_run n isEn 0 (map cyc_of_z h)).
Proof. intros; apply replay_ok_sound; [lia|assumption]. Qed.

(* --- non-vacuity: the hypotheses are satisfiable and the model computes.
   nreqs = 3, RoundRobinArbiterEn, input 2 requests all the time, enable toggles: the cold register is
   not one-hot and grants nothing; after reset the pointer is at 0; input 2 is granted in the third
   advancing cycle. *)
Definition nv_hist : list zcyc :=
  [(false, true, 7%Z); (false, false, 7%Z); (false, true, 6%Z); (false, true, 5%Z); (false, true, 4%Z)].

Example C19_nonvacuous :
  onehot 3 (reset_state 3) /\
  keeps_requesting 2 (map cyc_of_z nv_hist) /\
  3 <= count_adv true (map cyc_of_z nv_hist) /\
  replay 3 true false nv_hist = [1; 2; 2; 4; 4]%Z /\
  replay 3 false false nv_hist = [1; 2; 4; 1; 4]%Z /\
  replay 3 true true ((true, true, 7%Z) :: nv_hist) = [0; 1; 2; 2; 4; 4]%Z /\
  granted_within 3 true (reset_state 3) (map cyc_of_z nv_hist) 2 3.
Proof.
  assert (onehot 3 (reset_state 3)) as H1 by (apply onehot_ptr; exists 0; split; [lia|reflexivity]).
  assert (keeps_requesting 2 (map cyc_of_z nv_hist)) as H2.
  { intros c Hc. cbn in Hc. repeat (destruct Hc as [<-|Hc]; [split; reflexivity|]). destruct Hc. }
  assert (3 <= count_adv true (map cyc_of_z nv_hist)) as H3 by (vm_compute; lia).
  split; [exact H1|]. split; [exact H2|]. split; [exact H3|].
  split; [vm_compute; reflexivity|]. split; [vm_compute; reflexivity|]. split; [vm_compute; reflexivity|].
  apply fairness; [lia|exact H1|lia|exact H2|exact H3].
Qed.

Print Assumptions C19_reset_restores_priority_0. Print Assumptions C19_onehot_preserved.
Print Assumptions C19_onehot_preserved_history. Print Assumptions C19_onehot_is_pointer.
Print Assumptions C19_grants_are_spec. Print Assumptions C19_grants_zero_iff_no_request.
Print Assumptions C19_exactly_one_requesting_bit. Print Assumptions C19_grant_is_requesting.
Print Assumptions C19_at_most_one_grant. Print Assumptions C19_every_cycle_of_every_history.
Print Assumptions C19_history_refines_spec. Print Assumptions C19_next_priority_is_rotl_of_grants.
Print Assumptions C19_pointer_moves_past_granted. Print Assumptions C19_no_request_keeps_priority.
Print Assumptions C19_en_low_keeps_priority. Print Assumptions C19_plain_is_en_tied_high.
Print Assumptions C19_fair_measure. Print Assumptions C19_fairness. Print Assumptions C19_fairness_plain.
Print Assumptions C19_replay_ok_sound. Print Assumptions C19_nonvacuous.
Print Assumptions C19_last_granted_has_least_priority. Print Assumptions C19_no_back_to_back_grant.
Print Assumptions no_back_to_back_nonvacuous. Print Assumptions C19_en_low_cycle_is_invisible.
