(* Props/C04.v — property C04: Bits arithmetic is exact unsigned arithmetic modulo 2^n.
   ONLY statements, each closed by `exact`, each followed by Print Assumptions.
   bits_* are the functions GENERATED from pymtl3/datatypes/PythonBits.py on this run. *)
From PV Require Import Base.Prelude Bits.BitsSpec Bits.BitsLemmas Bits.SpecFacts Gen.BitsGen Bits.BitsProofs.
Open Scope Z_scope.

(* every binary operator of the code = the specification (math result mod 2^n, or the specified error),
   for every width 0<n<1024, every stored value, every operand kind (Bits of any width, any int, other) *)
Theorem C04_add n a nx o : wfn n -> inrange n a -> owf o -> bits_add n a nx o = spec_binop Add n a o.
Proof. intros; apply add_ok; assumption. Qed.
Theorem C04_radd n a nx o : wfn n -> inrange n a -> owf o -> bits_radd n a nx o = spec_binop Add n a o.
Proof. intros; apply radd_ok; assumption. Qed.
Theorem C04_sub n a nx o : wfn n -> inrange n a -> owf o -> bits_sub n a nx o = spec_binop Sub n a o.
Proof. intros; apply sub_ok; assumption. Qed.
Theorem C04_rsub n a nx o : wfn n -> inrange n a -> owf o -> bits_rsub n a nx o = spec_rbinop Sub n a o.
Proof. intros; apply rsub_ok; assumption. Qed.
Theorem C04_mul n a nx o : wfn n -> inrange n a -> owf o -> bits_mul n a nx o = spec_binop Mul n a o.
Proof. intros; apply mul_ok; assumption. Qed.
Theorem C04_rmul n a nx o : wfn n -> inrange n a -> owf o -> bits_rmul n a nx o = spec_binop Mul n a o.
Proof. intros; apply rmul_ok; assumption. Qed.
Theorem C04_and n a nx o : wfn n -> inrange n a -> owf o -> bits_and n a nx o = spec_binop And n a o.
Proof. intros; apply and_ok; assumption. Qed.
Theorem C04_rand n a nx o : wfn n -> inrange n a -> owf o -> bits_rand n a nx o = spec_binop And n a o.
Proof. intros; apply rand_ok; assumption. Qed.
Theorem C04_or n a nx o : wfn n -> inrange n a -> owf o -> bits_or n a nx o = spec_binop Or n a o.
Proof. intros; apply or_ok; assumption. Qed.
Theorem C04_ror n a nx o : wfn n -> inrange n a -> owf o -> bits_ror n a nx o = spec_binop Or n a o.
Proof. intros; apply ror_ok; assumption. Qed.
Theorem C04_xor n a nx o : wfn n -> inrange n a -> owf o -> bits_xor n a nx o = spec_binop Xor n a o.
Proof. intros; apply xor_ok; assumption. Qed.
Theorem C04_rxor n a nx o : wfn n -> inrange n a -> owf o -> bits_rxor n a nx o = spec_binop Xor n a o.
Proof. intros; apply rxor_ok; assumption. Qed.
Theorem C04_floordiv n a nx o : wfn n -> inrange n a -> owf o -> bits_floordiv n a nx o = spec_binop FloorDiv n a o.
Proof. intros; apply floordiv_ok; assumption. Qed.
Theorem C04_rfloordiv n a nx o : wfn n -> inrange n a -> owf o -> bits_rfloordiv n a nx o = spec_rbinop FloorDiv n a o.
Proof. intros; apply rfloordiv_ok; assumption. Qed.
Theorem C04_mod n a nx o : wfn n -> inrange n a -> owf o -> bits_mod n a nx o = spec_binop Mod n a o.
Proof. intros; apply mod_ok; assumption. Qed.
Theorem C04_rmod n a nx o : wfn n -> inrange n a -> owf o -> bits_rmod n a nx o = spec_rbinop Mod n a o.
Proof. intros; apply rmod_ok; assumption. Qed.
Theorem C04_lshift n a nx o : wfn n -> inrange n a -> owf o -> bits_lshift n a nx o = spec_binop LShift n a o.
Proof. intros; apply lshift_ok; assumption. Qed.
Theorem C04_rshift n a nx o : wfn n -> inrange n a -> owf o -> bits_rshift n a nx o = spec_binop RShift n a o.
Proof. intros; apply rshift_ok; assumption. Qed.
Theorem C04_invert n a nx : wfn n -> inrange n a -> bits_invert n a nx = Ok (n, 2 ^ n - 1 - a).
Proof. intros; apply invert_ok; assumption. Qed.

(* shifts: the computable guards of the specification do not change the mathematical value *)
Theorem C04_lshift_math n a b : wfn n -> 0 <= b -> arith LShift n a b = Ok ((a * 2 ^ b) mod 2 ^ n).
Proof. exact (arith_lshift_math n a b). Qed.
Theorem C04_rshift_math n a b : wfn n -> inrange n a -> 0 <= b -> arith RShift n a b = Ok (a / 2 ^ b).
Proof. exact (arith_rshift_math n a b). Qed.

(* comparisons: a 1-bit truth value, same operand discipline *)
Theorem C04_eq n a nx o : wfn n -> inrange n a -> owf o -> bits_eq n a nx o = spec_cmp CEq n a o.
Proof. intros; apply eq_ok; assumption. Qed.
Theorem C04_ne n a nx o : wfn n -> inrange n a -> owf o -> bits_ne n a nx o = spec_cmp CNe n a o.
Proof. intros; apply ne_ok; assumption. Qed.
Theorem C04_lt n a nx o : wfn n -> inrange n a -> owf o -> bits_lt n a nx o = spec_cmp CLt n a o.
Proof. intros; apply lt_ok; assumption. Qed.
Theorem C04_le n a nx o : wfn n -> inrange n a -> owf o -> bits_le n a nx o = spec_cmp CLe n a o.
Proof. intros; apply le_ok; assumption. Qed.
Theorem C04_gt n a nx o : wfn n -> inrange n a -> owf o -> bits_gt n a nx o = spec_cmp CGt n a o.
Proof. intros; apply gt_ok; assumption. Qed.
Theorem C04_ge n a nx o : wfn n -> inrange n a -> owf o -> bits_ge n a nx o = spec_cmp CGe n a o.
Proof. intros; apply ge_ok; assumption. Qed.

(* the specification's results are in range with the documented width; nothing is truncated *)
Theorem C04_result_in_range op n a o m r :
  wfn n -> inrange n a -> owf o -> spec_binop op n a o = Ok (m, r) -> m = n /\ inrange n r.
Proof. exact (spec_binop_range op n a o m r). Qed.
Theorem C04_reflected_in_range op n a o m r :
  wfn n -> inrange n a -> spec_rbinop op n a o = Ok (m, r) -> m = n /\ inrange n r.
Proof. exact (spec_rbinop_range op n a o m r). Qed.
Theorem C04_width_mismatch_is_error op n a m b : m <> n -> spec_binop op n a (OBits m b) = Err EValue.
Proof. exact (spec_binop_width_mismatch op n a m b). Qed.
Theorem C04_unfit_int_is_error op n a k : k < 0 \/ 2 ^ n - 1 < k -> spec_binop op n a (OInt k) = Err EValue.
Proof. exact (spec_binop_int_unfit op n a k). Qed.
Theorem C04_cmp_width_mismatch_is_error op n a m b : m <> n -> spec_cmp op n a (OBits m b) = Err EValue.
Proof. exact (spec_cmp_width_mismatch op n a m b). Qed.
Theorem C04_cmp_unfit_int_is_error op n a k : k < 0 \/ 2 ^ n - 1 < k -> spec_cmp op n a (OInt k) = Err EValue.
Proof. exact (spec_cmp_int_unfit op n a k). Qed.
Theorem C04_cmp_is_one_bit op n a o m r : spec_cmp op n a o = Ok (m, r) -> m = 1 /\ (r = 0 \/ r = 1).
Proof. exact (spec_cmp_bool op n a o m r). Qed.

(* construction, @=, <<=, _flip, int(), uint(), hash *)
Theorem C04_init n v t : owf v -> bits_init n v t = spec_init n v t.
Proof. exact (init_ok n v t). Qed.
Theorem C04_init_in_range n v t m u : owf v -> spec_init n v t = Ok (m, u) -> m = n /\ wfn n /\ inrange n u.
Proof. exact (spec_init_range n v t m u). Qed.
Theorem C04_imatmul n u nx v : wfn n -> owf v -> bits_imatmul n u nx v = spec_imatmul n u nx v.
Proof. intros; apply imatmul_ok; assumption. Qed.
Theorem C04_ilshift n u nx v : wfn n -> owf v -> bits_ilshift n u nx v = spec_ilshift n u nx v.
Proof. intros; apply ilshift_ok; assumption. Qed.
Theorem C04_flip n u nx : bits_flip n u nx = Ok (n, nx, nx).
Proof. exact (flip_ok n u nx). Qed.
Theorem C04_accepts_exactly n k : wfn n ->
  (exists u, spec_store n (OInt k) = Ok u) <-> - 2 ^ (n - 1) <= k <= 2 ^ n - 1.
Proof. exact (spec_store_int_iff n k). Qed.
Theorem C04_stores_mod n k u : spec_store n (OInt k) = Ok u -> u = k mod 2 ^ n.
Proof. exact (spec_store_int_value n k u). Qed.
Theorem C04_store_in_range n v u : wfn n -> owf v -> spec_store n v = Ok u -> inrange n u.
Proof. exact (spec_store_range n v u). Qed.
Theorem C04_store_width_mismatch n m b : m <> n -> spec_store n (OBits m b) = Err EValue.
Proof. exact (spec_store_width_mismatch n m b). Qed.
Theorem C04_sint n u nx : wfn n -> inrange n u -> bits_sint n u nx = Ok (spec_sint n u).
Proof. intros; apply sint_ok; assumption. Qed.
Theorem C04_sint_twos_complement n u : wfn n -> inrange n u ->
  - 2 ^ (n - 1) <= spec_sint n u < 2 ^ (n - 1) /\ (spec_sint n u) mod 2 ^ n = u.
Proof. exact (spec_sint_range n u). Qed.
Theorem C04_uint_hash n u nx :
  bits_uint n u nx = Ok u /\ bits_int_ n u nx = Ok u /\ bits_index n u nx = Ok u /\ bits_hash n u nx = Ok (n, u)
  /\ bits_clone n u nx = Ok (n, u) /\ bits_deepcopy n u nx = Ok (n, u).
Proof. repeat split. Qed.

(* non-vacuity: concrete values at the extreme widths satisfy the hypotheses and compute *)
Example C04_nonvacuous_1 : bits_add 1 1 0 (OBits 1 1) = Ok (1, 0).
Proof. vm_compute. reflexivity. Qed.
Example C04_nonvacuous_1023 : wfn 1023 /\ inrange 1023 (2 ^ 1023 - 1) /\
  bits_add 1023 (2 ^ 1023 - 1) 0 (OInt 1) = Ok (1023, 0).
Proof. unfold wfn, inrange. split; [lia|]. split; [split; [vm_compute; discriminate|apply Z.lt_pred_l]|]. vm_compute. reflexivity. Qed.

Print Assumptions C04_add. Print Assumptions C04_radd. Print Assumptions C04_sub. Print Assumptions C04_rsub.
Print Assumptions C04_mul. Print Assumptions C04_rmul. Print Assumptions C04_and. Print Assumptions C04_rand.
Print Assumptions C04_or. Print Assumptions C04_ror. Print Assumptions C04_xor. Print Assumptions C04_rxor.
Print Assumptions C04_floordiv. Print Assumptions C04_rfloordiv. Print Assumptions C04_mod. Print Assumptions C04_rmod.
Print Assumptions C04_lshift. Print Assumptions C04_rshift. Print Assumptions C04_invert.
Print Assumptions C04_lshift_math. Print Assumptions C04_rshift_math.
Print Assumptions C04_eq. Print Assumptions C04_ne. Print Assumptions C04_lt. Print Assumptions C04_le.
Print Assumptions C04_gt. Print Assumptions C04_ge.
Print Assumptions C04_result_in_range. Print Assumptions C04_reflected_in_range.
Print Assumptions C04_width_mismatch_is_error. Print Assumptions C04_unfit_int_is_error.
Print Assumptions C04_cmp_width_mismatch_is_error. Print Assumptions C04_cmp_unfit_int_is_error.
Print Assumptions C04_cmp_is_one_bit.
Print Assumptions C04_init. Print Assumptions C04_init_in_range. Print Assumptions C04_imatmul.
Print Assumptions C04_ilshift. Print Assumptions C04_flip. Print Assumptions C04_accepts_exactly.
Print Assumptions C04_stores_mod. Print Assumptions C04_store_in_range. Print Assumptions C04_store_width_mismatch.
Print Assumptions C04_sint. Print Assumptions C04_sint_twos_complement. Print Assumptions C04_uint_hash.
