(* Props/C08.v — property C08: connected signals form single-writer nets independent of connect order.
   ONLY statements closed by exact + Print Assumptions. *)
From Coq Require Import ZArith List Bool Arith Lia Permutation.
Import ListNotations.
From PV Require Import Sched.Accept Elab.Nets Elab.NetsProofs Elab.Writers Elab.WritersProofs.

(* nets = connected components: two nodes share a class iff related by the refl-sym-trans closure of the statements *)
Theorem C08_components_spec E x y : In x (nodes E) -> In y (nodes E) ->
  (same (components E) x y <-> conn E x y).
Proof. exact (components_spec E x y). Qed.

(* every computed net is exactly one equivalence class *)
Theorem C08_components_class E c x : In c (components E) -> In x c -> forall y, In y c <-> conn E x y.
Proof. exact (components_class E c x). Qed.

(* the nets partition the connected signals: non-empty, no signal listed twice (pairwise disjoint), all nodes covered *)
Theorem C08_components_partition E :
  (forall c, In c (components E) -> c <> []) /\ NoDup (concat (components E)) /\
  (forall c d x, In c (components E) -> In d (components E) -> In x c -> In x d -> c = d) /\
  (forall x, In x (nodes E) <-> exists c, In c (components E) /\ In x c).
Proof.
  exact (conj (components_nonempty E) (conj (components_nodup E) (conj (components_disjoint E) (components_cover E)))).
Qed.

(* permuting the statements and swapping the sides of any subset of them yields the same nets (as a set of sets) *)
Theorem C08_components_order_indep E E' bs : Permutation E' (flip_some bs E) ->
  parts_equiv (components E) (components E').
Proof. exact (components_perm_flip E E' bs). Qed.
Theorem C08_components_same_graph E E' : edges_equiv E E' -> parts_equiv (components E) (components E').
Proof. exact (components_equiv E E'). Qed.

(* acceptor run on what pymtl3 produced: accepted nets are exactly the connected components *)
Theorem C08_nets_ok_sound E obs : nets_ok E obs = true ->
  length obs = length (components E) /\
  parts_equiv obs (components E) /\
  (forall o x, In o obs -> In x o -> forall y, In y o <-> conn E x y) /\
  (forall x, In x (nodes E) <-> exists o, In o obs /\ In x o).
Proof. exact (nets_ok_sound E obs). Qed.

(* the drivers of a net are a function of the net as a set, hence of the connection graph only *)
Theorem C08_drivers_function_of_set tbl D c c' : set_eq c c' -> set_eq (drivers tbl D c) (drivers tbl D c').
Proof. exact (drivers_set_fun tbl D c c'). Qed.
Theorem C08_drivers_order_indep tbl D E E' bs : Permutation E' (flip_some bs E) ->
  forall c, In c (components E) ->
  exists c', In c' (components E') /\ set_eq c c' /\ set_eq (drivers tbl D c) (drivers tbl D c').
Proof. exact (drivers_perm_flip_indep tbl D E E' bs). Qed.

(* acceptor run on the (writer, net) list pymtl3 produced, in resolution order: the named writer is a member, is a
   legitimate driver (least fixed point), and is the only member driven from outside its net *)
Theorem C08_writer_ok_sound tbl D0 obs : writer_ok tbl D0 obs = true ->
  forall i w net, nth_error obs i = Some (w, net) ->
    In w net /\
    justified tbl D0 obs w /\
    (forall m, In m net -> m <> w ->
       const_n tbl m = false /\ forall d, In d (ext_drive tbl D0 obs i) -> ivl_overlap (ivl_n tbl m) d = false) /\
    (forall m, In m (drivers tbl (ext_drive tbl D0 obs i) net) -> m = w).
Proof. exact (writer_ok_sound tbl D0 obs). Qed.

Theorem C08_no_second_driver_bit tbl D0 obs : writer_ok tbl D0 obs = true ->
  forall i w net, nth_error obs i = Some (w, net) ->
  forall m, In m net -> m <> w ->
  forall d, In d (ext_drive tbl D0 obs i) -> wf_ivl d = true ->
  ~ exists v, in_ivl v (ivl_n tbl m) = true /\ in_ivl v d = true.
Proof. exact (writer_ok_no_shared_bit tbl D0 obs). Qed.

(* inside an accepted net the distinct reader ranges (net_readers: x and its full-width slice count once) are pairwise disjoint *)
Theorem C08_net_drives_no_bit_twice tbl obs : net_disjoint_ok tbl obs = true ->
  forall wn, In wn obs -> ForallOrdPairs (fun a b => ivl_overlap a b = false) (net_readers tbl wn).
Proof. exact (net_disjoint_ok_sound tbl obs). Qed.

(* "in simulation every member of a net carries the writer's value": the net block (copy the writer's bits onto each
   reader in turn) establishes it whenever the acceptor's shape check holds, and leaves the writer untouched *)
Theorem C08_net_values tbl obs : net_disjoint_ok tbl obs = true ->
  forall w net, In (w, net) obs -> const_n tbl w = false -> forall e,
  (forall v, in_ivl v (ivl_n tbl w) = true -> run_net (ivl_n tbl w) (net_readers tbl (w, net)) e v = e v) /\
  (forall r, In r (reader_ivls tbl (w, net)) -> carries (ivl_n tbl w) r (run_net (ivl_n tbl w) (net_readers tbl (w, net)) e)).
Proof. exact (net_values_accepted tbl obs). Qed.

(* non-vacuity: statements 0-1, 2-1, 3-4 (and a swapped, permuted copy); node 0 is bits [0,8) of root 0 and is written by
   an update block; 1 and 2 are other roots; 3 is a constant feeding 4.  The acceptors accept the right answer and
   reject a wrong net split, a wrong writer, and a second driven member. *)
Definition exE : list edge := [(0, 1); (2, 1); (3, 4)]%nat.
Definition exT : list ninfo :=
  [mkN false (0%nat, 0%Z, 8%Z); mkN false (1%nat, 0%Z, 8%Z); mkN false (2%nat, 0%Z, 8%Z); mkN true (9%nat, 0%Z, 0%Z);
   mkN false (3%nat, 0%Z, 4%Z)].
Example C08_nonvacuous :
  nets_ok exE [[1; 0; 2]; [4; 3]]%nat = true /\ nets_ok [(4, 3); (1, 2); (1, 0)]%nat [[1; 0; 2]; [4; 3]]%nat = true /\
  nets_ok exE [[1; 0]; [2]; [4; 3]]%nat = false /\ nets_ok exE [[1; 0; 2; 4; 3]]%nat = false /\
  writer_ok exT [(0%nat, 0%Z, 4%Z)] [(0, [1; 0; 2]); (3, [4; 3])]%nat = true /\
  writer_ok exT [(0%nat, 0%Z, 4%Z)] [(1, [1; 0; 2]); (3, [4; 3])]%nat = false /\
  writer_ok exT [(0%nat, 0%Z, 4%Z); (2%nat, 7%Z, 9%Z)] [(0, [1; 0; 2]); (3, [4; 3])]%nat = false /\
  net_disjoint_ok exT [(0, [1; 0; 2]); (3, [4; 3])]%nat = true.
Proof. vm_compute. repeat split. Qed.

Print Assumptions C08_components_spec. Print Assumptions C08_components_class. Print Assumptions C08_components_partition.
Print Assumptions C08_components_order_indep. Print Assumptions C08_components_same_graph. Print Assumptions C08_nets_ok_sound.
Print Assumptions C08_drivers_function_of_set. Print Assumptions C08_drivers_order_indep. Print Assumptions C08_writer_ok_sound.
Print Assumptions C08_no_second_driver_bit. Print Assumptions C08_net_drives_no_bit_twice. Print Assumptions C08_net_values.
