(* Props/C05.v — property C05: slices, concat, extension, reduce, clog2 address exactly the named bits.
   ONLY statements closed by `exact`/`apply`, each followed by Print Assumptions. *)
From PV Require Import Base.Prelude Bits.BitsSpec Bits.BitsLemmas Bits.SpecFacts Gen.BitsGen Bits.BitsProofs
                       Bits.Helpers Gen.HelpersGen Bits.HelpersProofs Bits.SliceRAW.
Open Scope Z_scope.

(* the generated __getitem__/__setitem__ equal the specification on EVERY index (valid or not) *)
Theorem C05_getitem n u nx i : wfn n -> inrange n u -> bits_getitem n u nx i = spec_getitem n u i.
Proof. intros; apply getitem_ok; assumption. Qed.
Theorem C05_setitem n u nx i v : wfn n -> inrange n u -> owf v -> bits_setitem n u nx i v = spec_setitem n u nx i v.
Proof. intros; apply setitem_ok; assumption. Qed.

(* and the specification is the bit-level definition *)
Theorem C05_slice_reads_named_bits n u lo hi :
  wfn n -> inrange n u -> 0 <= lo < hi -> hi <= n ->
  spec_getitem n u (ISlice (Some lo) (Some hi) None) = Ok (hi - lo, (u / 2 ^ lo) mod 2 ^ (hi - lo))
  /\ inrange (hi - lo) ((u / 2 ^ lo) mod 2 ^ (hi - lo))
  /\ forall i, 0 <= i < hi - lo -> Z.testbit ((u / 2 ^ lo) mod 2 ^ (hi - lo)) i = Z.testbit u (lo + i).
Proof. exact (getitem_slice_valid n u lo hi). Qed.
Theorem C05_slice_invalid_is_error n u s e st :
  let lo := bound s 0 in let hi := bound e n in
  ~ (0 <= lo < hi /\ hi <= n) \/ step_trivial st = false ->
  spec_getitem n u (ISlice s e st) = Err EIndex.
Proof. exact (getitem_slice_invalid n u s e st). Qed.
Theorem C05_bit_read n u k : wfn n -> inrange n u ->
  (0 <= k < n -> spec_getitem n u (IInt k) = Ok (1, b2z (Z.testbit u k))) /\
  (~ 0 <= k < n -> spec_getitem n u (IInt k) = Err EIndex).
Proof. exact (getitem_bit n u k). Qed.
Theorem C05_slice_write_frames n u nx lo hi v r :
  wfn n -> inrange n u -> owf v -> 0 <= lo < hi -> hi <= n ->
  spec_setitem n u nx (ISlice (Some lo) (Some hi) None) v = Ok r ->
  exists w u', r = (n, u', nx) /\ spec_store (hi - lo) v = Ok w /\ inrange n u' /\
    forall i, 0 <= i ->
      Z.testbit u' i = if (lo <=? i) && (i <? hi) then Z.testbit w (i - lo) else Z.testbit u i.
Proof. exact (setitem_slice_frame n u nx lo hi v r). Qed.
Theorem C05_slice_write_invalid_is_error n u nx s e st v :
  let lo := bound s 0 in let hi := bound e n in
  ~ (0 <= lo < hi /\ hi <= n) \/ step_trivial st = false ->
  spec_setitem n u nx (ISlice s e st) v = Err EIndex.
Proof. exact (setitem_slice_invalid n u nx s e st v). Qed.
Theorem C05_slice_write_wrong_width_is_error n u nx lo hi m b :
  0 <= lo < hi -> hi <= n -> m <> hi - lo ->
  spec_setitem n u nx (ISlice (Some lo) (Some hi) None) (OBits m b) = Err EValue.
Proof. exact (setitem_slice_too_wide n u nx lo hi m b). Qed.
Theorem C05_bit_write_frames n u nx k v r :
  wfn n -> inrange n u -> 0 <= k < n ->
  spec_setitem n u nx (IInt k) v = Ok r ->
  exists w u', r = (n, u', nx) /\ (w = 0 \/ w = 1) /\ inrange n u' /\
    forall i, 0 <= i -> Z.testbit u' i = if i =? k then Z.odd w else Z.testbit u i.
Proof. exact (setitem_bit_frame n u nx k v r). Qed.

(* read after write, on the generated code's specification: after a valid slice write [lo,hi) := b, EVERY valid slice
   [lo2,hi2) reads the written bits inside the window and the old bits outside it; the same window reads back b itself;
   a disjoint window reads what it read before the write *)
Theorem C05_slice_read_after_write n u nx lo hi b r lo2 hi2 :
  wfn n -> inrange n u -> inrange (hi - lo) b -> 0 <= lo < hi -> hi <= n ->
  spec_setitem n u nx (ISlice (Some lo) (Some hi) None) (OBits (hi - lo) b) = Ok r ->
  0 <= lo2 < hi2 -> hi2 <= n ->
  exists u', r = (n, u', nx) /\ inrange n u' /\
  exists v, spec_getitem n u' (ISlice (Some lo2) (Some hi2) None) = Ok (hi2 - lo2, v) /\
    inrange (hi2 - lo2) v /\
    (forall i, 0 <= i < hi2 - lo2 ->
       Z.testbit v i = if (lo <=? lo2 + i) && (lo2 + i <? hi) then Z.testbit b (lo2 + i - lo)
                       else Z.testbit u (lo2 + i)) /\
    (lo2 = lo -> hi2 = hi -> v = b) /\
    (hi2 <= lo \/ hi <= lo2 -> spec_getitem n u (ISlice (Some lo2) (Some hi2) None) = Ok (hi2 - lo2, v)).
Proof. exact (slice_read_after_write n u nx lo hi b r lo2 hi2). Qed.

Example C05_read_after_write_nonvacuous :
  (* Bits8(0xab)[2:6] = 0b0101 : 0xab = 1010_1011 -> 1001_0111 = 0x97; reading [2:6] gives 5, [6:8] still 2, [0:4] = 7 *)
  bits_setitem 8 171 0 (ISlice (Some 2) (Some 6) None) (OBits 4 5) = Ok (8, 151, 0)
  /\ bits_getitem 8 151 0 (ISlice (Some 2) (Some 6) None) = Ok (4, 5)
  /\ bits_getitem 8 151 0 (ISlice (Some 6) (Some 8) None) = bits_getitem 8 171 0 (ISlice (Some 6) (Some 8) None)
  /\ bits_getitem 8 151 0 (ISlice (Some 0) (Some 4) None) = Ok (4, 7).
Proof. vm_compute. repeat split. Qed.

(* helpers *)
Theorem C05_concat xs : Forall wfpair xs -> 0 < fst (concat_spec xs) < 1024 -> h_concat xs = Ok (concat_spec xs).
Proof. exact (concat_ok xs). Qed.
Theorem C05_concat_width xs : fst (concat_spec xs) = fold_right Z.add 0 (map fst xs).
Proof. exact (concat_width_sum xs). Qed.
Theorem C05_concat_too_wide xs : Forall wfpair xs -> 1024 <= fst (concat_spec xs) -> h_concat xs = Err EValue.
Proof. exact (concat_too_wide xs). Qed.
Theorem C05_trunc n u w : 0 < w <= n -> n < 1024 -> h_trunc n u w false = Ok (w, u mod 2 ^ w).
Proof. exact (trunc_ok n u w). Qed.
Theorem C05_trunc_guard n u w : n < w -> h_trunc n u w false = Err EAssert.
Proof. exact (trunc_guard n u w). Qed.
Theorem C05_zext n u w : wfn n -> inrange n u -> n <= w < 1024 -> h_zext n u w false = Ok (w, u).
Proof. exact (zext_ok n u w). Qed.
Theorem C05_zext_guard n u w : w < n -> h_zext n u w false = Err EAssert.
Proof. exact (zext_guard n u w). Qed.
Theorem C05_sext n u w : wfn n -> inrange n u -> n <= w < 1024 ->
  h_sext n u w false = Ok (w, (spec_sint n u) mod 2 ^ w) /\
  forall i, 0 <= i < w -> Z.testbit ((spec_sint n u) mod 2 ^ w) i = Z.testbit u (Z.min i (n - 1)).
Proof. exact (sext_ok n u w). Qed.
Theorem C05_sext_guard n u w : w < n -> h_sext n u w false = Err EAssert.
Proof. exact (sext_guard n u w). Qed.
Theorem C05_reduce_and n u : wfn n -> inrange n u ->
  (snd (h_reduce_and n u) = 1 <-> forall i, 0 <= i < n -> Z.testbit u i = true) /\
  (snd (h_reduce_and n u) = 0 \/ snd (h_reduce_and n u) = 1) /\ fst (h_reduce_and n u) = 1.
Proof. exact (reduce_and_ok n u). Qed.
Theorem C05_reduce_or n u : inrange n u ->
  (snd (h_reduce_or n u) = 1 <-> exists i, 0 <= i /\ Z.testbit u i = true) /\ fst (h_reduce_or n u) = 1.
Proof. exact (reduce_or_ok n u). Qed.
Theorem C05_reduce_xor n u : wfn n -> inrange n u -> h_reduce_xor n u = (1, b2z (xor_bits (Z.to_nat n) u)).
Proof. exact (reduce_xor_ok n u). Qed.
Theorem C05_clog2 N c : 1 <= N -> h_clog2 N = Ok c ->
  0 <= c /\ N <= 2 ^ c /\ forall k, 0 <= k < c -> 2 ^ k < N.
Proof. exact (clog2_least N c). Qed.
Theorem C05_clog2_total N : 1 <= N -> h_clog2 N = Ok (Z.log2_up N).
Proof. exact (clog2_ok N). Qed.

(* the functions GENERATED from helpers.py on this run equal the model the theorems above are about *)
Theorem C05_clog2_generated N : gen_clog2 N = h_clog2 N.
Proof. exact (gen_clog2_ok N). Qed.
Theorem C05_trunc_generated n u s : gen_trunc n u s = h_trunc n u (wspec_w s) (wspec_ty s).
Proof. exact (gen_trunc_ok n u s). Qed.
Theorem C05_zext_generated n u s : gen_zext n u s = h_zext n u (wspec_w s) (wspec_ty s).
Proof. exact (gen_zext_ok n u s). Qed.
Theorem C05_sext_generated n u s : wfn n -> inrange n u -> gen_sext n u s = h_sext n u (wspec_w s) (wspec_ty s).
Proof. exact (gen_sext_ok n u s). Qed.
Theorem C05_reduce_and_generated n u : 0 <= n -> gen_reduce_and n u = Ok (h_reduce_and n u).
Proof. exact (gen_reduce_and_ok n u). Qed.
Theorem C05_reduce_or_generated n u : gen_reduce_or n u = Ok (h_reduce_or n u).
Proof. exact (gen_reduce_or_ok n u). Qed.

Example C05_nonvacuous : bits_getitem 8 171 0 (ISlice (Some 2) (Some 6) None) = Ok (4, 10)
  /\ bits_getitem 8 171 0 (ISlice (Some 2) (Some 0) None) = Err EIndex
  /\ h_clog2 (2 ^ 29) = Ok 29.
Proof. vm_compute. repeat split. Qed.

Print Assumptions C05_getitem. Print Assumptions C05_setitem. Print Assumptions C05_slice_reads_named_bits.
Print Assumptions C05_slice_invalid_is_error. Print Assumptions C05_bit_read. Print Assumptions C05_slice_write_frames.
Print Assumptions C05_slice_write_invalid_is_error. Print Assumptions C05_slice_write_wrong_width_is_error.
Print Assumptions C05_bit_write_frames. Print Assumptions C05_concat. Print Assumptions C05_concat_width.
Print Assumptions C05_concat_too_wide. Print Assumptions C05_trunc. Print Assumptions C05_trunc_guard.
Print Assumptions C05_zext. Print Assumptions C05_zext_guard. Print Assumptions C05_sext. Print Assumptions C05_sext_guard.
Print Assumptions C05_reduce_and. Print Assumptions C05_reduce_or. Print Assumptions C05_reduce_xor.
Print Assumptions C05_clog2. Print Assumptions C05_clog2_total. Print Assumptions C05_clog2_generated. Print Assumptions C05_trunc_generated. Print Assumptions C05_zext_generated.
Print Assumptions C05_sext_generated. Print Assumptions C05_reduce_and_generated. Print Assumptions C05_reduce_or_generated.
Print Assumptions C05_slice_read_after_write. Print Assumptions C05_read_after_write_nonvacuous.
