(* Props/C12.v — property C12: the Yosys-compatible translation is equivalent, every variable has one driver, and each
   flattened port (struct field, array element, interface member) carries exactly the bits of the corresponding slice of
   the original port's packed value.
   ONLY statements closed by exact + Print Assumptions.  The behavioural part uses the same semantics model and the same
   acceptors as C03 (the Yosys backend emits the same statement forms over flattened variables); harness/c12.py replays the
   real emitted text against the pymtl3 simulation, with every flattened port driven / compared by the slice below. *)
From Coq Require Import FMapPositive.
From PV Require Import Base.Prelude Bits.BitsSpec Struct.Shape Struct.Layout Struct.LayoutProofs
                       SV.SvSyntax SV.SvSizing SV.SvEval SV.SvDrivers SV.SvProofs SV.Flat.
Open Scope Z_scope.

(* ---- the flat port map, for EVERY struct shape (fields, nested structs, list fields of any length and nesting) ---- *)
(* the flattened port of leaf r carries flat_value b r = bits [rlo r, rhi r) of the packed value b; for a value v of
   shape T the leaf at path r holds exactly that slice of pack T v (= to_bits) *)
Theorem C12_flat_port_carries_slice T v r : wf T = true -> typed T v = true -> In r (leaf_ranges T) ->
  shape_at T (rpath r) = Some (SBits (rhi r - rlo r)) /\
  leaf_at v (rpath r) = Some (flat_value (pack T v) r).
Proof. exact (flat_port_carries_slice T v r). Qed.
Theorem C12_flat_port_bits T v r : wf T = true -> typed T v = true -> In r (leaf_ranges T) ->
  exists u, leaf_at v (rpath r) = Some u /\ 0 <= u < 2 ^ (rhi r - rlo r) /\
            forall i, rlo r <= i < rhi r -> Z.testbit (pack T v) i = Z.testbit u (i - rlo r).
Proof. exact (flat_port_bits T v r). Qed.
(* layout: the first field is the most significant, list element 0 the least significant *)
Theorem C12_layout_order T r1 r2 : wf T = true -> In r1 (leaf_ranges T) -> In r2 (leaf_ranges T) ->
  above (rpath r1) (rpath r2) -> rhi r2 <= rlo r1.
Proof. exact (leaf_ranges_order T r1 r2). Qed.
(* the slices are disjoint, non-empty, inside the port, and together cover it *)
Theorem C12_flat_ranges_cover T i : wf T = true -> 0 <= i < width T -> exists r, In r (leaf_ranges T) /\ rlo r <= i < rhi r.
Proof. exact (flat_ranges_cover T i). Qed.
Theorem C12_flat_ranges_disjoint T r1 r2 i : wf T = true -> In r1 (leaf_ranges T) -> In r2 (leaf_ranges T) ->
  rlo r1 <= i < rhi r1 -> rlo r2 <= i < rhi r2 -> r1 = r2.
Proof. exact (flat_ranges_disjoint T r1 r2 i). Qed.
Theorem C12_flat_ranges_bounds T r : wf T = true -> In r (leaf_ranges T) -> 0 <= rlo r /\ rlo r < rhi r /\ rhi r <= width T.
Proof. exact (flat_ranges_bounds T r). Qed.
(* flatten / unflatten: the packed internal form the emitted `assign x[hi-1:lo] = x__leaf;` build from the flattened ports
   is the packed value, and flattening a reassembled value gives the ports back *)
Theorem C12_unflatten_flatten T b : wf T = true -> 0 <= b < 2 ^ (width T) -> unflatten (leaf_ranges T) (flatten T b) = b.
Proof. exact (unflatten_flatten T b). Qed.
Theorem C12_unflatten_leaves_is_pack T v : wf T = true -> typed T v = true ->
  unflatten (leaf_ranges T) (flatten T (pack T v)) = pack T v.
Proof. exact (unflatten_leaves_is_pack T v). Qed.
Theorem C12_flatten_unflatten T vs : wf T = true -> Forall2 in_leaf (leaf_ranges T) vs ->
  flatten T (unflatten (leaf_ranges T) vs) = vs.
Proof. exact (flatten_unflatten T vs). Qed.

(* ---- behaviour and drivers: as C03 ---- *)
Theorem C12_selfdet_eq_ctx te en e w : tenv_ok te -> uniform te e = true -> selfw te e = w ->
  eval_ctx te en w e = eval_sd te en e.
Proof. exact (sv_selfdet_eq_ctx te en e w). Qed.
Theorem C12_eval_range te en e W : 0 <= W -> 0 <= eval te en W e < 2 ^ W.
Proof. exact (sv_eval_range te en e W). Qed.
Theorem C12_ff_block_reads_pre_edge te body st : Forall (fun s => nb_only s = true) body ->
  x_env (exec_list te body st) = x_env st.
Proof. intros H. exact (nb_block_env te body H st). Qed.
Theorem C12_nonblocking_last_wins x w v u p en : 0 <= w -> PM.find x (commit p en) = Some (VZ u) ->
  read_bits (commit (p ++ [(scalar_ref x w, VZ v)]) en) (scalar_ref x w) = v mod 2 ^ w.
Proof. exact (nonblocking_last_wins x w v u p en). Qed.
Theorem C12_single_driver F m : sv_single_driver F m = true ->
  forall dc, In dc (mod_vars m) -> forall b, 0 <= b < vbits (d_ty dc, d_dims dc) ->
  exists k d, nth_error (drivers F m) k = Some d /\ drives d (d_id dc) b = true /\
    forall k' d', nth_error (drivers F m) k' = Some d' -> drives d' (d_id dc) b = true -> k' = k.
Proof. exact (sv_single_driver_sound F m). Qed.

(* ---- non-vacuity ---- *)
(* Outer { p : Pt { a : Bits8; b : Bits4 }; c : Bits4; v : [Bits4, Bits4, Bits4] }   (28 bits) *)
Definition exT : shape := SStruct [SStruct [SBits 8; SBits 4]; SBits 4; SList 3 (SBits 4)].
Definition exV : Shape.value := VStruct [VStruct [VBits 171; VBits 12]; VBits 13; VList [VBits 1; VBits 2; VBits 3]].
Example C12_nonvacuous :
  wf exT = true /\ typed exT exV = true /\ pack exT exV = 0xABCD321 /\
  leaf_ranges exT = [([Fld 0%nat; Fld 0%nat], 20, 28); ([Fld 0%nat; Fld 1%nat], 16, 20); ([Fld 1%nat], 12, 16);
                     ([Fld 2%nat; Idx 2%nat], 8, 12); ([Fld 2%nat; Idx 1%nat], 4, 8); ([Fld 2%nat; Idx 0%nat], 0, 4)] /\
  flatten exT 0xABCD321 = [171; 12; 13; 3; 2; 1] /\
  unflatten (leaf_ranges exT) [171; 12; 13; 3; 2; 1] = 0xABCD321.
Proof. vm_compute. repeat split. Qed.

Print Assumptions C12_flat_port_carries_slice. Print Assumptions C12_flat_port_bits. Print Assumptions C12_layout_order.
Print Assumptions C12_flat_ranges_cover. Print Assumptions C12_flat_ranges_disjoint. Print Assumptions C12_flat_ranges_bounds.
Print Assumptions C12_unflatten_flatten. Print Assumptions C12_unflatten_leaves_is_pack. Print Assumptions C12_flatten_unflatten.
Print Assumptions C12_selfdet_eq_ctx. Print Assumptions C12_eval_range. Print Assumptions C12_ff_block_reads_pre_edge.
Print Assumptions C12_nonblocking_last_wins. Print Assumptions C12_single_driver.
