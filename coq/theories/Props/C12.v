(* Props/C12.v — placeholder while the proofs are being written *)
From PV Require Import Base.Prelude SV.SvSyntax SV.SvSizing SV.SvEval SV.SvDrivers.
Example C12_placeholder : True. Proof. exact I. Qed.
Print Assumptions C12_placeholder.
