(* Props/C03_tr.v — property C03, the part about the TRANSLATOR: a model of what BehavioralRTLIRToVVisitorL1..L3 emit
   (SV/Translate.v: tr_expr / tr_lhs / tr_stmt / tr_block) and its soundness (SV/TranslateSound.v) with respect to
   the simulator semantics RTL/Eval.v and OUR IEEE-1800 semantics SV/SvSizing.v + SV/SvEval.v.
   ONLY statements closed by exact / apply + Print Assumptions, and non-vacuity examples.
   Proved: all expressions; single assignments; if; WHOLE always_comb and always_ff blocks of plain designs without for
   loops (C03_tr_comb_block_sound, C03_tr_ff_block_sound).  Not proved: for loops, designs with lists of signals.

   How this reaches the code (harness/c03_tr.py, every run of ./check C03): for every update block that
   translators/rtlblk2coq.py can express, Coq checks  sv_block_eqb (tr_block names G t) p = true  where p is the always
   block svparse.py read from the text the REAL translator wrote; and it evaluates the acceptor blk_ok on the block.
   So for such a block the emitted text IS tr_block of its RTL term (up to inlined localparams, Translate.norm), and
   the theorems below are statements about the emitted text. *)
From Coq Require Import FMapPositive.
From PV Require Import Base.Prelude Bits.BitsSpec RTL.Syntax RTL.Eval RTL.Typing SV.Translate SV.TranslateSound.
From PV Require SV.SvSyntax SV.SvSizing SV.SvEval.
Open Scope Z_scope.

(* ---- expressions: all 18 constructors of RTL/Syntax.v ----
   In corresponding environments (every signal / field, temporary and loop variable holds the same number on both
   sides: TranslateSound.corr), for an expression accepted by sv_ok, whenever the simulator evaluates e without raising:
   a Bits value (n, u): the emitted expression has self-determined width n and evaluates to u at width n
                        (= in the context of an assignment to an n-bit target: eval_ctx);
   a python int z:      the emitted expression evaluates to z at its self-determined width and at every wider one. *)
Theorem C03_tr_expr_sound nm E te st en : corr nm E te st en ->
  forall e ctx v, sv_ok te nm E ctx e = true -> eval (tsig E) st e = Ok v ->
  match v with
  | VBits n u => 0 < n < 1024 /\ Z'.selfw te (tr_expr nm E ctx e) = n /\ Z'.eval te en n (tr_expr nm E ctx e) = u
  | VInt z => 0 <= z < 2 ^ Z'.selfw te (tr_expr nm E ctx e) /\
              forall Wd, Z'.selfw te (tr_expr nm E ctx e) <= Wd -> Z'.eval te en Wd (tr_expr nm E ctx e) = z
  end.
Proof. exact (tr_expr_sound nm E te st en). Qed.

Theorem C03_tr_expr_bits_assignment_context nm E te st en : corr nm E te st en ->
  forall e ctx n u, sv_ok te nm E ctx e = true -> eval (tsig E) st e = Ok (VBits n u) ->
  Z'.eval_ctx te en n (tr_expr nm E ctx e) = u /\ 0 <= u < 2 ^ n.
Proof. exact (tr_expr_sound_ctx nm E te st en). Qed.

(* the condition of an emitted `if` / `?:` is taken exactly when python takes it *)
Theorem C03_tr_cond_sound nm E te st en : corr nm E te st en ->
  forall c v, sv_ok te nm E None c = true -> eval (tsig E) st c = Ok v ->
  Z'.truthy (Z'.eval_self te en (tr_expr nm E None c)) = truthy v.
Proof. exact (tr_cond_sound nm E te st en). Qed.

(* ---- single assignments: the value an emitted assignment transfers and the place it transfers it to ----
   SvEval: `lhs = rhs` writes assign_value lhs rhs to resolve lhs at once, `lhs <= rhs` queues that pair
   (C03_tr_assign_exec, which is SvProofs.blocking_immediate / nonblocking_defers on the emitted statement).  The four
   theorems identify the pair with what RTL.Eval.exec_assign does to the simulator state. *)
Theorem C03_tr_assign_exec nm E te lbl l e blocking x :
  X.exec te (tr_stmt nm E (SAssign lbl l e blocking)) x =
  let tgt := Z'.resolve te (X.x_env x) (tr_lhs nm E l) in
  let val := X.assign_value te (X.x_env x) (tr_lhs nm E l) (tr_expr nm E (assign_ctx E l e) e) in
  if blocking then X.mkx (Z'.write_ref tgt val (X.x_env x)) (X.x_pend x) (X.x_ok x)
  else X.mkx (X.x_env x) (X.x_pend x ++ [(tgt, val)]) (X.x_ok x).
Proof. exact (tr_stmt_assign_exec nm E te lbl l e blocking x). Qed.

(* sig @= e , sig.field @= e , sig <<= e *)
Theorem C03_tr_assign_signal nm E te st en : corr nm E te st en -> forall lbl s p e blocking st',
  assign_ok te nm E (LSig s p) e blocking = true -> exec_assign (tsig E) st lbl (LSig s p) e blocking = Ok st' ->
  exists f u, lookup_sig (tsig E) s p = Some f /\
    X.assign_value te en (tr_lhs nm E (LSig s p)) (tr_expr nm E (assign_ctx E (LSig s p) e) e) = Z'.VZ u /\ 0 <= u < 2 ^ fw f /\
    (if blocking then sigv st' s = splice (sigv st s) (flo f) (flo f + fw f) u /\ nxtv st' = nxtv st
     else nxtv st' s = Some (splice (sigv st s) (flo f) (flo f + fw f) u) /\ sigv st' = sigv st) /\
    unchanged_but st s st'.
Proof. exact (tr_assign_sig_sound nm E te st en). Qed.

(* sig[lo:hi] @= e *)
Theorem C03_tr_assign_part_select nm E te st en : corr nm E te st en -> forall lbl s p lo hi e st',
  assign_ok te nm E (LSlice s p lo hi) e true = true -> exec_assign (tsig E) st lbl (LSlice s p lo hi) e true = Ok st' ->
  exists f x ix o l h u,
    lookup_sig (tsig E) s p = Some f /\ 0 <= l /\ l < h /\ h <= fw f /\
    Z'.resolve te en (tr_sig nm s p) = Some (Z'.mkref x ix [] o (S.PBits (fw f))) /\
    Z'.resolve te en (tr_lhs nm E (LSlice s p lo hi)) = Some (Z'.mkref x ix [] (o + l) (S.PBits (h - l))) /\
    X.assign_value te en (tr_lhs nm E (LSlice s p lo hi)) (tr_expr nm E (assign_ctx E (LSlice s p lo hi) e) e) = Z'.VZ u /\
    0 <= u < 2 ^ (h - l) /\
    sigv st' s = splice (sigv st s) (flo f) (flo f + fw f) (splice ((sigv st s / 2 ^ flo f) mod 2 ^ fw f) l h u) /\
    nxtv st' = nxtv st /\ unchanged_but st s st'.
Proof. exact (tr_assign_slice_sound nm E te st en). Qed.

(* sig[i] @= e *)
Theorem C03_tr_assign_bit nm E te st en : corr nm E te st en -> forall lbl s p i e st',
  assign_ok te nm E (LIndex s p i) e true = true -> exec_assign (tsig E) st lbl (LIndex s p i) e true = Ok st' ->
  exists f x ix o k u,
    lookup_sig (tsig E) s p = Some f /\ 0 <= k < fw f /\
    Z'.resolve te en (tr_sig nm s p) = Some (Z'.mkref x ix [] o (S.PBits (fw f))) /\
    Z'.resolve te en (tr_lhs nm E (LIndex s p i)) = Some (Z'.mkref x ix [] (o + k) (S.PBits 1)) /\
    X.assign_value te en (tr_lhs nm E (LIndex s p i)) (tr_expr nm E (assign_ctx E (LIndex s p i) e) e) = Z'.VZ u /\ 0 <= u < 2 /\
    sigv st' s = splice (sigv st s) (flo f) (flo f + fw f) (splice ((sigv st s / 2 ^ flo f) mod 2 ^ fw f) k (k + 1) u) /\
    nxtv st' = nxtv st /\ unchanged_but st s st'.
Proof. exact (tr_assign_index_sound nm E te st en). Qed.

(* tmp = e *)
Theorem C03_tr_assign_temporary nm E te st en : corr nm E te st en -> forall lbl i e w st',
  PositiveMap.find (n_tmp nm i) te = Some (S.PBits w, []) ->
  assign_ok te nm E (LTmp i) e true = true -> exec_assign (tsig E) st lbl (LTmp i) e true = Ok st' ->
  exists v, eval (tsig E) st e = Ok v /\ tmpv st' i = Some v /\ (forall j, j <> i -> tmpv st' j = tmpv st j) /\
    sigv st' = sigv st /\ nxtv st' = nxtv st /\ loopv st' = loopv st /\
    X.assign_value te en (tr_lhs nm E (LTmp i)) (tr_expr nm E (assign_ctx E (LTmp i) e) e) = Z'.VZ (value_int v) /\
    0 <= value_int v < 2 ^ w.
Proof. exact (tr_assign_tmp_sound nm E te st en). Qed.

(* if / elif / else: the emitted statement runs the translation of the branch python runs *)
Theorem C03_tr_if nm E te st x lbl c t f v : corr nm E te st (X.x_env x) ->
  sv_ok te nm E None c = true -> eval (tsig E) st c = Ok v ->
  X.exec te (tr_stmt nm E (SIf lbl c t f)) x =
    X.exec_list te (if truthy v then tr_stmts nm E t else tr_stmts nm (env_after_list E t) f) x /\
  exec (tsig E) (SIf lbl c t f) st =
    exec_list (exec (tsig E)) (if truthy v then t else f)
      (add_evs st (map (fun p => (lbl, fst p, snd p)) (probes (tsig E) st 0 c))).
Proof. exact (tr_if_sound nm E te st x lbl c t f v). Qed.

(* ---- whole blocks: always_comb and always_ff ----
   For a plain design (plain_ok: every signal ONE scalar variable of the module - Bits vector or packed struct -, fields at
   the offsets of the declaration table, temporaries declared, all spellings distinct) and an update block accepted by
   comb_ok / ff_ok (assignments to signals / fields / part selects / bits / temporaries - blocking in a combinational
   block; non-blocking to whole signals plus blocking temporaries in an update_ff block -, arbitrarily nested
   if / elif / else, every expression sv_ok, the block type-checks; NO for loop), from related states
   (inv: every signal variable holds the simulator's packed value modulo the signal width, assigned temporaries their
   value; comb: nothing pending; ff: committing the pending list yields what the simulator's signals hold after the edge):
   if the simulator runs the block without raising, then after SvEval has run the EMITTED always body
     comb: nothing is pending and EVERY signal and field (s, p) reads the simulator's new value of that field;
     ff:   after the commit at the clock edge every signal and field reads the simulator's post-edge value (final_sig),
           and before it still the pre-edge value;
   the loop fuel was never exhausted, and every temporary python has assigned holds its value. *)
Theorem C03_tr_comb_block_sound te nm G ntmp b st st' x :
  plain_ok te nm G ntmp = true -> comb_ok te nm ntmp G b = true ->
  inv te nm G ntmp false (init_tenv G) st x -> exec_block G b st = Ok st' ->
  let x' := X.exec_list te (tr_block nm G b) x in
  X.x_pend x' = [] /\ X.x_ok x' = true /\
  (forall s p f, lookup_sig G s p = Some f ->
     Z'.read_bits (X.x_env x') (Z'.resolve te (X.x_env x') (tr_sig nm s p)) = (sigv st' s / 2 ^ flo f) mod 2 ^ fw f) /\
  (forall i v, tmpv st' i = Some v -> Z'.lookup (X.x_env x') (n_tmp nm i) = Z'.VZ (value_int v)).
Proof. exact (tr_comb_block_sound te nm G ntmp b st st' x). Qed.

Theorem C03_tr_ff_block_sound te nm G ntmp b st st' x :
  plain_ok te nm G ntmp = true -> ff_ok te nm ntmp G b = true ->
  inv te nm G ntmp true (init_tenv G) st x -> exec_block G b st = Ok st' ->
  let x' := X.exec_list te (tr_block nm G b) x in
  let enc := X.commit (X.x_pend x') (X.x_env x') in
  X.x_ok x' = true /\
  (forall s p f, lookup_sig G s p = Some f ->
     Z'.read_bits enc (Z'.resolve te enc (tr_sig nm s p)) = (final_sig st' s / 2 ^ flo f) mod 2 ^ fw f) /\
  (forall s p f, lookup_sig G s p = Some f ->
     Z'.read_bits (X.x_env x') (Z'.resolve te (X.x_env x') (tr_sig nm s p)) = (sigv st' s / 2 ^ flo f) mod 2 ^ fw f) /\
  (forall i v, tmpv st' i = Some v -> Z'.lookup (X.x_env x') (n_tmp nm i) = Z'.VZ (value_int v)).
Proof. exact (tr_ff_block_sound te nm G ntmp b st st' x). Qed.

(* ... the relation is an invariant of both kinds of block (this is what composes: the final states are related again) ... *)
Theorem C03_tr_block_invariant te nm G ntmp ff b st st' x :
  plain_ok te nm G ntmp = true -> cstmts_ok te nm ntmp ff (init_tenv G) b = true ->
  inv te nm G ntmp ff (init_tenv G) st x -> exec_block G b st = Ok st' ->
  inv te nm G ntmp ff (env_after_list (init_tenv G) b) st' (X.exec_list te (tr_block nm G b) x).
Proof. intros HP. exact (tr_block_sound_gen te nm G ntmp ff HP b st st' x). Qed.

(* ... and it holds where an always block starts: signal variables hold the packed signal values, python has not assigned
   any temporary yet, (ff) no <<= has been executed yet *)
Theorem C03_tr_block_start te nm G ntmp ff st en :
  (forall i, tmpv st i = None) -> (ff = true -> forall s, nxtv st s = None) ->
  (forall s f0, lookup_sig G s [] = Some f0 -> PositiveMap.find (sid nm s) en = Some (Z'.VZ (sigv st s))) ->
  (forall i w, (i < ntmp)%nat -> tmp_decl te nm i = Some w ->
     exists U, PositiveMap.find (n_tmp nm i) en = Some (Z'.VZ U) /\ 0 <= U < 2 ^ w) ->
  inv te nm G ntmp ff (init_tenv G) st (X.mkx en [] true).
Proof. exact (inv_init te nm G ntmp ff st en). Qed.

(* the key lemma of the induction: ONE accepted statement (assignment of any target kind, or if) preserves the relation
   under the typing environment threaded by env_after *)
Theorem C03_tr_stmt_preserves te nm G ntmp ff : plain_ok te nm G ntmp = true -> forall s E,
  cstmt_ok te nm ntmp ff E s = true -> tmps_ok te nm ntmp E ->
  forall st x st', inv te nm G ntmp ff E st x -> exec G s st = Ok st' ->
  inv te nm G ntmp ff (env_after E s) st' (X.exec te (tr_stmt nm E s) x).
Proof. intros HP s E Hok T. exact (proj2 (stmt_prop_all te nm G ntmp ff HP s E Hok T)). Qed.

(* NOT proved: for loops (the iteration correspondence between loop_count and the fuel loop of SvEval.exec; named at the
   end of SV/TranslateSound.v) and designs with lists of signals.  TranslateSound.tr_block_sound_partial is the general
   statement; harness/c03_tr.py samples it on random inputs for every compared block on every run (Translate.blk_diff). *)

(* ---- the comparison used by the tie is an equality up to inlined localparams ---- *)
Theorem C03_tr_sexpr_eqb_eq x y : sexpr_eqb x y = true -> x = y.
Proof. exact (sexpr_eqb_eq x y). Qed.

(* the only normalisation the comparison performs: a read of a scalar localparam is replaced by the sized literal of its
   declaration, a size cast of a literal that fits its own width is folded into the literal ( N'(M'dV) -> N'dV ).  Where every such localparam is declared with
   that width and holds that value, two expressions the tie finds equal evaluate alike at every width and have one
   self-determined width; two assignment targets denote the same place of the same type. *)
Theorem C03_tr_tie_expr_sound ps te en :
  (forall x w v, PositiveMap.find x ps = Some (w, v) ->
     PositiveMap.find x te = Some (S.PBits w, []) /\ Z'.lookup en x = Z'.VZ v /\ 0 <= v < 2 ^ w) ->
  forall x y, sv_expr_eqb ps x y = true -> (forall Wd, Z'.eval te en Wd x = Z'.eval te en Wd y) /\ Z'.selfw te x = Z'.selfw te y.
Proof. exact (sv_expr_eqb_sound ps te en). Qed.
Theorem C03_tr_tie_lhs_sound ps te en :
  (forall x w v, PositiveMap.find x ps = Some (w, v) ->
     PositiveMap.find x te = Some (S.PBits w, []) /\ Z'.lookup en x = Z'.VZ v /\ 0 <= v < 2 ^ w) ->
  forall x y, sv_lhs_eqb ps x y = true ->
  Z'.resolve te en x = Z'.resolve te en y /\ Z'.type_of te x = Z'.type_of te y /\ Z'.selfw te x = Z'.selfw te y.
Proof. exact (sv_lhs_eqb_sound ps te en). Qed.

Print Assumptions C03_tr_expr_sound.
Print Assumptions C03_tr_expr_bits_assignment_context.
Print Assumptions C03_tr_cond_sound.
Print Assumptions C03_tr_sexpr_eqb_eq.
Print Assumptions C03_tr_tie_expr_sound.
Print Assumptions C03_tr_tie_lhs_sound.
Print Assumptions C03_tr_assign_exec.
Print Assumptions C03_tr_assign_signal.
Print Assumptions C03_tr_assign_part_select.
Print Assumptions C03_tr_assign_bit.
Print Assumptions C03_tr_assign_temporary.
Print Assumptions C03_tr_if.
Print Assumptions C03_tr_comb_block_sound.
Print Assumptions C03_tr_ff_block_sound.
Print Assumptions C03_tr_block_invariant.
Print Assumptions C03_tr_block_start.
Print Assumptions C03_tr_stmt_preserves.

(* ---- non-vacuity: a concrete block, translated by tr_block and evaluated both ways ----
     s.a = InPort(8)  s.o = OutPort(8)  s.b = InPort(4)
     @update
     def blk():
       s.o @= 0
       for i in range(4):
         if s.a[i]:
           s.o[4:8] @= zext( s.b[0:2], 4 ) + 1                                                                      *)
Module Example.
Import TrExample.

(* what the model translator emits:
     always_comb begin : blk
       o = 8'd0;
       for ( int unsigned i = 1'd0; i < 3'd4; i += 1'd1 )
         if ( a[3'(i)] ) begin
           o[3'd7:3'd4] = { { 2 { 1'b0 } }, b[2'd1:2'd0] } + 4'd1;
         end
     end                                                                                                             *)
Example emitted :
  tr_block nm G blk =
  [ S.SBlocking (S.EId o_id) (S.ELit 8 0);
    S.SFor i_id (S.ELit 1 0) S.BLt (S.ELit 3 4) S.BAdd (S.ELit 1 1)
      [ S.SIf (S.EIndex (S.EId a_id) (S.ECast 3 (S.EId i_id)))
          [ S.SBlocking (S.ERange (S.EId o_id) 7 4)
              (S.EBin S.BAdd (S.EConcat [S.ERepl 2 (S.ELit 1 0); S.ERange (S.EId b_id) 1 0]) (S.ELit 4 1)) ] [] ] ].
Proof. vm_compute. reflexivity. Qed.

(* the block is in the domain of the theorems *)
Example accepted : blk_ok te nm G blk = true.
Proof. vm_compute. reflexivity. Qed.

(* both evaluations, for all 4096 inputs (a, b): RTL.Eval.run_block on the source block and SvEval.exec_list on the
   emitted block leave the same value in o *)
Definition sv_o (a b : Z) : Z :=
  let en := PositiveMap.add i_id (Z'.VZ 0) (PositiveMap.add b_id (Z'.VZ b) (PositiveMap.add o_id (Z'.VZ 0)
              (PositiveMap.add a_id (Z'.VZ a) (PositiveMap.empty Z'.value)))) in
  let x := X.exec_list te (tr_block nm G blk) (X.mkx en [] true) in
  match Z'.lookup (X.commit (X.x_pend x) (X.x_env x)) o_id with Z'.VZ u => u | _ => -1 end.
Definition rtl_o (a b : Z) : Z :=
  match run_block G 3 blk [a; 0; b] with Ok (o, _) => nth 1 o (-2) | Err _ => -3 end.
Example both_ways_one : rtl_o 0xA5 3 = 0x40 /\ sv_o 0xA5 3 = 0x40.
Proof. vm_compute. split; reflexivity. Qed.
Example both_ways_all :
  forallb (fun a => forallb (fun b => rtl_o a b =? sv_o a b) (map Z.of_nat (seq 0 16))) (map Z.of_nat (seq 0 256)) = true.
Proof. vm_compute. reflexivity. Qed.

(* the hypotheses of C03_tr_expr_sound are satisfiable: corresponding environments for this design inside the loop
   (i bound, 0 <= i < 4), and the theorem instantiated on the condition  s.a[i]  of the if *)
Example corr_example a b i : 0 <= i < 4 -> corr nm E1 te (st1 a b i) (en1 a b i).
Proof. exact (corr_ok a b i). Qed.
Example cond_accepted : sv_ok te nm E1 None (EIdx (ESig 0 []) (ELoop 0)) = true.
Proof. vm_compute. reflexivity. Qed.
Example cond_instance a b i v : 0 <= i < 4 -> eval G (st1 a b i) (EIdx (ESig 0 []) (ELoop 0)) = Ok v ->
  Z'.truthy (Z'.eval_self te (en1 a b i) (tr_expr nm E1 None (EIdx (ESig 0 []) (ELoop 0)))) = truthy v.
Proof. intros Hi. apply (C03_tr_cond_sound nm E1 te (st1 a b i) (en1 a b i) (corr_ok a b i Hi) _ v cond_accepted). Qed.

(* non-vacuity of C03_tr_comb_block_sound: the design of TrExample2 ( t = zext(s.b[0:2],4)+1 ; s.o @= 0 ;
   if s.a[0]: s.o[4:8] @= t  else: s.o[1] @= s.a[7] ) is plain, its block is accepted, the start states are related, and
   the theorem gives the value of  o  after the emitted block for ALL inputs a, b *)
Import TrExample2.
Example comb_plain : plain_ok te2 nm2 G 1 = true. Proof. exact plain2. Qed.
Example comb_accepted : comb_ok te2 nm2 1 G blk2 = true. Proof. exact comb2. Qed.
Example comb_emitted :
  tr_block nm2 G blk2 =
  [ S.SBlocking (S.EId t_id) (S.EBin S.BAdd (S.EConcat [S.ERepl 2 (S.ELit 1 0); S.ERange (S.EId b_id) 1 0]) (S.ELit 4 1));
    S.SBlocking (S.EId o_id) (S.ELit 8 0);
    S.SIf (S.EIndex (S.EId a_id) (S.ELit 3 0))
      [ S.SBlocking (S.ERange (S.EId o_id) 7 4) (S.EId t_id) ]
      [ S.SBlocking (S.EIndex (S.EId o_id) (S.ELit 3 1)) (S.EIndex (S.EId a_id) (S.ELit 3 7)) ] ].
Proof. vm_compute. reflexivity. Qed.
Example comb_instance a b st' : exec_block G blk2 (st2 a b) = Ok st' ->
  Z'.read_bits (X.x_env (X.exec_list te2 (tr_block nm2 G blk2) (X.mkx (en2 a b) [] true)))
               (Z'.resolve te2 (X.x_env (X.exec_list te2 (tr_block nm2 G blk2) (X.mkx (en2 a b) [] true))) (tr_sig nm2 1 []))
  = (sigv st' 1 / 2 ^ 0) mod 2 ^ 8.
Proof.
  intros Hex. destruct (C03_tr_comb_block_sound te2 nm2 G 1 blk2 _ st' _ plain2 comb2 (inv2 a b) Hex) as (_ & _ & Hs & _).
  exact (Hs 1%nat [] f8 eq_refl).
Qed.
Example comb_runs : exists st', exec_block G blk2 (st2 0xA5 3) = Ok st' /\ sigv st' 1 = 0x40.
Proof. eexists. split; vm_compute; reflexivity. Qed.

(* non-vacuity of C03_tr_ff_block_sound: the update_ff block of TrExample3
   ( t = s.b + 1 ; if s.a[0]: s.o <<= zext(t, 8)  else: s.o <<= s.a ) *)
Import TrExample3.
Example ff_accepted : ff_ok te2 nm2 1 G blk3 = true. Proof. exact ff3. Qed.
Example ff_emitted :
  tr_block nm2 G blk3 =
  [ S.SBlocking (S.EId t_id) (S.EBin S.BAdd (S.EId b_id) (S.ELit 4 1));
    S.SIf (S.EIndex (S.EId a_id) (S.ELit 3 0))
      [ S.SNonBlocking (S.EId o_id) (S.EConcat [S.ERepl 4 (S.ELit 1 0); S.EId t_id]) ]
      [ S.SNonBlocking (S.EId o_id) (S.EId a_id) ] ].
Proof. vm_compute. reflexivity. Qed.
Example ff_instance a b st' : exec_block G blk3 (st2 a b) = Ok st' ->
  let x' := X.exec_list te2 (tr_block nm2 G blk3) (X.mkx (en2 a b) [] true) in
  let enc := X.commit (X.x_pend x') (X.x_env x') in
  Z'.read_bits enc (Z'.resolve te2 enc (tr_sig nm2 1 [])) = (final_sig st' 1 / 2 ^ 0) mod 2 ^ 8.
Proof.
  intros Hex. destruct (C03_tr_ff_block_sound te2 nm2 G 1 blk3 _ st' _ plain2 ff3 (inv3 a b) Hex) as (_ & Hs & _).
  exact (Hs 1%nat [] f8 eq_refl).
Qed.
Example ff_runs : exists st', exec_block G blk3 (st2 0xA5 3) = Ok st' /\ final_sig st' 1 = 4 /\ sigv st' 1 = 0.
Proof. eexists. split; [|split]; vm_compute; reflexivity. Qed.
End Example.
