(* Props/C19_gen.v — T-gen tie of property C19: the REAL RoundRobinArbiter / RoundRobinArbiterEn of /repo, elaborated and
   translated block by block from their source on every run (Gen/ArbiterGen.v, translators/stdlib2coq.py), compute in one
   simulated cycle exactly what the hand-written model Lib.Arbiter.step computes — the model all theorems of
   Props/C19.v are about.   ONLY statements closed by exact/apply + Print Assumptions.

   Finite facts (bound in the name: nreqs = 2, 3, 4), each for EVERY priority-register content 0 .. 2^n - 1 (one-hot or not),
   every request vector, en, reset, and both fillings (all 0 / all 1) of the remaining signals before the cycle:
   sim_eval_combinational shows the model's grants, and after sim_tick the priority register holds the model's next state. *)
From PV Require Import Base.Prelude RTL.Design Lib.Arbiter Gen.ArbiterGen Lib.ArbiterGenProofs Lib.ArbiterGenProofs_rr4 Lib.ArbiterGenProofs_rren4.
(* -- *)

(* the generated terms are legal designs (shapes, @= / <<= discipline, single writer) and the order in which pymtl3
   scheduled the combinational blocks is accepted by Sched.Accept.sched_ok on the PROVED footprints *)
Theorem C19_gen_designs_legal : forallb rd_ok [rr2; rr3; rr4; rren2; rren3; rren4] = true.
Proof. exact gen_arbiters_ok. Qed.

Theorem C19_gen_rr_nreqs2 : arb_cycle_spec rr2 P_rr2 2 false.
Proof. exact rr_gen_eq_model_nreqs2. Qed.
Theorem C19_gen_rr_nreqs3 : arb_cycle_spec rr3 P_rr3 3 false.
Proof. exact rr_gen_eq_model_nreqs3. Qed.
Theorem C19_gen_rr_nreqs4 : arb_cycle_spec rr4 P_rr4 4 false.
Proof. exact rr_gen_eq_model_nreqs4. Qed.
Theorem C19_gen_rren_nreqs2 : arb_cycle_spec rren2 P_rren2 2 true.
Proof. exact rren_gen_eq_model_nreqs2. Qed.
Theorem C19_gen_rren_nreqs3 : arb_cycle_spec rren3 P_rren3 3 true.
Proof. exact rren_gen_eq_model_nreqs3. Qed.
Theorem C19_gen_rren_nreqs4 : arb_cycle_spec rren4 P_rren4 4 true.
Proof. exact rren_gen_eq_model_nreqs4. Qed.

(* the same for ANY content of all other signals before the cycle (stale wires): the environment only has to carry
   reset, reqs, en and the priority register; claimed are the nreqs declared bits of grants / of the register *)
Theorem C19_gen_any_rr_nreqs2 : arb_cycle_spec_any rr2 P_rr2 2 false.
Proof. exact rr_gen_eq_model_any_nreqs2. Qed.
Theorem C19_gen_any_rr_nreqs3 : arb_cycle_spec_any rr3 P_rr3 3 false.
Proof. exact rr_gen_eq_model_any_nreqs3. Qed.
Theorem C19_gen_any_rr_nreqs4 : arb_cycle_spec_any rr4 P_rr4 4 false.
Proof. exact rr_gen_eq_model_any_nreqs4. Qed.
Theorem C19_gen_any_rren_nreqs2 : arb_cycle_spec_any rren2 P_rren2 2 true.
Proof. exact rren_gen_eq_model_any_nreqs2. Qed.
Theorem C19_gen_any_rren_nreqs3 : arb_cycle_spec_any rren3 P_rren3 3 true.
Proof. exact rren_gen_eq_model_any_nreqs3. Qed.
Theorem C19_gen_any_rren_nreqs4 : arb_cycle_spec_any rren4 P_rren4 4 true.
Proof. exact rren_gen_eq_model_any_nreqs4. Qed.

(* the statement spelled out for one instance (arb_cycle_spec unfolded) *)
Theorem C19_gen_rren_nreqs4_unfolded :
  forall (fill : bool) (vp vq : Z) (ve vr : bool), (0 <= vp < 2 ^ 4)%Z -> (0 <= vq < 2 ^ 4)%Z ->
  exists e1 e3,
    sim_tick_obs rren4 (arb_env rren4 P_rren4 fill vp vq ve vr) = Ok (e1, e3) /\
    nth rren4_grants e1 0%Z = Z_of_list (fst (Arbiter.step 4 true (to_list 4 (bv_of_Z vp)) (vr, ve, bv_of_Z vq))) /\
    nth rren4_prio e3 0%Z = Z_of_list (snd (Arbiter.step 4 true (to_list 4 (bv_of_Z vp)) (vr, ve, bv_of_Z vq))).
Proof. exact rren_gen_eq_model_nreqs4. Qed.

Print Assumptions C19_gen_designs_legal.
Print Assumptions C19_gen_rr_nreqs2.
Print Assumptions C19_gen_rr_nreqs3.
Print Assumptions C19_gen_rr_nreqs4.
Print Assumptions C19_gen_rren_nreqs2.
Print Assumptions C19_gen_rren_nreqs3.
Print Assumptions C19_gen_rren_nreqs4.
Print Assumptions C19_gen_rren_nreqs4_unfolded.
Print Assumptions C19_gen_any_rr_nreqs2.
Print Assumptions C19_gen_any_rr_nreqs3.
Print Assumptions C19_gen_any_rr_nreqs4.
Print Assumptions C19_gen_any_rren_nreqs2.
Print Assumptions C19_gen_any_rren_nreqs3.
Print Assumptions C19_gen_any_rren_nreqs4.
