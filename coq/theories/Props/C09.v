(* Props/C09.v — property C09 (work in progress: statements are completed below) *)
From Coq Require Import ZArith List Bool Arith Lia Permutation.
Import ListNotations.
From PV Require Import Sched.Accept Elab.Nets Elab.Address Elab.AddressProofs Elab.Defects.

Theorem C09_walk_iff_shared_bit a b : wf_addr a = true -> wf_addr b = true -> compat a b = true ->
  (walk_rel a b = true <-> exists v, in_ivl v (ivl_of a) = true /\ in_ivl v (ivl_of b) = true).
Proof. exact (walk_iff_shared_bit a b). Qed.
Print Assumptions C09_walk_iff_shared_bit.
