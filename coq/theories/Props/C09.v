(* Props/C09.v — property C09: structurally illegal designs are always rejected at elaboration.
   ONLY statements closed by exact + Print Assumptions. *)
From Coq Require Import ZArith List Bool Arith Lia Permutation.
Import ListNotations.
From PV Require Import Sched.Accept Elab.Nets Elab.Address Elab.AddressProofs Elab.Defects Elab.DefectsProofs.

(* the structural walk of the implementation (same object / ancestor chain either way / overlapping sibling slice)
   relates two well-formed signal objects iff they share a bit of the packed root signal *)
Theorem C09_walk_iff_shared_bit a b : wf_addr a = true -> wf_addr b = true -> compat a b = true ->
  (walk_rel a b = true <-> exists v, in_ivl v (ivl_of a) = true /\ in_ivl v (ivl_of b) = true).
Proof. exact (walk_iff_perbit a b). Qed.

Theorem C09_walk_eq_overlap_in_design D n m : wf_design_addrs D = true ->
  walk_rel (adr D n) (adr D m) = ivl_rel (adr D n) (adr D m).
Proof. exact (walk_iff_perbit_design D n m). Qed.

(* the decision does not depend on the order of the update-block facts, on the order of the connect statements, or on
   which side of a connect statement a signal is written (for the bit-level decision and for the faithful model) *)
Theorem C09_defect_order_indep O par sigs wr wr' rd rd' cn cn' bs :
  Permutation wr' wr -> Permutation rd' rd -> Permutation cn' (cflip_some bs cn) ->
  defect_with O (mkD par sigs wr rd cn) = defect_with O (mkD par sigs wr' rd' cn').
Proof. exact (defect_order_indep O par sigs wr wr' rd rd' cn cn' bs). Qed.

Theorem C09_bit_level_defect_order_indep par sigs wr wr' rd rd' cn cn' bs :
  Permutation wr' wr -> Permutation rd' rd -> Permutation cn' (cflip_some bs cn) ->
  bit_level_defect (mkD par sigs wr rd cn) = bit_level_defect (mkD par sigs wr' rd' cn').
Proof. exact (bit_level_defect_order_indep par sigs wr wr' rd rd' cn cn' bs). Qed.

Theorem C09_defect_same_statements O D D' : design_equiv D D' -> defect_with O D = defect_with O D'.
Proof. exact (defect_equiv_indep O D D'). Qed.

(* elaboration stops at the first failing check stage; inside one stage (operator checks over several blocks, port rules
   along several connections) the statement met first may vary, so the admissible answers are the alternatives of that
   stage: empty exactly when the decision accepts, containing the decision, and independent of statement order *)
Theorem C09_defect_alts_spec O D :
  (defect_with O D = None <-> defect_alts O D = []) /\ (forall d, defect_with O D = Some d -> In d (defect_alts O D)).
Proof. exact (defect_alts_spec O D). Qed.
Theorem C09_defect_alts_order_indep O D D' : design_equiv D D' -> defect_alts O D = defect_alts O D'.
Proof. exact (defect_alts_equiv_indep O D D'). Qed.

(* the faithful model of the implementation's checks decides exactly the bit-level property, except in two situations *)
Theorem C09_elab_model_iff_bit_level D : wf_design_addrs D = true ->
  no_sameblk_sib_overlap D = true -> no_samenet_overlap D = true -> elab_model D = bit_level_defect D.
Proof. exact (elab_iff_partial D). Qed.

(* ... and the first exception is real: one block writing s.x[0:5] and s.x[3:8] is rejected although every bit has one driver *)
Theorem C09_elab_complete_refuted :
  wf_design_addrs f6_design = true /\ bit_level_defect f6_design = None /\ elab_model f6_design = Some MultiWriter.
Proof. exact elab_complete_refuted. Qed.

(* non-vacuity: a two-component design. component 1 is a child of the top (0).
   nodes: 0 = top InPort i (8 bit), 1 = top Wire w, 2 = w[0:4], 3 = w[4:8], 4 = child InPort c.i, 5 = child OutPort c.o,
          6 = top OutPort o, 7 = w[2:6] *)
Definition exS : list sinfo :=
  [mkSig PIn 0%nat (mkAddr 1%nat 8%Z []); mkSig PWire 0%nat (mkAddr 2%nat 8%Z []); mkSig PWire 0%nat (mkAddr 2%nat 8%Z [Slc 0%Z 4%Z]);
   mkSig PWire 0%nat (mkAddr 2%nat 8%Z [Slc 4%Z 8%Z]); mkSig PIn 1%nat (mkAddr 3%nat 8%Z []); mkSig POut 1%nat (mkAddr 4%nat 8%Z []);
   mkSig POut 0%nat (mkAddr 5%nat 8%Z []); mkSig PWire 0%nat (mkAddr 2%nat 8%Z [Slc 2%Z 6%Z])].
Definition exD (wr : list wfact) (cn : list cfact) : design := mkD [None; Some 0%nat] exS wr [] cn.
Definition W (b n : nat) := mkW b 0%nat false n OpAt.
Example C09_nonvacuous :
  (* legal: i -> c.i, child block drives c.o, c.o -> o; two blocks write the touching slices w[0:4], w[4:8] *)
  bit_level_defect (exD [W 0 2; W 1 3; mkW 2 1%nat false 5%nat OpAt] [mkC 0 4 0; mkC 6 5 0]%nat) = None /\
  elab_model       (exD [W 0 2; W 1 3; mkW 2 1%nat false 5%nat OpAt] [mkC 0 4 0; mkC 6 5 0]%nat) = None /\
  (* overlapping slices in two blocks *)
  bit_level_defect (exD [W 0 2; W 1 7] []) = Some MultiWriter /\
  (* the child's InPort c.i (driven from i) drives the parent's wire w: port rule; passing it on to c.o inside the child is fine *)
  bit_level_defect (exD [] [mkC 0 4 0; mkC 4 1 0]%nat) = Some PortRule /\
  bit_level_defect (exD [] [mkC 0 4 0; mkC 4 5 1]%nat) = None /\
  bit_level_defect (exD [] [mkC 1 6 0]%nat) = Some NoWriter /\
  bit_level_defect (exD [W 0 1] [mkC 1 6 0; mkC 6 0 0]%nat) = Some MultiWriter /\
  bit_level_defect (exD [mkW 0 0 false 1 OpEq]%nat []) = Some BlkWrite /\
  bit_level_defect (exD [mkW 0 0 true 1 OpAt]%nat []) = Some FFBlkWrite /\
  bit_level_defect (exD [mkW 0 0 true 2 OpShl]%nat []) = Some FFNonTop /\
  bit_level_defect (exD [mkW 0 1 false 5 OpAt]%nat [mkC 5 4 1]%nat) = Some InvalidConn /\
  bit_level_defect (exD [mkW 0 1 false 5 OpAt]%nat [mkC 5 4 0]%nat) = None /\
  wf_design_addrs (exD [] []) = true.
Proof. vm_compute. repeat split. Qed.

Print Assumptions C09_walk_iff_shared_bit. Print Assumptions C09_walk_eq_overlap_in_design.
Print Assumptions C09_defect_order_indep. Print Assumptions C09_bit_level_defect_order_indep. Print Assumptions C09_defect_same_statements.
Print Assumptions C09_elab_model_iff_bit_level. Print Assumptions C09_elab_complete_refuted.
Print Assumptions C09_defect_alts_spec. Print Assumptions C09_defect_alts_order_indep.
