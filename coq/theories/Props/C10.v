(* Props/C10.v — property C10: type-checker widths are the real widths; accepted code has no width errors.
   ONLY statements, each closed by `exact`/`apply`, each followed by Print Assumptions.

   Vocabulary (RTL/Syntax.v, Eval.v, Typing.v):
     expr / stmt        deep embedding of the update-block language accepted by the RTLIR front end
     eval G st e        what the simulator computes (python ints / Bits objects via Bits/BitsSpec.v), errors included
     tc chk E e         model of BehavioralRTLIRTypeCheckL1-L3: Some (type of the node, annotations of all nodes) or None
                        chk = impl   : the checker as implemented (what harness/c10.py compares with the real pass)
                        chk = strict : impl + the checks S1..S12 of Typing.v, without which soundness is false
     castfree e         no explicit width-changing BitsN(.) cast (the property's exemption)
     check (Sh)         shift amounts have the width of the shifted Bits value (the property's other exemption)
     env_ok E st        the runtime temporaries / loop variables have the types the checker recorded *)
From PV Require Import Base.Prelude Bits.BitsSpec RTL.Syntax RTL.Eval RTL.Typing RTL.TypingSound RTL.TypingMono RTL.BlockSound.
Open Scope Z_scope.

(* "an integer literal's inferred width is the least number of bits that holds it" *)
Theorem C10_lit_width z : 0 <= z ->
  1 <= nbits_of z /\ z < 2 ^ nbits_of z /\ (forall j, 1 <= j -> z < 2 ^ j -> nbits_of z <= j).
Proof. exact (lit_width z). Qed.
Print Assumptions C10_lit_width.

(* "the width assigned to a sub-expression equals the width of the value the simulator computes; simulating never
   raises a bitwidth / implicit-truncation error" — all 18 expression constructors, arbitrary nesting *)
Theorem C10_tc_sound E st e a l :
  tc strict E e = Some (a, l) -> castfree e = true -> env_ok E st ->
  eval (tsig E) st e <> Err EValue /\
  (forall n u, eval (tsig E) st e = Ok (VBits n u) -> n = aw a /\ 0 < n < 1024 /\ 0 <= u < 2 ^ n) /\
  (forall z, eval (tsig E) st e = Ok (VInt z) -> 0 <= z /\ (aovf a = false -> z < 2 ^ aw a)).
Proof. exact (tc_sound E st e a l). Qed.
Print Assumptions C10_tc_sound.

(* ... for every sub-expression of an accepted expression *)
Theorem C10_tc_sound_sub E st e a l e' :
  tc strict E e = Some (a, l) -> castfree e = true -> env_ok E st -> subexpr e' e ->
  exists a' l', tc strict E e' = Some (a', l') /\
    eval (tsig E) st e' <> Err EValue /\
    (forall n u, eval (tsig E) st e' = Ok (VBits n u) -> n = aw a' /\ 0 < n < 1024 /\ 0 <= u < 2 ^ n) /\
    (forall z, eval (tsig E) st e' = Ok (VInt z) -> 0 <= z /\ (aovf a' = false -> z < 2 ^ aw a')).
Proof. exact (tc_sound_sub E st e a l e'). Qed.
Print Assumptions C10_tc_sound_sub.

(* ... and for assignment statements (signal, field, constant / x:x+k slice, bit, temporary; @= and <<=):
   an accepted assignment never raises a width error and leaves the environment well typed *)
Theorem C10_tc_sound_assign E st lbl l e blocking E' ns :
  tc_assign strict E l e = Some (E', ns) -> castfree e = true -> castfree_lhs l = true -> env_ok E st ->
  match exec_assign (tsig E) st lbl l e blocking with
  | Ok st' => env_ok E' st'
  | Err EValue => False
  | Err _ => True
  end.
Proof. exact (assign_sound E st lbl l e blocking E' ns). Qed.
Print Assumptions C10_tc_sound_assign.

(* ... and for WHOLE BLOCKS, if / else and constant-bounded for loops arbitrarily nested, temporaries included: a block
   that the checker accepts and that contains no cast never raises a width error, on any inputs, and the temporaries /
   loop variables it leaves behind have the types the checker recorded.  (The loop body is typed once and executed for
   every value of the range; both branches of an if are typed, one is executed; a temporary assigned in one branch only
   and read after the other one was taken is an UnboundLocalError, not a width error.) *)
Theorem C10_block_sound G b inputs E' ns :
  tc_block strict (init_tenv G) b = Some (E', ns) -> castfree_block b = true ->
  match exec_block G b (init_state inputs) with
  | Ok st' => env_ok E' st'
  | Err EValue => False
  | Err _ => True
  end.
Proof. exact (block_sound G b inputs E' ns). Qed.
Print Assumptions C10_block_sound.

(* the same for one statement in the middle of a block: any typing environment E, any final environment B of the
   enclosing block, any state in which the temporaries have the types of B and the loop variables those of E *)
Theorem C10_stmt_sound s E E' ns B st :
  tcs strict E s = Some (E', ns) -> castfree_stmt s = true -> tenv_wf E -> tmps_in E' B -> inv E B st ->
  match exec (tsig E) s st with
  | Ok st' => inv E' B st'
  | Err EValue => False
  | Err _ => True
  end.
Proof. intros H1 H2 H3. exact (proj2 (stmt_sound_all s E E' ns H1 H2 H3) B st). Qed.
Print Assumptions C10_stmt_sound.

(* "a block whose simulation raises a width mismatch between explicitly sized operands of an arithmetic, bitwise,
   comparison, conditional or assignment operation is rejected" — static form, for EVERY setting of the extra
   checks, in particular for impl, the model of the code *)
Theorem C10_tc_complete_bin chk E op a b ra rb :
  tc chk E a = Some ra -> tc chk E b = Some rb ->
  aex (fst ra) = true -> aex (fst rb) = true -> aw (fst ra) <> aw (fst rb) -> is_shift op = false ->
  tc chk E (EBin op a b) = None.
Proof. exact (tc_complete_bin chk E op a b ra rb). Qed.
Print Assumptions C10_tc_complete_bin.
Theorem C10_tc_complete_cmp chk E op a b ra rb :
  tc chk E a = Some ra -> tc chk E b = Some rb ->
  aex (fst ra) = true -> aex (fst rb) = true -> aw (fst ra) <> aw (fst rb) ->
  tc chk E (ECmp op a b) = None.
Proof. exact (tc_complete_cmp chk E op a b ra rb). Qed.
Print Assumptions C10_tc_complete_cmp.
Theorem C10_tc_complete_ifexp chk E c a b rc ra rb :
  tc chk E c = Some rc -> tc chk E a = Some ra -> tc chk E b = Some rb ->
  aex (fst ra) = true -> aex (fst rb) = true -> aw (fst ra) <> aw (fst rb) ->
  abool (fst ra) || abool (fst rb) = false ->      (* neither branch is a bare comparison result (rdt.Bool) *)
  tc chk E (EIf c a b) = None.
Proof. exact (tc_complete_ifexp chk E c a b rc ra rb). Qed.
Print Assumptions C10_tc_complete_ifexp.
Theorem C10_tc_complete_assign chk E l e le rl r :
  lhs_expr l = Some le -> tc chk E le = Some rl -> tc chk E e = Some r ->
  astr (fst rl) = None -> astr (fst r) = None ->
  aex (fst r) = true -> aw (fst r) <> aw (fst rl) ->
  tc_assign chk E l e = None.
Proof. exact (tc_complete_assign chk E l e le rl r). Qed.
Print Assumptions C10_tc_complete_assign.

(* runtime form: operands that EVALUATE to Bits of different widths (so the simulator raises ValueError) => rejected *)
Theorem C10_tc_complete_bin_runtime E st op a b ra rb n u m v :
  tc strict E a = Some ra -> tc strict E b = Some rb -> castfree a = true -> castfree b = true -> env_ok E st ->
  eval (tsig E) st a = Ok (VBits n u) -> eval (tsig E) st b = Ok (VBits m v) -> n <> m -> is_shift op = false ->
  eval (tsig E) st (EBin op a b) = Err EValue /\ tc strict E (EBin op a b) = None.
Proof. exact (tc_complete_bin_runtime E st op a b ra rb n u m v). Qed.
Print Assumptions C10_tc_complete_bin_runtime.
Theorem C10_tc_complete_cmp_runtime E st op a b ra rb n u m v :
  tc strict E a = Some ra -> tc strict E b = Some rb -> castfree a = true -> castfree b = true -> env_ok E st ->
  eval (tsig E) st a = Ok (VBits n u) -> eval (tsig E) st b = Ok (VBits m v) -> n <> m ->
  eval (tsig E) st (ECmp op a b) = Err EValue /\ tc strict E (ECmp op a b) = None.
Proof. exact (tc_complete_cmp_runtime E st op a b ra rb n u m v). Qed.
Print Assumptions C10_tc_complete_cmp_runtime.

(* link between the two checkers: every extra check only removes accepted programs; whatever strict accepts,
   the model of the code accepts with the same type and the same width on every node *)
Theorem C10_strict_sub_impl E e r : tc strict E e = Some r -> tc impl E e = Some r.
Proof. exact (strict_sub_impl E e r). Qed.
Print Assumptions C10_strict_sub_impl.
Theorem C10_strict_sub_impl_assign E l e x : tc_assign strict E l e = Some x -> tc_assign impl E l e = Some x.
Proof. apply tc_assign_mono. intros k Hk; discriminate Hk. Qed.
Print Assumptions C10_strict_sub_impl_assign.
(* hence: operands (of the sound fragment) that evaluate to Bits of different widths make the code's checker reject *)
Theorem C10_tc_complete_bin_runtime_impl E st op a b ra rb n u m v :
  tc strict E a = Some ra -> tc strict E b = Some rb -> castfree a = true -> castfree b = true -> env_ok E st ->
  eval (tsig E) st a = Ok (VBits n u) -> eval (tsig E) st b = Ok (VBits m v) -> n <> m -> is_shift op = false ->
  eval (tsig E) st (EBin op a b) = Err EValue /\ tc impl E (EBin op a b) = None.
Proof. exact (tc_complete_bin_runtime_impl E st op a b ra rb n u m v). Qed.
Print Assumptions C10_tc_complete_bin_runtime_impl.

(* the soundness statement is FALSE for the checker as implemented: blocks that impl accepts, that use no cast and
   no shift, and whose execution raises ValueError (one per missing check; harness/c10.py finds each on the real code) *)
Theorem C10_impl_unsound :
  accepted_but_raises [SAssign 0 (LSig 1 []) (ELit 300) true] /\
  accepted_but_raises [SAssign 0 (LSig 3 []) (EBin Add (ESized 8 3) (ESized 8 4)) true] /\
  accepted_but_raises [SFor 0 0 4 1 [SAssign 0 (LSig 2 []) (EBin Add (ELoop 0) (ELit 1)) true]] /\
  accepted_but_raises [SAssign 0 (LSig 1 []) (EBin Add (ESig 0 []) (EBin Sub (ELit 1) (ELit 2))) true] /\
  accepted_but_raises [SAssign 0 (LSig 1 []) (EBin Add (ESig 0 []) (EIf (EIdx (ESig 0 []) (ELit 1)) (ELit 3) (ELit 300))) true] /\
  accepted_but_raises [SAssign 0 (LSig 2 []) (EIf (EIdx (ESig 0 []) (ELit 1)) (EBin Add (ELit 1) (ELit 2)) (ESig 0 [])) true].
Proof. exact (conj cex_S1 (conj cex_S2 (conj cex_S3 (conj cex_S4 (conj cex_S5 cex_S10))))). Qed.
Print Assumptions C10_impl_unsound.

(* non-vacuity: the hypotheses of the soundness theorems are satisfiable, with a non-trivial expression
   s.o[i : i+2]-style slices, mixed int / Bits arithmetic, if-expression, comparison, concat, extension *)
Example C10_nonvacuous :
  let E := init_tenv G8 in
  let e := EIf (ECmp CLt (ESig 0 []) (ELit 200))
               (EBin Add (ESig 0 []) (ELit 1))
               (EConcat [ESlice (ESig 0 []) (ELit 2) (ELit 6); EZext 4 (ESig 2 [])]) in
  exists a l, tc strict E e = Some (a, l) /\ aw a = 8 /\ castfree e = true /\ env_ok E (init_state [5; 0; 0; 0]) /\
              eval (tsig E) (init_state [5; 0; 0; 0]) e = Ok (VBits 8 6).
Proof.
  cbn zeta. eexists; eexists. split; [vm_compute; reflexivity|]. split; [reflexivity|]. split; [reflexivity|].
  split; [|vm_compute; reflexivity].
  split; intros; discriminate.
Qed.
(* a block with a temporary, and an if (with another temporary) inside a for:
     t0 = s.a
     for i in range(4):
       if s.a[i]:  t1 = t0 + 1 ; s.o[i:i+2] @= t1[0:2]
       else:       s.o[i] @= 0                                                        *)
Definition demo_block : list stmt :=
  [ SAssign 0 (LTmp 0) (ESig 0 []) true;
    SFor 0 0 4 1
      [ SIf 1 (EIdx (ESig 0 []) (ELoop 0))
          [ SAssign 2 (LTmp 1) (EBin Add (ETmp 0) (ELit 1)) true;
            SAssign 3 (LSlice 1 [] (ELoop 0) (EBin Add (ELoop 0) (ELit 2))) (ESlice (ETmp 1) (ELit 0) (ELit 2)) true ]
          [ SAssign 4 (LIndex 1 [] (ELoop 0)) (ELit 0) true ] ] ].
Example C10_nonvacuous_block :
  (exists E' ns, tc_block strict (init_tenv G8) demo_block = Some (E', ns)) /\ castfree_block demo_block = true /\
  match exec_block G8 demo_block (init_state [6; 0; 0; 0]) with Ok st' => final_sig st' 1%nat = 6 | Err _ => False end.
Proof. split; [eexists; eexists; vm_compute; reflexivity|]. split; vm_compute; reflexivity. Qed.

Example C10_nonvacuous_assign :
  exists E' ns, tc_assign strict (init_tenv G8) (LSlice 1 [] (ELit 0) (ELit 3)) (EBin Xor (ESig 3 []) (ELit 5)) = Some (E', ns).
Proof. eexists; eexists. vm_compute. reflexivity. Qed.
