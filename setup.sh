#!/bin/bash
# setup.sh — build the whole Coq development from files on disk (offline).
# 1. regenerate Gen/*.v from /repo's current sources (fail-closed translators; a refusal leaves a stub out
#    and the affected property check reports it), 2. _CoqProject by globbing, 3. full .vo build (never -vos).
set -u
cd "$(dirname "$0")"
REPO=${VERIF_REPO:-/repo}
mkdir -p coq/theories/Gen evidence replays
/venv/bin/python translators/py2coq_bits.py "$REPO" coq/theories/Gen/BitsGen.v || echo "setup: BitsGen refused"
PYTHONPATH="$REPO" /venv/bin/python translators/stdlib2coq.py "$REPO" arbiters coq/theories/Gen/ArbiterGen.v || echo "setup: ArbiterGen refused"
PYTHONPATH="$REPO" /venv/bin/python translators/stdlib2coq.py "$REPO" queues coq/theories/Gen/QueueGen.v || echo "setup: QueueGen refused"
cd coq
{ echo "-Q theories PV"; find theories -name '*.v' | sort; } > _CoqProject
coq_makefile -f _CoqProject -o Makefile >/dev/null
# keep going (-k): a broken proof file must not stop models / other properties from building
timeout 3000 make -k -j"${VERIF_JOBS:-16}" 2>&1 | tail -n 40
exit 0
